(* The writers of ascmhl/hashlist_xml_parser.py and ascmhl/chain_xml_parser.py as functions from the object model of
   hashlist.py / chain.py to abstract XML trees (Model/Xml.v).

   The object model here (xentry, xrecord, xhashlist, xchain ...) is the *full* attribute set of the Python classes
   MHLHashEntry, MHLMediaHash, MHLCreatorInfo, MHLTool, MHLAuthor, MHLProcessInfo, MHLProcess, MHLHashListReference,
   MHLHashList, MHLChainGeneration, MHLChain; `to_gen` projects it onto the smaller model of Model/History.v the
   command-level properties use.  Attributes that may hold None in Python are `option`s.

   Every builder is transcribed field by field, including the truthiness tests (`if x:` on str / int / None differs
   from `if x is not None:`).  Where the Python code would raise (E.tag(None), attribute value None, AttributeError on
   a None creator_info ...) the function here stays total and emits the element without that part; such objects are
   excluded by `wf` in Model/Read.v, so no theorem depends on the choice.

   What is NOT here: serialisation to bytes (etree.tostring + the indentation of _write_xml_string_to_file) and the
   parser; see Model/Read.v for the trusted premise that connects trees to files.
   emit_hashlist / emit_chain are total and hypothesis-free so that other properties (C11) can reuse them. *)
From Coq Require Import String Ascii DecimalN.
From MHL Require Export Model.Xml Model.History.
From MHL Require Import Gen.Generated.
Local Open Scope N_scope.

(* ---- str(int) / int(str) ---------------------------------------------------------------------------- *)
Fixpoint uint_text (u : Decimal.uint) : text :=
  match u with
  | Decimal.Nil => []
  | Decimal.D0 u => 48 :: uint_text u | Decimal.D1 u => 49 :: uint_text u | Decimal.D2 u => 50 :: uint_text u
  | Decimal.D3 u => 51 :: uint_text u | Decimal.D4 u => 52 :: uint_text u | Decimal.D5 u => 53 :: uint_text u
  | Decimal.D6 u => 54 :: uint_text u | Decimal.D7 u => 55 :: uint_text u | Decimal.D8 u => 56 :: uint_text u
  | Decimal.D9 u => 57 :: uint_text u
  end.
Definition dec_of_N (n : N) : text := uint_text (N.to_uint n).                      (* str(n), n >= 0 *)
Definition dec_of_Z (z : Z) : text :=                                               (* str(z) *)
  if (z <? 0)%Z then 45 :: dec_of_N (Z.abs_N z) else dec_of_N (Z.abs_N z).

Fixpoint text_uint (s : text) : option Decimal.uint :=
  match s with
  | [] => Some Decimal.Nil
  | c :: s' =>
      match text_uint s' with
      | None => None
      | Some u =>
          if c =? 48 then Some (Decimal.D0 u) else if c =? 49 then Some (Decimal.D1 u)
          else if c =? 50 then Some (Decimal.D2 u) else if c =? 51 then Some (Decimal.D3 u)
          else if c =? 52 then Some (Decimal.D4 u) else if c =? 53 then Some (Decimal.D5 u)
          else if c =? 54 then Some (Decimal.D6 u) else if c =? 55 then Some (Decimal.D7 u)
          else if c =? 56 then Some (Decimal.D8 u) else if c =? 57 then Some (Decimal.D9 u)
          else None
      end
  end.
(* int(s) restricted to [0-9]+ (Python also accepts blanks, a sign, underscores and non-ASCII digits: none of these
   is ever written; on such input the model answers None = "raises") *)
Definition N_of_dec (s : text) : option N :=
  match s with [] => None | _ => option_map N.of_uint (text_uint s) end.

(* ---- datetime values and datetime.isoformat() ------------------------------------------------------- *)
(* an aware datetime: calendar fields, microseconds, utc offset in minutes.  A naive datetime is turned into an
   aware one by utils.datetime_isostring with the local offset in force at that date (environment; property C16):
   the object handed to the emitter carries the resolved offset. *)
Record xdate := mkXDate { dt_y : N; dt_mo : N; dt_d : N; dt_h : N; dt_mi : N; dt_s : N; dt_us : N; dt_off : Z }.

Definition d2 (n : N) : text := [48 + n / 10; 48 + n mod 10].                       (* %02d for n < 100 *)
Definition d4 (n : N) : text := d2 (n / 100) ++ d2 (n mod 100).                     (* %04d for n < 10000 *)
Definition d6 (n : N) : text := d2 (n / 10000) ++ d2 ((n / 100) mod 100) ++ d2 (n mod 100).
Definition iso_offset (off : Z) : text :=
  (if (off <? 0)%Z then 45 else 43) :: d2 (Z.abs_N off / 60) ++ 58 :: d2 (Z.abs_N off mod 60).
(* utils.datetime_isostring(date, keep_microseconds): isoformat() prints the fraction only when it is not zero *)
Definition iso_format (keep_us : bool) (d : xdate) : text :=
  d4 (dt_y d) ++ 45 :: d2 (dt_mo d) ++ 45 :: d2 (dt_d d) ++ 84 :: d2 (dt_h d) ++ 58 :: d2 (dt_mi d) ++ 58 :: d2 (dt_s d)
  ++ (if keep_us && negb (dt_us d =? 0) then 46 :: d6 (dt_us d) else [])
  ++ iso_offset (dt_off d).

(* ---- pathlib: str(Path(p).as_posix()) on a POSIX host ----------------------------------------------- *)
(* str.split(sep) *)
Fixpoint split_on (sep : N) (s : text) : list text :=
  match s with
  | [] => [[]]
  | c :: s' =>
      if c =? sep then [] :: split_on sep s'
      else match split_on sep s' with
           | p :: ps => (c :: p) :: ps
           | [] => [[c]]
           end
  end.
Definition is_slash (c : N) : bool := c =? 47.
(* posixpath.splitroot: no leading slash -> no root; exactly two -> "//"; one or three and more -> "/" *)
Definition split_root (p : text) : text * text :=
  match p with
  | a :: r1 =>
      if is_slash a then
        match r1 with
        | b :: r2 =>
            if is_slash b then
              match r2 with
              | c :: _ => if is_slash c then ([47], r1) else ([47; 47], r2)
              | [] => ([47; 47], r2)
              end
            else ([47], r1)
        | [] => ([47], r1)
        end
      else ([], p)
  | [] => ([], p)
  end.
(* PurePath._parse_path drops empty and "." components; an empty result prints as "." ; backslashes are ordinary
   characters on POSIX *)
Definition posix_norm (p : text) : text :=
  let '(root, rel) := split_root p in
  let parts := filter (fun x => negb (text_eqb x []) && negb (text_eqb x [46])) (split_on 47 rel) in
  match root ++ join_with [47] parts with
  | [] => [46]
  | s => s
  end.
(* utils.convert_local_path_to_posix / convert_posix_to_local_path (os.name != "nt": the identity) *)
Definition convert_local_path_to_posix (p : text) : text := posix_norm p.
Definition convert_posix_to_local_path (p : option text) : option text := p.

(* ---- object model ----------------------------------------------------------------------------------- *)
(* MHLHashEntry *)
Record xentry := mkXEntry {
  xe_fmt : text;                    (* hash_format: becomes the tag name *)
  xe_digest : option text;          (* hash_string *)
  xe_action : option text;
  xe_date : option xdate;           (* hash_date (the constructor fills in now(), so tool-made entries have one) *)
  xe_struct : option text }.        (* structure_hash_string: directory records only *)
(* MHLMediaHash *)
Record xrecord := mkXRecord {
  xr_path : option text;
  xr_dir : bool;                    (* is_directory *)
  xr_size : option N;               (* file_size *)
  xr_lastmod : option xdate;        (* last_modification_date *)
  xr_entries : list xentry;         (* hash_entries, in the order they were appended *)
  xr_prev : option text }.          (* previous_path *)
Record xauthor := mkXAuthor { xa_name : option text; xa_email : option text; xa_phone : option text; xa_role : option text }.
Record xtool := mkXTool { xt_name : option text; xt_version : option text }.
(* MHLCreatorInfo: creation_date is a *string* in the Python object (utils.datetime_now_isostring()) *)
Record xcreator := mkXCreator {
  xc_date : option text; xc_host : option text; xc_tool : option xtool;
  xc_authors : list xauthor; xc_location : option text; xc_comment : option text }.
(* MHLProcess *)
Record xprocess := mkXProcess { xp_type : option text; xp_name : option text }.
(* MHLProcessInfo (hashlist_custom_basename only influences the file name, it is not part of the document) *)
Record xprocinfo := mkXProcInfo {
  xpi_process : option xprocess;
  xpi_root : option xrecord;                      (* root_media_hash *)
  xpi_ignore : option (list (option text)) }.     (* ignore_spec.get_pattern_list(); None = no ignore_spec object *)
(* one reference: the writer takes (relpath(child.file_path, root), c4 of the child file) from
   hash_list.referenced_hash_lists, the reader fills hash_list.hash_list_references with MHLHashListReference(path,
   reference_hash).  Both sides are this pair; computing it (relpath, hashing the child file) is outside the model. *)
Record xref := mkXRef { xf_path : option text; xf_c4 : option text }.
(* MHLHashList.  generation_number and file_path come from the file name, not from the document: see to_gen *)
Record xhashlist := mkXHashList {
  xh_creator : option xcreator;
  xh_process : xprocinfo;
  xh_records : list xrecord;                      (* media_hashes *)
  xh_refs : list xref }.

(* MHLChainGeneration.generation_number: an int when made by the tool for a new generation, the *string* of the
   sequencenr attribute when read from a chain file (the reader does not convert), None never in practice *)
Inductive xseq := SeqInt (z : Z) | SeqStr (s : text) | SeqNone.
Record xchainent := mkXChainEnt { ce_no : xseq; ce_file : option text; ce_fmt : option text; ce_hash : option text }.
Definition xchain := list xchainent.             (* MHLChain.generations *)

(* ---- string constants ------------------------------------------------------------------------------- *)
Definition s_hashlist := t "hashlist".       Definition s_version := t "version".     Definition s_2_0 := t "2.0".
Definition s_creatorinfo := t "creatorinfo". Definition s_creationdate := t "creationdate".
Definition s_hostname := t "hostname".       Definition s_tool := t "tool".           Definition s_author := t "author".
Definition s_role := t "role".               Definition s_email := t "email".         Definition s_phone := t "phone".
Definition s_name := t "name".
Definition s_location := t "location".       Definition s_comment := t "comment".
Definition s_processinfo := t "processinfo". Definition s_process := t "process".     Definition s_roothash := t "roothash".
Definition s_ignore := t "ignore".           Definition s_pattern := t "pattern".
Definition s_hashes := t "hashes".           Definition s_hash := t "hash".           Definition s_directoryhash := t "directoryhash".
Definition s_path := t "path".               Definition s_size := t "size".
Definition s_lastmod := t "lastmodificationdate".
Definition s_action := t "action".           Definition s_hashdate := t "hashdate".
Definition s_content := t "content".         Definition s_structure := t "structure".
Definition s_previousPath := t "previousPath".
Definition s_references := t "references".   Definition s_hashlistreference := t "hashlistreference".
Definition s_c4 := t "c4".
Definition s_ascmhldirectory := t "ascmhldirectory".   Definition s_sequencenr := t "sequencenr".
Definition s_dash := t "-".                  Definition s_dot := t ".".               Definition s_None := t "None".

(* ---- lxml.builder.E --------------------------------------------------------------------------------- *)
(* E.tag(text, attr=...) / element.text = v: a leaf element *)
Definition leaf (tag : text) (attrs : list (text * text)) (v : option text) : xml := Elem tag attrs v [].
Definition opt_attr (n : text) (v : option text) : list (text * text) :=
  match v with Some x => [(n, x)] | None => [] end.
(* Python truthiness: `if s:` on Optional[str], `if n:` on Optional[int] *)
Definition truthy_text (v : option text) : option text := match v with Some (_ :: _) => v | _ => None end.
Definition truthy_N (v : option N) : option N := match v with Some 0 => None | _ => v end.

(* ---- <hash> / <directoryhash> / <roothash> ---------------------------------------------------------- *)
(* if hash_entry.action: ...["action"];  if hash_entry.hash_date: ...["hashdate"]  (a datetime is always true) *)
Definition entry_attrs (e : xentry) : list (text * text) :=
  opt_attr s_action (truthy_text (xe_action e)) ++ opt_attr s_hashdate (option_map (iso_format true) (xe_date e)).
Definition entry_xml (e : xentry) : xml := leaf (xe_fmt e) (entry_attrs e) (xe_digest e).
Definition entry_structure_xml (e : xentry) : xml := leaf (xe_fmt e) (entry_attrs e) (xe_struct e).
(* sorted(media_hash.hash_entries, key=lambda e: e.hash_format): stable, by code point *)
Definition entry_leb (a b : xentry) : bool := lexb (xe_fmt a) (xe_fmt b).
Definition sort_entries : list xentry -> list xentry := sort entry_leb.

Definition path_xml (r : xrecord) (size : option N) : xml :=
  leaf s_path
       (opt_attr s_size (option_map dec_of_N size)
        ++ opt_attr s_lastmod (option_map (iso_format false) (xr_lastmod r)))
       (option_map convert_local_path_to_posix (xr_path r)).
(* if media_hash.previous_path: E.previousPath(...) *)
Definition previous_path_xml (r : xrecord) : list xml :=
  match truthy_text (xr_prev r) with
  | Some p => [leaf s_previousPath [] (Some (convert_local_path_to_posix p))]
  | None => []
  end.

(* _media_hash_xml_element: the size is written whenever it is not None (0 included) *)
Definition media_hash_xml (r : xrecord) : xml :=
  Elem s_hash [] None (path_xml r (xr_size r) :: map entry_xml (sort_entries (xr_entries r)) ++ previous_path_xml r).

(* _directory_hash_xml_element(media_hash, skipPath): entries in object order (not sorted); the size is written
   only `if media_hash.file_size:` (0 is dropped); the tag is replaced afterwards for the root hash *)
Definition directory_hash_xml (tag : text) (skip_path : bool) (r : xrecord) : xml :=
  Elem tag [] None
       ((if skip_path then [] else [path_xml r (truthy_N (xr_size r))])
        ++ [Elem s_content [] None (map entry_xml (xr_entries r));
            Elem s_structure [] None (map entry_structure_xml (xr_entries r))]
        ++ previous_path_xml r).
Definition record_xml (r : xrecord) : xml :=
  if xr_dir r then directory_hash_xml s_directoryhash false r else media_hash_xml r.
(* _root_media_hash_xml_element *)
Definition root_hash_xml (r : xrecord) : xml := directory_hash_xml s_roothash true r.

(* ---- <creatorinfo> ---------------------------------------------------------------------------------- *)
(* attributes when != None; the text when the name is neither None nor the sentinel "-" *)
Definition author_xml (a : xauthor) : xml :=
  leaf s_author
       (opt_attr s_role (xa_role a) ++ opt_attr s_email (xa_email a) ++ opt_attr s_phone (xa_phone a))
       (match xa_name a with
        | Some n => if text_eqb n s_dash then None else Some n
        | None => None
        end).
Definition tool_xml (tl : option xtool) : xml :=
  match tl with
  | Some x => leaf s_tool (opt_attr s_version (xt_version x)) (xt_name x)
  | None => leaf s_tool [] None
  end.
Definition opt_leaf (tag : text) (v : option text) : list xml :=          (* if v is not None: append(E.tag(v)) *)
  match v with Some x => [leaf tag [] (Some x)] | None => [] end.
Definition creator_info_xml (c : xcreator) : xml :=
  Elem s_creatorinfo [] None
       ([leaf s_creationdate [] (xc_date c); leaf s_hostname [] (xc_host c); tool_xml (xc_tool c)]
        ++ map author_xml (xc_authors c)
        ++ opt_leaf s_location (xc_location c)
        ++ opt_leaf s_comment (xc_comment c)).

(* ---- <processinfo> ---------------------------------------------------------------------------------- *)
Definition ignorespec_xml (spec : option (list (option text))) : xml :=
  Elem s_ignore [] None
       (match spec with
        | Some ps => map (fun p => leaf s_pattern [] p) ps
        | None => []
        end).
(* the root hash element is written when a root_media_hash object exists and has at least one entry *)
Definition process_info_xml (pi : xprocinfo) : xml :=
  Elem s_processinfo [] None
       (leaf s_process [] (match xpi_process pi with Some p => xp_type p | None => None end)
        :: (match xpi_root pi with
            | Some r => match xr_entries r with [] => [] | _ => [root_hash_xml r] end
            | None => []
            end)
        ++ [ignorespec_xml (xpi_ignore pi)]).

(* ---- <references> ----------------------------------------------------------------------------------- *)
Definition reference_xml (r : xref) : xml :=
  Elem s_hashlistreference [] None
       [leaf s_path [] (option_map convert_local_path_to_posix (xf_path r)); leaf s_c4 [] (xf_c4 r)].

(* ---- write_hash_list -------------------------------------------------------------------------------- *)
(* the <hashes> and <references> sections are written only when they are not empty *)
Definition emit_hashlist (h : xhashlist) : xml :=
  Elem s_hashlist [(s_version, s_2_0)] None
       ((match xh_creator h with Some c => [creator_info_xml c] | None => [] end)
        ++ [process_info_xml (xh_process h)]
        ++ (match xh_records h with [] => [] | rs => [Elem s_hashes [] None (map record_xml rs)] end)
        ++ (match xh_refs h with [] => [] | rs => [Elem s_references [] None (map reference_xml rs)] end)).

(* ---- chain file ------------------------------------------------------------------------------------- *)
Definition seq_text (s : xseq) : text :=                                (* str(generation_number) *)
  match s with SeqInt z => dec_of_Z z | SeqStr x => x | SeqNone => s_None end.
Definition opt_text_is (v : option text) (s : text) : bool := match v with Some x => text_eqb x s | None => false end.
(* _hashlist_xml_element_from_chaingeneration: anything but a c4 entry is written as an empty <hashlist/> (the code
   logs "not implemented") *)
Definition chain_entry_xml (e : xchainent) : xml :=
  if opt_text_is (ce_fmt e) s_c4 then
    Elem s_hashlist [(s_sequencenr, seq_text (ce_no e))] None
         [leaf s_path [] (option_map convert_local_path_to_posix (ce_file e)); leaf s_c4 [] (ce_hash e)]
  else Elem s_hashlist [] None [].
(* _hashlist_xml_element_from_hashlist: the entry of the generation being committed (file name, c4 of the manifest
   just written, its number) *)
Definition chain_entry_of_hashlist (file_name : text) (c4 : text) (number : Z) : xchainent :=
  mkXChainEnt (SeqInt number) (Some file_name) (Some s_c4) (Some c4).
(* write_chain(chain, new_hash_list) = emit_chain (generations ++ [chain_entry_of_hashlist ...]) *)
Definition emit_chain (c : xchain) : xml := Elem s_ascmhldirectory [] None (map chain_entry_xml c).

(* ---- projection onto the model of Model/History.v ---------------------------------------------------- *)
Definition action_of_text (a : option text) : option action :=
  match a with
  | None => None
  | Some x => if text_eqb x (t "original") then Some Original else if text_eqb x (t "verified") then Some Verified
              else if text_eqb x (t "failed") then Some Failed else if text_eqb x (t "new") then Some New else None
  end.
Definition opt_text_or_empty (v : option text) : text := match v with Some x => x | None => [] end.
Definition to_entry (e : xentry) : list entry :=
  match fmt_of_name (xe_fmt e) with
  | Some f => [mkEntry f (opt_text_or_empty (xe_digest e)) (action_of_text (xe_action e)) (xe_struct e)]
  | None => []
  end.
(* "a/b/c" -> [a; b; c];  "." -> [] *)
Definition path_of_text (p : text) : path :=
  filter (fun x => negb (text_eqb x []) && negb (text_eqb x [46])) (split_on 47 p).
Definition to_record (r : xrecord) : record :=
  mkRecord (path_of_text (opt_text_or_empty (xr_path r))) (xr_dir r) (xr_size r) (flat_map to_entry (xr_entries r))
           (option_map path_of_text (truthy_text (xr_prev r))).
(* reference path "<child>/ascmhl/<NNNN>_....mhl" -> (child, NNNN) *)
Fixpoint leading_digits (s : text) : text :=
  match s with c :: s' => if (48 <=? c) && (c <=? 57) then c :: leading_digits s' else [] | [] => [] end.
Definition to_ref (r : xref) : path * N :=
  let comps := path_of_text (opt_text_or_empty (xf_path r)) in
  (removelast (removelast comps),
   match N_of_dec (leading_digits (last comps [])) with Some n => n | None => 0 end).
(* generation `no` as History.v sees it *)
Definition to_gen (no : N) (h : xhashlist) : gen :=
  mkGen no (map to_record (xh_records h))
        (option_map (fun r => flat_map to_entry (xr_entries r)) (xpi_root (xh_process h)))
        (match xpi_ignore (xh_process h) with Some ps => map opt_text_or_empty ps | None => [] end)
        (map to_ref (xh_refs h))
        (match xpi_process (xh_process h) with
         | Some p => if opt_text_is (xp_type p) process_flatten then Flatten else InPlace
         | None => InPlace
         end).
