(* Abstract XML documents as the tool writes and reads them: an element has a tag (local name; the namespace is fixed
   per document), attributes in document order, and either character content or child elements (the manifests never
   mix the two; whitespace-only text between child elements is not represented). *)
From MHL Require Export Model.Base.

Inductive xml :=
| Elem (tag : text) (attrs : list (text * text)) (content : option text) (kids : list xml).

Definition x_tag (x : xml) : text := match x with Elem t _ _ _ => t end.
Definition x_attrs (x : xml) : list (text * text) := match x with Elem _ a _ _ => a end.
Definition x_text (x : xml) : option text := match x with Elem _ _ c _ => c end.
Definition x_kids (x : xml) : list xml := match x with Elem _ _ _ k => k end.

Fixpoint attr_get (n : text) (attrs : list (text * text)) : option text :=
  match attrs with
  | [] => None
  | (k, v) :: rest => if text_eqb k n then Some v else attr_get n rest
  end.
Definition kids_named (n : text) (x : xml) : list xml := filter (fun k => text_eqb (x_tag k) n) (x_kids x).
Definition kid_named (n : text) (x : xml) : option xml := match kids_named n x with k :: _ => Some k | [] => None end.
