(* commands.create (folder mode and -sf mode) with generator.MHLGenerationCreationSession and commit, over the
   tree model.  Traversal = traverse.post_order_lexicographic; directory hashes = DirectoryHashContext. *)
From MHL Require Export Model.Tree Model.DirHash.
From MHL Require Import Gen.Generated.

Section Create.
  Variable Hb : fmt -> bytes -> bytes.
  Variable matches : list text -> text -> bool.     (* pathspec gitwildmatch: patterns, root-relative path *)
  Variable C : Type.
  Variable cdig : C -> text.
  Variable ser : gen -> C.                          (* the bytes written for a generation *)

  Notation node := (node C).
  Notation hist := (hist C).
  Notation lhist := lhist.

  Definition ignored (spec : list text) (p : path) : bool := matches spec (relstr p).

  (* ---- directory hashes: the compositional definition over the visible entries --------------------- *)
  Definition opt_all {A} (l : list (option A)) : option (list A) :=
    fold_right (fun o acc => match o, acc with Some x, Some r => Some (x :: r) | _, _ => None end) (Some []) l.

  (* (content hash, structure hash); for a file both components are its digest *)
  Fixpoint dirhash (spec : list text) (f : fmt) (p : path) (t : node) : option (text * text) :=
    match t with
    | File c => Some (digest_text Hb f c, digest_text Hb f c)
    | Dir _ kids =>
        let sub := (fix go (ks : list (text * node)) : list (text * option (text * text)) :=
                      match ks with
                      | [] => []
                      | (n, k) :: ks' => (n, dirhash spec f (p ++ [n]) k) :: go ks'
                      end) kids in
        let vis := filter (fun x => negb (ignored spec (p ++ [fst x]))) sub in
        match opt_all (map snd vis) with
        | None => None
        | Some hs =>
            match opt_all (map (fun x => match snd x with
                                         | Some cs => structure_item Hb f (fst x) (snd cs)
                                         | None => None
                                         end) vis) with
            | None => None
            | Some ss =>
                match hash_of_hash_list Hb f (map fst hs), hash_of_hash_list Hb f ss with
                | Some ch, Some sh => Some (ch, sh)
                | _, _ => None
                end
            end
        end
    end.

  (* ---- traversal: what post_order_lexicographic hands to the command, in order ---------------------- *)
  Inductive ev :=
  | EvFile (p : path) (content : bytes)      (* a visible file, sealed when its folder is yielded *)
  | EvDir (p : path) (kids : list (path * bool)).   (* a folder is yielded with its visible children *)

  Fixpoint events (spec : list text) (p : path) (t : node) : list ev :=
    match t with
    | File _ => []
    | Dir _ kids =>
        let sub := (fix go (ks : list (text * node)) : list (text * (node * list ev)) :=
                      match ks with
                      | [] => []
                      | (n, k) :: ks' => (n, (k, events spec (p ++ [n]) k)) :: go ks'
                      end) kids in
        let vis := filter (fun x => negb (ignored spec (p ++ [fst x]))) (sort name_leb sub) in
        flat_map (fun x => match fst (snd x) with Dir _ _ => snd (snd x) | File _ => [] end) vis
        ++ flat_map (fun x => match fst (snd x) with File c => [EvFile (p ++ [fst x]) c] | Dir _ _ => [] end) vis
        ++ [EvDir p (map (fun x => (p ++ [fst x], match fst (snd x) with Dir _ _ => true | File _ => false end)) vis)]
    end.

  (* ---- session ---------------------------------------------------------------------------------------- *)
  Record newlist := mkNewlist { nl_records : list record; nl_root : option record }.
  Definition session := list (path * newlist).        (* new_hash_lists, keyed by history root, insertion order *)

  Fixpoint sess_get (s : session) (h : path) : option newlist :=
    match s with
    | [] => None
    | (k, v) :: s' => if path_eqb k h then Some v else sess_get s' h
    end.
  Fixpoint sess_set (s : session) (h : path) (v : newlist) : session :=
    match s with
    | [] => [(h, v)]
    | (k, w) :: s' => if path_eqb k h then (k, v) :: s' else (k, w) :: sess_set s' h v
    end.
  Definition sess_list (s : session) (h : path) : newlist :=
    match sess_get s h with Some v => v | None => mkNewlist [] None end.

  (* find_or_create_media_hash_for_path + append entries *)
  Fixpoint add_entries (rs : list record) (p : path) (dir : bool) (size : option N) (es : list entry) : list record :=
    match rs with
    | [] => [mkRecord p dir size es None]
    | r :: rs' =>
        if path_eqb (r_path r) p
        then mkRecord (r_path r) (r_dir r || dir) (r_size r) (r_entries r ++ es) (r_prev r) :: rs'
        else r :: add_entries rs' p dir size es
    end.
  Definition nl_add (nl : newlist) (p : path) (dir : bool) (size : option N) (es : list entry) : newlist :=
    match p with
    | [] => let r0 := match nl_root nl with Some r => r | None => mkRecord [] dir size [] None end in
            mkNewlist (nl_records nl) (Some (mkRecord [] (r_dir r0 || dir) (r_size r0) (r_entries r0 ++ es) (r_prev r0)))
    | _ => mkNewlist (add_entries (nl_records nl) p dir size es) (nl_root nl)
    end.
  Definition sess_add (s : session) (h p : path) (dir : bool) (size : option N) (es : list entry) : session :=
    sess_set s h (nl_add (sess_list s h) p dir size es).

  Variable hs : list lhist.             (* the loaded histories (root history last) *)
  Definition rooth : lhist := root_hist hs.
  Definition route_to (p : path) : lhist := route hs rooth p.

  (* seal_file_path for one visible file; -> (session', number of failed formats, success of the first format) *)
  Definition seal_file (fmts : list fmt) (s : session) (p : path) (content : bytes) : session * nat * bool :=
    let h := route_to p in
    let rel := strip_prefix (lh_root h) p in
    let '(es, res) := seal (lh_gens h) rel (fun f => digest_text Hb f content) fmts in
    let s' := match es with [] => s | _ => sess_add s (lh_root h) rel false (Some (N.of_nat (length content))) es end in
    (s', length (filter (fun x => negb (snd x)) res),
     match fmts with
     | f0 :: _ => match find (fun x => fmt_eqb (fst x) f0) res with Some x => snd x | None => true end
     | [] => true
     end).

  (* append_multiple_format_directory_hashes *)
  Definition dir_entries (no_dh : bool) (spec : list text) (fmts : list fmt) (p : path) (t : node) : option (list entry) :=
    if no_dh then Some []
    else opt_all (map (fun f => match get C t p with
                                | Some d => match dirhash spec f p d with
                                            | Some cs => Some (mkEntry f (fst cs) None (Some (snd cs)))
                                            | None => None
                                            end
                                | None => None
                                end) (dedup_fmts fmts)).
  Definition record_dir (s : session) (p : path) (es : list entry) : session :=
    let h := route_to p in
    let rel := strip_prefix (lh_root h) p in
    let s1 := sess_add s (lh_root h) rel true None es in
    match rel, lh_parent h with
    | [], Some par => sess_add s1 par (strip_prefix par p) true None es
    | _, _ => s1
    end.

  (* ---- commit ---------------------------------------------------------------------------------------- *)
  Record commit_state := mkCS {
    cs_tree : node;
    cs_refs : list (path * list (path * N));          (* referenced_hash_lists, keyed by history root *)
    cs_written : list (path * gen);                   (* history root, the generation as it reads back *)
    cs_ops : list (N * path);                         (* file-system writes: 0 mkdir ascmhl, 1 manifest, 2 chain *)
    cs_abort : bool }.
  Fixpoint refs_get (l : list (path * list (path * N))) (h : path) : list (path * N) :=
    match l with [] => [] | (k, v) :: l' => if path_eqb k h then v else refs_get l' h end.
  Fixpoint refs_add (l : list (path * list (path * N))) (h : path) (x : path * N) : list (path * list (path * N)) :=
    match l with
    | [] => [(h, [x])]
    | (k, v) :: l' => if path_eqb k h then (k, v ++ [x]) :: l' else (k, v) :: refs_add l' h x
    end.

  Definition readback_root (r : option record) : option (list entry) :=
    match r with
    | Some rr => match r_entries rr with [] => None | es => Some es end
    | None => None
    end.
  (* the writer sorts the format elements of a <hash> by format name (stable); that is what later runs read *)
  Definition entry_leb (a b : entry) : bool := fmt_leb (e_fmt a) (e_fmt b).
  Definition readback_record (r : record) : record :=
    if r_dir r then r else mkRecord (r_path r) (r_dir r) (r_size r) (sort entry_leb (r_entries r)) (r_prev r).
  Definition readback_patterns (ps : list text) : list text := match ps with [] => default_ignore | _ => ps end.

  Definition commit_one (proc : process) (sess : session) (sess_patterns : list text) (cs : commit_state) (h : lhist) : commit_state :=
    if cs_abort cs then cs else
    let refs := refs_get (cs_refs cs) (lh_root h) in
    match sess_get sess (lh_root h), refs with
    | None, [] => cs
    | o, _ =>
        let nl := match o with Some v => v | None => mkNewlist [] None end in
        match validate_records (nl_records nl) with
        | None => mkCS (cs_tree cs) (cs_refs cs) (cs_written cs) (cs_ops cs) true
        | Some recs =>
            let no := (latest_generation_number (lh_gens h) + generation_increment)%N in
            let pats := set_patterns (latest_patterns (lh_gens h)) sess_patterns [] in
            let doc := mkGen no (map readback_record recs) (readback_root (nl_root nl)) (readback_patterns pats) refs proc in
            let content := ser doc in
            let old := match get_hist C (cs_tree cs) (lh_root h) with Some x => x | None => mkHist C [] None end in
            let newh := mkHist C (h_files C old ++ [mkMfile C no content doc])
                                 (Some (lh_chain h ++ [mkCentry no no (cdig content)])) in
            mkCS (set_hist C (lh_root h) newh (cs_tree cs))
                 (match lh_parent h with
                  | Some par => refs_add (cs_refs cs) par (strip_prefix par (lh_root h), no)
                  | None => cs_refs cs
                  end)
                 (cs_written cs ++ [(lh_root h, doc)])
                 (cs_ops cs ++ (if lh_folder h then [] else [(0%N, lh_root h)]) ++ [(1%N, lh_root h); (2%N, lh_root h)])
                 false
        end
    end.
  Definition commit (proc : process) (t : node) (sess : session) (sess_patterns : list text) : commit_state :=
    fold_left (commit_one proc sess sess_patterns) hs (mkCS t [] [] [] false).

  (* ---- expected paths / missing files ----------------------------------------------------------------- *)
  Definition recorded_paths : list path :=
    flat_map (fun h => flat_map (fun g => map (fun r => lh_root h ++ r_path r) (g_records g)) (lh_gens h)) hs.
  (* MHLHistory.renamed_path_with_previous_path (as repaired): previous path -> path.  Python dicts become lists in which
     the LAST entry of a key is the dict's value.  For each hash list in generation order: every entry whose target is
     renamed again by this hash list follows it (a -> b, then b -> c, gives a -> c), then dict.update with this hash list's
     own renames.  The maps of the histories are merged with dict.update. *)
  Definition gen_renames (h : lhist) (g : gen) : list (path * path) :=
    flat_map (fun r => match r_prev r with
                       | Some q => [(lh_root h ++ q, lh_root h ++ r_path r)]
                       | None => []
                       end) (g_records g).
  Definition lookup_last (m : list (path * path)) (p : path) : option path :=
    match find_last (fun x => path_eqb (fst x) p) m with Some x => Some (snd x) | None => None end.
  Definition rename_step (h : lhist) (m : list (path * path)) (g : gen) : list (path * path) :=
    let ren := gen_renames h g in
    map (fun kv => match lookup_last ren (snd kv) with Some p => (fst kv, p) | None => kv end) m ++ ren.
  Definition hist_rename_map (h : lhist) : list (path * path) := fold_left (rename_step h) (lh_gens h) [].
  Definition rename_map : list (path * path) := flat_map hist_rename_map hs.
  Definition renamed (p : path) : path :=
    match find_last (fun x => path_eqb (fst x) p) rename_map with Some x => snd x | None => p end.
  Definition expected_paths : list path := dedup_by path_eqb [] (map renamed recorded_paths).

  Definition visited (evs : list ev) : list path :=
    flat_map (fun e => match e with EvDir _ kids => map fst kids | EvFile _ _ => [] end) evs.
  (* test_for_missing_files *)
  Definition missing (spec : list text) (not_found : list path) : list path :=
    filter (fun p => negb (ignored spec p)) not_found.
  Definition path_leb (a b : path) : bool := lexb (relstr a) (relstr b).
End Create.
