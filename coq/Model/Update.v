(* C20 -- the background update check (ascmhl/cli/update.py) and the result callbacks of the two click groups
   (ascmhl/cli/ascmhl.py, ascmhl/cli/ascmhl_debug.py) as a two-thread transition system.  Definitions only.

   Transcribed code (pinned tree):

     class Updater(Thread):                          # constructed at import of the cli module
         def __init__(self):  self.daemon = True; self.latest_version = None; self.finished = False; self.start()
         def run(self):       self._get_latest_version(); self.finished = True
         def _get_latest_version(self):
             try:
                 r = requests.get(URL)                                            # CGet
                 r.raise_for_status()                                             # CStatus
                 self.latest_version = version.parse(r.json().get("tag_name"))    # CJson, CTag, CParse, CAssign
             except Exception:                                                    # (repaired, see below)
                 self.finished = True                                             # CHandler
         needs_update:  if not self.latest_version: return False
                        return latest > version.parse(ascmhl_tool_version) and not latest.is_devrelease
                               and not latest.is_prerelease

     @group.result_callback()                        # click: runs only when the sub-command RETURNS
     def update(..args):
         updater.join(timeout=1)                                                  # MJoin
         if updater.needs_update:                                                 # MNeeds
             click.secho("Please update ...", fg="blue")                          # MNotice

   click 8.1 (MultiCommand.invoke / BaseCommand.main, standalone mode): the result callback is applied to the value
   RETURNED by the sub-command; a ClickException (all ascmhl error exits), a usage error, ctx.exit() (--help,
   --version), sys.exit or any other exception leaves `invoke` before the callback; after the callback main() calls
   ctx.exit() = exit status 0.  Interpreter shutdown does not wait for daemon threads.

   History.  The pinned code caught only requests.exceptions.RequestException: an answer whose tag_name was missing,
   null, not a string or not a version ("nightly"), a JSON body that was not an object, or a non-requests exception
   from requests.get ended the thread with an unhandled exception; while threading.excepthook was writing the traceback
   the thread held the lock of sys.stderr's buffer, and a main thread that shut the interpreter down at that moment
   (it joins the checker only after a normal return of the sub-command, and only for `timeout` seconds) made CPython
   abort ("Fatal Python error: _enter_buffered_busy ... at interpreter shutdown, possibly due to daemon threads"):
   exit status 134 instead of the command's own (found by the C20 harness; e.g. `ascmhl info <folder without
   history>`: 134 instead of 30 in 5-20% of the runs).  The commit "fix: the update check swallows every exception of
   the checker thread" widened the clause to `except Exception`; this file models the repaired code, and
   Props/C20.v carries the obligation `update_caught_exception = "Exception"` on the regenerated constant.
   (BaseExceptions that are not Exceptions -- KeyboardInterrupt, SystemExit raised inside requests.get -- are outside
   the model.)

   External behaviour enters as DATA of a configuration: what the server does and when (`server`), what
   packaging.version.parse made of the tag text (`TagText (Some v)` / `TagText None`), the installed version
   (`k_current`, None = not a PEP 440 string), the command (its output chunks, its working time, how it ends),
   and the schedule (a list of `action`s: which thread moves, how long a blocked join sleeps). *)
From Coq Require Import List NArith Bool.
From MHL Require Import Gen.Generated.
Import ListNotations.
Local Open Scope N_scope.

(* ------------------------------------------------------------------ packaging.version.Version and its order *)

Inductive pre_kind := PreA | PreB | PreRC.                 (* normalised letters "a" < "b" < "rc" (str order) *)
Inductive lseg := LNum (n : N) | LStr (s : list N).         (* one segment of a local version label *)
Record version := mkVer {
  v_epoch : N;
  v_release : list N;
  v_pre : option (pre_kind * N);
  v_post : option N;
  v_dev : option N;
  v_local : option (list lseg) }.

Definition cmp_then (a b : comparison) : comparison := match a with Eq => b | _ => a end.

(* Python tuple / str comparison: first difference decides, a proper prefix is smaller *)
Fixpoint lex {A} (c : A -> A -> comparison) (x y : list A) : comparison :=
  match x, y with
  | [], [] => Eq
  | [], _ :: _ => Lt
  | _ :: _, [] => Gt
  | a :: x', b :: y' => cmp_then (c a b) (lex c x' y')
  end.

Fixpoint drop_zeros (l : list N) : list N :=
  match l with 0 :: l' => drop_zeros l' | _ => l end.
(* _cmpkey: tuple(reversed(list(dropwhile(lambda x: x == 0, reversed(release))))) *)
Definition trim_release (r : list N) : list N := rev (drop_zeros (rev r)).

(* values extended with packaging._structures.NegativeInfinity / Infinity *)
Inductive ext (A : Type) := NegInf | Fin (a : A) | PosInf.
Arguments NegInf {A}. Arguments Fin {A} a. Arguments PosInf {A}.
Definition ext_cmp {A} (c : A -> A -> comparison) (x y : ext A) : comparison :=
  match x, y with
  | NegInf, NegInf => Eq | NegInf, _ => Lt | _, NegInf => Gt
  | PosInf, PosInf => Eq | PosInf, _ => Gt | _, PosInf => Lt
  | Fin a, Fin b => c a b
  end.

Definition kind_rank (k : pre_kind) : N := match k with PreA => 0 | PreB => 1 | PreRC => 2 end.
Definition pre_cmp (a b : pre_kind * N) : comparison :=
  cmp_then (N.compare (kind_rank (fst a)) (kind_rank (fst b))) (N.compare (snd a) (snd b)).
(* local segments: (i, "") for ints, (NegativeInfinity, s) for strings *)
Definition lseg_cmp (a b : lseg) : comparison :=
  match a, b with
  | LStr s, LStr t => lex N.compare s t
  | LStr _, LNum _ => Lt
  | LNum _, LStr _ => Gt
  | LNum n, LNum m => N.compare n m
  end.

Definition key_pre (v : version) : ext (pre_kind * N) :=
  match v_pre v, v_post v, v_dev v with
  | None, None, Some _ => NegInf
  | None, _, _ => PosInf
  | Some p, _, _ => Fin p
  end.
Definition key_post (v : version) : ext N := match v_post v with None => NegInf | Some n => Fin n end.
Definition key_dev (v : version) : ext N := match v_dev v with None => PosInf | Some n => Fin n end.
Definition key_local (v : version) : ext (list lseg) := match v_local v with None => NegInf | Some l => Fin l end.

(* comparison of the _cmpkey tuples (epoch, release, pre, post, dev, local) *)
Definition ver_cmp (a b : version) : comparison :=
  cmp_then (N.compare (v_epoch a) (v_epoch b))
 (cmp_then (lex N.compare (trim_release (v_release a)) (trim_release (v_release b)))
 (cmp_then (ext_cmp pre_cmp (key_pre a) (key_pre b))
 (cmp_then (ext_cmp N.compare (key_post a) (key_post b))
 (cmp_then (ext_cmp N.compare (key_dev a) (key_dev b))
           (ext_cmp (lex lseg_cmp) (key_local a) (key_local b)))))).
Definition ver_gtb (a b : version) : bool := match ver_cmp a b with Gt => true | _ => false end.   (* a > b *)

Definition is_some {A} (o : option A) : bool := match o with Some _ => true | None => false end.
Definition is_devrelease (v : version) : bool := is_some (v_dev v).
Definition is_prerelease (v : version) : bool := is_some (v_dev v) || is_some (v_pre v).

(* ------------------------------------------------------------------------------- the shared attribute *)

(* what Updater.latest_version can hold.  The code only ever stores None or a Version; PStr (a raw string, the flag
   says whether it is non-empty) is in the type so that "needs_update cannot raise in the main thread" is a theorem
   about the transitions and not a consequence of the typing. *)
Inductive pyval := PNone | PStr (nonempty : bool) | PVer (v : version).

(* Updater.needs_update; None = the property raises (InvalidVersion for the installed version string, or TypeError
   for str > Version) *)
Definition needs_update (latest : pyval) (current : option version) : option bool :=
  match latest with
  | PNone => Some false                         (* not None *)
  | PStr false => Some false                    (* not "" *)
  | PStr true => None
  | PVer l =>
      match current with
      | None => None
      | Some c => Some (ver_gtb l c && negb (is_devrelease l) && negb (is_prerelease l))
      end
  end.

(* ------------------------------------------------------------------------------------ server, command *)

Inductive tag_value :=
  | TagMissing                                  (* dict without "tag_name": .get gives None *)
  | TagNull                                     (* "tag_name": null *)
  | TagOther                                    (* a number, list, object, bool: not a str *)
  | TagText (parsed : option version).          (* a str; what version.parse makes of it (None = InvalidVersion) *)
Inductive json_body := JNonDict | JDict (t : tag_value).
Inductive reply :=
  | RRequestExc                                 (* requests.get raises a RequestException (refused, DNS, timeout ...) *)
  | ROtherExc                                   (* requests.get raises any other Exception *)
  | RResponse (status_ok : bool) (body : option json_body).   (* body None = not JSON *)
Record server := mkServer {
  s_after : option N;                           (* ms after start at which requests.get comes back; None = never *)
  s_reply : reply }.

Inductive cstep := Emit (chunk : N) | Work (ms : N).
Inductive cmd_end := Returns | Raises (code : N).
Record command := mkCommand { c_steps : list cstep; c_end : cmd_end }.

Fixpoint emits (l : list cstep) : list N :=
  match l with [] => [] | Emit x :: r => x :: emits r | Work _ :: r => emits r end.
Fixpoint works (l : list cstep) : N :=
  match l with [] => 0 | Emit _ :: r => works r | Work m :: r => m + works r end.

Record config := mkConfig {
  k_daemon : bool;                              (* Updater.daemon *)
  k_timeout : N;                                (* join timeout, ms *)
  k_current : option version;                   (* version.parse(ascmhl_tool_version); None = it raises *)
  k_server : server;
  k_cmd : command }.

(* the command on its own: what a run without any update check would show *)
Definition cmd_exit (k : config) : N := match c_end (k_cmd k) with Returns => 0 | Raises c => c end.
Definition cmd_chunks (k : config) : list N := emits (c_steps (k_cmd k)).
Definition cmd_time (k : config) : N := works (c_steps (k_cmd k)).

(* --------------------------------------------------------------------------------------- the two threads *)

Inductive cpc :=                                (* checker thread *)
  | CGet                                        (* inside requests.get *)
  | CStatus (ok : bool) (b : option json_body)  (* r.raise_for_status() *)
  | CJson (b : option json_body)                (* r.json() *)
  | CTag (j : json_body)                        (* .get("tag_name") *)
  | CParse (t : tag_value)                      (* version.parse(...) *)
  | CAssign (v : version)                       (* self.latest_version = ... *)
  | CHandler                                    (* except Exception: self.finished = True *)
  | CFinish                                     (* run(): self.finished = True *)
  | CDone.                                      (* run() returned: the only way the thread ends *)

Inductive mpc :=                                (* main thread *)
  | MRun (rest : list cstep)                    (* parsing + the sub-command *)
  | MJoin                                       (* updater.join(timeout=...) *)
  | MNeeds                                      (* evaluating updater.needs_update *)
  | MNotice                                     (* click.secho(notice) *)
  | MReturn                                     (* callback returned; main(): ctx.exit() *)
  | MExit (code : N).                           (* interpreter exits with this status *)

Inductive oev := OChunk (c : N) | ONotice.                (* standard output *)
Inductive eev := EMainTraceback.                          (* standard error: tracebacks only (the checker writes none) *)

Record state := mkState {
  s_main : mpc;
  s_chk : cpc;
  s_latest : pyval;                             (* Updater.latest_version *)
  s_finished : bool;                            (* Updater.finished *)
  s_now : N;                                    (* ms since start *)
  s_delay : N;                                  (* ms spent blocked in updater.join *)
  s_out : list oev;
  s_err : list eev }.

Definition init (k : config) : state :=
  mkState (MRun (c_steps (k_cmd k))) CGet PNone false 0 0 [] [].

Definition chk_terminated (c : cpc) : bool := match c with CDone => true | _ => false end.

(* the process is gone: main thread exited and no non-daemon thread is left *)
Definition process_over (k : config) (s : state) : bool :=
  match s_main s with
  | MExit _ => k_daemon k || chk_terminated (s_chk s)
  | _ => false
  end.

Inductive action := AChk | AMain | ATick (dt : N).

Definition set_chk (s : state) (c : cpc) : state :=
  mkState (s_main s) c (s_latest s) (s_finished s) (s_now s) (s_delay s) (s_out s) (s_err s).
Definition set_main (s : state) (m : mpc) : state :=
  mkState m (s_chk s) (s_latest s) (s_finished s) (s_now s) (s_delay s) (s_out s) (s_err s).
Definition step_chk (k : config) (s : state) : option state :=
  match s_chk s with
  | CGet =>
      match s_after (k_server k) with
      | None => None                                                       (* blocked for ever *)
      | Some t =>
          if t <=? s_now s then
            match s_reply (k_server k) with
            | RRequestExc => Some (set_chk s CHandler)
            | ROtherExc => Some (set_chk s CHandler)                       (* except Exception *)
            | RResponse ok b => Some (set_chk s (CStatus ok b))
            end
          else None                                                        (* still blocked *)
      end
  | CStatus ok b => Some (set_chk s (if ok then CJson b else CHandler))    (* HTTPError *)
  | CJson None => Some (set_chk s CHandler)                                (* requests' JSONDecodeError *)
  | CJson (Some j) => Some (set_chk s (CTag j))
  | CTag JNonDict => Some (set_chk s CHandler)                             (* AttributeError: no .get *)
  | CTag (JDict t) => Some (set_chk s (CParse t))
  | CParse (TagText (Some v)) => Some (set_chk s (CAssign v))
  | CParse _ => Some (set_chk s CHandler)                                  (* TypeError / InvalidVersion *)
  | CAssign v =>
      Some (mkState (s_main s) CFinish (PVer v) (s_finished s) (s_now s) (s_delay s) (s_out s) (s_err s))
  | CHandler =>
      Some (mkState (s_main s) CFinish (s_latest s) true (s_now s) (s_delay s) (s_out s) (s_err s))
  | CFinish =>
      Some (mkState (s_main s) CDone (s_latest s) true (s_now s) (s_delay s) (s_out s) (s_err s))
  | CDone => None
  end.

Definition step_main (k : config) (s : state) : option state :=
  match s_main s with
  | MRun (Emit x :: r) =>
      Some (mkState (MRun r) (s_chk s) (s_latest s) (s_finished s) (s_now s) (s_delay s) (s_out s ++ [OChunk x]) (s_err s))
  | MRun (Work m :: r) =>
      Some (mkState (MRun r) (s_chk s) (s_latest s) (s_finished s) (s_now s + m) (s_delay s) (s_out s) (s_err s))
  | MRun [] =>
      match c_end (k_cmd k) with
      | Returns => Some (set_main s MJoin)                                 (* result callback *)
      | Raises c => Some (set_main s (MExit c))                            (* callback skipped *)
      end
  | MJoin =>
      if chk_terminated (s_chk s) || (k_timeout k <=? s_delay s) then Some (set_main s MNeeds) else None
  | MNeeds =>
      match needs_update (s_latest s) (k_current k) with
      | Some true => Some (set_main s MNotice)
      | Some false => Some (set_main s MReturn)
      | None =>                                                            (* uncaught exception: traceback, status 1 *)
          Some (mkState (MExit 1) (s_chk s) (s_latest s) (s_finished s) (s_now s) (s_delay s) (s_out s) (s_err s ++ [EMainTraceback]))
      end
  | MNotice =>
      Some (mkState MReturn (s_chk s) (s_latest s) (s_finished s) (s_now s) (s_delay s) (s_out s ++ [ONotice]) (s_err s))
  | MReturn => Some (set_main s (MExit 0))
  | MExit _ => None
  end.

(* time passes while the main thread is blocked in join: the checker is alive and the timeout has not expired;
   the join never sleeps past its timeout *)
Definition step_tick (k : config) (s : state) (dt : N) : option state :=
  match s_main s with
  | MJoin =>
      if negb (chk_terminated (s_chk s)) && (s_delay s <? k_timeout k) && (0 <? dt) then
        let d' := N.min (s_delay s + dt) (k_timeout k) in
        Some (mkState MJoin (s_chk s) (s_latest s) (s_finished s) (s_now s + (d' - s_delay s)) d' (s_out s) (s_err s))
      else None
  | _ => None
  end.

Definition step (k : config) (s : state) (a : action) : option state :=
  if process_over k s then None else
  match a with
  | AChk => step_chk k s
  | AMain => step_main k s
  | ATick dt => step_tick k s dt
  end.

(* a schedule is any list of actions; an action that is not enabled is a no-op *)
Definition do_action (k : config) (s : state) (a : action) : state :=
  match step k s a with Some s' => s' | None => s end.
Definition run (k : config) (s : state) (sched : list action) : state := fold_left (do_action k) sched s.

(* strict variant: every action of the list must be enabled *)
Fixpoint trace (k : config) (s : state) (l : list action) : option state :=
  match l with
  | [] => Some s
  | a :: l' => match step k s a with Some s' => trace k s' l' | None => None end
  end.

Inductive reach (k : config) : state -> Prop :=
  | reach_init : reach k (init k)
  | reach_step : forall s a s', reach k s -> step k s a = Some s' -> reach k s'.

Definition stuck (k : config) (s : state) : Prop := forall a, step k s a = None.

(* --------------------------------------------------------------------- a deterministic (eager) scheduler *)

(* the expected real timing: the checker moves as soon as it can, then the main thread, and a blocked join sleeps
   exactly until the next event (arrival of the answer or expiry of the timeout).  Used to PREDICT what a real run
   with given delays shows; it is one of the schedules the theorems quantify over. *)
Definition eager_action (k : config) (s : state) : action :=
  match step_chk k s with
  | Some _ => AChk
  | None =>
      match step_main k s with
      | Some _ => AMain
      | None =>
          let left := k_timeout k - s_delay s in
          ATick (match s_after (k_server k) with
                 | Some t => if s_now s <? t then N.min (t - s_now s) left else left
                 | None => left
                 end)
      end
  end.

Fixpoint eager (k : config) (fuel : nat) (s : state) : list action * state :=
  match fuel with
  | O => ([], s)
  | S f =>
      let a := eager_action k s in
      match step k s a with
      | Some s' => let (l, z) := eager k f s' in (a :: l, z)
      | None => ([], s)
      end
  end.

Definition eager_fuel (k : config) : nat := length (c_steps (k_cmd k)) + 24.

Record observation := mkObs { o_exit : N; o_chunks : list N; o_notice : bool; o_delay : N; o_err : list eev }.

Definition has_notice (o : list oev) : bool := existsb (fun e => match e with ONotice => true | _ => false end) o.
Definition chunks_of (o : list oev) : list N :=
  flat_map (fun e => match e with OChunk c => [c] | ONotice => [] end) o.

(* None: the eager run did not end (never happens for a daemon checker: the harness checks it on every case) *)
Definition predict (k : config) : option observation :=
  let s := snd (eager k (eager_fuel k) (init k)) in
  match s_main s with
  | MExit c => if process_over k s then Some (mkObs c (chunks_of (s_out s)) (has_notice (s_out s)) (s_delay s) (s_err s)) else None
  | _ => None
  end.

(* ------------------------------------------------------------- the configuration of the code as it stands *)

Definition ms_per_second : N := 1000.
Definition real_config (debug_group : bool) (cur : option version) (srv : server) (c : command) : config :=
  mkConfig updater_daemon (ms_per_second * (if debug_group then join_timeout_debug else join_timeout)) cur srv c.
