(* commands.seal_file_path + generator.append_file_hash + history._validate_new_hash_list (as repaired):
   the per-file decision of a `create` run against the generations that already mention the path. *)
From MHL Require Export Model.History.

Section Seal.
  Variable gens : list gen.            (* the generations of the history the path is routed to *)
  Variable p : path.                   (* the path relative to that history *)
  Variable dg : fmt -> text.           (* the file's current digest text in each format *)

  (* generator.append_file_hash: original / verified / failed / new *)
  Definition decide (f : fmt) : action :=
    match find_original gens p with
    | None => Original
    | Some _ => match find_first gens p f with
                | Some e => if text_eqb (e_digest e) (dg f) then Verified else Failed
                | None => New
                end
    end.
  Definition mk_entry (f : fmt) : entry := mkEntry f (dg f) (Some (decide f)) None.
  Definition not_failed (a : action) : bool := match a with Failed => false | _ => true end.

  (* hash_formats_to_generate *)
  Definition to_generate (ex req : list fmt) : list fmt :=
    let carried := filter (fun f => memf f req) ex in
    let base := match ex with
                | [] => []
                | f0 :: _ => match carried with [] => [f0] | _ => carried end
                end in
    dedup_by fmt_eqb [] (base ++ req).

  (* first loop: existing formats that are generated; (entries, existing_hashes_verified, results) *)
  Definition phase1_step (req tg : list fmt) (acc : list entry * bool * list (fmt * bool)) (f : fmt) :=
    let '(cur, ver, res) := acc in
    if memf f tg then
      let ok := not_failed (decide f) in
      (cur ++ [mk_entry f], ver && ok, if memf f req then res ++ [(f, ok)] else res)
    else acc.
  (* second loop: formats never recorded for the path *)
  Definition phase2_step (req ex : list fmt) (verified : bool) (acc : list entry * list (fmt * bool)) (f : fmt) :=
    let '(cur, res) := acc in
    if memf f ex then acc
    else if verified then
           let ok := not_failed (decide f) in
           (cur ++ [mk_entry f], if memf f req then res ++ [(f, ok)] else res)
         else (cur, if memf f req then res ++ [(f, false)] else res).

  (* -> (entries appended to the record, per requested format: success) *)
  Definition seal (req : list fmt) : list entry * list (fmt * bool) :=
    let ex := existing_formats gens p in
    let tg := to_generate ex req in
    let '(cur1, verified, res1) := fold_left (phase1_step req tg) ex ([], true, []) in
    fold_left (phase2_step req ex verified) tg (cur1, res1).
End Seal.

(* history._validate_new_hash_list on one record: `new` becomes `verified` when some entry of the record is
   verified and none failed; otherwise the run aborts (None) *)
Definition has_action (a : action) (es : list entry) : bool :=
  existsb (fun e => match e_action e with Some b => action_eqb a b | None => false end) es.
Definition promote (e : entry) : entry :=
  match e_action e with
  | Some New => mkEntry (e_fmt e) (e_digest e) (Some Verified) (e_struct e)
  | _ => e
  end.
Definition validate_record (r : record) : option record :=
  if has_action New (r_entries r) then
    if has_action Verified (r_entries r) && negb (has_action Failed (r_entries r))
    then Some (mkRecord (r_path r) (r_dir r) (r_size r) (map promote (r_entries r)) (r_prev r))
    else None
  else Some r.
Fixpoint validate_records (rs : list record) : option (list record) :=
  match rs with
  | [] => Some []
  | r :: rs' => match validate_record r, validate_records rs' with
                | Some r', Some rest => Some (r' :: rest)
                | _, _ => None
                end
  end.
