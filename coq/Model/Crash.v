(* C15: what an interrupted commit leaves behind.  The writers put a file under a temporary name and move it into
   place when complete (hashlist_xml_parser.write_hash_list, chain_xml_parser.write_chain), so on the level of one
   ascmhl folder a commit is the sequence
       [mkdir ascmhl]  open manifest.tmp, write*, close, replace -> manifest   open chain.tmp, write*, close, replace -> chain
   A crash keeps the effects of a prefix of this sequence; a file under a temporary name is invisible to the loader
   (it only looks at *.mhl and the chain file), so writes into temporary files do not change the history state. *)
From MHL Require Export Model.Create.

Section Crash.
  Variable C : Type.
  Variable cdig : C -> text.

  Inductive mop :=
  | MMkdir                       (* os.mkdir(ascmhl) *)
  | MOpenTmp (chain : bool)      (* open(<final name>.tmp, "wb") *)
  | MWriteTmp (chain : bool)     (* one write() into the temporary file; may be applied fully, partly or not at all *)
  | MCloseTmp (chain : bool)
  | MReplaceManifest             (* os.replace(tmp, NNNN_...mhl) *)
  | MReplaceChain.               (* os.replace(tmp, ascmhl_chain.xml) *)

  (* the ascmhl folder of one history as the loader sees it: None = no folder *)
  Definition hstate := option (hist C).

  (* the micro operations of one history's commit; `fresh` = the ascmhl folder does not exist yet; kw / kc = number of
     write() calls for the manifest / the chain (any number) *)
  Definition tmp_phase (chain : bool) (k : nat) : list mop := MOpenTmp chain :: repeat (MWriteTmp chain) k ++ [MCloseTmp chain].
  Definition commit_mops (fresh : bool) (kw kc : nat) : list mop :=
    (if fresh then [MMkdir] else [])
    ++ tmp_phase false kw ++ [MReplaceManifest] ++ tmp_phase true kc ++ [MReplaceChain].

  Definition apply_mop (new_m : mfile C) (new_chain : list centry) (s : hstate) (o : mop) : hstate :=
    match o with
    | MMkdir => match s with None => Some (mkHist C [] None) | _ => s end
    | MOpenTmp _ | MWriteTmp _ | MCloseTmp _ => s
    | MReplaceManifest => match s with Some h => Some (mkHist C (h_files C h ++ [new_m]) (h_chain C h)) | None => None end
    | MReplaceChain => match s with Some h => Some (mkHist C (h_files C h) (Some new_chain)) | None => None end
    end.
  Definition after_prefix (new_m : mfile C) (new_chain : list centry) (s : hstate) (ops : list mop) : hstate :=
    fold_left (apply_mop new_m new_chain) ops s.

  (* every state a crash can leave: the state after any prefix of the sequence *)
  Definition crash_state (new_m : mfile C) (new_chain : list centry) (s : hstate) (ops : list mop) (k : nat) : hstate :=
    after_prefix new_m new_chain s (firstn k ops).
End Crash.
