(* The subset of W3C XML Schema 1.0 that the two published schemas (xsd/ASCMHL.xsd, xsd/ASCMHLDirectory.xsd) use,
   as plain data.  Values of these types are GENERATED: translator/gen.py (class Xsd) re-reads the two .xsd files on
   every run and writes `schema_manifest` / `schema_directory` into Gen/Generated.v with exactly these constructors
   (named types are inlined -- the schemas are not recursive --, so a schema value is a finite tree).  This file is
   imported by Gen/Generated.v and therefore depends on nothing but the standard library.

   text = list N (Unicode code points), as everywhere in the model (Model/Base.v: Definition text := list N).
   Occurrence bounds are `nat` (they bound the LENGTH of a list of child elements; the translator refuses bounds
   above 64, so no large unary literal can appear). *)
From Coq Require Import List NArith.

(* simple types: the built-ins the schemas name, plus the three derived forms they use *)
Inductive stype :=
| SString                      (* xs:string and restrictions of it without facets (RelativePathType) *)
| SDateTime                    (* xs:dateTime *)
| SInteger                     (* xs:integer *)
| SAny                         (* xs:anySimpleType / xs:anyType used as a simple type: no constraint *)
| SEmail                       (* restriction of string by the single pattern  [^@]+@[^\.]+\..+  (the translator emits this
                                  constructor only for exactly that pattern text) *)
| SEnum (values : list (list N))   (* restriction of string by enumeration facets *)
| SFixed (value : list N).         (* attribute with fixed="..." and no type (anySimpleType): the value must be equal *)

(* attribute use: local name (attributeFormDefault is unqualified), use="required"?, type *)
Inductive attr_decl := mkAttr (name : list N) (required : bool) (ty : stype).

(* element types and content models.  POccurs min max body: `max = None` is maxOccurs="unbounded". *)
Inductive etype :=
| TSimple (s : stype) (attrs : list attr_decl)          (* simple content (text only) + attributes *)
| TComplex (p : particle) (attrs : list attr_decl)      (* element-only content + attributes *)
| TAny (attrs : list attr_decl)                         (* extension of xs:anyType: any content *)
with particle :=
| POccurs (min : nat) (max : option nat) (b : body)
with body :=
| PElem (name : list N) (t : etype)
| PSeq (ps : list particle)
| PChoice (ps : list particle).

(* one schema document = its single global element declaration *)
Inductive schema := mkSchema (root : list N) (t : etype).
