(* The step machine shared by the history-level properties: a scenario is a tree and a list of steps (commands,
   tree edits, history faults); do_step returns the new tree and an observation.  The same function is what the
   theorems talk about and what is extracted and run against the real tool. *)
From MHL Require Export Model.Commands.
From MHL Require Import Gen.Generated.

Section World.
  Variable Hb : fmt -> bytes -> bytes.
  Variable matches : list text -> text -> bool.
  Variable C : Type.
  Variable cdig : C -> text.
  Variable ser : gen -> C.

  Notation node := (node C).
  Notation obs := obs.

  Inductive step :=
  | SCreate (root : path) (req : list fmt) (no_dh dr : bool) (sf : list path) (ipats : list text) (ifile : option (list text))
  | SVerify (root : path) (sf : option path) (ipats : list text)
  | SDiff (root : path) (ipats : list text)
  | SVerifyDH (root : path) (f : option fmt) (co ro : bool) (ipats : list text)
  | SInfo (root : path)
  | SInfoSF (file : path) (root : option path)
  | SFlatten (root : path)
  | SVerifyPL (root : path) (src : path) (ipats : list text)   (* verify ROOT -pl <what flatten SRC wrote> *)
  | SSet (p : path) (b : bytes)             (* write a file (new or existing) *)
  | SMkdir (p : path)
  | SDelete (p : path)
  | SRename (p q : path)
  | STouch (p : path)                       (* mtime change: invisible to the model *)
  | STamper (h : path) (g : N) (c' : C)     (* the bytes of manifest g of the history at h become c' *)
  | SRmManifest (h : path) (g : N)
  | SRmChain (h : path).

  Definition obs_none : obs := obs_exit 0.

  (* run a command on the sub-tree at `root` *)
  Definition at_root (root : path) (f : node -> node * obs) (t : node) : node * obs :=
    match get C t root with
    | Some sub =>
        let '(sub', o) := f sub in
        (alter C root (fun _ => Some sub') t,
         mkObs (o_outcome o) (map (fun x => (root ++ fst x, snd x)) (o_written o)) (o_missing o) (o_mismatch o) (o_new o)
               (map (fun x => (fst x, root ++ snd x)) (o_ops o)) (o_info o) (o_dh o))
    | None => (t, obs_exit 2)                 (* click: path does not exist *)
    end.

  Definition map_hist (h : path) (f : hist C -> hist C) (t : node) : node :=
    alter C h (fun o => match o with
                        | Some (Dir (Some hh) kids) => Some (Dir (Some (f hh)) kids)
                        | o' => o'
                        end) t.

  (* info -sf without root: the nearest enclosing folder that has an ascmhl folder *)
  Fixpoint nearest_history_fuel (fuel : nat) (t : node) (d : path) : option path :=
    match fuel with
    | O => None
    | S k => match get_hist C t d with
             | Some _ => Some d
             | None => match d with [] => None | _ => nearest_history_fuel k t (removelast d) end
             end
    end.
  Definition nearest_history (t : node) (d : path) : option path := nearest_history_fuel (S (length d)) t d.

  (* the packing list that `flatten` writes for the history at src (None: nothing is written, e.g. no history) *)
  Definition packing_list_of (t : node) (src : path) : option gen :=
    match get C t src with
    | Some sub => match o_written (snd (flatten C cdig sub [] [])) with
                  | [(_, doc)] => Some doc
                  | _ => None
                  end
    | None => None
    end.

  Definition do_step (t : node) (s : step) : node * obs :=
    match s with
    | SCreate root req no_dh dr sf ipats ifile =>
        let fl := match ifile with Some l => l | None => [] end in
        match sf with
        | [] => at_root root (fun sub => create_folder Hb matches C cdig ser sub req no_dh dr ipats fl) t
        | _ => at_root root (fun sub => create_sf Hb matches C cdig ser sub req (map (strip_prefix root) sf) ipats fl) t
        end
    | SVerify root sf ipats =>
        at_root root (fun sub => verify_like Hb matches C cdig false sub (option_map (strip_prefix root) sf) ipats []) t
    | SDiff root ipats =>
        at_root root (fun sub => verify_like Hb matches C cdig true sub None ipats []) t
    | SVerifyDH root f co ro ipats =>
        at_root root (fun sub => verify_dh Hb matches C cdig sub f co ro ipats []) t
    | SInfo root => at_root root (fun sub => info C cdig sub) t
    | SInfoSF file root =>
        match (match root with Some r => Some r | None => nearest_history t (removelast file) end) with
        | Some r => at_root r (fun sub => info_sf C cdig sub (strip_prefix r file)) t
        | None => (t, obs_exit exit_no_history)
        end
    | SFlatten root => at_root root (fun sub => flatten C cdig sub [] []) t
    | SVerifyPL root src ipats => at_root root (fun sub => verify_pl Hb matches C sub (packing_list_of t src) ipats []) t
    | SSet p b => (alter C p (fun _ => Some (File b)) t, obs_none)
    | SMkdir p => (alter C p (fun o => match o with Some x => Some x | None => Some (Dir None []) end) t, obs_none)
    | SDelete p => (alter C p (fun _ => None) t, obs_none)
    | SRename p q =>
        match get C t p with
        | Some x => (alter C q (fun _ => Some x) (alter C p (fun _ => None) t), obs_none)
        | None => (t, obs_none)
        end
    | STouch _ => (t, obs_none)
    | STamper h g c' =>
        (map_hist h (fun hh => mkHist C (map (fun m => if N.eqb (mf_no C m) g then mkMfile C (mf_no C m) c' (mf_doc C m) else m)
                                             (h_files C hh)) (h_chain C hh)) t, obs_none)
    | SRmManifest h g =>
        (map_hist h (fun hh => mkHist C (filter (fun m => negb (N.eqb (mf_no C m) g)) (h_files C hh)) (h_chain C hh)) t, obs_none)
    | SRmChain h => (map_hist h (fun hh => mkHist C (h_files C hh) None) t, obs_none)
    end.

  Fixpoint run (t : node) (steps : list step) : node * list obs :=
    match steps with
    | [] => (t, [])
    | s :: rest => let '(t1, o) := do_step t s in
                   let '(t2, os) := run t1 rest in (t2, o :: os)
    end.
End World.
