(* Object model of hashlist.py / history.py as it is after loading: generations, records, entries, and the
   history look-ups the commands use. *)
From MHL Require Export Model.Codec Model.Ignore.

Inductive action := Original | Verified | Failed | New.      (* New never survives _validate_new_hash_list *)
Definition action_eqb (a b : action) : bool :=
  match a, b with Original, Original | Verified, Verified | Failed, Failed | New, New => true | _, _ => false end.

Record entry := mkEntry { e_fmt : fmt; e_digest : text; e_action : option action; e_struct : option text }.
Record record := mkRecord { r_path : path; r_dir : bool; r_size : option N; r_entries : list entry; r_prev : option path }.
Inductive process := InPlace | Flatten.
Record gen := mkGen {
  g_no : N;
  g_records : list record;               (* hash_list.media_hashes, file order; the root "." is not among them *)
  g_root : option (list entry);          (* process_info.root_media_hash: None when no <roothash> was written *)
  g_patterns : list text;
  g_refs : list (path * N);              (* referenced child manifests: (child root relative to this root, number) *)
  g_process : process }.

Definition opt_path_eqb (a : option path) (b : path) : bool := match a with Some x => path_eqb x b | None => false end.

(* hash_list.media_hashes_path_map: keyed by path and by previous path, later records overwrite earlier ones;
   the root record is registered under "." = [] *)
Definition rec_keys_match (r : record) (p : path) : bool := path_eqb (r_path r) p || opt_path_eqb (r_prev r) p.
Definition root_record (g : gen) : option record :=
  match g_root g with
  | Some es => Some (mkRecord [] true None es None)
  | None => None
  end.
Fixpoint find_last {A} (f : A -> bool) (l : list A) : option A :=
  match l with
  | [] => None
  | x :: l' => match find_last f l' with Some y => Some y | None => if f x then Some x else None end
  end.
Definition find_media_hash (g : gen) (p : path) : option record :=
  match find_last (fun r => rec_keys_match r p) (g_records g) with
  | Some r => Some r
  | None => match p with [] => root_record g | _ => None end
  end.

Definition is_original (e : entry) : bool := match e_action e with Some Original => true | _ => false end.

(* history.find_original_hash_entry_for_path *)
Fixpoint find_original (gens : list gen) (p : path) : option entry :=
  match gens with
  | [] => None
  | g :: gens' =>
      match find_media_hash g p with
      | None => find_original gens' p
      | Some r => match find is_original (r_entries r) with
                  | Some e => Some e
                  | None => find_original gens' p
                  end
      end
  end.

(* history.find_first_hash_entry_for_path(path, hash_format) *)
Fixpoint find_first (gens : list gen) (p : path) (f : fmt) : option entry :=
  match gens with
  | [] => None
  | g :: gens' =>
      match find_media_hash g p with
      | None => find_first gens' p f
      | Some r => match find (fun e => fmt_eqb (e_fmt e) f) (r_entries r) with
                  | Some e => Some e
                  | None => find_first gens' p f
                  end
      end
  end.
(* ... without format: the first entry of the first record that has one *)
Fixpoint find_first_any (gens : list gen) (p : path) : option entry :=
  match gens with
  | [] => None
  | g :: gens' =>
      match find_media_hash g p with
      | None => find_first_any gens' p
      | Some r => match r_entries r with
                  | e :: _ => Some e
                  | [] => find_first_any gens' p
                  end
      end
  end.

(* history.find_existing_hash_formats_for_path *)
Definition existing_formats (gens : list gen) (p : path) : list fmt :=
  dedup_fmts (flat_map (fun g => match find_media_hash g p with
                                 | Some r => map e_fmt (r_entries r)
                                 | None => []
                                 end) gens).

(* history.find_directory_hash_entries_for_path: (generation number, entry) *)
Definition find_directory_entries (gens : list gen) (p : path) : list (N * entry) :=
  flat_map (fun g => match find_media_hash g p with
                     | Some r => if r_dir r then map (fun e => (g_no g, e)) (r_entries r) else []
                     | None => []
                     end) gens
  ++ match p with
     | [] => flat_map (fun g => match g_root g with Some es => map (fun e => (g_no g, e)) es | None => [] end) gens
     | _ => []
     end.

(* history.latest_generation_number: the last non-zero number in load order *)
Definition latest_generation_number (gens : list gen) : N :=
  fold_left (fun acc g => if N.eqb (g_no g) 0 then acc else g_no g) gens 0%N.

(* history.latest_ignore_patterns (None = no generation) *)
Definition latest_patterns (gens : list gen) : list text :=
  match rev gens with
  | [] => []
  | g :: _ => g_patterns g
  end.

(* paths *)
Fixpoint is_prefix (a b : path) : bool :=
  match a, b with
  | [], _ => true
  | x :: a', y :: b' => text_eqb x y && is_prefix a' b'
  | _ :: _, [] => false
  end.
Fixpoint strip_prefix (a b : path) : path :=    (* b relative to a, for a prefix of b *)
  match a, b with
  | _ :: a', _ :: b' => strip_prefix a' b'
  | _, _ => b
  end.
Definition relstr (p : path) : text := join_with [47%N] p.      (* "/".join(components) *)
