(* history._new_generation_filename and the recogniser of history.load_from_path (as repaired: re.DOTALL):
   NNNN_<folder>_<UTC stamp>.mhl, NNNN = generation number zero-padded to at least four digits; a file of the ascmhl
   folder is a manifest when its stem matches ^(\d{4,})(?:_(.+))?$ and its number is int() of the digits.
   Only ASCII digits are modelled (Python's \d and int() also take other decimal digits; the tool never writes them). *)
From MHL Require Export Model.Emit.
From MHL Require Import Gen.Generated.
Local Open Scope N_scope.

Definition is_digit (c : N) : bool := (48 <=? c) && (c <=? 57).
Fixpoint span_digits (s : text) : text * text :=
  match s with
  | c :: r => if is_digit c then let '(a, b) := span_digits r in (c :: a, b) else ([], s)
  | [] => ([], [])
  end.
(* f"{index:04d}" *)
Definition pad_number (n : N) : text :=
  let s := dec_of_N n in repeat 48 (generation_number_width - length s) ++ s.
Definition manifest_stem (n : N) (folder stamp : text) : text :=
  pad_number n ++ generation_name_sep ++ folder ++ generation_name_sep ++ stamp.
(* re.findall(history_file_name_regex, stem, re.DOTALL): the greedy \d{4,} can only end where the digits end (what
   follows a shorter run is a digit, which is neither "_" nor the end); then either the end (or one final line feed,
   which "$" tolerates) or "_" and at least one more character *)
Definition recognise (stem : text) : option N :=
  let '(ds, rest) := span_digits stem in
  if Nat.leb 4 (length ds) then
    match rest with
    | [] => N_of_dec ds
    | [10] => N_of_dec ds
    | 95 :: _ :: _ => N_of_dec ds
    | _ => None
    end
  else None.
