(* The commands over the tree model: create (folder / -sf), verify (folder / -sf), diff, verify -dh, info, flatten.
   Each returns the new tree and an observation (exit code or abort, reported path sets, generations written,
   file-system writes). *)
From MHL Require Export Model.Create.
From MHL Require Import Gen.Generated.

Section Commands.
  Variable Hb : fmt -> bytes -> bytes.
  Variable matches : list text -> text -> bool.
  Variable C : Type.
  Variable cdig : C -> text.
  Variable ser : gen -> C.

  Notation node := (node C).
  Notation load := (load C cdig).

  Inductive outcome := Exit (code : Z) | Abort.
  Inductive info_line := IHist (p : path) | IGen (n : N) | IFile (p : path) | IEntry (n : N) (f : fmt) (d : text) (a : option action).
  Record obs := mkObs {
    o_outcome : outcome;
    o_written : list (path * gen);
    o_missing : list path; o_mismatch : list path; o_new : list path;
    o_ops : list (N * path);
    o_info : list info_line }.
  Definition obs_exit (c : Z) : obs := mkObs (Exit c) [] [] [] [] [] [].

  Definition diff_paths (a b : list path) : list path := filter (fun p => negb (mem_path p b)) a.
  Definition sorted_paths (l : list path) : list path := sort path_leb l.

  (* ---- create, folder mode ---------------------------------------------------------------------------- *)
  Definition process_event (hs : list lhist) (fmts : list fmt) (no_dh : bool) (spec : list text) (t : node)
             (acc : session * nat) (e : ev) : session * nat :=
    let '(s, fails) := acc in
    match e with
    | EvFile p c => let '(s', n, _) := seal_file Hb hs fmts s p c in (s', fails + n)
    | EvDir p _ =>
        let es := match dir_entries Hb matches C no_dh spec fmts p t with Some es => es | None => [] end in
        (record_dir hs s p es, fails)
    end.

  (* folders of nested histories referenced by the latest generation of the root history that have no ascmhl
     folder any more *)
  Definition missing_history_folders (hs : list lhist) (t : node) : list path :=
    match rev (lh_gens (root_hist hs)) with
    | [] => []
    | g :: _ => filter (fun p => match get_hist C t p with Some _ => false | None => true end) (map fst (g_refs g))
    end.

  Definition create_folder (t : node) (req : list fmt) (no_dh : bool) (ipats ifile : list text) : node * obs :=
    match load t with
    | inr e => (t, obs_exit (load_err_code e))
    | inl hs =>
        let spec := set_patterns (latest_patterns (lh_gens (root_hist hs))) ipats (pattern_file_lines ifile) in
        let fmts := sort_fmts req in
        let evs := events matches C spec [] t in
        let '(sess, fails) := fold_left (process_event hs fmts no_dh spec t) evs ([], 0) in
        let cs := commit C cdig ser hs InPlace t sess spec in
        let miss := sorted_paths (missing matches spec (diff_paths (expected_paths hs) (visited evs))) in
        let out :=
          if cs_abort C cs then Abort
          else if Nat.ltb 0 fails then Exit exit_verification_failed
          else match miss with
               | _ :: _ => Exit exit_completeness
               | [] => match missing_history_folders hs t with
                       | _ :: _ => Exit exit_no_history
                       | [] => Exit 0
                       end
               end in
        (cs_tree C cs, mkObs out (cs_written C cs) (if cs_abort C cs then [] else miss) [] [] (cs_ops C cs) [])
    end.

  (* ---- create -sf --------------------------------------------------------------------------------------- *)
  Definition sf_files (spec : list text) (t : node) (p : path) : list (path * bytes) :=
    match get C t p with
    | Some (File c) => [(p, c)]
    | Some (Dir h kids) =>
        flat_map (fun e => match e with EvFile q c => [(q, c)] | EvDir _ _ => [] end)
                 (events matches C spec p (Dir h kids))
    | None => []
    end.
  Definition sf_step (hs : list lhist) (fmts : list fmt) (acc : session * nat * list path) (x : path * bytes) :=
    let '(s, fails, done) := acc in
    if mem_path (fst x) done then acc
    else let '(s', _, ok) := seal_file Hb hs fmts s (fst x) (snd x) in
         (s', if ok then fails else S fails, fst x :: done).
  Definition create_sf (t : node) (req : list fmt) (sf : list path) (ipats ifile : list text) : node * obs :=
    match load t with
    | inr e => (t, obs_exit (load_err_code e))
    | inl hs =>
        let spec := set_patterns (latest_patterns (lh_gens (root_hist hs))) ipats (pattern_file_lines ifile) in
        let fmts := sort_fmts req in
        let files := flat_map (sf_files spec t) sf in
        let '(sess, fails, _) := fold_left (sf_step hs fmts) files ([], 0, []) in
        let cs := commit C cdig ser hs InPlace t sess spec in
        let out := if cs_abort C cs then Abort
                   else if Nat.ltb 0 fails then Exit exit_verification_failed else Exit 0 in
        (cs_tree C cs, mkObs out (cs_written C cs) [] [] [] (cs_ops C cs) [])
    end.

  (* ---- verify / diff ------------------------------------------------------------------------------------ *)
  (* the walk back through previous paths, over the generations of the *root* history *)
  Definition prev_step (hrp : path) (g : gen) : path :=
    match find (fun r => path_eqb (r_path r) hrp) (g_records g) with
    | Some r => match r_prev r with Some q => q | None => hrp end
    | None => hrp
    end.
  Record vstate := mkVS { vs_new : list path; vs_bad : list path; vs_found : bool }.
  Definition verify_file (hs : list lhist) (hash : bool) (only : option path) (acc : vstate) (x : path * bytes) : vstate :=
    let '(p, c) := x in
    let sel := match only with Some q => path_eqb p q | None => true end in
    if negb sel then acc else
    let h := route hs (root_hist hs) p in
    let rel := fold_left prev_step (lh_gens (root_hist hs)) (strip_prefix (lh_root h) p) in
    match find_original (lh_gens h) rel with
    | None => mkVS (vs_new acc ++ [p]) (vs_bad acc) (vs_found acc)
    | Some e =>
        if hash then
          if text_eqb (e_digest e) (digest_text Hb (e_fmt e) c)
          then mkVS (vs_new acc) (vs_bad acc) true
          else mkVS (vs_new acc) (vs_bad acc ++ [p]) true
        else acc
    end.
  Definition ev_files (evs : list ev) : list (path * bytes) :=
    flat_map (fun e => match e with EvFile p c => [(p, c)] | EvDir _ _ => [] end) evs.

  Definition verify_like (is_diff : bool) (t : node) (only : option path) (ipats ifile : list text) : node * obs :=
    match load t with
    | inr e => (t, obs_exit (load_err_code e))
    | inl hs =>
        match lh_gens (root_hist hs) with
        | [] => (t, obs_exit exit_no_history)
        | _ =>
            let spec := set_patterns (latest_patterns (lh_gens (root_hist hs))) ipats (pattern_file_lines ifile) in
            let evs := events matches C spec [] t in
            let vs := fold_left (verify_file hs (negb is_diff) only) (ev_files evs) (mkVS [] [] false) in
            let miss := sorted_paths (missing matches spec (diff_paths (expected_paths hs) (visited evs))) in
            let code :=
              if is_diff then
                match miss, vs_new vs with
                | _ :: _, _ => exit_completeness
                | [], _ :: _ => exit_new_files_found
                | [], [] => 0%Z
                end
              else
                match vs_bad vs, vs_new vs with
                | _ :: _, _ => exit_verification_failed
                | [], _ :: _ => exit_new_files_found
                | [], [] => match only, vs_found vs with
                            | Some _, false => exit_single_file_not_found
                            | _, _ => match miss with _ :: _ => exit_completeness | [] => 0%Z end
                            end
                end in
            (t, mkObs (Exit code) [] miss (sorted_paths (vs_bad vs)) (sorted_paths (vs_new vs)) [] [])
        end
    end.
End Commands.
