(* The commands over the tree model: create (folder / -sf), verify (folder / -sf), diff, verify -dh, info, flatten.
   Each returns the new tree and an observation (exit code or abort, reported path sets, generations written,
   file-system writes). *)
From MHL Require Export Model.Create.
From MHL Require Import Gen.Generated.

Section Commands.
  Variable Hb : fmt -> bytes -> bytes.
  Variable matches : list text -> text -> bool.
  Variable C : Type.
  Variable cdig : C -> text.
  Variable ser : gen -> C.

  Notation node := (node C).
  Notation load := (load C cdig).

  Inductive outcome := Exit (code : Z) | Abort.
  Inductive info_line := IHist (p : path) | IGen (n : N) | IFile (p : path) | IEntry (n : N) (f : fmt) (d : text) (a : option action).
  Record obs := mkObs {
    o_outcome : outcome;
    o_written : list (path * gen);
    o_missing : list path; o_mismatch : list path; o_new : list path;
    o_ops : list (N * path);
    o_info : list info_line;
    o_dh : list (path * fmt * text * text) }.      (* verify -dh: calculated (folder, format, content, structure) *)
  Definition obs_exit (c : Z) : obs := mkObs (Exit c) [] [] [] [] [] [] [].

  Definition diff_paths (a b : list path) : list path := filter (fun p => negb (mem_path p b)) a.
  Definition sorted_paths (l : list path) : list path := sort path_leb l.

  (* ---- create, folder mode ---------------------------------------------------------------------------- *)
  Definition process_event (hs : list lhist) (fmts : list fmt) (no_dh : bool) (spec : list text) (t : node)
             (acc : session * nat) (e : ev) : session * nat :=
    let '(s, fails) := acc in
    match e with
    | EvFile p c => let '(s', n, _) := seal_file Hb hs fmts s p c in (s', fails + n)
    | EvDir p _ =>
        let es := match dir_entries Hb matches C no_dh spec fmts p t with Some es => es | None => [] end in
        (record_dir hs s p es, fails)
    end.

  (* folders of nested histories referenced by the latest generation of the root history that have no ascmhl
     folder any more *)
  Definition missing_history_folders (hs : list lhist) (t : node) : list path :=
    match rev (lh_gens (root_hist hs)) with
    | [] => []
    | g :: _ => filter (fun p => match get_hist C t p with Some _ => false | None => true end) (map fst (g_refs g))
    end.

  (* ---- rename detection (create -dr) -------------------------------------------------------------------- *)
  (* new_paths: a visited entry is "new" when some generation of the ROOT history has no record under its path
     (for ... else over the generations, as the code is written) *)
  Definition new_paths (hs : list lhist) (evs : list ev) : list path :=
    filter (fun p => existsb (fun g => negb (existsb (fun r => path_eqb (r_path r) p) (g_records g))) (lh_gens (root_hist hs)))
           (visited evs).
  (* the record the session holds for a path: first history (insertion order) whose new list has one *)
  Fixpoint sess_find (s : session) (p : path) : option (path * record) :=
    match s with
    | [] => None
    | (hroot, nl) :: s' =>
        let here := if is_prefix hroot p
                    then match strip_prefix hroot p with
                         | [] => nl_root nl
                         | rel => find (fun r => path_eqb (r_path r) rel) (nl_records nl)
                         end
                    else None in
        match here with Some r => Some (hroot, r) | None => sess_find s' p end
    end.
  Definition set_prev (r : record) (prev : path) : record := mkRecord (r_path r) (r_dir r) (r_size r) (r_entries r) (Some prev).
  Definition nl_set_prev (nl : newlist) (rel prev : path) : newlist :=
    match rel with
    | [] => mkNewlist (nl_records nl) (option_map (fun r => set_prev r prev) (nl_root nl))
    | _ => mkNewlist (map (fun r => if path_eqb (r_path r) rel then set_prev r prev else r) (nl_records nl)) (nl_root nl)
    end.
  Fixpoint sess_set_prev (s : session) (h rel prev : path) : session :=
    match s with
    | [] => []
    | (k, nl) :: s' => if path_eqb k h then (k, nl_set_prev nl rel prev) :: s' else (k, nl) :: sess_set_prev s' h rel prev
    end.
  Definition parent_of (hs : list lhist) (hroot : path) : option path :=
    match find (fun h => path_eqb (lh_root h) hroot) hs with Some h => lh_parent h | None => None end.

  Record dr_state := mkDR { dr_sess : session; dr_found : list path; dr_abort : bool }.
  Definition dr_step (hs : list lhist) (t : node) (np : path) (st : dr_state) (nf : path) : dr_state :=
    if dr_abort st then st else
    let hnf := route hs (root_hist hs) nf in
    let relnf := strip_prefix (lh_root hnf) nf in
    match find_first_any (lh_gens hnf) relnf with
    | None => st                                  (* nothing to compare (a folder recorded without hashes): skipped, as repaired *)
    | Some nfe =>
        match sess_find (dr_sess st) np with
        | None => mkDR (dr_sess st) (dr_found st) true
        | Some (hr, r) =>
            match find (fun e => fmt_eqb (e_fmt e) (e_fmt nfe)) (r_entries r) with
            | Some e =>
                if text_eqb (e_digest e) (e_digest nfe) then
                  let s' := match r_path r with
                            | [] => match parent_of hs hr with
                                    | Some par => sess_set_prev (dr_sess st) par (strip_prefix par np) relnf
                                    | None => dr_sess st
                                    end
                            | rel => sess_set_prev (dr_sess st) hr rel relnf
                            end in
                  mkDR s' (nf :: dr_found st) false
                else st
            | None =>
                match get C t np with
                | Some (File c) =>
                    if text_eqb (digest_text Hb (e_fmt nfe) c) (e_digest nfe)
                    then mkDR (sess_set_prev (dr_sess st) hr (r_path r) relnf) (nf :: dr_found st) false
                    else st
                | _ => st                                                            (* a new folder: skipped *)
                end
            end
        end
    end.
  Definition detect_renames (hs : list lhist) (t : node) (sess : session) (newp nfp : list path) : dr_state :=
    fold_left (fun st np => fold_left (dr_step hs t np) nfp st) newp (mkDR sess [] false).

  Definition create_folder (t : node) (req : list fmt) (no_dh dr : bool) (ipats ifile : list text) : node * obs :=
    match load t with
    | inr e => (t, obs_exit (load_err_code e))
    | inl hs =>
        let spec := set_patterns (latest_patterns (lh_gens (root_hist hs))) ipats (pattern_file_lines ifile) in
        let fmts := sort_fmts req in
        let evs := events matches C spec [] t in
        let '(sess0, fails) := fold_left (process_event hs fmts no_dh spec t) evs ([], 0) in
        let nf_raw := diff_paths (expected_paths hs) (visited evs) in
        let drs := if dr then detect_renames hs t sess0 (sorted_paths (new_paths hs evs)) (sorted_paths nf_raw)
                   else mkDR sess0 [] false in
        let sess := dr_sess drs in
        let cs := commit C cdig ser hs InPlace t sess spec in
        let miss := sorted_paths (missing matches spec (diff_paths nf_raw (dr_found drs))) in
        let aborted := cs_abort C cs || dr_abort drs in
        let out :=
          if aborted then Abort
          else if Nat.ltb 0 fails then Exit exit_verification_failed
          else match miss with
               | _ :: _ => Exit exit_completeness
               | [] => match missing_history_folders hs t with
                       | _ :: _ => Exit exit_no_history
                       | [] => Exit 0
                       end
               end in
        (if dr_abort drs then t else cs_tree C cs,
         mkObs out (if dr_abort drs then [] else cs_written C cs) (if aborted then [] else miss) [] [] (if dr_abort drs then [] else cs_ops C cs) [] [])
    end.

  (* ---- create -sf --------------------------------------------------------------------------------------- *)
  Definition sf_files (spec : list text) (t : node) (p : path) : list (path * bytes) :=
    match get C t p with
    | Some (File c) => [(p, c)]
    | Some (Dir h kids) =>
        flat_map (fun e => match e with EvFile q c => [(q, c)] | EvDir _ _ => [] end)
                 (events matches C spec p (Dir h kids))
    | None => []
    end.
  Definition sf_step (hs : list lhist) (fmts : list fmt) (acc : session * nat * list path) (x : path * bytes) :=
    let '(s, fails, done) := acc in
    if mem_path (fst x) done then acc
    else let '(s', _, ok) := seal_file Hb hs fmts s (fst x) (snd x) in
         (s', if ok then fails else S fails, fst x :: done).
  Definition create_sf (t : node) (req : list fmt) (sf : list path) (ipats ifile : list text) : node * obs :=
    match load t with
    | inr e => (t, obs_exit (load_err_code e))
    | inl hs =>
        let spec := set_patterns (latest_patterns (lh_gens (root_hist hs))) ipats (pattern_file_lines ifile) in
        let fmts := sort_fmts req in
        let files := flat_map (sf_files spec t) sf in
        let '(sess, fails, _) := fold_left (sf_step hs fmts) files ([], 0, []) in
        let cs := commit C cdig ser hs InPlace t sess spec in
        let out := if cs_abort C cs then Abort
                   else if Nat.ltb 0 fails then Exit exit_verification_failed else Exit 0 in
        (cs_tree C cs, mkObs out (cs_written C cs) [] [] [] (cs_ops C cs) [] [])
    end.

  (* ---- verify / diff ------------------------------------------------------------------------------------ *)
  (* the walk back through previous paths, over the generations of the *root* history *)
  Definition prev_step (hrp : path) (g : gen) : path :=
    match find (fun r => path_eqb (r_path r) hrp) (g_records g) with
    | Some r => match r_prev r with Some q => q | None => hrp end
    | None => hrp
    end.
  Record vstate := mkVS { vs_new : list path; vs_bad : list path; vs_found : bool }.
  Definition verify_file (hs : list lhist) (hash : bool) (only : option path) (acc : vstate) (x : path * bytes) : vstate :=
    let '(p, c) := x in
    let sel := match only with Some q => path_eqb p q | None => true end in
    if negb sel then acc else
    let h := route hs (root_hist hs) p in
    let rel := fold_left prev_step (lh_gens (root_hist hs)) (strip_prefix (lh_root h) p) in
    match find_original (lh_gens h) rel with
    | None => mkVS (vs_new acc ++ [p]) (vs_bad acc) (vs_found acc)
    | Some e =>
        if hash then
          if text_eqb (e_digest e) (digest_text Hb (e_fmt e) c)
          then mkVS (vs_new acc) (vs_bad acc) true
          else mkVS (vs_new acc) (vs_bad acc ++ [p]) true
        else acc
    end.
  Definition ev_files (evs : list ev) : list (path * bytes) :=
    flat_map (fun e => match e with EvFile p c => [(p, c)] | EvDir _ _ => [] end) evs.

  (* verify_entire_folder / diff_entire_folder_against_full_history_subcommand once the history is there: `hs` is what
     MHLHistory.load_from_path -- or load_from_packing_list_path -- returned *)
  Definition verify_core (hs : list lhist) (is_diff : bool) (t : node) (only : option path) (ipats ifile : list text) : node * obs :=
        match lh_gens (root_hist hs) with
        | [] => (t, obs_exit exit_no_history)
        | _ =>
            let spec := set_patterns (latest_patterns (lh_gens (root_hist hs))) ipats (pattern_file_lines ifile) in
            let evs := events matches C spec [] t in
            let vs := fold_left (verify_file hs (negb is_diff) only) (ev_files evs) (mkVS [] [] false) in
            let miss := sorted_paths (missing matches spec (diff_paths (expected_paths hs) (visited evs))) in
            let code :=
              if is_diff then
                match miss, vs_new vs with
                | _ :: _, _ => exit_completeness
                | [], _ :: _ => exit_new_files_found
                | [], [] => 0%Z
                end
              else
                match vs_bad vs, vs_new vs with
                | _ :: _, _ => exit_verification_failed
                | [], _ :: _ => exit_new_files_found
                | [], [] => match only, vs_found vs with
                            | Some _, false => exit_single_file_not_found
                            | _, _ => match miss with _ :: _ => exit_completeness | [] => 0%Z end
                            end
                end in
            (t, mkObs (Exit code) [] miss (sorted_paths (vs_bad vs)) (sorted_paths (vs_new vs)) [] [] [])
        end.
  Definition verify_like (is_diff : bool) (t : node) (only : option path) (ipats ifile : list text) : node * obs :=
    match load t with
    | inr e => (t, obs_exit (load_err_code e))
    | inl hs => verify_core hs is_diff t only ipats ifile
    end.

  (* ---- verify -dh ------------------------------------------------------------------------------------- *)
  Definition root_formats (gens : list gen) : list fmt :=
    flat_map (fun g => match g_root g with Some es => map e_fmt es | None => [] end) gens.
  (* the formats the result is judged by: the given one, else those of the root history's root hashes, else c4 *)
  Definition dh_judged (hs : list lhist) (ofmt : option fmt) : list fmt :=
    match ofmt with
    | Some f => [f]
    | None =>
        match dedup_fmts (root_formats (lh_gens (root_hist hs))) with
        | [] => match fmt_of_name dh_default_format with Some f => [f] | None => [] end
        | fs => fs
        end
    end.
  (* the formats that are calculated: additionally those recorded by nested histories *)
  Definition dh_formats (hs : list lhist) (ofmt : option fmt) : list fmt :=
    match ofmt with
    | Some f => [f]
    | None => dedup_fmts (dh_judged hs ofmt ++ flat_map (fun h => root_formats (lh_gens h)) hs)
    end.
  Definition dh_entry_ok (e : entry) (cs : text * text) : bool :=
    text_eqb (e_digest e) (fst cs) && match e_struct e with Some s => text_eqb s (snd cs) | None => false end.
  (* formats of the recorded entries of one folder that do not match what is calculated now *)
  Definition dh_failures (spec : list text) (fmts : list fmt) (t : node) (p : path) (es : list entry) : list fmt :=
    flat_map (fun e => if memf (e_fmt e) fmts then
                         match get C t p with
                         | Some d => match dirhash Hb matches C spec (e_fmt e) p d with
                                     | Some cs => if dh_entry_ok e cs then [] else [e_fmt e]
                                     | None => [e_fmt e]
                                     end
                         | None => [e_fmt e]
                         end
                       else []) es.
  Definition ev_dirs (evs : list ev) : list path :=
    flat_map (fun e => match e with EvDir _ kids => map fst (filter snd kids) | EvFile _ _ => [] end) evs.

  Definition verify_dh (t : node) (ofmt : option fmt) (co ro : bool) (ipats ifile : list text) : node * obs :=
    match load t with
    | inr e => (t, obs_exit (load_err_code e))
    | inl hs =>
        let rooth := root_hist hs in
        let spec := set_patterns (latest_patterns (lh_gens rooth)) ipats (pattern_file_lines ifile) in
        let fmts := sort_fmts (dh_formats hs ofmt) in
        let evs := events matches C spec [] t in
        let sub_fail :=
          if ro then []
          else flat_map (fun p => let h := route hs rooth p in
                                  dh_failures spec fmts t p
                                    (map snd (find_directory_entries (lh_gens h) (strip_prefix (lh_root h) p))))
                        (ev_dirs evs) in
        let root_fail :=
          if co then []
          else dh_failures spec fmts t []
                 (flat_map (fun g => match g_root g with Some es => es | None => [] end) (lh_gens rooth)) in
        let failed := dedup_fmts (sub_fail ++ root_fail) in
        let code := match failed with
                    | [] => 0%Z
                    | _ => if forallb (fun f => memf f failed) (dh_judged hs ofmt)
                           then exit_verification_directories_failed else 0%Z
                    end in
        let calc := flat_map (fun p => flat_map (fun f => match get C t p with
                                                          | Some d => match dirhash Hb matches C spec f p d with
                                                                      | Some cs => [(p, f, fst cs, snd cs)]
                                                                      | None => []
                                                                      end
                                                          | None => []
                                                          end) fmts)
                             (flat_map (fun e => match e with EvDir p _ => [p] | EvFile _ _ => [] end) evs) in
        (t, mkObs (Exit code) [] [] [] [] [] [] calc)
    end.

  (* ---- info -------------------------------------------------------------------------------------------- *)
  (* log_child_histories: generations of the history, then each direct child history, recursively; fuel bounds
     the nesting depth (the list of loaded histories is finite, so length hs always suffices) *)
  Fixpoint info_lines (fuel : nat) (hs : list lhist) (h : lhist) : list info_line :=
    match fuel with
    | O => []
    | S k =>
        map (fun g => IGen (g_no g)) (lh_gens h)
        ++ flat_map (fun c => match lh_parent c with
                              | Some par => if path_eqb par (lh_root h) && negb (path_eqb (lh_root c) (lh_root h))
                                            then IHist (lh_root c) :: info_lines k hs c else []
                              | None => []
                              end) hs
    end.
  Definition info (t : node) : node * obs :=
    match load t with
    | inr e => (t, obs_exit (load_err_code e))
    | inl hs =>
        match lh_gens (root_hist hs) with
        | [] => (t, mkObs (Exit exit_no_history) [] [] [] [] [] [IHist []] [])
        | _ => (t, mkObs (Exit 0) [] [] [] [] [] (IHist [] :: info_lines (S (length hs)) hs (root_hist hs)) [])
        end
    end.
  (* info -sf FILE with the root given: one line per entry recorded for the path in the root history *)
  Definition info_sf (t : node) (file : path) : node * obs :=
    match load t with
    | inr e => (t, obs_exit (load_err_code e))
    | inl hs =>
        match lh_gens (root_hist hs) with
        | [] => (t, mkObs (Exit exit_no_history) [] [] [] [] [] [IHist []] [])
        | gens =>
            (t, mkObs (Exit 0) [] [] [] [] []
                      (IHist [] :: IFile file ::
                       flat_map (fun g => match find_media_hash g file with
                                          | Some r => map (fun e => IEntry (g_no g) (e_fmt e) (e_digest e) (e_action e)) (r_entries r)
                                          | None => []
                                          end) gens) [])
        end
    end.

  (* ---- flatten ----------------------------------------------------------------------------------------- *)
  Definition flatten_entry (acc : list record) (r : record) (e : entry) : list record :=
    match e_action e with
    | Some Failed => acc
    | _ =>
        match find_last (fun x => rec_keys_match x (r_path r)) acc with
        | None => add_entries acc (r_path r) false (r_size r) [e]
        | Some found =>
            if existsb (fun x => fmt_eqb (e_fmt x) (e_fmt e)) (r_entries found) then acc
            else add_entries acc (r_path found) false (r_size r) [e]
        end
    end.
  Definition flatten_records (gens : list gen) : list record :=
    fold_left (fun acc g => fold_left (fun acc2 r => if r_dir r then acc2 else fold_left (fun a e => flatten_entry a r e) (r_entries r) acc2)
                                      (g_records g) acc) gens [].
  Definition flatten (t : node) (ipats ifile : list text) : node * obs :=
    match load t with
    | inr e => (t, obs_exit (load_err_code e))
    | inl hs =>
        match lh_gens (root_hist hs) with
        | [] => (t, obs_exit exit_no_history)
        | gens =>
            let spec := set_patterns (latest_patterns gens) ipats (pattern_file_lines ifile) in
            let recs := map (readback_record) (flatten_records gens) in
            let doc := mkGen 1 recs None (readback_patterns (set_patterns [] spec [])) [] Flatten in
            (* the collection's hash list only comes into being with its first entry *)
            (t, mkObs (Exit 0) (match recs with [] => [] | _ => [([], doc)] end) [] [] [] [] [] [])
        end
    end.

  (* ---- verify -pl: the packing list (a flattened manifest) is loaded as a history of one generation numbered 1, at
     the root, without child histories and without a chain (MHLHistory.load_from_packing_list_path).  `pl` is the
     generation as it reads back; None = the file does not exist (click refuses the option value). *)
  Definition pl_history (pl : gen) : lhist :=
    mkLhist [] None [mkGen 1 (g_records pl) (g_root pl) (g_patterns pl) (g_refs pl) (g_process pl)] [] true.
  Definition verify_pl (t : node) (pl : option gen) (ipats ifile : list text) : node * obs :=
    match pl with
    | None => (t, obs_exit 2)
    | Some g => verify_core [pl_history g] false t None ipats ifile
    end.
End Commands.
