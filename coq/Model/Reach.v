(* C11, second half: the invariants of the objects the tool hands to its two writers, as EXECUTABLE boolean predicates
   on the object model of Model/Emit.v.  `reach o = true` / `reach_chain c = true` are the hypotheses of
   C11_manifest_valid / C11_chain_valid (Props/C11.v); the same functions are extracted and evaluated on every object the
   real tool writes (harness/vh/props/c11.py), so a clause that does not describe the tool shows up as a disagreement.

   Every clause names the part of the published schema that needs it (I1..I10 as in the first delivery's report).
   Nothing is required that the schema does not need: a path / host name / digest may be any text (xs:string), a
   reference needs no condition at all. *)
From Coq Require Import String.
From MHL Require Export Model.Read Model.Schema.
Local Open Scope string_scope.
Local Open Scope list_scope.
Local Open Scope N_scope.

(* ---- I2 / I3 / I4: format elements ------------------------------------------------------------------------------
   <hash>, <content>, <structure> contain the sequence  c4? md5? sha1? xxh128? xxh3? xxh64?  -- each at most once, in
   this (alphabetical) order, nothing else.  A list of format names fits iff it is a SUBSEQUENCE of that list, i.e. iff
   it is sorted by code point, free of duplicates and uses only the six names (xxh32 is not in the schema). *)
Definition schema_format_order : list text := [t "c4"; t "md5"; t "sha1"; t "xxh128"; t "xxh3"; t "xxh64"].
Fixpoint subseq (l slots : list text) : bool :=
  match slots with
  | [] => match l with [] => true | _ => false end
  | n :: slots' =>
      match l with
      | [] => true
      | x :: l' => if text_eqb x n then subseq l' slots' else subseq l slots'
      end
  end.
Definition fmts_ok (names : list text) : bool := subseq names schema_format_order.

(* ---- I7: dates ---------------------------------------------------------------------------------------------------
   hashdate / lastmodificationdate are datetime objects printed by utils.datetime_isostring: a real calendar date of
   the years 1..9999 and a utc offset (whole minutes by the type of dt_off) within xs:dateTime's +-14:00.
   FALSE for zones in local mean time (offset with seconds): such a date is not even representable here, the harness
   reports it as a violation of this clause (known finding xsd-invalid:lmt-offset). *)
Definition xdate_ok (d : xdate) : bool :=
  (1 <=? dt_y d) && (dt_y d <=? 9999) && (1 <=? dt_mo d) && (dt_mo d <=? 12)
  && (1 <=? dt_d d) && (dt_d d <=? days_in_month (dt_y d) (dt_mo d))
  && (dt_h d <=? 23) && (dt_mi d <=? 59) && (dt_s d <=? 59) && (dt_us d <=? 999999)
  && (Z.abs_N (dt_off d) <=? 840).
Definition opt_xdate_ok (d : option xdate) : bool := match d with Some x => xdate_ok x | None => true end.

(* ---- I5: action attribute: absent (None or the empty string: `if hash_entry.action:`) or one of the enumeration ---- *)
Definition schema_actions : list text := [t "original"; t "verified"; t "failed"].
Definition action_ok (a : option text) : bool :=
  match truthy_text a with Some x => mem_text x schema_actions | None => true end.

Definition entry_reach (e : xentry) : bool := action_ok (xe_action e) && opt_xdate_ok (xe_date e).

(* ---- I9: numbers: str(n) has at most 24 digits (the bound of the validator / libxml2; 2^64 has 20) ---------------- *)
Definition size_ok (n : N) : bool := (length (dec_of_N n) <=? 24)%nat.
Definition opt_size_ok (s : option N) : bool := match s with Some n => size_ok n | None => true end.

(* ---- records ------------------------------------------------------------------------------------------------------
   file record:      the writer sorts the entries by format name (I2): the SORTED name list must fit the six slots
   directory record: entries are written in object order (I4: the request list is sorted by commands.py): the name
                     list itself must fit; the <path> of a <directoryhash> has NO size attribute in the schema and the
                     writer emits one whenever file_size is non-zero: the size must be None or 0 (I10; the tool never
                     sets it) *)
Definition record_reach (r : xrecord) : bool :=
  forallb entry_reach (xr_entries r) && opt_xdate_ok (xr_lastmod r)
  && (if xr_dir r
      then fmts_ok (map xe_fmt (xr_entries r)) && is_none (truthy_N (xr_size r))
      else fmts_ok (map xe_fmt (sort_entries (xr_entries r))) && opt_size_ok (xr_size r)).
(* <roothash>: written only when the object has entries; no <path>, so no size / date; the schema has no <previousPath>
   there while the writer would emit one: the root object has no previous path (I10) *)
Definition root_reach (r : xrecord) : bool :=
  forallb entry_reach (xr_entries r) && fmts_ok (map xe_fmt (xr_entries r)) && is_none (truthy_text (xr_prev r)).

(* ---- <creatorinfo>: creationdate is a STRING in the object (utils.datetime_now_isostring()): it must be what
   iso_format prints for a date satisfying I7; the e-mail (when given) must match the schema's pattern -- the property
   text restricts the caller to syntactically valid e-mails ------------------------------------------------------- *)
Definition date_text_ok (s : text) : bool :=
  match iso_parse s with
  | Some d => xdate_ok d && text_eqb s (iso_format true d)
  | None => false
  end.
Definition author_reach (a : xauthor) : bool := match xa_email a with Some e => email_ok e | None => true end.
Definition creator_reach (c : xcreator) : bool :=
  match xc_date c with Some s => date_text_ok s | None => false end && forallb author_reach (xc_authors c).

(* ---- <processinfo>: the process type is one of the enumeration; I6: at least one ignore pattern (the element
   <ignore> is always written and must contain a <pattern>) -------------------------------------------------------- *)
Definition schema_process_types : list text := [t "in-place"; t "transfer"; t "flatten"].
Definition procinfo_reach (p : xprocinfo) : bool :=
  match xpi_process p with
  | Some x => match xp_type x with Some ty => mem_text ty schema_process_types | None => false end
  | None => false
  end
  && match xpi_root p with Some r => root_reach r | None => true end
  && match xpi_ignore p with Some (_ :: _) => true | _ => false end.

(* ---- the hash list: a creator info object exists (the writer would raise otherwise); I1 (no empty <hashes>) and
   "no empty <references>" are properties of emit_hashlist itself, not of the object ------------------------------- *)
Definition reach (o : xhashlist) : bool :=
  match xh_creator o with Some c => creator_reach c | None => false end
  && procinfo_reach (xh_process o)
  && forallb record_reach (xh_records o).

(* ---- chain file: at least one generation (write_chain always appends the new one); every entry is a c4 entry
   (anything else is written as an empty <hashlist/>); the sequence number prints as an xs:integer ------------------ *)
Definition decimal_ok (s : text) : bool :=
  negb (Nat.eqb (length s) 0) && forallb is_digit s && (length s <=? 24)%nat.
Definition seq_ok (s : xseq) : bool :=
  match s with
  | SeqInt z => size_ok (Z.abs_N z)
  | SeqStr x => decimal_ok x
  | SeqNone => false
  end.
Definition chainent_reach (e : xchainent) : bool := opt_text_is (ce_fmt e) s_c4 && seq_ok (ce_no e).
Definition reach_chain (c : xchain) : bool := match c with [] => false | _ => forallb chainent_reach c end.
