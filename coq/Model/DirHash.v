(* hasher.py: hash_of_hash_list and DirectoryHashContext -- the compositional directory hashes *)
From MHL Require Export Model.Stream.

Section DirHash.
  Variable Hb : fmt -> bytes -> bytes.

  Fixpoint dec_all (f : fmt) (ds : list text) : option bytes :=
    match ds with
    | [] => Some []
    | d :: ds' => match dec f d, dec_all f ds' with
                  | Some b, Some r => Some (b ++ r)
                  | _, _ => None
                  end
    end.

  (* Hasher.hash_of_hash_list: empty list -> digest of nothing; else sort the *texts*, decode, feed in order.
     None = bytes_from_string_digest raised (malformed digest text) *)
  Definition hash_of_hash_list (f : fmt) (ds : list text) : option text :=
    match dec_all f (sort_text ds) with
    | Some b => Some (digest_text Hb f b)
    | None => None
    end.

  (* DirectoryHashContext.append_file_hash / append_directory_hashes: name bytes ++ decoded digest *)
  Definition structure_item (f : fmt) (name : text) (d : text) : option text :=
    match dec f d with
    | Some b => Some (hash_data Hb f (utf8 name ++ b))
    | None => None
    end.
End DirHash.
