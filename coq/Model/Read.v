(* The two event-driven readers, hashlist_xml_parser.parse and chain_xml_parser.parse, as state machines over the
   start/end event list of an XML tree (what etree.iterparse(file, events=("start", "end")) delivers), and the
   well-formedness / canonical-form functions of the round-trip theorems (Props/C10.v).

   TRUSTED PREMISE (not modelled: etree.tostring, the "\n"-only indentation of _write_xml_string_to_file, UTF-8, the
   libxml2 parser):  for every tree x whose tags, attribute names, attribute values and texts consist of code points
   in `char_ok` (XML 1.0 Char minus Unicode category Cc, plus TAB and LINE FEED -- a line feed inside a text is written
   as the character reference &#10; since the fix "write line feeds inside texts as character references"), iterparse over the file the writer produces for x
   delivers exactly `events x`: the same elements in document order, attributes in the order they were set, text
   unchanged except that an empty text is reported as None (`node_text`), and whitespace-only text only in elements
   that have children (never inspected by the readers).  The correspondence run of harness/vh/props/c10.py is what
   supports this premise (tree the model emits == tree ElementTree/expat sees in the file; object the real reader
   returns == read (emit o)).

   A result None of a reader function stands for "the Python code raises". *)
From Coq Require Import String Ascii.
From MHL Require Export Model.Emit.
From MHL Require Import Gen.Generated.
Local Open Scope N_scope.

(* ---- domain of the trusted premise ------------------------------------------------------------------- *)
Definition char_ok (c : N) : bool :=
  (c =? 9) || (c =? 10) || ((32 <=? c) && (c <=? 126)) || ((160 <=? c) && (c <=? 55295))
  || ((57344 <=? c) && (c <=? 65533)) || ((65536 <=? c) && (c <=? 1114111)).
Definition text_ok (s : text) : bool := forallb char_ok s.
Fixpoint tree_ok (x : xml) : bool :=
  match x with
  | Elem tg a c k =>
      text_ok tg && forallb (fun kv => text_ok (fst kv) && text_ok (snd kv)) a
      && match c with Some s => text_ok s | None => true end
      && (fix all (l : list xml) := match l with [] => true | y :: l' => tree_ok y && all l' end) k
  end.

(* ---- events ------------------------------------------------------------------------------------------ *)
Inductive event :=
| EvStart (tag : text)
| EvEnd (tag : text) (attrs : list (text * text)) (txt : option text).

(* XML has no empty text node: <a></a> and <a/> are the same element, element.text is None *)
Definition node_text (c : option text) : option text := match c with Some [] => None | _ => c end.

Fixpoint events (x : xml) : list event :=
  match x with
  | Elem tg a c k =>
      EvStart tg
      :: (fix go (l : list xml) : list event := match l with [] => [] | y :: l' => events y ++ go l' end) k
      ++ [EvEnd tg a (node_text c)]
  end.

(* ---- tag dispatch ------------------------------------------------------------------------------------ *)
(* `tag == "..."` / `tag in ascmhl_supported_hashformats`.  The literal tags are tested first; no supported format
   name equals one of them except "c4" (the <c4> child of a reference), which is classified as a format and
   re-tested by name where the code does (ReadFacts.supported_not_literal) *)
Inductive tagk :=
| KCreatorinfo | KProcessinfo | KHash | KDirectoryhash | KHashlistreference | KIgnore | KRoothash | KAuthor
| KStructure | KContent | KCreationdate | KTool | KHostname | KLocation | KComment | KName | KRole | KEmail | KPhone
| KProcess | KPattern | KPath | KPreviousPath | KHashlist | KFmt | KOther.
Definition classify (tag : text) : tagk :=
  if text_eqb tag s_creatorinfo then KCreatorinfo else if text_eqb tag s_processinfo then KProcessinfo
  else if text_eqb tag s_hash then KHash else if text_eqb tag s_directoryhash then KDirectoryhash
  else if text_eqb tag s_hashlistreference then KHashlistreference else if text_eqb tag s_ignore then KIgnore
  else if text_eqb tag s_roothash then KRoothash else if text_eqb tag s_author then KAuthor
  else if text_eqb tag s_structure then KStructure else if text_eqb tag s_content then KContent
  else if text_eqb tag s_creationdate then KCreationdate else if text_eqb tag s_tool then KTool
  else if text_eqb tag s_hostname then KHostname else if text_eqb tag s_location then KLocation
  else if text_eqb tag s_comment then KComment else if text_eqb tag s_name then KName
  else if text_eqb tag s_role then KRole else if text_eqb tag s_email then KEmail
  else if text_eqb tag s_phone then KPhone else if text_eqb tag s_process then KProcess
  else if text_eqb tag s_pattern then KPattern else if text_eqb tag s_path then KPath
  else if text_eqb tag s_previousPath then KPreviousPath else if text_eqb tag s_hashlist then KHashlist
  else if mem_text tag supported_hashformats then KFmt else KOther.

(* ---- dateutil.parser.parse on the strings isoformat() produces --------------------------------------- *)
(* YYYY-MM-DDTHH:MM:SS[.ffffff](+|-)HH:MM ; anything else: None.  (dateutil accepts far more; only strings written
   by iso_format reach it in the domain of the theorems, and the correspondence run compares on those) *)
Definition dig (c : N) : option N := if (48 <=? c) && (c <=? 57) then Some (c - 48) else None.
Definition p2 (a b : N) : option N :=
  match dig a, dig b with Some x, Some y => Some (10 * x + y) | _, _ => None end.
Definition p4 (a b c d : N) : option N :=
  match p2 a b, p2 c d with Some x, Some y => Some (100 * x + y) | _, _ => None end.
Definition p6 (a b c d e f : N) : option N :=
  match p2 a b, p2 c d, p2 e f with Some x, Some y, Some z => Some (10000 * x + 100 * y + z) | _, _, _ => None end.
Definition iso_parse_offset (s : text) : option Z :=
  match s with
  | [sg; a; b; co; c; d] =>
      match p2 a b, p2 c d with
      | Some hh, Some mm =>
          if negb (co =? 58) then None
          else if sg =? 43 then Some (Z.of_N (hh * 60 + mm))
          else if sg =? 45 then Some (- Z.of_N (hh * 60 + mm))%Z
          else None
      | _, _ => None
      end
  | _ => None
  end.
Definition iso_parse (s : text) : option xdate :=
  match s with
  | y1 :: y2 :: y3 :: y4 :: c1 :: m1 :: m2 :: c2 :: e1 :: e2 :: c3 :: h1 :: h2 :: k4 :: i1 :: i2 :: c5 :: s1 :: s2 :: rest =>
      if (c1 =? 45) && (c2 =? 45) && (c3 =? 84) && (k4 =? 58) && (c5 =? 58) then
        match p4 y1 y2 y3 y4, p2 m1 m2, p2 e1 e2, p2 h1 h2, p2 i1 i2, p2 s1 s2 with
        | Some y, Some mo, Some d, Some h, Some mi, Some sec =>
            match rest with
            | c6 :: u1 :: u2 :: u3 :: u4 :: u5 :: u6 :: rest' =>
                if c6 =? 46 then
                  match p6 u1 u2 u3 u4 u5 u6, iso_parse_offset rest' with
                  | Some us, Some off => Some (mkXDate y mo d h mi sec us off)
                  | _, _ => None
                  end
                else option_map (mkXDate y mo d h mi sec 0) (iso_parse_offset rest)
            | _ => option_map (mkXDate y mo d h mi sec 0) (iso_parse_offset rest)
            end
        | _, _, _, _, _, _ => None
        end
      else None
  | _ => None
  end.

(* ---- MHLIgnoreSpec(existing_pattern_list) on the texts the reader collected --------------------------- *)
Definition opt_text_eqb (a b : option text) : bool :=
  match a, b with Some x, Some y => text_eqb x y | None, None => true | _, _ => false end.
(* self._ignore_list.extend(line for line in patterns if line not in self._ignore_list), cf. Model/Ignore.v *)
Fixpoint append_opatterns (acc ps : list (option text)) : list (option text) :=
  match ps with
  | [] => acc
  | p :: ps' => if existsb (opt_text_eqb p) acc then append_opatterns acc ps' else append_opatterns (acc ++ [p]) ps'
  end.
Definition ignore_spec_of (existing : list (option text)) : list (option text) :=
  append_opatterns [] (match existing with [] => map Some default_ignore | _ => existing end).

(* ---- reader state of hashlist_xml_parser.parse -------------------------------------------------------- *)
Inductive cur :=                            (* current_object, by its Python type *)
| CNone
| CCreator (c : xcreator)
| CProcess (p : xprocinfo)
| CIgnore                                   (* a fresh MHLIgnoreSpec: the patterns go to existing_ignore_patterns *)
| CMedia (r : xrecord)
| CRef (r : xref).
Record rstate := mkRS {
  rs_cur : cur;
  rs_stack : list cur;                      (* object_stack, top first *)
  rs_struct : bool;                         (* is_directory_structure: NOT reset between records *)
  rs_pats : list (option text);             (* existing_ignore_patterns *)
  rs_hl : xhashlist }.

Definition empty_creator : xcreator := mkXCreator None None None [] None None.
Definition empty_procinfo : xprocinfo := mkXProcInfo None None (Some (ignore_spec_of [])).
Definition empty_record (dir : bool) : xrecord := mkXRecord None dir None None [] None.
Definition empty_ref : xref := mkXRef None None.
Definition empty_hashlist : xhashlist := mkXHashList None empty_procinfo [] [].
Definition init_state : rstate := mkRS CNone [] false [] empty_hashlist.

Definition set_cur (c : cur) (st : rstate) : rstate := mkRS c (rs_stack st) (rs_struct st) (rs_pats st) (rs_hl st).
Definition set_stack (s : list cur) (st : rstate) : rstate := mkRS (rs_cur st) s (rs_struct st) (rs_pats st) (rs_hl st).
Definition set_structflag (b : bool) (st : rstate) : rstate := mkRS (rs_cur st) (rs_stack st) b (rs_pats st) (rs_hl st).
Definition set_pats (p : list (option text)) (st : rstate) : rstate := mkRS (rs_cur st) (rs_stack st) (rs_struct st) p (rs_hl st).
Definition set_hl (h : xhashlist) (st : rstate) : rstate := mkRS (rs_cur st) (rs_stack st) (rs_struct st) (rs_pats st) h.

Definition hl_set_creator (c : xcreator) (h : xhashlist) : xhashlist := mkXHashList (Some c) (xh_process h) (xh_records h) (xh_refs h).
Definition hl_set_process (p : xprocinfo) (h : xhashlist) : xhashlist := mkXHashList (xh_creator h) p (xh_records h) (xh_refs h).
Definition hl_add_record (r : xrecord) (h : xhashlist) : xhashlist := mkXHashList (xh_creator h) (xh_process h) (xh_records h ++ [r]) (xh_refs h).
Definition hl_add_ref (r : xref) (h : xhashlist) : xhashlist := mkXHashList (xh_creator h) (xh_process h) (xh_records h) (xh_refs h ++ [r]).
Definition pi_set_root (r : xrecord) (p : xprocinfo) : xprocinfo := mkXProcInfo (xpi_process p) (Some r) (xpi_ignore p).
Definition pi_set_ignore (i : list (option text)) (p : xprocinfo) : xprocinfo := mkXProcInfo (xpi_process p) (xpi_root p) (Some i).

(* MHLHashList.append_hash: a record whose path is "." becomes the root hash instead of joining media_hashes
   (media_hashes_path_map is derived data: History.find_media_hash) *)
Definition append_hash (r : xrecord) (h : xhashlist) : xhashlist :=
  if opt_text_is (xr_path r) s_dot then hl_set_process (pi_set_root r (xh_process h)) h else hl_add_record r h.

Definition rec_set_path (p : option text) (sz : option N) (r : xrecord) : xrecord :=
  mkXRecord p (xr_dir r) sz (xr_lastmod r) (xr_entries r) (xr_prev r).
Definition rec_set_entries (es : list xentry) (r : xrecord) : xrecord :=
  mkXRecord (xr_path r) (xr_dir r) (xr_size r) (xr_lastmod r) es (xr_prev r).
Definition rec_set_prev (p : option text) (r : xrecord) : xrecord :=
  mkXRecord (xr_path r) (xr_dir r) (xr_size r) (xr_lastmod r) (xr_entries r) p.
Definition rec_set_root (r : xrecord) : xrecord :=                 (* is_directory = True; path = "." *)
  mkXRecord (Some s_dot) true (xr_size r) (xr_lastmod r) (xr_entries r) (xr_prev r).
Definition entry_set_struct (s : option text) (e : xentry) : xentry :=
  mkXEntry (xe_fmt e) (xe_digest e) (xe_action e) (xe_date e) s.
(* entry = find_hash_entry_for_format(tag); entry.structure_hash_string = text   (None: AttributeError on None) *)
Fixpoint set_structure (f : text) (s : option text) (es : list xentry) : option (list xentry) :=
  match es with
  | [] => None
  | e :: es' =>
      if text_eqb (xe_fmt e) f then Some (entry_set_struct s e :: es')
      else option_map (cons e) (set_structure f s es')
  end.

(* authors[-1] *)
Definition upd_last {A} (f : A -> A) (l : list A) : option (list A) :=
  match rev l with
  | [] => None
  | x :: r => Some (rev r ++ [f x])
  end.
Definition cr_set_authors (a : list xauthor) (c : xcreator) : xcreator :=
  mkXCreator (xc_date c) (xc_host c) (xc_tool c) a (xc_location c) (xc_comment c).
Definition or_else (a b : option text) : option text := match a with Some _ => a | None => b end.
(* end of <author>: the name replaces the sentinel "-", attributes fill the fields that are still None *)
Definition author_end (attrs : list (text * text)) (txt : option text) (a : xauthor) : xauthor :=
  mkXAuthor (if opt_text_is (xa_name a) s_dash then txt else xa_name a)
            (or_else (xa_email a) (attr_get s_email attrs))
            (or_else (xa_phone a) (attr_get s_phone attrs))
            (or_else (xa_role a) (attr_get s_role attrs)).

(* ---- start events ------------------------------------------------------------------------------------ *)
Definition start_new (k : tagk) : cur :=
  match k with
  | KCreatorinfo => CCreator empty_creator
  | KProcessinfo => CProcess empty_procinfo
  | KHash => CMedia (empty_record false)
  | KDirectoryhash => CMedia (empty_record true)
  | KHashlistreference => CRef empty_ref
  | _ => CNone
  end.
Definition on_start (k : tagk) (st : rstate) : rstate :=
  let c := match rs_cur st with CNone => start_new k | c => c end in
  match c with
  | CProcess _ =>
      match k with
      | KIgnore => set_stack (c :: rs_stack st) (set_cur CIgnore st)
      | KRoothash => set_stack (c :: rs_stack st) (set_cur (CMedia (empty_record true)) st)
      | _ => set_cur c st
      end
  | CCreator ci =>
      match k with
      | KAuthor => set_cur (CCreator (cr_set_authors (xc_authors ci ++ [mkXAuthor (Some s_dash) None None None]) ci)) st
      | _ => set_cur c st
      end
  | CMedia _ =>
      match k with
      | KStructure => set_structflag true (set_cur c st)
      | KContent => set_structflag false (set_cur c st)
      | _ => set_cur c st
      end
  | _ => set_cur c st
  end.

(* ---- end events -------------------------------------------------------------------------------------- *)
Definition creator_end (k : tagk) (attrs : list (text * text)) (txt : option text) (c : xcreator) (st : rstate)
  : option rstate :=
  let upd c' := Some (set_cur (CCreator c') st) in
  let upd_author f := match upd_last f (xc_authors c) with
                      | Some a => upd (cr_set_authors a c)
                      | None => None                                   (* authors[-1] on an empty list *)
                      end in
  match k with
  | KCreationdate => upd (mkXCreator txt (xc_host c) (xc_tool c) (xc_authors c) (xc_location c) (xc_comment c))
  | KTool => upd (mkXCreator (xc_date c) (xc_host c) (Some (mkXTool txt (attr_get s_version attrs))) (xc_authors c) (xc_location c) (xc_comment c))
  | KHostname => upd (mkXCreator (xc_date c) txt (xc_tool c) (xc_authors c) (xc_location c) (xc_comment c))
  | KLocation => upd (mkXCreator (xc_date c) (xc_host c) (xc_tool c) (xc_authors c) txt (xc_comment c))
  | KComment => upd (mkXCreator (xc_date c) (xc_host c) (xc_tool c) (xc_authors c) (xc_location c) txt)
  | KCreatorinfo => Some (set_hl (hl_set_creator c (rs_hl st)) (set_cur CNone st))
  | KAuthor => upd_author (author_end attrs txt)
  (* child elements of <author>: "not as spec says, only here for backwards compatibility" *)
  | KName => upd_author (fun a => mkXAuthor txt (xa_email a) (xa_phone a) (xa_role a))
  | KRole => upd_author (fun a => mkXAuthor (xa_name a) (xa_email a) (xa_phone a) txt)
  | KEmail => upd_author (fun a => mkXAuthor (xa_name a) txt (xa_phone a) (xa_role a))
  | KPhone => upd_author (fun a => mkXAuthor (xa_name a) (xa_email a) txt (xa_role a))
  | _ => Some st
  end.

(* current_object.process = element.text: the reader stores the type *string* where the writer expects an MHLProcess;
   modelled as an MHLProcess with that type and no name *)
Definition process_of_text (txt : option text) : option xprocess :=
  match txt with Some _ => Some (mkXProcess txt None) | None => None end.

Definition media_end (k : tagk) (tag : text) (attrs : list (text * text)) (txt : option text) (r : xrecord) (st : rstate)
  : option rstate :=
  match k with
  | KPath =>
      (* file_size = attrib.get("size"); int(file_size) if file_size else None *)
      match truthy_text (attr_get s_size attrs) with
      | None => Some (set_cur (CMedia (rec_set_path (convert_posix_to_local_path txt) None r)) st)
      | Some s => match N_of_dec s with
                  | Some n => Some (set_cur (CMedia (rec_set_path (convert_posix_to_local_path txt) (Some n) r)) st)
                  | None => None                                        (* ValueError *)
                  end
      end
  | KFmt =>
      (* hash_date = dateutil.parser.parse(hashdate) if the attribute exists; without it MHLHashEntry takes
         datetime.now() -- the clock: modelled as None *)
      match (match attr_get s_hashdate attrs with
             | None => Some None
             | Some s => option_map Some (iso_parse s)
             end) with
      | None => None                                                    (* ParserError *)
      | Some date =>
          if xr_dir r && rs_struct st then
            match set_structure tag txt (xr_entries r) with
            | Some es => Some (set_cur (CMedia (rec_set_entries es r)) st)
            | None => None
            end
          else
            Some (set_cur (CMedia (rec_set_entries
                   (xr_entries r ++ [mkXEntry tag (convert_posix_to_local_path txt) (attr_get s_action attrs) date None]) r)) st)
      end
  | KHash | KDirectoryhash => Some (set_hl (append_hash r (rs_hl st)) (set_cur CNone st))
  | KRoothash =>
      match rs_stack st with
      | [] => None                                                      (* pop from empty list *)
      | top :: rest =>
          let root := rec_set_root r in
          let top' := match top with CProcess p => CProcess (pi_set_root root p) | c => c end in
          Some (set_hl (append_hash root (rs_hl st)) (set_stack rest (set_cur top' st)))
      end
  | KPreviousPath => Some (set_cur (CMedia (rec_set_prev (convert_posix_to_local_path txt) r)) st)
  | _ => Some st
  end.

Definition on_end (k : tagk) (tag : text) (attrs : list (text * text)) (txt : option text) (st : rstate) : option rstate :=
  match rs_cur st with
  | CNone => Some st
  | CCreator c => creator_end k attrs txt c st
  | CProcess p =>
      match k with
      | KProcess => Some (set_cur (CProcess (mkXProcInfo (process_of_text txt) (xpi_root p) (xpi_ignore p))) st)
      | KProcessinfo => Some (set_hl (hl_set_process p (rs_hl st)) (set_cur CNone st))
      | _ => Some st
      end
  | CIgnore =>
      match k with
      | KPattern => Some (set_pats (rs_pats st ++ [txt]) st)
      | KIgnore =>
          (* hash_list.process_info.ignore_spec = current_object: a default spec on the process info of the hash
             list, overwritten after the loop *)
          match rs_stack st with
          | [] => None
          | top :: rest => Some (set_stack rest (set_cur top st))
          end
      | _ => Some (set_cur CNone st)
      end
  | CMedia r => media_end k tag attrs txt r st
  | CRef r =>
      match k with
      | KPath => Some (set_cur (CRef (mkXRef (convert_posix_to_local_path txt) (xf_c4 r))) st)
      | KFmt => if text_eqb tag s_c4 then Some (set_cur (CRef (mkXRef (xf_path r) txt)) st) else Some st
      | KHashlistreference => Some (set_hl (hl_add_ref r (rs_hl st)) (set_cur CNone st))
      | _ => Some st
      end
  end.

Definition step (e : event) (st : rstate) : option rstate :=
  match e with
  | EvStart tg => Some (on_start (classify tg) st)
  | EvEnd tg a txt => on_end (classify tg) tg a txt st
  end.
Fixpoint run (evs : list event) (st : rstate) : option rstate :=
  match evs with
  | [] => Some st
  | e :: evs' => match step e st with Some st' => run evs' st' | None => None end
  end.

(* after the loop: hash_list.process_info.ignore_spec = MHLIgnoreSpec(existing_ignore_patterns) *)
Definition finish (st : rstate) : xhashlist :=
  hl_set_process (pi_set_ignore (ignore_spec_of (rs_pats st)) (xh_process (rs_hl st))) (rs_hl st).
Definition read_hashlist (x : xml) : option xhashlist := option_map finish (run (events x) init_state).

(* ---- chain_xml_parser.parse -------------------------------------------------------------------------- *)
Record cstate := mkCS { cs_cur : option xchainent; cs_gens : list xchainent }.
Definition empty_chainent : xchainent := mkXChainEnt (SeqInt (-1)) None None None.       (* MHLChainGeneration() *)
Definition cstep (e : event) (st : cstate) : cstate :=
  match e with
  | EvStart tg =>
      match cs_cur st with
      | None => match classify tg with KHashlist => mkCS (Some empty_chainent) (cs_gens st) | _ => st end
      | Some _ => st
      end
  | EvEnd tg attrs txt =>
      match cs_cur st with
      | None => st
      | Some g =>
          match classify tg with
          | KPath => mkCS (Some (mkXChainEnt (ce_no g) (convert_posix_to_local_path txt) (ce_fmt g) (ce_hash g))) (cs_gens st)
          | KFmt => mkCS (Some (mkXChainEnt (ce_no g) (ce_file g) (Some tg) txt)) (cs_gens st)
          | KHashlist =>
              (* generation_number = attrib.get("sequencenr"): the string, not converted *)
              let no := match attr_get s_sequencenr attrs with Some s => SeqStr s | None => SeqNone end in
              mkCS None (cs_gens st ++ [mkXChainEnt no (ce_file g) (ce_fmt g) (ce_hash g)])
          | _ => st
          end
      end
  end.
Definition crun (evs : list event) (st : cstate) : cstate := fold_left (fun s e => cstep e s) evs st.
Definition read_chain (x : xml) : option xchain := Some (cs_gens (crun (events x) (mkCS None []))).

(* ====================================================================================================== *)
(* Well-formedness: what the round-trip theorems assume of an object.  Objects the tool hands to its writers satisfy
   every clause.  (W) = the real writer raises otherwise, the total `emit` is not faithful there;
   (R) = the information would not come back. *)

(* the fixed-width fields of isoformat(): real datetime objects are well inside these bounds *)
Definition date_ok (d : xdate) : bool :=
  (dt_y d <? 10000) && (dt_mo d <? 100) && (dt_d d <? 100) && (dt_h d <? 100) && (dt_mi d <? 100) && (dt_s d <? 100)
  && (dt_us d <? 1000000) && (-6000 <? dt_off d)%Z && (dt_off d <? 6000)%Z.
Definition opt_date_ok (d : option xdate) : bool := match d with Some x => date_ok x | None => true end.
Definition is_some {A} (o : option A) : bool := match o with Some _ => true | None => false end.
Definition is_none {A} (o : option A) : bool := match o with Some _ => false | None => true end.

(* (R) the format is one the reader recognises (`tag in ascmhl_supported_hashformats`; any other tag is skipped, a
       tag like "path" would be taken for something else)
   (R) the hash date fits isoformat()'s fixed-width fields *)
Definition entry_ok (e : xentry) : bool := mem_text (xe_fmt e) supported_hashformats && opt_date_ok (xe_date e).
Fixpoint distinct_texts (l : list text) : bool :=
  match l with [] => true | x :: l' => negb (mem_text x l') && distinct_texts l' end.

(* (W) path is a string (Path(None) raises)
   (R) the written path is not "." (a record with that path is taken for the root hash by append_hash)
   file:      (R) no structure hash on the entries (only the directory builder writes that field)
   directory: (R) one entry per format (the structure hash is re-attached to the FIRST entry of its format)
              (R) the size is not 0 (`if media_hash.file_size:` drops it; the tool never sets a directory size) *)
Definition record_ok (r : xrecord) : bool :=
  match xr_path r with
  | Some p => negb (text_eqb (posix_norm p) s_dot)
  | None => false
  end
  && forallb entry_ok (xr_entries r)
  && (if xr_dir r
      then distinct_texts (map xe_fmt (xr_entries r)) && negb (match xr_size r with Some 0 => true | _ => false end)
      else forallb (fun e => is_none (xe_struct e)) (xr_entries r)).
(* the root hash: entries as for a directory; path, size and dates of the object are not written at all *)
Definition root_ok (r : xrecord) : bool :=
  forallb entry_ok (xr_entries r) && distinct_texts (map xe_fmt (xr_entries r)).
(* (R) an author is not literally named "-": the writer takes that name for the reader's "no name yet" sentinel and
       omits it (see C10.author_dash_is_lost) *)
Definition author_ok (a : xauthor) : bool := negb (opt_text_is (xa_name a) s_dash).
(* (W) creation date, host name, tool name are strings, the tool has a version (E.x(None) / version=None raise) *)
Definition creator_ok (c : xcreator) : bool :=
  is_some (xc_date c) && is_some (xc_host c)
  && match xc_tool c with Some tl => is_some (xt_name tl) && is_some (xt_version tl) | None => false end
  && forallb author_ok (xc_authors c).
(* (W) a process with a type string; every pattern is a string *)
Definition procinfo_ok (p : xprocinfo) : bool :=
  match xpi_process p with Some x => is_some (xp_type x) | None => false end
  && match xpi_root p with Some r => root_ok r | None => true end
  && match xpi_ignore p with Some ps => forallb is_some ps | None => true end.
Definition ref_ok (r : xref) : bool := is_some (xf_path r) && is_some (xf_c4 r).        (* (W) *)
Definition wf (h : xhashlist) : bool :=
  match xh_creator h with Some c => creator_ok c | None => false end                    (* (W) AttributeError *)
  && procinfo_ok (xh_process h) && forallb record_ok (xh_records h) && forallb ref_ok (xh_refs h).

(* (R) only c4 entries are written ("fixme: non-c4 hash in chain file, not implemented": an empty <hashlist/>)
   (W) file name and hash are strings *)
Definition chainent_ok (e : xchainent) : bool :=
  opt_text_is (ce_fmt e) s_c4 && is_some (ce_file e) && is_some (ce_hash e).
Definition wf_chain (c : xchain) : bool := forallb chainent_ok c.

(* ====================================================================================================== *)
(* Canonical form: read (emit o) = canon o.  Each clause is one of
     (X) XML cannot distinguish:      an empty string and an absent text are the same element content (node_text)
     (D) by design not read back:     lastmodificationdate (the reader has a TODO), size/path/dates of the root hash
                                      object, MHLProcess.name (never written; the reader returns the type string)
     (N) normalised by the writer:    format elements of a <hash> are sorted by name (stable); paths go through
                                      pathlib (duplicate and trailing slashes, "." components); `if x:` treats an
                                      empty action / previous path like None
     (S) rebuilt by the reader:       the ignore spec is a new MHLIgnoreSpec over the pattern texts (no duplicates,
                                      defaults for an empty list -- invariants every spec object has anyway);
                                      chain sequence numbers come back as the attribute *string* *)
Definition canon_entry (e : xentry) : xentry :=
  mkXEntry (xe_fmt e) (node_text (xe_digest e)) (truthy_text (xe_action e)) (xe_date e) (node_text (xe_struct e)).
Definition canon_prev (p : option text) : option text := option_map posix_norm (truthy_text p).
Definition canon_record (r : xrecord) : xrecord :=
  mkXRecord (option_map posix_norm (xr_path r)) (xr_dir r) (xr_size r) None
            (map canon_entry (if xr_dir r then xr_entries r else sort_entries (xr_entries r)))
            (canon_prev (xr_prev r)).
Definition canon_root (r : option xrecord) : option xrecord :=
  match r with
  | Some x => match xr_entries x with
              | [] => None                                  (* a root hash without entries is not written *)
              | es => Some (mkXRecord (Some s_dot) true None None (map canon_entry es) (canon_prev (xr_prev x)))
              end
  | None => None
  end.
Definition canon_author (a : xauthor) : xauthor := mkXAuthor (node_text (xa_name a)) (xa_email a) (xa_phone a) (xa_role a).
Definition canon_creator (c : xcreator) : xcreator :=
  mkXCreator (node_text (xc_date c)) (node_text (xc_host c))
             (match xc_tool c with Some tl => Some (mkXTool (node_text (xt_name tl)) (xt_version tl)) | None => Some (mkXTool None None) end)
             (map canon_author (xc_authors c)) (node_text (xc_location c)) (node_text (xc_comment c)).
Definition canon_procinfo (p : xprocinfo) : xprocinfo :=
  mkXProcInfo (process_of_text (node_text (match xpi_process p with Some x => xp_type x | None => None end)))
              (canon_root (xpi_root p))
              (Some (ignore_spec_of (match xpi_ignore p with Some ps => map node_text ps | None => [] end))).
Definition canon_ref (r : xref) : xref := mkXRef (option_map posix_norm (xf_path r)) (node_text (xf_c4 r)).
Definition canon (h : xhashlist) : xhashlist :=
  mkXHashList (option_map canon_creator (xh_creator h)) (canon_procinfo (xh_process h))
              (map canon_record (xh_records h)) (map canon_ref (xh_refs h)).

Definition canon_chainent (e : xchainent) : xchainent :=
  mkXChainEnt (SeqStr (seq_text (ce_no e))) (option_map posix_norm (ce_file e)) (ce_fmt e) (node_text (ce_hash e)).
Definition canon_chain (c : xchain) : xchain := map canon_chainent c.

(* the tree as a parser reports it: (X) applied to every node; events (infoset x) = events x (ReadFacts) *)
Fixpoint infoset (x : xml) : xml :=
  match x with
  | Elem tg a c k => Elem tg a (node_text c) ((fix go (l : list xml) := match l with [] => [] | y :: l' => infoset y :: go l' end) k)
  end.
