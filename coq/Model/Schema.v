(* A generic, total, executable validator for the XSD subset of Model/SchemaDef.v over the abstract XML documents of
   Model/Xml.v:   validate : schema -> xml -> bool.

   * content models: a backtracking matcher that returns ALL remainders a particle can leave (so it is complete for
     any nesting of sequence / choice / occurs, deterministic or not -- no appeal to "unique particle attribution";
     Proofs/SchemaFacts.v proves it equivalent to the declarative semantics `Valid`/`MP`/`MB` below);
   * simple types: lexical checks of xs:integer, xs:dateTime (with calendar range checks), enumerations, the e-mail
     pattern, fixed values;
   * attribute uses: required / optional / fixed, undeclared attributes rejected;
   * simple content = text without child elements; element-only content = children without (non-blank) text;
     an extension of xs:anyType (<metadata>) admits any content and any attribute.  (Lax assessment of that content
     is NOT modelled: libxml2 validates a descendant of <metadata> that carries the name of the global element
     against its declaration; the tool never writes <metadata>, the correspondence run never generates that case.)

   Where libxml2 2.12 is stricter than the W3C text the validator is as strict as libxml2 (so `validate = true`
   implies validity for both): an xs:integer has at most 24 significant digits; |year| of an xs:dateTime is at most
   2^63-1; white space around an xs:dateTime is not accepted (libxml2 accepts it only after a time-zone designator).
   All recursion is structural (on the schema; on a unary fuel bounded by the number of children for unbounded
   repetition), so the function is total by construction. *)
From MHL Require Export Model.Xml Model.SchemaDef.

(* ------------------------------------------------------------------------------------------ characters *)
Definition is_ws (c : N) : bool := (c =? 32)%N || (c =? 9)%N || (c =? 10)%N || (c =? 13)%N.
Definition is_digit (c : N) : bool := (48 <=? c)%N && (c <=? 57)%N.
Definition dig_val (c : N) : N := (c - 48)%N.

Fixpoint drop_ws (s : text) : text :=
  match s with
  | c :: r => if is_ws c then drop_ws r else s
  | [] => []
  end.
Definition trim (s : text) : text := rev (drop_ws (rev (drop_ws s))).

Fixpoint drop_zeros (s : text) : text :=
  match s with
  | c :: r => if (c =? 48)%N then drop_zeros r else s
  | [] => []
  end.

(* maximal prefix of decimal digits, and the rest *)
Fixpoint span_digits (s : text) : text * text :=
  match s with
  | c :: r => if is_digit c then let (d, r') := span_digits r in (c :: d, r') else ([], s)
  | [] => ([], [])
  end.
Definition digits_val (ds : text) : N := fold_left (fun acc c => (10 * acc + dig_val c)%N) ds 0%N.

(* ------------------------------------------------------------------------------------------ xs:integer *)
(* white space collapsed (only the ends can matter), optional sign, one or more digits; libxml2: <= 24 significant *)
Definition integer_ok (s : text) : bool :=
  let body := match trim s with
              | c :: r => if (c =? 43)%N || (c =? 45)%N then r else c :: r
              | [] => []
              end in
  negb (Nat.eqb (length body) 0) && forallb is_digit body && (length (drop_zeros body) <=? 24)%nat.

(* ------------------------------------------------------------------------------------------ xs:dateTime *)
(* '-'? yyyy '-' mm '-' dd 'T' hh ':' mm ':' ss ('.' s+)? ('Z' | ('+'|'-') hh ':' mm)? *)
Definition expect (c : N) (s : text) : option text :=
  match s with
  | x :: r => if (x =? c)%N then Some r else None
  | [] => None
  end.
Definition take2 (s : text) : option (N * text) :=
  match s with
  | a :: b :: r => if is_digit a && is_digit b then Some ((10 * dig_val a + dig_val b)%N, r) else None
  | _ => None
  end.

Definition leap (y : N) : bool := ((y mod 4 =? 0) && negb (y mod 100 =? 0) || (y mod 400 =? 0))%N.
Definition days_in_month (y m : N) : N :=
  if (m =? 2)%N then (if leap y then 29 else 28)%N
  else if (m =? 4)%N || (m =? 6)%N || (m =? 9)%N || (m =? 11)%N then 30%N else 31%N.

Definition max_year : N := 9223372036854775807%N.

(* the digits of the year: at least four, no leading zero when more than four, not 0000 *)
Definition year_ok (yd : text) : bool :=
  (4 <=? length yd)%nat
  && (Nat.eqb (length yd) 4 || match yd with c :: _ => negb (c =? 48)%N | [] => false end)
  && negb (digits_val yd =? 0)%N && (digits_val yd <=? max_year)%N.

Definition tz_ok (s : text) : bool :=
  match s with
  | [] => true
  | c :: r =>
      if (c =? 90)%N then match r with [] => true | _ => false end
      else if (c =? 43)%N || (c =? 45)%N then
        match take2 r with
        | Some (h, r1) =>
            match expect 58 r1 with
            | Some r2 =>
                match take2 r2 with
                | Some (m, []) => ((h <=? 13) && (m <=? 59) || (h =? 14) && (m =? 0))%N
                | _ => false
                end
            | None => false
            end
        | None => false
        end
      else false
  end.

(* optional fraction: -> (the fraction is absent or all zeros, rest); None when '.' is not followed by a digit *)
Definition fraction (s : text) : option (bool * text) :=
  match s with
  | c :: r => if (c =? 46)%N then
                let (fd, r') := span_digits r in
                match fd with [] => None | _ => Some (forallb (fun d => (d =? 48)%N) fd, r') end
              else Some (true, s)
  | [] => Some (true, [])
  end.

Definition obind {A B} (o : option A) (f : A -> option B) : option B := match o with Some a => f a | None => None end.

Definition datetime_ok (s : text) : bool :=
  let s1 := match s with c :: r => if (c =? 45)%N then r else s | [] => [] end in
  let (yd, r0) := span_digits s1 in
  year_ok yd &&
  match
    obind (expect 45 r0) (fun r => obind (take2 r) (fun '(mo, r) =>
    obind (expect 45 r) (fun r => obind (take2 r) (fun '(d, r) =>
    obind (expect 84 r) (fun r => obind (take2 r) (fun '(h, r) =>
    obind (expect 58 r) (fun r => obind (take2 r) (fun '(mi, r) =>
    obind (expect 58 r) (fun r => obind (take2 r) (fun '(se, r) =>
    obind (fraction r) (fun '(fz, r) =>
    Some ((1 <=? mo) && (mo <=? 12) && (1 <=? d) && (d <=? days_in_month (digits_val yd) mo)
          && ((h <=? 23) && (mi <=? 59) && (se <=? 59) || (h =? 24) && (mi =? 0) && (se =? 0) && fz)
          && tz_ok r)%N)))))))))))
  with
  | Some b => b
  | None => false
  end.

(* --------------------------------------------------------------------------- the pattern [^@]+@[^\.]+\..+ *)
(* XSD regular expressions are anchored; `.` is any character except LF and CR; [^@] and [^\.] are any character
   except '@' resp. '.'.  Since the first group cannot contain '@', the '@' it is followed by is the FIRST '@' of the
   string; since the second group cannot contain '.', the '.' is the first '.' after that '@'. *)
Fixpoint split_at (c : N) (s : text) : option (text * text) :=
  match s with
  | [] => None
  | x :: r => if (x =? c)%N then Some ([], r)
              else match split_at c r with Some (a, b) => Some (x :: a, b) | None => None end
  end.
Definition dot_char (c : N) : bool := negb ((c =? 10)%N || (c =? 13)%N).
Definition nonempty {A} (l : list A) : bool := match l with [] => false | _ => true end.
Definition email_ok (s : text) : bool :=
  match split_at 64 s with
  | Some (a, r) =>
      match split_at 46 r with
      | Some (b, c) => nonempty a && nonempty b && nonempty c && forallb dot_char c
      | None => false
      end
  | None => false
  end.

(* ------------------------------------------------------------------------------------------ simple types *)
Definition stype_ok (t : stype) (v : text) : bool :=
  match t with
  | SString => true
  | SAny => true
  | SDateTime => datetime_ok v
  | SInteger => integer_ok v
  | SEmail => email_ok v
  | SEnum vs => mem_text v vs
  | SFixed f => text_eqb v f
  end.

(* ------------------------------------------------------------------------------------------ attributes *)
Definition a_name (d : attr_decl) : text := match d with mkAttr n _ _ => n end.
Definition a_required (d : attr_decl) : bool := match d with mkAttr _ r _ => r end.
Definition a_type (d : attr_decl) : stype := match d with mkAttr _ _ t => t end.

Fixpoint find_decl (n : text) (ds : list attr_decl) : option attr_decl :=
  match ds with
  | [] => None
  | d :: r => if text_eqb (a_name d) n then Some d else find_decl n r
  end.
(* every attribute present is declared and has a value of the declared type; every required one is present *)
Definition attrs_ok (ds : list attr_decl) (attrs : list (text * text)) : bool :=
  forallb (fun kv => match find_decl (fst kv) ds with Some d => stype_ok (a_type d) (snd kv) | None => false end) attrs
  && forallb (fun d => negb (a_required d) || match attr_get (a_name d) attrs with Some _ => true | None => false end) ds.

(* xs:anyType admits any attribute (lax); the declared ones keep their type and use *)
Definition attrs_open_ok (ds : list attr_decl) (attrs : list (text * text)) : bool :=
  forallb (fun kv => match find_decl (fst kv) ds with Some d => stype_ok (a_type d) (snd kv) | None => true end) attrs
  && forallb (fun d => negb (a_required d) || match attr_get (a_name d) attrs with Some _ => true | None => false end) ds.

(* ------------------------------------------------------------------------------------------ occurrences *)
Definition blank (c : option text) : bool := match c with None => true | Some t => forallb is_ws t end.
Definition text_of (c : option text) : text := match c with None => [] | Some t => t end.
Definition is_nil {A} (l : list A) : bool := match l with [] => true | _ => false end.

Section Occurs.
  Context {A : Type}.
  Variable step : list A -> list (list A).      (* all remainders one occurrence of the body can leave *)

  (* exactly n occurrences *)
  Fixpoint iter_exact (n : nat) (l : list A) : list (list A) :=
    match n with
    | O => [l]
    | S k => flat_map (iter_exact k) (step l)
    end.
  (* at most k further occurrences, each consuming at least one element (an occurrence that consumes nothing adds no
     new remainder) *)
  Fixpoint iter_upto (k : nat) (l : list A) : list (list A) :=
    l :: match k with
         | O => []
         | S k' => flat_map (fun r => if (length r <? length l)%nat then iter_upto k' r else []) (step l)
         end.
  Definition occurs (mn : nat) (mx : option nat) (l : list A) : list (list A) :=
    flat_map (fun r => iter_upto (match mx with Some m => m - mn | None => length r end) r)
             (match mx with Some m => if (m <? mn)%nat then [] else iter_exact mn l | None => iter_exact mn l end).
End Occurs.

(* ------------------------------------------------------------------------------------------ the validator *)
Fixpoint valid_type (t : etype) (x : xml) {struct t} : bool :=
  match t with
  | TSimple s ds => attrs_ok ds (x_attrs x) && is_nil (x_kids x) && stype_ok s (text_of (x_text x))
  | TComplex p ds => attrs_ok ds (x_attrs x) && blank (x_text x) && existsb is_nil (match_particle p (x_kids x))
  | TAny ds => attrs_open_ok ds (x_attrs x)
  end
with match_particle (p : particle) (l : list xml) {struct p} : list (list xml) :=
  match p with
  | POccurs mn mx b => occurs (match_body b) mn mx l
  end
with match_body (b : body) (l : list xml) {struct b} : list (list xml) :=
  match b with
  | PElem n t =>
      match l with
      | x :: r => if text_eqb (x_tag x) n && valid_type t x then [r] else []
      | [] => []
      end
  | PSeq ps =>
      (fix seq (ps : list particle) (l : list xml) {struct ps} : list (list xml) :=
         match ps with
         | [] => [l]
         | p :: ps' => flat_map (seq ps') (match_particle p l)
         end) ps l
  | PChoice ps =>
      (fix alt (ps : list particle) {struct ps} : list (list xml) :=
         match ps with
         | [] => []
         | p :: ps' => match_particle p l ++ alt ps'
         end) ps
  end.

Definition s_root (s : schema) : text := match s with mkSchema r _ => r end.
Definition s_type (s : schema) : etype := match s with mkSchema _ t => t end.
Definition validate (s : schema) (x : xml) : bool := text_eqb (x_tag x) (s_root s) && valid_type (s_type s) x.

(* named forms of the two local fixpoints (convertible to them; used by the lemmas) *)
Fixpoint match_seq (ps : list particle) (l : list xml) : list (list xml) :=
  match ps with
  | [] => [l]
  | p :: ps' => flat_map (match_seq ps') (match_particle p l)
  end.
Fixpoint match_alt (ps : list particle) (l : list xml) : list (list xml) :=
  match ps with
  | [] => []
  | p :: ps' => match_particle p l ++ match_alt ps' l
  end.

(* -------------------------------------------------------------------------- declarative semantics (spec) *)
(* What "valid" MEANS, written without any search: a list of children matches `POccurs mn mx b` when it is the
   concatenation of n chunks, mn <= n <= mx, each matching b; matches a sequence when it splits into consecutive
   parts matching the members; matches a choice when it matches one member; matches an element particle when it is
   one element of that name whose type accepts it. *)
Definition max_ok (mx : option nat) (n : nat) : Prop := match mx with Some m => (n <= m)%nat | None => True end.

Fixpoint Valid (t : etype) (x : xml) {struct t} : Prop :=
  match t with
  | TSimple s ds => attrs_ok ds (x_attrs x) = true /\ x_kids x = [] /\ stype_ok s (text_of (x_text x)) = true
  | TComplex p ds => attrs_ok ds (x_attrs x) = true /\ blank (x_text x) = true /\ MP p (x_kids x)
  | TAny ds => attrs_open_ok ds (x_attrs x) = true
  end
with MP (p : particle) (l : list xml) {struct p} : Prop :=
  match p with
  | POccurs mn mx b =>
      exists chunks : list (list xml),
        l = concat chunks /\ (mn <= length chunks)%nat /\ max_ok mx (length chunks) /\
        (fix all (cs : list (list xml)) : Prop := match cs with [] => True | c :: cs' => MB b c /\ all cs' end) chunks
  end
with MB (b : body) (l : list xml) {struct b} : Prop :=
  match b with
  | PElem n t => exists x, l = [x] /\ x_tag x = n /\ Valid t x
  | PSeq ps =>
      (fix seq (ps : list particle) (l : list xml) {struct ps} : Prop :=
         match ps with
         | [] => l = []
         | p :: ps' => exists l1 l2, l = l1 ++ l2 /\ MP p l1 /\ seq ps' l2
         end) ps l
  | PChoice ps =>
      (fix alt (ps : list particle) {struct ps} : Prop :=
         match ps with
         | [] => False
         | p :: ps' => MP p l \/ alt ps'
         end) ps
  end.

Fixpoint MSeq (ps : list particle) (l : list xml) : Prop :=
  match ps with
  | [] => l = []
  | p :: ps' => exists l1 l2, l = l1 ++ l2 /\ MP p l1 /\ MSeq ps' l2
  end.
Fixpoint MAlt (ps : list particle) (l : list xml) : Prop :=
  match ps with
  | [] => False
  | p :: ps' => MP p l \/ MAlt ps' l
  end.
Fixpoint AllMB (b : body) (cs : list (list xml)) : Prop :=
  match cs with [] => True | c :: cs' => MB b c /\ AllMB b cs' end.

Definition ValidDoc (s : schema) (x : xml) : Prop := x_tag x = s_root s /\ Valid (s_type s) x.

(* ------------------------------------------------------------------ the tool's own date format (utils.py) *)
(* datetime.isoformat() of an aware datetime whose microsecond field is `us` (written only when non-zero) and whose
   utc offset is a whole number of minutes:  YYYY-MM-DDThh:mm:ss[.ffffff](+|-)hh:mm *)
Definition digit (n : N) : N := (48 + n mod 10)%N.
Definition pad2 (n : N) : text := [digit (n / 10); digit n].
Definition pad4 (n : N) : text := [digit (n / 1000); digit (n / 100); digit (n / 10); digit n].
Definition pad6 (n : N) : text := [digit (n / 100000); digit (n / 10000); digit (n / 1000); digit (n / 100); digit (n / 10); digit n].
Definition render_datetime (y mo d h mi s us : N) (neg : bool) (oh om : N) : text :=
  pad4 y ++ [45%N] ++ pad2 mo ++ [45%N] ++ pad2 d ++ [84%N] ++ pad2 h ++ [58%N] ++ pad2 mi ++ [58%N] ++ pad2 s
  ++ (if (us =? 0)%N then [] else 46%N :: pad6 us)
  ++ [if neg then 45%N else 43%N] ++ pad2 oh ++ [58%N] ++ pad2 om.
