(* C16 -- model of the time and size handling:
     ascmhl/utils.py   datetime_isostring, datetime_now_isostring, datetime_now_filename_string
     ascmhl/commands.py / hashlist.py   datetime.fromtimestamp(os.path.getmtime(p)), datetime.now()
     ascmhl/hashlist_xml_parser.py      size attribute: _media_hash_xml_element (writer), parse (reader)
   and of the parts of CPython's datetime that this code calls: datetime.fromtimestamp (PEP 495 fold detection),
   datetime.astimezone() of a naive value (local_to_seconds / _mktime, gap rule, tm_gmtoff of the result),
   timedelta formatting of the utc offset (format_utcoffset), isoformat / strftime calendar rendering (ord_to_ymd).

   Instants are integers: seconds (s) or microseconds (us) since the epoch, UTC.  A time zone is ANY function
       off : Z -> Z      seconds east of UTC in force at the UTC instant u  (time.localtime(u).tm_gmtoff)
   -- no shape is assumed (UTC, fixed, DST of either hemisphere, historical changes are all instances).
   A naive datetime is a wall-clock second count (seconds since 1970-01-01T00:00:00 on the local dial), a microsecond
   and Python's fold bit.  Definitions only; lemmas are in Proofs/TimeFacts.v, statements in Props/C16.v. *)
From Coq Require Import Lia.
From MHL Require Import Gen.Generated Model.Base.
Open Scope Z_scope.

Definition zone := Z -> Z.

(* ------------------------------------------------------------------------------------------ the local dial *)
(* _datetimemodule.c local(u): broken-down local time of the instant u, as a second count *)
Definition local (off : zone) (u : Z) : Z := u + off u.

Definition max_fold_seconds : Z := 24 * 3600.

Record naive := { wall : Z; usec : Z; fold : bool }.

(* datetime_from_timet_and_us: the fold bit of the local time of instant t (seconds) *)
Definition detect_fold (off : zone) (t : Z) : bool :=
  let result := local off t in
  let probe := local off (t - max_fold_seconds) in
  let transition := result - probe - max_fold_seconds in
  if transition <? 0 then local off (t + transition) =? result else false.

(* datetime.fromtimestamp(t) without tz; t_us is the time stamp already rounded to microseconds
   (_PyTime_ObjectToTimeval ROUND_HALF_EVEN for a float, ROUND_FLOOR for the system clock) *)
Definition fromtimestamp (off : zone) (t_us : Z) : naive :=
  let s := t_us / 1000000 in
  {| wall := local off s; usec := t_us mod 1000000; fold := detect_fold off s |}.

(* datetime.now() *)
Definition now_naive (off : zone) (now_us : Z) : naive := fromtimestamp off now_us.

(* local_to_seconds / datetime._mktime: solve local(u) = t for u *)
Definition mktime (off : zone) (t : Z) (fd : bool) : Z :=
  let a := local off t - t in
  let u1 := t - a in
  let t1 := local off u1 in
  let second (b : Z) :=
    let u2 := t - b in
    let t2 := local off u2 in
    if t2 =? t then u2 else if t1 =? t then u1 else if fd then Z.min u1 u2 else Z.max u1 u2 in
  if t1 =? t then
    let u2 := u1 + (if fd then max_fold_seconds else - max_fold_seconds) in
    let b := local off u2 - u2 in
    if a =? b then u1 else second b
  else second (t1 - u1).

(* local_timezone_from_local / datetime._local_timezone for a naive value: the instant whose tm_gmtoff is used.
   CPython versions differ in one respect: newer ones (and _pydatetime.py) re-map a wall clock that lies in a gap
   ("Detect gap": the other fold is tried too), the C code of 3.12.1 does not.  `gr` selects the variant; the harness
   finds out which one the interpreter running the tool implements and every statement holds for both. *)
Definition resolve (gr : bool) (off : zone) (d : naive) : Z :=
  let ts := mktime off (wall d) (fold d) in
  let ts2 := mktime off (wall d) (negb (fold d)) in
  if gr && negb (ts2 =? ts) && Bool.eqb (ts <? ts2) (fold d) then ts2 else ts.

(* d.astimezone().utcoffset() *)
Definition utcoffset_naive (gr : bool) (off : zone) (d : naive) : Z := off (resolve gr off d).

(* ------------------------------------------------------------------------------------- datetime_isostring *)
(* an aware value with a fixed offset, i.e. what isoformat() prints: wall clock, microsecond, attached offset *)
Record stamped := { s_wall : Z; s_usec : Z; s_off : Z }.

Inductive pydate := Naive (d : naive) | Aware (s : stamped).

(* utils.datetime_isostring(date, keep_microseconds), before the final isoformat() *)
Definition datetime_isostring (gr : bool) (off : zone) (date : pydate) (keep : bool) : stamped :=
  match date with
  | Aware s => {| s_wall := s_wall s; s_usec := if keep then s_usec s else 0; s_off := s_off s |}
  | Naive d =>
    let d' := {| wall := wall d; usec := if keep then usec d else 0; fold := fold d |} in
    {| s_wall := wall d'; s_usec := usec d'; s_off := utcoffset_naive gr off d' |}
  end.

(* the instant (microseconds, UTC) an ISO-8601 value with offset denotes *)
Definition denotes (s : stamped) : Z := (s_wall s - s_off s) * 1000000 + s_usec s.

(* lastmodificationdate of a file / folder whose mtime is t_us:  datetime_isostring(datetime.fromtimestamp(mtime)) *)
Definition lastmod_value (gr : bool) (off : zone) (t_us : Z) : stamped := datetime_isostring gr off (Naive (fromtimestamp off t_us)) false.
(* hashdate: MHLHashEntry.hash_date = datetime.now(), written with keep_microseconds=True *)
Definition hashdate_value (gr : bool) (off : zone) (now_us : Z) : stamped := datetime_isostring gr off (Naive (now_naive off now_us)) true.
(* <creationdate>: utils.datetime_now_isostring() *)
Definition creationdate_value (gr : bool) (off : zone) (now_us : Z) : stamped := datetime_isostring gr off (Naive (now_naive off now_us)) false.

(* ------------------------------------------------------------------------------------------------ decimal *)
Definition chr0 : Z := 48.
Definition digit_chr (d : Z) : N := Z.to_N (chr0 + d).

Fixpoint dec_loop (fuel : nat) (v : Z) (acc : text) : text :=
  match fuel with
  | O => acc
  | S k => let acc' := digit_chr (v mod 10) :: acc in if v / 10 =? 0 then acc' else dec_loop k (v / 10) acc'
  end.
(* str(v) for v >= 0 *)
Definition str_nonneg (v : Z) : text := dec_loop (S (Z.to_nat (Z.log2 v))) v [].
(* str(v) *)
Definition str_int (v : Z) : text := if v <? 0 then 45%N :: str_nonneg (- v) else str_nonneg v.
(* "%0<w>d" % v for v >= 0 *)
Definition pad (w : nat) (v : Z) : text := rjust w 48%N (str_nonneg v).

Definition digit_val (c : N) : option Z :=
  if ((48 <=? c) && (c <=? 57))%N then Some (Z.of_N c - chr0) else None.
Fixpoint digits_val (acc : Z) (s : text) : option Z :=
  match s with
  | [] => Some acc
  | c :: r => match digit_val c with Some d => digits_val (acc * 10 + d) r | None => None end
  end.
(* a non-empty string of ASCII digits -> its value *)
Definition nat_of_text (s : text) : option Z := match s with [] => None | _ => digits_val 0 s end.
(* int(s) on the lexical space [+-]?[0-9]+ (Python's int() also accepts surrounding blanks and '_': outside the model) *)
Definition int_of_text (s : text) : option Z :=
  match s with
  | 45%N :: r => option_map Z.opp (nat_of_text r)
  | 43%N :: r => nat_of_text r
  | _ => nat_of_text s
  end.

(* --------------------------------------------------------------------------------- the utc offset as text *)
(* format_utcoffset / _format_offset for an offset of whole seconds: sign, %02d hours, %02d minutes, seconds only
   when non-zero *)
Definition colon : N := 58%N.
Definition fmt_offset (o : Z) : text :=
  let sign := if o <? 0 then 45%N else 43%N in
  let a := Z.abs o in
  let hh := a / 3600 in
  let mm := (a mod 3600) / 60 in
  let ss := (a mod 3600) mod 60 in
  sign :: pad 2 hh ++ colon :: pad 2 mm ++ (if ss =? 0 then [] else colon :: pad 2 ss).

Definition two (a b : N) : option Z :=
  match digit_val a, digit_val b with Some x, Some y => Some (x * 10 + y) | _, _ => None end.

(* reader for the lexical form  (+|-)HH:MM[:SS]  with HH < 24, MM < 60, SS < 60 (the time-zone part of xs:dateTime,
   extended by the seconds Python prints for zones whose offset is not a whole minute) *)
Definition parse_offset (s : text) : option Z :=
  match s with
  | sg :: h1 :: h2 :: c1 :: m1 :: m2 :: rest =>
    let sgn := if (sg =? 43)%N then Some 1 else if (sg =? 45)%N then Some (-1) else None in
    match sgn, two h1 h2, two m1 m2 with
    | Some k, Some hh, Some mm =>
      if negb ((c1 =? colon)%N && (hh <? 24) && (mm <? 60)) then None else
      match rest with
      | [] => Some (k * (hh * 3600 + mm * 60))
      | [c2; s1; s2] =>
        match two s1 s2 with
        | Some ss => if ((c2 =? colon)%N && (ss <? 60)) then Some (k * (hh * 3600 + mm * 60 + ss)) else None
        | None => None
        end
      | _ => None
      end
    | _, _, _ => None
    end
  | _ => None
  end.

(* ------------------------------------------------------------------------------------------------ calendar *)
(* _datetimemodule.c / _pydatetime.py: proleptic Gregorian ordinals, 0001-01-01 is day 1 *)
Definition DI400Y : Z := 146097.
Definition DI100Y : Z := 36524.
Definition DI4Y : Z := 1461.
Definition epoch_ordinal : Z := 719163.          (* date(1970,1,1).toordinal() *)

Definition is_leap (y : Z) : bool := (y mod 4 =? 0) && (negb (y mod 100 =? 0) || (y mod 400 =? 0)).
Definition days_before_year (year : Z) : Z := let y := year - 1 in y * 365 + y / 4 - y / 100 + y / 400.
Definition days_in_month_tbl : list Z := [0; 31; 28; 31; 30; 31; 30; 31; 31; 30; 31; 30; 31].
Definition days_before_month_tbl : list Z := [0; 0; 31; 59; 90; 120; 151; 181; 212; 243; 273; 304; 334].
Definition tbl (l : list Z) (i : Z) : Z := nth (Z.to_nat i) l 0.
Definition days_in_month (y m : Z) : Z := if (m =? 2) && is_leap y then 29 else tbl days_in_month_tbl m.
Definition days_before_month (y m : Z) : Z := tbl days_before_month_tbl m + (if (2 <? m) && is_leap y then 1 else 0).
Definition ymd2ord (y m d : Z) : Z := days_before_year y + days_before_month y m + d.

(* ord_to_ymd / _ord2ymd *)
Definition ord2ymd (n0 : Z) : Z * Z * Z :=
  let n := n0 - 1 in
  let n400 := n / DI400Y in let n := n mod DI400Y in
  let year := n400 * 400 + 1 in
  let n100 := n / DI100Y in let n := n mod DI100Y in
  let n4 := n / DI4Y in let n := n mod DI4Y in
  let n1 := n / 365 in let n := n mod 365 in
  let year := year + n100 * 100 + n4 * 4 + n1 in
  if (n1 =? 4) || (n100 =? 4) then (year - 1, 12, 31)
  else
    let leapyear := (n1 =? 3) && (negb (n4 =? 24) || (n100 =? 3)) in
    let month := (n + 50) / 32 in
    let preceding := tbl days_before_month_tbl month + (if (2 <? month) && leapyear then 1 else 0) in
    if n <? preceding then
      let month' := month - 1 in
      let preceding' := preceding - (tbl days_in_month_tbl month' + (if (month' =? 2) && leapyear then 1 else 0)) in
      (year, month', n - preceding' + 1)
    else (year, month, n - preceding + 1).

Record civil := { c_year : Z; c_month : Z; c_day : Z; c_hour : Z; c_min : Z; c_sec : Z }.

(* the broken-down form of a wall-clock second count *)
Definition civil_of_wall (w : Z) : civil :=
  let days := w / 86400 in
  let sod := w mod 86400 in
  let '(y, m, d) := ord2ymd (epoch_ordinal + days) in
  {| c_year := y; c_month := m; c_day := d; c_hour := sod / 3600; c_min := (sod mod 3600) / 60; c_sec := sod mod 60 |}.

Definition civil_valid (c : civil) : bool :=
  (1 <=? c_year c) && (c_year c <=? 9999) && (1 <=? c_month c) && (c_month c <=? 12) &&
  (1 <=? c_day c) && (c_day c <=? days_in_month (c_year c) (c_month c)) &&
  (0 <=? c_hour c) && (c_hour c <? 24) && (0 <=? c_min c) && (c_min c <? 60) && (0 <=? c_sec c) && (c_sec c <? 60).

Definition wall_of_civil (c : civil) : Z :=
  (ymd2ord (c_year c) (c_month c) (c_day c) - epoch_ordinal) * 86400 + c_hour c * 3600 + c_min c * 60 + c_sec c.

Definition dash : N := 45%N.
(* isoformat(): "%04d-%02d-%02dT%02d:%02d:%02d", ".%06d" when the microsecond is not 0, then the offset.
   None where Python raises (year outside 1..9999, offset not strictly between -24 h and +24 h) *)
Definition civil_text (sep : N) (c : civil) : text :=
  pad 4 (c_year c) ++ dash :: pad 2 (c_month c) ++ dash :: pad 2 (c_day c) ++ sep ::
  pad 2 (c_hour c) ++ colon :: pad 2 (c_min c) ++ colon :: pad 2 (c_sec c).
Definition frac_text (us : Z) : text := if us =? 0 then [] else 46%N :: pad 6 us.
Definition year_ok (w : Z) : bool := let y := c_year (civil_of_wall w) in (1 <=? y) && (y <=? 9999).
Definition iso_text (s : stamped) : option text :=
  if year_ok (s_wall s) && (-86400 <? s_off s) && (s_off s <? 86400) then
    Some (civil_text 84%N (civil_of_wall (s_wall s)) ++ frac_text (s_usec s) ++ fmt_offset (s_off s))
  else None.

(* an independent reader of the lexical form YYYY-MM-DDThh:mm:ss[.ffffff](+|-)hh:mm[:ss] *)
Definition four (a b c d : N) : option Z :=
  match two a b, two c d with Some x, Some y => Some (x * 100 + y) | _, _ => None end.
Definition six (l : text) : option Z :=
  match l with [a; b; c; d; e; f] => match four a b c d, two e f with Some x, Some y => Some (x * 100 + y) | _, _ => None end | _ => None end.
Definition parse_iso (s : text) : option stamped :=
  match s with
  | y1 :: y2 :: y3 :: y4 :: d1 :: m1 :: m2 :: d2 :: dd1 :: dd2 :: t :: h1 :: h2 :: c1 :: mi1 :: mi2 :: c2 :: s1 :: s2 :: rest =>
    match four y1 y2 y3 y4, two m1 m2, two dd1 dd2, two h1 h2, two mi1 mi2, two s1 s2 with
    | Some y, Some m, Some d, Some hh, Some mi, Some ss =>
      let c := {| c_year := y; c_month := m; c_day := d; c_hour := hh; c_min := mi; c_sec := ss |} in
      if negb ((d1 =? dash)%N && (d2 =? dash)%N && (t =? 84)%N && (c1 =? colon)%N && (c2 =? colon)%N && civil_valid c) then None else
      let fin (us : Z) (r : text) := option_map (fun o => {| s_wall := wall_of_civil c; s_usec := us; s_off := o |}) (parse_offset r) in
      match rest with
      | 46%N :: f1 :: f2 :: f3 :: f4 :: f5 :: f6 :: r => match six [f1; f2; f3; f4; f5; f6] with Some us => fin us r | None => None end
      | r => fin 0 r
      end
    | _, _, _, _, _, _ => None
    end
  | _ => None
  end.

(* datetime_now_filename_string(): datetime.now(timezone.utc) -- the UTC dial, whatever the zone -- formatted with
   the format string of the source (Generated.filename_time_format, "%Y-%m-%d_%H%M%SZ").
   now(tz) = fromtimestamp(t, tz): utc dial of the instant, then tz.fromutc (identity for UTC) *)
Definition now_in_utc (off : zone) (now_us : Z) : stamped :=
  {| s_wall := now_us / 1000000 + 0; s_usec := now_us mod 1000000; s_off := 0 |}.
(* strftime for the directives Y m d H M S (zero padded decimal; glibc prints years below 1000 unpadded -- outside
   the domain of the statements, which start at the epoch); other characters are copied *)
Fixpoint strftime (fmt : text) (c : civil) : text :=
  match fmt with
  | [] => []
  | 37%N :: d :: r =>
    (match d with
     | 89%N => pad 4 (c_year c) | 109%N => pad 2 (c_month c) | 100%N => pad 2 (c_day c)
     | 72%N => pad 2 (c_hour c) | 77%N => pad 2 (c_min c) | 83%N => pad 2 (c_sec c)
     | _ => [37%N; d]
     end) ++ strftime r c
  | ch :: r => ch :: strftime r c
  end.
Definition filename_stamp (off : zone) (now_us : Z) : text :=
  strftime filename_time_format (civil_of_wall (s_wall (now_in_utc off now_us))).
(* the same, spelled out (shown equal to the interpreted format in Proofs/CalendarFacts.v) *)
Definition filename_text (c : civil) : text :=
  pad 4 (c_year c) ++ dash :: pad 2 (c_month c) ++ dash :: pad 2 (c_day c) ++ 95%N ::
  pad 2 (c_hour c) ++ pad 2 (c_min c) ++ pad 2 (c_sec c) ++ [90%N].

(* reader of the stamp: the UTC second it names *)
Definition parse_filename_stamp (s : text) : option Z :=
  match s with
  | [y1; y2; y3; y4; d1; m1; m2; d2; dd1; dd2; u; h1; h2; mi1; mi2; s1; s2; z] =>
    match four y1 y2 y3 y4, two m1 m2, two dd1 dd2, two h1 h2, two mi1 mi2, two s1 s2 with
    | Some y, Some m, Some d, Some hh, Some mi, Some ss =>
      let c := {| c_year := y; c_month := m; c_day := d; c_hour := hh; c_min := mi; c_sec := ss |} in
      if (d1 =? dash)%N && (d2 =? dash)%N && (u =? 95)%N && (z =? 90)%N && civil_valid c then Some (wall_of_civil c) else None
    | _, _, _, _, _, _ => None
    end
  | _ => None
  end.

(* --------------------------------------------------------------------------------------------------- size *)
(* MHLMediaHash.file_size : Optional[int].  Writer (_media_hash_xml_element): `if media_hash.file_size is not None:
   path_element.attrib["size"] = str(media_hash.file_size)`.  Reader (parse): `file_size = element.attrib.get("size");
   current_object.file_size = int(file_size) if file_size else None` -- an absent or empty attribute is None; a
   non-numeric one raises (modelled by the outer None). *)
Definition emit_size (file_size : option Z) : option text :=
  match file_size with Some n => Some (str_int n) | None => None end.
Definition parse_size (attr : option text) : option (option Z) :=
  match attr with
  | None => Some None
  | Some [] => Some None
  | Some s => match int_of_text s with Some n => Some (Some n) | None => None end
  end.
(* what a reader of the manifest learns about the size of a file that had n bytes when it was sealed
   (commands.seal_file_path: file_size = os.path.getsize(file_path)) *)
Definition recorded_size (n : Z) : option (option Z) := parse_size (emit_size (Some n)).

(* the directory writer (_directory_hash_xml_element) still tests truthiness: `if media_hash.file_size:` -- folders
   are created with file_size None (generator.append_multiple_format_directory_hashes), so no size is written *)
Definition emit_dir_size (file_size : option Z) : option text :=
  match file_size with Some n => if n =? 0 then None else Some (str_int n) | None => None end.

(* ------------------------------------------------------------------- zones for the executable correspondence *)
(* a zone given by its transition table: the base offset and (instant, new offset) pairs in ascending order *)
Fixpoint off_table (base : Z) (tr : list (Z * Z)) (u : Z) : Z :=
  match tr with
  | [] => base
  | (t, o) :: r => if u <? t then base else off_table o r u
  end.

(* ------------------------------------------------------------------ predicates used by the statements (Props/C16.v) *)
Definition day : Z := 86400.
(* around t (two days either way) the zone has at most one transition: o1 before T, o2 from T on; offsets strictly
   inside +-24 h (datetime.timezone accepts nothing else), the shift at most 24 h (max_fold_seconds) *)
Definition window (off : zone) (t T o1 o2 : Z) : Prop :=
  - day < o1 < day /\ - day < o2 < day /\ - day <= o1 - o2 <= day /\
  forall u, t - 2 * day <= u <= t + 2 * day -> off u = if u <? T then o1 else o2.
Definition regular_at (off : zone) (t : Z) : Prop := exists T o1 o2, window off t T o1 o2.
(* the platform finds the instant t back from its own local time: datetime.fromtimestamp, then astimezone() *)
Definition resolves (gr : bool) (off : zone) (t : Z) : Prop :=
  forall us, resolve gr off {| wall := local off t; usec := us; fold := detect_fold off t |} = t.

(* a table describes a zone on which CPython's fold / gap logic is exact (Proofs/TimeFacts.v table_regular): offsets
   strictly inside +-24 h, every shift at most 24 h, consecutive transitions more than 4 days apart *)
Fixpoint table_ok (base : Z) (prev : option Z) (tr : list (Z * Z)) : bool :=
  (- day <? base) && (base <? day) &&
  match tr with
  | [] => true
  | (t, o) :: r =>
    (match prev with None => true | Some p => p + 4 * day <? t end) && (Z.abs (base - o) <=? day) && table_ok o (Some t) r
  end.
