(* ignore.py: MHLIgnoreSpec.set_patterns -- existing-or-default ++ new ++ file, order preserving, no duplicates *)
From MHL Require Export Model.Base.
From MHL Require Import Gen.Generated.

(* self._ignore_list.extend(line for line in patterns if line not in self._ignore_list):
   the generator is consumed lazily by extend, so a pattern repeated inside `ps` is dropped as well *)
Fixpoint append_patterns (acc ps : list text) : list text :=
  match ps with
  | [] => acc
  | p :: ps' => if mem_text p acc then append_patterns acc ps' else append_patterns (acc ++ [p]) ps'
  end.

Definition set_patterns (existing new_list file_list : list text) : list text :=
  let base := append_patterns [] (match existing with [] => default_ignore | _ => existing end) in
  append_patterns (append_patterns base new_list) file_list.

(* _append_patterns_from_file: line.rstrip("\n") for line in fh if line != "\n" *)
Definition pattern_file_lines (lines : list text) : list text := filter (fun l => negb (text_eqb l [])) lines.
