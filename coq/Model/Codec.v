(* Text codecs of hasher.py: HexHasher (hexdigest / unhexlify) and C4 (base-58 rendering of SHA-512),
   written as the code writes them, over the constants regenerated from the source (Gen/Generated.v). *)
From Coq Require Import String Ascii.
From MHL Require Export Model.Base.
From MHL Require Import Gen.Generated.
Local Open Scope N_scope.

(* string literal -> text *)
Definition t (s : string) : text := map N_of_ascii (list_ascii_of_string s).

(* ---- hash formats -------------------------------------------------------------------------------- *)
Inductive fmt := Md5 | Sha1 | Xxh32 | Xxh64 | Xxh3 | Xxh128 | C4.
Definition all_fmts : list fmt := [Md5; Sha1; Xxh32; Xxh64; Xxh3; Xxh128; C4].
Definition fmt_name (f : fmt) : text :=
  match f with
  | Md5 => t "md5" | Sha1 => t "sha1" | Xxh32 => t "xxh32" | Xxh64 => t "xxh64"
  | Xxh3 => t "xxh3" | Xxh128 => t "xxh128" | C4 => t "c4"
  end.
Definition fmt_eqb (a b : fmt) : bool :=
  match a, b with
  | Md5, Md5 | Sha1, Sha1 | Xxh32, Xxh32 | Xxh64, Xxh64 | Xxh3, Xxh3 | Xxh128, Xxh128 | C4, C4 => true
  | _, _ => false
  end.
Definition fmt_of_name (n : text) : option fmt := find (fun f => text_eqb (fmt_name f) n) all_fmts.
Definition memf (f : fmt) (l : list fmt) : bool := existsb (fmt_eqb f) l.
(* raw digest width in bytes of the primitive behind each format *)
Definition width (f : fmt) : nat :=
  match f with Md5 => 16 | Sha1 => 20 | Xxh32 => 4 | Xxh64 => 8 | Xxh3 => 8 | Xxh128 => 16 | C4 => 64 end%nat.
(* sorted(hash_formats): Python sorts the format *names* *)
Definition fmt_leb (a b : fmt) : bool := lexb (fmt_name a) (fmt_name b).
Definition sort_fmts : list fmt -> list fmt := sort fmt_leb.
Definition dedup_fmts : list fmt -> list fmt := dedup_by fmt_eqb [].

(* ---- big-endian integers ------------------------------------------------------------------------- *)
Definition be_to_N (b : bytes) : N := fold_left (fun r x => r * 256 + x) b 0.
Fixpoint be_of_N (n : nat) (v : N) : bytes :=      (* int.to_bytes(n, 'big') for v < 256^n *)
  match n with O => [] | S k => be_of_N k (v / 256) ++ [v mod 256] end.

(* ---- hex ---------------------------------------------------------------------------------------- *)
Definition hexdigit (d : N) : N := if d <? 10 then 48 + d else 87 + d.        (* '0'..'9' 'a'..'f' *)
Definition hex_enc (b : bytes) : text := flat_map (fun x => [hexdigit (x / 16); hexdigit (x mod 16)]) b.
Definition hexval (c : N) : option N :=
  if (48 <=? c) && (c <=? 57) then Some (c - 48)
  else if (97 <=? c) && (c <=? 102) then Some (c - 87)
  else if (65 <=? c) && (c <=? 70) then Some (c - 55)
  else None.
Fixpoint hex_dec (s : text) : option bytes :=        (* binascii.unhexlify *)
  match s with
  | [] => Some []
  | [_] => None
  | h :: l :: s' =>
      match hexval h, hexval l, hex_dec s' with
      | Some a, Some b, Some r => Some (a * 16 + b :: r)
      | _, _, _ => None
      end
  end.

(* ---- C4 ----------------------------------------------------------------------------------------- *)
(* while hash_value != 0: modulo = hash_value % base58; hash_value //= base58; s = charset[modulo] + s *)
Fixpoint c4_enc_loop (fuel : nat) (v : N) (acc : text) : text :=
  match fuel with
  | O => acc
  | S k => if v =? 0 then acc
           else c4_enc_loop k (v / c4_base_enc) (nth (N.to_nat (v mod c4_base_enc)) c4_charset 0 :: acc)
  end.
Definition c4_zero_char : N := hd 0 c4_zero.
Definition c4_enc_value (fuel : nat) (v : N) : text :=
  c4_prefix ++ rjust (N.to_nat (c4_len_enc - c4_pad_sub)) c4_zero_char (c4_enc_loop fuel v []).
(* fuel: a digest of l bytes is below 256^l <= 58^(2l) *)
Definition c4_string_digest (digest : bytes) : text := c4_enc_value (2 * length digest) (be_to_N digest).

Fixpoint c4_dec_loop (s : text) (result : N) : option N :=
  match s with
  | [] => Some result
  | c :: s' => match index_of c c4_charset with
               | None => None                                      (* ValueError *)
               | Some d => c4_dec_loop s' (result * c4_base_dec + d)
               end
  end.
Definition c4_dec_value (s : text) : option N :=
  let n := N.to_nat (c4_len_dec - c4_dec_start) in
  let body := firstn n (skipn (N.to_nat c4_dec_start) s) in
  if Nat.ltb (length body) n then None                            (* IndexError *)
  else c4_dec_loop body 0.
Definition c4_bytes_from_string (s : text) : option bytes :=
  match c4_dec_value s with
  | None => None
  | Some v => if v <? 256 ^ c4_digest_bytes then Some (be_of_N (N.to_nat c4_digest_bytes) v)
              else None                                            (* OverflowError *)
  end.

(* ---- per-format text form ----------------------------------------------------------------------- *)
Definition enc (f : fmt) (digest : bytes) : text :=
  match f with C4 => c4_string_digest digest | _ => hex_enc digest end.
Definition dec (f : fmt) (s : text) : option bytes :=
  match f with C4 => c4_bytes_from_string s | _ => hex_dec s end.
