(* The two chunked read loops of hasher.py (Hasher.hash_file, AggregateHasher.hash_file), hash_data, and the
   read-once multi-format pass, over an abstract streaming hasher.  B is the byte type (kept abstract so the
   extracted loop can be run on OCaml chars), st the hasher state. *)
From MHL Require Export Model.Codec.
From MHL Require Import Gen.Generated.

Section Loops.
  Variables (B st K : Type).
  Variable upd : st -> list B -> st.                (* hasher.update(chunk) *)
  Variable updk : K -> st -> list B -> st.          (* hasher_lookup[fmt].update(chunk) *)

  (* chunk = fd.read(size); while chunk: hasher.update(chunk); chunk = fd.read(size)
     fuel exhaustion (None) is excluded by the theorems: fuel = S (length rem) always suffices. *)
  Fixpoint hash_file_loop (fuel size : nat) (s : st) (rem : list B) : option st :=
    match fuel with
    | O => None
    | S k => match firstn size rem with
             | [] => Some s
             | c => hash_file_loop k size (upd s c) (skipn size rem)
             end
    end.

  (* the same loop when the file object is allowed to return short reads: `plan` lists how many bytes each
     read() call returns (capped by the request and by what is left; a 0 ends the loop as EOF does) *)
  Fixpoint hash_file_plan (plan : list nat) (size : nat) (s : st) (rem : list B) : st * list B :=
    match plan with
    | [] => (s, rem)
    | n :: plan' => match firstn (Nat.min n size) rem with
                    | [] => (s, rem)
                    | c => hash_file_plan plan' size (upd s c) (skipn (Nat.min n size) rem)
                    end
    end.

  Definition upd_all (hs : list (K * st)) (c : list B) : list (K * st) :=
    map (fun p => (fst p, updk (fst p) (snd p) c)) hs.
  Fixpoint agg_loop (fuel size : nat) (hs : list (K * st)) (rem : list B) : option (list (K * st)) :=
    match fuel with
    | O => None
    | S k => match firstn size rem with
             | [] => Some hs
             | c => agg_loop k size (upd_all hs c) (skipn size rem)
             end
    end.
End Loops.

(* The free streaming hasher: the state is everything fed so far, the digest is the primitive Hb applied to it.
   (That hashlib / xxhash objects behave like this -- digest after update(a); update(b) = digest of a ++ b -- is
   the streaming law of those libraries: trusted, and sampled by the correspondence check.) *)
Section Hash.
  Variable Hb : fmt -> bytes -> bytes.              (* the primitive: raw digest of a byte string *)

  Definition hash_data (f : fmt) (b : bytes) : text := enc f (Hb f (@nil N ++ b)).
  Definition digest_text (f : fmt) (b : bytes) : text := enc f (Hb f b).

  Definition hash_file (f : fmt) (content : bytes) : option text :=
    match hash_file_loop N bytes (@app N) (S (length content)) (N.to_nat chunk_size_single) [] content with
    | Some acc => Some (enc f (Hb f acc))
    | None => None
    end.

  (* hasher_lookup = {}; for f in hash_formats: hasher_lookup[f] = new hasher   (dict: first position, one key) *)
  Definition multi_hash_file (fmts : list fmt) (content : bytes) : option (list (fmt * text)) :=
    let hs := map (fun f => (f, @nil N)) (dedup_fmts fmts) in
    match agg_loop N bytes fmt (fun _ => @app N) (S (length content)) (N.to_nat chunk_size_multi) hs content with
    | Some hs' => Some (map (fun p => (fst p, enc (fst p) (Hb (fst p) (snd p)))) hs')
    | None => None
    end.
  Definition multi_hash_data (fmts : list fmt) (b : bytes) : list (fmt * text) :=
    map (fun f => (f, hash_data f b)) (dedup_fmts fmts).
End Hash.
