(* Base vocabulary of the model: bytes, text, paths, comparisons, the sort the code relies on.
   Definitions only (executable, total); lemmas live in Proofs/. *)
From Coq Require Export List NArith ZArith Bool.
Export ListNotations.

Definition byte := N.                 (* 0..255 *)
Definition bytes := list N.
Definition text := list N.            (* Unicode code points; Python str *)
Definition path := list text.         (* path components, root-relative; [] is the root itself *)

Fixpoint list_eqb {A} (eqb : A -> A -> bool) (a b : list A) : bool :=
  match a, b with
  | [], [] => true
  | x :: a', y :: b' => eqb x y && list_eqb eqb a' b'
  | _, _ => false
  end.
Definition text_eqb : text -> text -> bool := list_eqb N.eqb.
Definition path_eqb : path -> path -> bool := list_eqb text_eqb.
Definition mem_text (x : text) (l : list text) : bool := existsb (text_eqb x) l.
Definition mem_path (x : path) (l : list path) : bool := existsb (path_eqb x) l.

(* Python's < on str / list.sort(): lexicographic by code point; lexb a b  <->  a <= b *)
Fixpoint lexb (a b : list N) : bool :=
  match a, b with
  | [], _ => true
  | _ :: _, [] => false
  | x :: a', y :: b' => if N.ltb x y then true else if N.eqb x y then lexb a' b' else false
  end.
Definition lex_ltb (a b : list N) : bool := lexb a b && negb (list_eqb N.eqb a b).

Section Sort.
  Context {A : Type} (leb : A -> A -> bool).
  Fixpoint insert (x : A) (l : list A) : list A :=
    match l with
    | [] => [x]
    | y :: l' => if leb x y then x :: l else y :: insert x l'
    end.
  Definition sort (l : list A) : list A := fold_right insert [] l.
End Sort.
Definition sort_text : list text -> list text := sort lexb.

(* order-preserving de-duplication (first occurrence wins), as Python dict keys / `if x not in l: l.append(x)` *)
Fixpoint dedup_by {A} (eqb : A -> A -> bool) (seen : list A) (l : list A) : list A :=
  match l with
  | [] => []
  | x :: l' => if existsb (eqb x) seen then dedup_by eqb seen l' else x :: dedup_by eqb (x :: seen) l'
  end.
Definition dedup_text : list text -> list text := dedup_by text_eqb [].

Fixpoint repeat_n {A} (x : A) (n : nat) : list A := match n with O => [] | S k => x :: repeat_n x k end.

(* str.rjust(width, fill) *)
Definition rjust {A} (width : nat) (fill : A) (s : list A) : list A := repeat_n fill (width - length s) ++ s.

(* list.index *)
Fixpoint index_of (x : N) (l : list N) : option N :=
  match l with
  | [] => None
  | y :: l' => if N.eqb x y then Some 0%N else option_map N.succ (index_of x l')
  end.

Fixpoint join_with {A} (sep : list A) (parts : list (list A)) : list A :=
  match parts with
  | [] => []
  | [p] => p
  | p :: rest => p ++ sep ++ join_with sep rest
  end.

(* UTF-8 encoding of one code point / of a text (surrogates are outside the model's domain) *)
Definition utf8_cp (c : N) : bytes :=
  if (c <? 128)%N then [c]
  else if (c <? 2048)%N then [192 + c / 64; 128 + c mod 64]%N
  else if (c <? 65536)%N then [224 + c / 4096; 128 + (c / 64) mod 64; 128 + c mod 64]%N
  else [240 + c / 262144; 128 + (c / 4096) mod 64; 128 + (c / 64) mod 64; 128 + c mod 64]%N.
Definition utf8 (t : text) : bytes := flat_map utf8_cp t.

Definition ascii_text (s : list N) : text := s.
