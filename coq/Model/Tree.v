(* The file-system side of the model: a media tree whose directories may carry an `ascmhl` folder (a history:
   manifest files + chain file), edits of the tree, and loading of histories (history.load_from_path with the
   chain check and the recursive discovery of nested histories). *)
From MHL Require Export Model.Seal.
From MHL Require Import Gen.Generated.

Section Tree.
  Variable C : Type.                  (* what a manifest file contains, as far as the chain is concerned (bytes) *)
  Variable cdig : C -> text.          (* the reference digest (c4 text) of such a content *)

  Record mfile := mkMfile { mf_no : N; mf_content : C; mf_doc : gen }.      (* NNNN_<folder>_<time>.mhl *)
  Record centry := mkCentry { ce_seq : N; ce_file : N; ce_digest : text }.  (* <hashlist sequencenr> path c4 *)
  Record hist := mkHist { h_files : list mfile; h_chain : option (list centry) }.   (* None: no chain file *)

  Inductive node :=
  | File (content : bytes)
  | Dir (h : option hist) (kids : list (text * node)).     (* h = None: no ascmhl folder *)

  (* ---- tree access and edits ---- *)
  Fixpoint lookup_kid (n : text) (kids : list (text * node)) : option node :=
    match kids with
    | [] => None
    | (m, k) :: kids' => if text_eqb n m then Some k else lookup_kid n kids'
    end.
  Fixpoint get (t : node) (p : path) : option node :=
    match p with
    | [] => Some t
    | n :: p' => match t with
                 | Dir _ kids => match lookup_kid n kids with Some k => get k p' | None => None end
                 | File _ => None
                 end
    end.
  (* replace / insert / delete the kid called n *)
  Fixpoint upd_kid (n : text) (f : option node -> option node) (kids : list (text * node)) : list (text * node) :=
    match kids with
    | [] => match f None with Some y => [(n, y)] | None => [] end
    | (m, k) :: kids' =>
        if text_eqb n m then match f (Some k) with Some y => (m, y) :: kids' | None => kids' end
        else (m, k) :: upd_kid n f kids'
    end.
  Fixpoint alter (p : path) (f : option node -> option node) (t : node) : node :=
    match p, t with
    | [], _ => match f (Some t) with Some t' => t' | None => t end
    | [n], Dir h kids => Dir h (upd_kid n f kids)
    | n :: p', Dir h kids =>
        Dir h (upd_kid n (fun o => Some (alter p' f (match o with Some k => k | None => Dir None [] end))) kids)
    | _ :: _, File _ => t
    end.
  Definition set_hist (p : path) (h : hist) (t : node) : node :=
    alter p (fun o => match o with Some (Dir _ kids) => Some (Dir (Some h) kids) | o' => o' end) t.
  Definition get_hist (t : node) (p : path) : option hist :=
    match get t p with Some (Dir h _) => h | _ => None end.

  (* ---- loading ---- *)
  Inductive load_err := ErrModified | ErrMissingManifest | ErrNoChain.
  Definition load_err_code (e : load_err) : Z :=
    match e with ErrModified => exit_modified_manifest | ErrMissingManifest => exit_missing_manifest | ErrNoChain => exit_no_chain end.

  (* for each chain entry: manifest must exist (33) and hash to the recorded digest (31) *)
  Fixpoint check_entries (files : list mfile) (ces : list centry) : option load_err :=
    match ces with
    | [] => None
    | ce :: ces' =>
        match find (fun m => N.eqb (mf_no m) (ce_file ce)) files with
        | None => Some ErrMissingManifest
        | Some m => if text_eqb (cdig (mf_content m)) (ce_digest ce) then check_entries files ces' else Some ErrModified
        end
    end.
  Definition check_chain (h : hist) : option load_err :=
    match h_chain h with
    | None => Some ErrNoChain
    | Some ces => check_entries (h_files h) ces
    end.

  Definition gen_leb (a b : gen) : bool := N.leb (g_no a) (g_no b).
  (* manifests found in the folder, numbered by their file name, sorted by number (stable) *)
  Definition loaded_gens (h : hist) : list gen :=
    sort gen_leb (map (fun m => let d := mf_doc m in
                                mkGen (mf_no m) (g_records d) (g_root d) (g_patterns d) (g_refs d) (g_process d))
                      (h_files h)).

  Record lhist := mkLhist {
    lh_root : path;                 (* root of the history, relative to the command's root folder *)
    lh_parent : option path;        (* root of the parent history (None for the command's root history) *)
    lh_gens : list gen;
    lh_chain : list centry;
    lh_folder : bool }.             (* an ascmhl folder exists *)
  Definition lhist_of (p : path) (parent : option path) (h : option hist) : lhist :=
    match h with
    | Some hh => mkLhist p parent (loaded_gens hh) (match h_chain hh with Some c => c | None => [] end) true
    | None => mkLhist p parent [] [] false
    end.

  Definition name_leb {A} (a b : text * A) : bool := lexb (fst a) (fst b).
  Fixpoint combine_results (rs : list (text * (list lhist + load_err))) : list lhist + load_err :=
    match rs with
    | [] => inl []
    | (_, inr e) :: _ => inr e
    | (_, inl l) :: rs' => match combine_results rs' with inl l' => inl (l ++ l') | inr e => inr e end
    end.

  (* histories at or below a node that is not the command's root, in the order walk_child_histories yields
     them (children before parents, siblings by name); `parent` is the root of the enclosing history *)
  Fixpoint discover (p parent : path) (t : node) : list lhist + load_err :=
    match t with
    | File _ => inl []
    | Dir None kids =>
        combine_results (sort name_leb
          ((fix go (ks : list (text * node)) := match ks with
                                                | [] => []
                                                | (n, k) :: ks' => (n, discover (p ++ [n]) parent k) :: go ks'
                                                end) kids))
    | Dir (Some h) kids =>
        match check_chain h with
        | Some e => inr e
        | None =>
            match combine_results (sort name_leb
                    ((fix go (ks : list (text * node)) := match ks with
                                                          | [] => []
                                                          | (n, k) :: ks' => (n, discover (p ++ [n]) p k) :: go ks'
                                                          end) kids)) with
            | inr e => inr e
            | inl below => inl (below ++ [lhist_of p (Some parent) (Some h)])
            end
        end
    end.

  (* MHLHistory.load_from_path(root): the root history is the last element *)
  Definition load (t : node) : list lhist + load_err :=
    match t with
    | File _ => inl [lhist_of [] None None]
    | Dir h kids =>
        match (match h with Some hh => check_chain hh | None => None end) with
        | Some e => inr e
        | None =>
            match combine_results (sort name_leb
                    ((fix go (ks : list (text * node)) := match ks with
                                                          | [] => []
                                                          | (n, k) :: ks' => (n, discover [n] [] k) :: go ks'
                                                          end) kids)) with
            | inr e => inr e
            | inl below => inl (below ++ [lhist_of [] None h])
            end
        end
    end.

  (* root_history.find_history_for_path: the deepest loaded history whose root is a prefix of the path *)
  Definition better (p : path) (best cand : lhist) : lhist :=
    if is_prefix (lh_root cand) p && Nat.ltb (length (lh_root best)) (length (lh_root cand)) then cand else best.
  Definition route (hs : list lhist) (root_h : lhist) (p : path) : lhist := fold_left (better p) hs root_h.
  Definition root_hist (hs : list lhist) : lhist := last hs (mkLhist [] None [] [] false).
End Tree.

Arguments File {C}.
Arguments Dir {C}.
