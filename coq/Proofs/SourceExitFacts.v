(* The exit decisions of verify and diff as the translator reads them from commands.py on every run (Gen/GeneratedFns.v:
   `exception = test_for_missing_files(...)`, the conditional re-assignments in their order, `if exception: raise exception`)
   give, on the quantities the model computes, exactly the exit code of the model's verify_core. *)
From Coq Require Import List NArith ZArith Bool.
Import ListNotations.
From MHL Require Import Model.Commands Gen.Generated Gen.GeneratedFns Proofs.BaseFacts Proofs.VerifyFacts.

Section SourceExit.
  Variable Hb : fmt -> bytes -> bytes.
  Variable matches : list text -> text -> bool.
  Variable C : Type.

  Theorem verify_core_exit_is_source hs is_diff (t : node C) only ip ifl : lh_gens (root_hist hs) <> [] ->
    let spec := set_patterns (latest_patterns (lh_gens (root_hist hs))) ip (pattern_file_lines ifl) in
    let evs := events matches C spec [] t in
    let vs := fold_left (verify_file Hb hs (negb is_diff) only) (ev_files evs) (mkVS [] [] false) in
    let miss := sorted_paths (missing matches spec (diff_paths (expected_paths hs) (visited evs))) in
    o_outcome (snd (verify_core Hb matches C hs is_diff t only ip ifl)) =
    Exit (if is_diff
          then src_diff_exit (negb (is_nil miss)) false false (length (vs_new vs)) 0
          else src_verify_exit (negb (is_nil miss)) (match only with Some _ => true | None => false end) (vs_found vs)
                               (length (vs_new vs)) (length (vs_bad vs))).
  Proof.
    intros Hg. cbv zeta. unfold verify_core.
    destruct (lh_gens (root_hist hs)) as [|g0 gs] eqn:Eg; [congruence|].
    cbv zeta. cbn [snd o_outcome].
    set (vs := fold_left _ _ _). set (miss := sorted_paths _).
    destruct is_diff.
    - destruct miss as [|m ms]; destruct (vs_new vs) as [|n ns]; reflexivity.
    - destruct (vs_bad vs) as [|b bs]; destruct (vs_new vs) as [|n ns]; destruct only as [q|]; destruct (vs_found vs); destruct miss as [|m ms]; reflexivity.
  Qed.

  (* create in folder mode: unless the run aborts, its exit code is the translated decision applied to what the run reports
     missing, to its number of failed comparisons (the failed formats of every visited file) and to whether the folder
     of a loaded nested history is gone *)
  Variable cdig : C -> text.
  Variable ser : gen -> C.
  Theorem create_exit_is_source (t : node C) req no_dh dr ip ifl hs : load C cdig t = inl hs ->
    let o := snd (create_folder Hb matches C cdig ser t req no_dh dr ip ifl) in
    let spec := set_patterns (latest_patterns (lh_gens (root_hist hs))) ip (pattern_file_lines ifl) in
    let fails := list_sum (map (file_failures Hb hs (sort_fmts req)) (ev_files (events matches C spec [] t))) in
    o_outcome o = Abort \/
    o_outcome o = Exit (src_create_exit (negb (is_nil (o_missing o))) false false 0 fails (negb (is_nil (missing_history_folders C hs t)))).
  Proof.
    intros Hl. cbn zeta. unfold create_folder. rewrite Hl.
    match goal with |- context [fold_left ?f ?l ?i] => pose proof (fold_events_fails Hb matches C hs (sort_fmts req) no_dh
      (set_patterns (latest_patterns (lh_gens (root_hist hs))) ip (pattern_file_lines ifl)) t l [] 0 : snd (fold_left f l i) = _) as Hf; destruct (fold_left f l i) as [sess fails] end.
    cbn [snd] in Hf. cbn [Nat.add] in Hf. rewrite <- Hf. cbn [snd o_outcome o_missing].
    destruct (cs_abort C _ || dr_abort _)%bool eqn:Ea; [left; reflexivity|right].
    destruct fails as [|n]; cbn [Nat.ltb Nat.leb].
    - destruct (sorted_paths (missing _ _ _)) as [|m ms]; [|reflexivity].
      destruct (missing_history_folders C hs t); reflexivity.
    - destruct (sorted_paths (missing _ _ _)) as [|m ms]; reflexivity.
  Qed.
End SourceExit.

(* ---- history.load_from_path: the check of the chain and of the manifests it lists -------------------------------------- *)
Section SourceChain.
  Variable C : Type.
  Variable cdig : C -> text.
  Lemma src_check_generations_is_model files ces :
    src_check_generations C cdig files ces = option_map load_err_code (check_entries C cdig files ces).
  Proof.
    induction ces as [|ce ces IH]; cbn [src_check_generations check_entries]; [reflexivity|].
    destruct (find (fun m => N.eqb (mf_no C m) (Tree.ce_file ce)) files) as [m|]; [|reflexivity].
    destruct (text_eqb (cdig (mf_content C m)) (Tree.ce_digest ce)); cbn [negb]; [exact IH|reflexivity].
  Qed.
  Theorem src_check_chain_is_model (h : hist C) : src_check_chain C cdig h = option_map load_err_code (check_chain C cdig h).
  Proof.
    unfold src_check_chain, check_chain. destruct (h_chain C h) as [ces|]; [apply src_check_generations_is_model|reflexivity].
  Qed.
End SourceChain.
