(* The exit decisions of verify and diff as the translator reads them from commands.py on every run (Gen/GeneratedFns.v:
   `exception = test_for_missing_files(...)`, the conditional re-assignments in their order, `if exception: raise exception`)
   give, on the quantities the model computes, exactly the exit code of the model's verify_core. *)
From Coq Require Import List NArith ZArith Bool.
Import ListNotations.
From MHL Require Import Model.Commands Gen.Generated Gen.GeneratedFns.

Section SourceExit.
  Variable Hb : fmt -> bytes -> bytes.
  Variable matches : list text -> text -> bool.
  Variable C : Type.

  Theorem verify_core_exit_is_source hs is_diff (t : node C) only ip ifl : lh_gens (root_hist hs) <> [] ->
    let spec := set_patterns (latest_patterns (lh_gens (root_hist hs))) ip (pattern_file_lines ifl) in
    let evs := events matches C spec [] t in
    let vs := fold_left (verify_file Hb hs (negb is_diff) only) (ev_files evs) (mkVS [] [] false) in
    let miss := sorted_paths (missing matches spec (diff_paths (expected_paths hs) (visited evs))) in
    o_outcome (snd (verify_core Hb matches C hs is_diff t only ip ifl)) =
    Exit (if is_diff
          then src_diff_exit (negb (is_nil miss)) false false (length (vs_new vs)) 0
          else src_verify_exit (negb (is_nil miss)) (match only with Some _ => true | None => false end) (vs_found vs)
                               (length (vs_new vs)) (length (vs_bad vs))).
  Proof.
    intros Hg. cbv zeta. unfold verify_core.
    destruct (lh_gens (root_hist hs)) as [|g0 gs] eqn:Eg; [congruence|].
    cbv zeta. cbn [snd o_outcome].
    set (vs := fold_left _ _ _). set (miss := sorted_paths _).
    destruct is_diff.
    - destruct miss as [|m ms]; destruct (vs_new vs) as [|n ns]; reflexivity.
    - destruct (vs_bad vs) as [|b bs]; destruct (vs_new vs) as [|n ns]; destruct only as [q|]; destruct (vs_found vs); destruct miss as [|m ms]; reflexivity.
  Qed.
End SourceExit.
