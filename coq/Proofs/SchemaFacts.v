(* Facts about the schema validator (Model/Schema.v):
   1. the backtracking content-model matcher computes exactly the declarative semantics (sound and complete, for every
      schema value: no determinism assumption);
   2. compositional introduction rules for the declarative semantics (what the "emitted documents are valid" proof uses);
   3. the e-mail predicate implements the regular expression [^@]+@[^\.]+\..+ ;
   4. the tool's own date format is accepted by the xs:dateTime check; decimal numbers by the xs:integer check. *)
From Coq Require Import Lia.
From MHL Require Import Model.Schema Proofs.BaseFacts.

(* ============================================================ 0. induction over schema values *)
Section SchemaInd.
  Variables (Pt : etype -> Prop) (Pp : particle -> Prop) (Pb : body -> Prop).
  Hypothesis Hsimple : forall s ds, Pt (TSimple s ds).
  Hypothesis Hcomplex : forall p ds, Pp p -> Pt (TComplex p ds).
  Hypothesis Hany : forall ds, Pt (TAny ds).
  Hypothesis Hocc : forall mn mx b, Pb b -> Pp (POccurs mn mx b).
  Hypothesis Helem : forall n t, Pt t -> Pb (PElem n t).
  Hypothesis Hseq : forall ps, Forall Pp ps -> Pb (PSeq ps).
  Hypothesis Hchoice : forall ps, Forall Pp ps -> Pb (PChoice ps).
  Fixpoint etype_mut (t : etype) : Pt t :=
    match t with
    | TSimple s ds => Hsimple s ds
    | TComplex p ds => Hcomplex p ds (particle_mut p)
    | TAny ds => Hany ds
    end
  with particle_mut (p : particle) : Pp p :=
    match p with POccurs mn mx b => Hocc mn mx b (body_mut b) end
  with body_mut (b : body) : Pb b :=
    match b with
    | PElem n t => Helem n t (etype_mut t)
    | PSeq ps => Hseq ps ((fix go (ps : list particle) : Forall Pp ps :=
                             match ps with [] => Forall_nil _ | p :: r => Forall_cons p (particle_mut p) (go r) end) ps)
    | PChoice ps => Hchoice ps ((fix go (ps : list particle) : Forall Pp ps :=
                             match ps with [] => Forall_nil _ | p :: r => Forall_cons p (particle_mut p) (go r) end) ps)
    end.
  Lemma schema_mut : (forall t, Pt t) /\ (forall p, Pp p) /\ (forall b, Pb b).
  Proof. repeat split; [apply etype_mut | apply particle_mut | apply body_mut]. Qed.
End SchemaInd.

(* ============================================================ 1a. unfolding the local fixpoints *)
Lemma match_body_seq ps : forall l, match_body (PSeq ps) l = match_seq ps l.
Proof. induction ps as [|p ps IH]; intros l; [reflexivity|]. cbn. f_equal. Qed.
Lemma match_body_alt ps l : match_body (PChoice ps) l = match_alt ps l.
Proof. induction ps as [|p ps IH]; [reflexivity|]. cbn in *. now rewrite IH. Qed.
Lemma MB_seq ps : forall l, MB (PSeq ps) l <-> MSeq ps l.
Proof. induction ps as [|p ps IH]; intros l; reflexivity. Qed.
Lemma MB_alt ps l : MB (PChoice ps) l <-> MAlt ps l.
Proof. induction ps as [|p ps IH]; [reflexivity|]. cbn in *. now rewrite IH. Qed.
Lemma AllMB_Forall b cs : AllMB b cs <-> Forall (MB b) cs.
Proof.
  induction cs as [|c cs IH]; cbn; [split; auto|].
  rewrite IH. split; [intros [? ?]; now constructor | intros H; inversion H; auto].
Qed.
Lemma MP_unfold mn mx b l :
  MP (POccurs mn mx b) l <->
  exists chunks, l = concat chunks /\ (mn <= length chunks)%nat /\ max_ok mx (length chunks) /\ Forall (MB b) chunks.
Proof.
  cbn. split; intros (cs & H1 & H2 & H3 & H4); exists cs; repeat split; auto.
  - apply AllMB_Forall. clear - H4. induction cs; cbn in *; intuition.
  - apply AllMB_Forall in H4. clear - H4. induction cs; cbn in *; intuition.
Qed.

(* ============================================================ 1b. the occurrence loop, abstractly *)
Section OccursFacts.
  Context {A : Type}.
  Variable step : list A -> list (list A).
  Variable Sp : list A -> Prop.
  Hypothesis step_spec : forall l r, In r (step l) <-> exists c, l = c ++ r /\ Sp c.

  Lemma iter_exact_spec : forall n l r,
    In r (iter_exact step n l) <-> exists cs, length cs = n /\ Forall Sp cs /\ l = concat cs ++ r.
  Proof.
    induction n as [|n IH]; intros l r; cbn.
    - split.
      + intros [->|[]]. exists []. auto.
      + intros (cs & Hl & _ & ->). destruct cs; [now left | discriminate].
    - rewrite in_flat_map. split.
      + intros (r1 & H1 & H2). apply step_spec in H1 as (c & -> & Hc). apply IH in H2 as (cs & <- & Hcs & ->).
        exists (c :: cs). cbn. rewrite app_assoc. auto.
      + intros (cs & Hl & Hcs & ->). destruct cs as [|c cs]; [discriminate|]. inversion Hcs; subst.
        exists (concat cs ++ r). split.
        * apply step_spec. exists c. cbn. rewrite app_assoc. auto.
        * apply IH. exists cs. cbn in Hl. auto.
  Qed.

  Lemma iter_upto_sound : forall k l r,
    In r (iter_upto step k l) -> exists cs, (length cs <= k)%nat /\ Forall Sp cs /\ l = concat cs ++ r.
  Proof.
    induction k as [|k IH]; intros l r; cbn [iter_upto In].
    - intros [->|[]]. exists []. cbn. auto.
    - intros [->|H]; [exists []; cbn; repeat split; auto; lia|].
      apply in_flat_map in H as (r1 & H1 & H2). destruct (length r1 <? length l)%nat; [|destruct H2].
      apply step_spec in H1 as (c & -> & Hc). apply IH in H2 as (cs & Hl & Hcs & ->).
      exists (c :: cs). cbn. rewrite app_assoc. repeat split; auto. lia.
  Qed.

  Lemma iter_upto_complete : forall cs k r,
    Forall Sp cs -> Forall (fun c => c <> []) cs -> (length cs <= k)%nat -> In r (iter_upto step k (concat cs ++ r)).
  Proof.
    induction cs as [|c cs IH]; intros k r Hs Hne Hk.
    - destruct k; cbn; auto.
    - destruct k as [|k]; [cbn in Hk; lia|]. inversion Hs; subst. inversion Hne; subst.
      cbn [iter_upto]. right. apply in_flat_map. exists (concat cs ++ r). split.
      + apply step_spec. exists c. cbn. rewrite app_assoc. auto.
      + assert (length (concat cs ++ r) < length (concat (c :: cs) ++ r))%nat as Hlt.
        { cbn. rewrite <- app_assoc, (app_length c). destruct c; [congruence|cbn; lia]. }
        apply Nat.ltb_lt in Hlt. rewrite Hlt. apply IH; auto. cbn in Hk. lia.
  Qed.

  Lemma filter_length_le' {B} (f : B -> bool) (l : list B) : (length (filter f l) <= length l)%nat.
  Proof. induction l as [|x l IH]; cbn; auto. destruct (f x); cbn; lia. Qed.
  Lemma concat_filter_nonempty (cs : list (list A)) : concat (filter (fun c => negb (is_nil c)) cs) = concat cs.
  Proof. induction cs as [|[|x c] cs IH]; cbn; auto. now rewrite IH. Qed.
  Lemma nonempty_length_concat (cs : list (list A)) : Forall (fun c => c <> []) cs -> (length cs <= length (concat cs))%nat.
  Proof.
    induction 1 as [|c cs Hc _ IH]; cbn; auto. rewrite app_length. destruct c; [congruence|cbn; lia].
  Qed.

  Theorem occurs_spec : forall mn mx l r,
    In r (occurs step mn mx l) <->
    exists cs, (mn <= length cs)%nat /\ max_ok mx (length cs) /\ Forall Sp cs /\ l = concat cs ++ r.
  Proof.
    intros mn mx l r. unfold occurs. rewrite in_flat_map. split.
    - intros (r1 & H1 & H2).
      assert (In r1 (iter_exact step mn l) /\ match mx with Some m => (mn <= m)%nat | None => True end) as [H1' Hm].
      { destruct mx as [m|]; auto. destruct (m <? mn)%nat eqn:E; [destruct H1|]. apply Nat.ltb_ge in E. auto. }
      apply iter_exact_spec in H1' as (cs1 & Hl1 & Hs1 & ->).
      apply iter_upto_sound in H2 as (cs2 & Hl2 & Hs2 & ->).
      exists (cs1 ++ cs2). rewrite app_length, concat_app, <- app_assoc. repeat split; auto; try lia.
      + destruct mx as [m|]; cbn; auto. lia.
      + apply Forall_app. auto.
    - intros (cs & Hmn & Hmx & Hs & ->).
      set (cs1 := firstn mn cs). set (cs2 := filter (fun c => negb (is_nil c)) (skipn mn cs)).
      assert (Forall Sp cs1 /\ Forall Sp (skipn mn cs)) as [Hs1 Hs2'].
      { rewrite <- (firstn_skipn mn cs) in Hs. apply Forall_app in Hs. exact Hs. }
      assert (Forall Sp cs2) as Hs2.
      { apply Forall_forall. intros c Hc. apply filter_In in Hc as [Hc _]. rewrite Forall_forall in Hs2'. auto. }
      assert (Forall (fun c => c <> []) cs2) as Hne.
      { apply Forall_forall. intros c Hc. apply filter_In in Hc as [_ Hc]. destruct c; [discriminate|congruence]. }
      assert (length cs1 = mn) as Hl1 by (unfold cs1; rewrite firstn_length; lia).
      assert (length cs2 <= length cs - mn)%nat as Hl2.
      { unfold cs2. etransitivity; [apply filter_length_le'|]. rewrite skipn_length. lia. }
      assert (concat cs = concat cs1 ++ concat cs2) as Hcat.
      { unfold cs2. rewrite concat_filter_nonempty, <- concat_app. unfold cs1. now rewrite firstn_skipn. }
      exists (concat cs2 ++ r). split.
      + assert (In (concat cs2 ++ r) (iter_exact step mn (concat cs ++ r))) as Hin.
        { apply iter_exact_spec. exists cs1. rewrite Hcat, <- app_assoc. auto. }
        destruct mx as [m|]; auto. cbn in Hmx. destruct (m <? mn)%nat eqn:E; auto. apply Nat.ltb_lt in E. lia.
      + apply iter_upto_complete; auto. destruct mx as [m|].
        * cbn in Hmx. lia.
        * rewrite app_length. pose proof (nonempty_length_concat cs2 Hne). lia.
  Qed.
End OccursFacts.

(* ============================================================ 1c. matcher = declarative semantics *)
Definition body_spec (b : body) : Prop := forall l r, In r (match_body b l) <-> exists c, l = c ++ r /\ MB b c.
Definition particle_spec (p : particle) : Prop := forall l r, In r (match_particle p l) <-> exists c, l = c ++ r /\ MP p c.
Definition type_spec (t : etype) : Prop := forall x, valid_type t x = true <-> Valid t x.

Lemma existsb_is_nil {A} (ls : list (list A)) : existsb is_nil ls = true <-> In [] ls.
Proof.
  rewrite existsb_exists. split.
  - intros ([|] & H & E); [auto|discriminate].
  - intros H. exists []. auto.
Qed.

Lemma match_seq_spec ps : Forall particle_spec ps ->
  forall l r, In r (match_seq ps l) <-> exists c, l = c ++ r /\ MSeq ps c.
Proof.
  induction 1 as [|p ps Hp _ IH]; intros l r; cbn.
  - split.
    + intros [->|[]]. exists []. auto.
    + intros (c & -> & ->). now left.
  - rewrite in_flat_map. split.
    + intros (r1 & H1 & H2). apply Hp in H1 as (c1 & -> & H1). apply IH in H2 as (c2 & -> & H2).
      exists (c1 ++ c2). rewrite app_assoc. split; auto. exists c1, c2. auto.
    + intros (c & -> & c1 & c2 & -> & H1 & H2). exists (c2 ++ r). split.
      * apply Hp. exists c1. rewrite app_assoc. auto.
      * apply IH. exists c2. auto.
Qed.
Lemma match_alt_spec ps : Forall particle_spec ps ->
  forall l r, In r (match_alt ps l) <-> exists c, l = c ++ r /\ MAlt ps c.
Proof.
  induction 1 as [|p ps Hp _ IH]; intros l r; cbn.
  - split; [intros [] | intros (c & _ & [])].
  - unfold particle_spec in Hp. rewrite in_app_iff, Hp, IH. split.
    + intros [(c & E & H)|(c & E & H)]; exists c; auto.
    + intros (c & E & [H|H]); [left|right]; exists c; auto.
Qed.

Theorem matcher_spec : (forall t, type_spec t) /\ (forall p, particle_spec p) /\ (forall b, body_spec b).
Proof.
  apply schema_mut.
  - intros s ds x. cbn. rewrite !andb_true_iff. destruct (x_kids x); cbn; intuition congruence.
  - intros p ds Hp x. cbn. rewrite !andb_true_iff, existsb_is_nil, (Hp (x_kids x) []). split.
    + intros [[? ?] (c & E & Hc)]. rewrite app_nil_r in E. subst c. auto.
    + intros (? & ? & Hc). repeat split; auto. exists (x_kids x). rewrite app_nil_r. auto.
  - intros ds x. reflexivity.
  - intros mn mx b Hb l r. change (match_particle (POccurs mn mx b) l) with (occurs (match_body b) mn mx l).
    rewrite (occurs_spec (match_body b) (MB b) Hb). split.
    + intros (cs & H1 & H2 & H3 & ->). exists (concat cs). split; auto. apply MP_unfold. exists cs. auto.
    + intros (c & -> & H). apply MP_unfold in H as (cs & -> & H1 & H2 & H3). exists cs. auto.
  - intros n t Ht l r. cbn. destruct l as [|x l'].
    + split; [intros [] | intros (c & E & y & -> & _)]. discriminate.
    + destruct (text_eqb (x_tag x) n && valid_type t x) eqn:E.
      * apply andb_true_iff in E as [E1 E2]. apply text_eqb_eq in E1. apply Ht in E2. split.
        -- intros [<-|[]]. exists [x]. split; auto. exists x. auto.
        -- intros (c & E & y & -> & _). cbn in E. injection E as _ ->. now left.
      * split; [intros []|]. intros (c & E' & y & -> & Hn & Hv). cbn in E'. injection E' as <- _.
        apply Ht in Hv. apply text_eqb_eq in Hn. rewrite Hn, Hv in E. discriminate.
  - intros ps Hps l r. rewrite match_body_seq, (match_seq_spec ps Hps). split; intros (c & E & H); exists c; split; auto; now apply MB_seq.
  - intros ps Hps l r. rewrite match_body_alt, (match_alt_spec ps Hps). split; intros (c & E & H); exists c; split; auto; now apply MB_alt.
Qed.

Theorem valid_type_iff t x : valid_type t x = true <-> Valid t x.
Proof. apply matcher_spec. Qed.
Theorem validate_iff s x : validate s x = true <-> ValidDoc s x.
Proof.
  unfold validate, ValidDoc. rewrite andb_true_iff, text_eqb_eq, valid_type_iff. reflexivity.
Qed.
(* the matcher on a whole child list *)
Theorem match_particle_iff p l : existsb is_nil (match_particle p l) = true <-> MP p l.
Proof.
  rewrite existsb_is_nil. destruct matcher_spec as (_ & Hp & _). rewrite (Hp p l []). split.
  - intros (c & E & H). rewrite app_nil_r in E. now subst.
  - intros H. exists l. rewrite app_nil_r. auto.
Qed.

(* ============================================================ 2. compositional rules *)
Lemma MP_intro mn mx b chunks :
  Forall (MB b) chunks -> (mn <= length chunks)%nat -> max_ok mx (length chunks) -> MP (POccurs mn mx b) (concat chunks).
Proof. intros. apply MP_unfold. exists chunks. auto. Qed.

Lemma MP_once mx b l : MB b l -> max_ok mx 1 -> MP (POccurs 1 mx b) l.
Proof.
  intros H Hm. rewrite <- (app_nil_r l). change (l ++ []) with (concat [l]). apply MP_intro; cbn; auto.
Qed.
Lemma MP_required b l : MB b l -> MP (POccurs 1 (Some 1) b) l.
Proof. intros. apply MP_once; cbn; auto. Qed.
Lemma MP_absent mx b : MP (POccurs 0 mx b) [].
Proof. change (@nil xml) with (concat (@nil (list xml))). apply MP_intro; cbn; auto. destruct mx; cbn; auto; lia. Qed.
Lemma MP_present mx b l : MB b l -> max_ok mx 1 -> MP (POccurs 0 mx b) l.
Proof.
  intros H Hm. rewrite <- (app_nil_r l). change (l ++ []) with (concat [l]). apply MP_intro; cbn; auto.
Qed.
(* optional particle given by an option *)
Lemma MP_option b (o : option (list xml)) :
  (forall l, o = Some l -> MB b l) -> MP (POccurs 0 (Some 1) b) (match o with Some l => l | None => [] end).
Proof. intros H. destruct o; [apply MP_present; cbn; auto | apply MP_absent]. Qed.

Lemma MB_elem n t x : x_tag x = n -> Valid t x -> MB (PElem n t) [x].
Proof. intros. exists x. auto. Qed.

(* n elements, each valid for the element particle, min <= n <= max *)
Theorem MP_repeat_elems mn mx n t xs :
  Forall (fun x => x_tag x = n /\ Valid t x) xs -> (mn <= length xs)%nat -> max_ok mx (length xs) ->
  MP (POccurs mn mx (PElem n t)) xs.
Proof.
  intros H Hmn Hmx.
  assert (xs = concat (map (fun x => [x]) xs)) as E by (clear; induction xs; cbn; congruence).
  rewrite E. apply MP_intro; rewrite ?map_length; auto.
  apply Forall_forall. intros c Hc. apply in_map_iff in Hc as (x & <- & Hx). rewrite Forall_forall in H.
  destruct (H x Hx). now apply MB_elem.
Qed.

Lemma MSeq_nil : MSeq [] [].
Proof. reflexivity. Qed.
Lemma MSeq_cons p ps l1 l2 : MP p l1 -> MSeq ps l2 -> MSeq (p :: ps) (l1 ++ l2).
Proof. intros. exists l1, l2. auto. Qed.
(* the k-th part matches the k-th particle *)
Theorem MSeq_intro ps ls : Forall2 MP ps ls -> MSeq ps (concat ls).
Proof. induction 1; cbn; [reflexivity | now apply MSeq_cons]. Qed.
Lemma MB_seq_intro ps ls : Forall2 MP ps ls -> MB (PSeq ps) (concat ls).
Proof. intros. apply MB_seq. now apply MSeq_intro. Qed.
Lemma MSeq_app ps qs l1 l2 : MSeq ps l1 -> MSeq qs l2 -> MSeq (ps ++ qs) (l1 ++ l2).
Proof.
  revert l1. induction ps as [|p ps IH]; intros l1; cbn.
  - intros ->. auto.
  - intros (a & b & -> & Ha & Hb) Hq. exists a, (b ++ l2). rewrite app_assoc. auto.
Qed.

Theorem MAlt_intro ps p l : In p ps -> MP p l -> MAlt ps l.
Proof. induction ps as [|q ps IH]; cbn; [tauto|]. intros [->|H] Hp; auto. Qed.
Lemma MB_choice_intro ps p l : In p ps -> MP p l -> MB (PChoice ps) l.
Proof. intros. apply MB_alt. eauto using MAlt_intro. Qed.

(* a non-empty list of items, each matching one member of the choice: the shape of <hashes> *)
Theorem MP_choice_repeat mn mx ps items :
  Forall (fun l => exists p, In p ps /\ MP p l) items -> (mn <= length items)%nat -> max_ok mx (length items) ->
  MP (POccurs mn mx (PChoice ps)) (concat items).
Proof.
  intros H. apply MP_intro. apply Forall_forall. intros l Hl. rewrite Forall_forall in H.
  destruct (H l Hl) as (p & Hp & Hm). eauto using MB_choice_intro.
Qed.

(* boolean forms *)
Theorem valid_complex_intro p ds tag attrs c kids :
  attrs_ok ds attrs = true -> blank c = true -> MP p kids -> valid_type (TComplex p ds) (Elem tag attrs c kids) = true.
Proof. intros. apply valid_type_iff. cbn. auto. Qed.
Theorem valid_simple_intro s ds tag attrs c :
  attrs_ok ds attrs = true -> stype_ok s (text_of c) = true -> valid_type (TSimple s ds) (Elem tag attrs c []) = true.
Proof. intros H1 H2. cbn. now rewrite H1, H2. Qed.

(* monotonicity in the bounds *)
Theorem MP_weaken mn mx mn' mx' b l :
  (mn' <= mn)%nat -> (forall n, max_ok mx n -> max_ok mx' n) -> MP (POccurs mn mx b) l -> MP (POccurs mn' mx' b) l.
Proof.
  intros H1 H2 H. apply MP_unfold in H as (cs & -> & Ha & Hb & Hc). apply MP_intro; auto. lia.
Qed.
(* an element-only content model never accepts an undeclared first child *)
Theorem MP_app mn1 mn2 m1 m2 b l1 l2 :
  MP (POccurs mn1 (Some m1) b) l1 -> MP (POccurs mn2 (Some m2) b) l2 -> MP (POccurs (mn1 + mn2) (Some (m1 + m2)) b) (l1 ++ l2).
Proof.
  intros H1 H2. apply MP_unfold in H1 as (c1 & -> & A1 & B1 & C1). apply MP_unfold in H2 as (c2 & -> & A2 & B2 & C2).
  rewrite <- concat_app. apply MP_intro; rewrite ?app_length; cbn in *; try lia. apply Forall_app. auto.
Qed.

(* ============================================================ 3. the e-mail pattern *)
Lemma split_at_sound c : forall s a b, split_at c s = Some (a, b) -> s = a ++ c :: b /\ ~ In c a.
Proof.
  induction s as [|x s IH]; intros a b; cbn; [discriminate|].
  destruct (N.eqb_spec x c) as [->|Hn].
  - intros E. injection E as <- <-. auto.
  - destruct (split_at c s) as [[a' b']|]; [|discriminate].
    intros E. injection E as <- <-. destruct (IH a' b' eq_refl) as [-> Hni]. split; auto.
    intros [?|?]; auto.
Qed.
Lemma split_at_complete c : forall a b, ~ In c a -> split_at c (a ++ c :: b) = Some (a, b).
Proof.
  induction a as [|x a IH]; intros b Hni; cbn.
  - now rewrite N.eqb_refl.
  - destruct (N.eqb_spec x c) as [->|Hn]; [exfalso; apply Hni; now left|].
    rewrite IH; auto. intros ?. apply Hni. now right.
Qed.
Lemma split_at_spec c s a b : split_at c s = Some (a, b) <-> s = a ++ c :: b /\ ~ In c a.
Proof. split; [apply split_at_sound | intros [-> H]; now apply split_at_complete]. Qed.

(* the language of the regular expression, written out: one or more characters other than '@', an '@', one or more
   characters other than '.', a '.', one or more characters other than LF / CR (XSD's `.`) *)
Definition email_lang (s : text) : Prop :=
  exists a b c, s = a ++ 64%N :: b ++ 46%N :: c /\
    a <> [] /\ ~ In 64%N a /\ b <> [] /\ ~ In 46%N b /\ c <> [] /\ Forall (fun x => x <> 10%N /\ x <> 13%N) c.

Lemma nonempty_iff {A} (l : list A) : nonempty l = true <-> l <> [].
Proof. destruct l; cbn; split; congruence. Qed.
Lemma dot_char_iff c : Forall (fun x => x <> 10%N /\ x <> 13%N) c <-> forallb dot_char c = true.
Proof.
  rewrite forallb_forall, Forall_forall. unfold dot_char.
  split; intros H x Hx; specialize (H x Hx).
  - destruct H. destruct (N.eqb_spec x 10), (N.eqb_spec x 13); cbn; congruence.
  - destruct (N.eqb_spec x 10), (N.eqb_spec x 13); cbn in H; try discriminate. auto.
Qed.

Theorem email_ok_spec s : email_ok s = true <-> email_lang s.
Proof.
  unfold email_ok, email_lang. split.
  - destruct (split_at 64 s) as [[a r]|] eqn:E1; [|discriminate].
    destruct (split_at 46 r) as [[b c]|] eqn:E2; [|discriminate].
    rewrite !andb_true_iff, !nonempty_iff. intros [[[Ha Hb] Hc] Hd].
    apply split_at_spec in E1 as [-> Ha']. apply split_at_spec in E2 as [-> Hb'].
    exists a, b, c. rewrite dot_char_iff. auto 10.
  - intros (a & b & c & -> & Ha & Ha' & Hb & Hb' & Hc & Hd).
    assert (split_at 64 (a ++ 64%N :: b ++ 46%N :: c) = Some (a, b ++ 46%N :: c)) as -> by (apply split_at_spec; auto).
    assert (split_at 46 (b ++ 46%N :: c) = Some (b, c)) as -> by (apply split_at_spec; auto).
    rewrite !andb_true_iff, !nonempty_iff, <- dot_char_iff. auto.
Qed.

(* ============================================================ 4. the tool's own date and number formats *)
Lemma digit_is_digit n : is_digit (digit n) = true.
Proof.
  unfold is_digit, digit. pose proof (N.mod_lt n 10 ltac:(discriminate)) as H.
  remember (n mod 10)%N as m. clear Heqm. apply andb_true_iff. split; apply N.leb_le; lia.
Qed.
Lemma dig_val_digit n : dig_val (digit n) = (n mod 10)%N.
Proof. unfold dig_val, digit. rewrite N.add_comm. apply N.add_sub. Qed.
Lemma digit_not c n : (c < 48)%N -> (digit n =? c)%N = false.
Proof. intros. apply N.eqb_neq. unfold digit. remember (n mod 10)%N as m. clear Heqm. lia. Qed.
Lemma is_digit_false_lt c : (c < 48)%N -> is_digit c = false.
Proof. intros. unfold is_digit. apply andb_false_iff. left. apply N.leb_gt. auto. Qed.

Lemma two_digits n : (n < 100)%N -> (10 * ((n / 10) mod 10) + n mod 10 = n)%N.
Proof.
  intros H. assert (n / 10 < 10)%N by (apply N.div_lt_upper_bound; lia).
  rewrite (N.mod_small (n / 10) 10) by auto. symmetry. apply N.div_mod'.
Qed.
Lemma take2_digits a b r : take2 (digit a :: digit b :: r) = Some ((10 * (a mod 10) + b mod 10)%N, r).
Proof. unfold take2. now rewrite !digit_is_digit, !dig_val_digit. Qed.
Lemma take2_pad2 n r : (n < 100)%N -> take2 (digit (n / 10) :: digit n :: r) = Some (n, r).
Proof. intros. now rewrite take2_digits, two_digits. Qed.
Lemma expect_hit c r : expect c (c :: r) = Some r.
Proof. unfold expect. now rewrite N.eqb_refl. Qed.

Lemma span_digits_app : forall ds c r,
  forallb is_digit ds = true -> is_digit c = false -> span_digits (ds ++ c :: r) = (ds, c :: r).
Proof.
  induction ds as [|d ds IH]; intros c r Hd Hc; cbn.
  - now rewrite Hc.
  - cbn in Hd. apply andb_true_iff in Hd as [H1 H2]. now rewrite H1, IH.
Qed.

Lemma span_digits4 a b c d r :
  span_digits (digit a :: digit b :: digit c :: digit d :: 45%N :: r) = ([digit a; digit b; digit c; digit d], 45%N :: r).
Proof. apply (span_digits_app [digit a; digit b; digit c; digit d]); [cbn [forallb]; now rewrite !digit_is_digit | reflexivity]. Qed.

Lemma four_digits y : (y < 10000)%N ->
  digits_val [digit (y / 1000); digit (y / 100); digit (y / 10); digit y] = y.
Proof.
  intros H. unfold digits_val. cbn [fold_left]. rewrite !dig_val_digit.
  assert (y / 1000 < 10)%N by (apply N.div_lt_upper_bound; lia).
  rewrite (N.mod_small (y / 1000) 10) by auto.
  assert (y / 100 = 10 * (y / 1000) + (y / 100) mod 10)%N as E3.
  { replace (y / 1000)%N with (y / 100 / 10)%N by (rewrite N.div_div by discriminate; reflexivity). apply N.div_mod'. }
  assert (y / 10 = 10 * (y / 100) + (y / 10) mod 10)%N as E2.
  { replace (y / 100)%N with (y / 10 / 10)%N by (rewrite N.div_div by discriminate; reflexivity). apply N.div_mod'. }
  pose proof (N.div_mod' y 10) as E1.
  remember (y mod 10)%N as m0. remember ((y / 10) mod 10)%N as m1. remember ((y / 100) mod 10)%N as m2.
  remember (y / 10)%N as q1. remember (y / 100)%N as q2. remember (y / 1000)%N as q3.
  clear - E1 E2 E3. lia.
Qed.

(* the civil-time components Python's datetime can hold, with a utc offset of whole minutes within XSD's +-14:00 *)
Definition civil_ok (y mo d h mi s us oh om : N) : Prop :=
  (1 <= y <= 9999 /\ 1 <= mo <= 12 /\ 1 <= d <= days_in_month y mo /\ h <= 23 /\ mi <= 59 /\ s <= 59 /\ us <= 999999
   /\ (oh <= 13 /\ om <= 59 \/ oh = 14 /\ om = 0))%N.

Lemma tz_ok_render (neg : bool) (oh om : N) :
  (oh <= 13 /\ om <= 59 \/ oh = 14 /\ om = 0)%N ->
  tz_ok ((if neg then 45%N else 43%N) :: digit (oh / 10) :: digit oh :: 58%N :: digit (om / 10) :: [digit om]) = true.
Proof.
  intros H. unfold tz_ok.
  assert (((if neg then 45 else 43) =? 90)%N = false) as -> by (destruct neg; reflexivity).
  assert (((if neg then 45 else 43) =? 43)%N || ((if neg then 45 else 43) =? 45)%N = true) as -> by (destruct neg; reflexivity).
  rewrite take2_pad2 by lia. rewrite expect_hit. rewrite take2_pad2 by lia.
  destruct H as [[H1 H2]|[-> ->]]; [|reflexivity].
  apply N.leb_le in H1, H2. now rewrite H1, H2.
Qed.

Theorem datetime_ok_render (y mo d h mi s us : N) (neg : bool) (oh om : N) :
  civil_ok y mo d h mi s us oh om -> datetime_ok (render_datetime y mo d h mi s us neg oh om) = true.
Proof.
  intros (Hy & Hmo & Hd & Hh & Hmi & Hs & Hus & Htz).
  unfold render_datetime, pad2, pad4. cbn [app]. unfold datetime_ok.
  rewrite digit_not by lia.
  rewrite span_digits4.
  assert (year_ok [digit (y / 1000); digit (y / 100); digit (y / 10); digit y] = true) as ->.
  { unfold year_ok. rewrite four_digits by lia. cbn [length Nat.leb Nat.eqb orb andb].
    apply andb_true_iff. split; [apply negb_true_iff, N.eqb_neq; lia | apply N.leb_le; unfold max_year; lia]. }
  rewrite four_digits by lia. cbn [andb].
  rewrite expect_hit. cbn [obind]. rewrite take2_pad2 by lia. cbn [obind].
  rewrite expect_hit. cbn [obind]. rewrite take2_pad2 by (pose proof (N.le_trans d _ 31 (proj2 Hd)); unfold days_in_month in *;
    destruct (mo =? 2)%N, (leap y), ((mo =? 4) || (mo =? 6) || (mo =? 9) || (mo =? 11))%N; lia). cbn [obind].
  rewrite expect_hit. cbn [obind]. rewrite take2_pad2 by lia. cbn [obind].
  rewrite expect_hit. cbn [obind]. rewrite take2_pad2 by lia. cbn [obind].
  rewrite expect_hit. cbn [obind]. rewrite take2_pad2 by lia. cbn [obind].
  assert (exists fz, fraction ((if (us =? 0)%N then [] else 46%N :: pad6 us) ++
             (if neg then 45%N else 43%N) :: digit (oh / 10) :: digit oh :: 58%N :: digit (om / 10) :: [digit om])
          = Some (fz, (if neg then 45%N else 43%N) :: digit (oh / 10) :: digit oh :: 58%N :: digit (om / 10) :: [digit om])) as [fz ->].
  { destruct (us =? 0)%N.
    - exists true. cbn [app]. unfold fraction. destruct neg; reflexivity.
    - cbn [app]. unfold fraction. rewrite N.eqb_refl. rewrite span_digits_app.
      + unfold pad6. eexists. reflexivity.
      + unfold pad6. cbn [forallb]. now rewrite !digit_is_digit.
      + destruct neg; reflexivity. }
  cbn [obind]. rewrite tz_ok_render by auto.
  destruct Hmo as [A1 A2], Hd as [B1 B2]. apply N.leb_le in A1, A2, B1, B2, Hh, Hmi, Hs.
  now rewrite A1, A2, B1, B2, Hh, Hmi, Hs.
Qed.

(* str(int) of a non-negative number: a non-empty string of decimal digits; accepted up to 24 digits (2^79 < 10^24) *)
Lemma drop_zeros_length s : (length (drop_zeros s) <= length s)%nat.
Proof. induction s as [|c s IH]; cbn; auto. destruct (c =? 48)%N; cbn; lia. Qed.
Lemma drop_ws_digits s : forallb is_digit s = true -> drop_ws s = s.
Proof.
  destruct s as [|c s]; cbn; auto. intros H. apply andb_true_iff in H as [H _].
  unfold is_digit in H. apply andb_true_iff in H as [H _]. apply N.leb_le in H.
  unfold is_ws. destruct (N.eqb_spec c 32), (N.eqb_spec c 9), (N.eqb_spec c 10), (N.eqb_spec c 13); cbn; auto; lia.
Qed.
Lemma forallb_rev {A} (f : A -> bool) l : forallb f (rev l) = forallb f l.
Proof.
  induction l as [|x l IH]; cbn; auto. rewrite forallb_app, IH. cbn. rewrite andb_true_r. apply andb_comm.
Qed.
Theorem integer_ok_digits ds :
  ds <> [] -> forallb is_digit ds = true -> (length ds <= 24)%nat -> integer_ok ds = true.
Proof.
  intros Hne Hd Hl. unfold integer_ok, trim.
  rewrite (drop_ws_digits ds Hd), (drop_ws_digits (rev ds)) by (now rewrite forallb_rev). rewrite rev_involutive.
  destruct ds as [|c r]; [congruence|].
  assert ((c =? 43)%N || (c =? 45)%N = false) as ->.
  { cbn in Hd. apply andb_true_iff in Hd as [H _]. unfold is_digit in H. apply andb_true_iff in H as [H _].
    apply N.leb_le in H. destruct (N.eqb_spec c 43), (N.eqb_spec c 45); cbn; auto; lia. }
  rewrite Hd. cbn [length Nat.eqb negb andb].
  apply Nat.leb_le. pose proof (drop_zeros_length (c :: r)). lia.
Qed.
