(* C05 / C06: history.load_from_path as `load` -- the chain check at every level, and what loading returns. *)
From Coq Require Import Lia Permutation Sorting.Sorted.
From MHL Require Import Model.Commands Gen.Generated Proofs.BaseFacts Proofs.TreeFacts.

Section Load.
  Variable C : Type.
  Variable cdig : C -> text.
  Notation node := (node C).
  Notation hist := (hist C).

  (* the chain check passes exactly when every chain entry names an existing manifest whose bytes hash to the
     recorded digest *)
  Theorem check_entries_ok files ces :
    check_entries C cdig files ces = None <->
    forall ce, In ce ces -> exists m, find (fun m => N.eqb (mf_no C m) (ce_file ce)) files = Some m /\
                                      cdig (mf_content C m) = ce_digest ce.
  Proof.
    induction ces as [|ce ces IH]; cbn [check_entries].
    - split; [intros _ ce []|reflexivity].
    - destruct (find _ files) as [m|] eqn:Ef.
      + destruct (text_eqb_spec (cdig (mf_content C m)) (ce_digest ce)) as [E|E].
        * rewrite IH. split.
          -- intros H x [<-|Hx]; [exists m; auto|apply H; exact Hx].
          -- intros H x Hx. apply H. right. exact Hx.
        * split; [discriminate|]. intros H. destruct (H ce (or_introl eq_refl)) as [m' [H1 H2]].
          rewrite Ef in H1. injection H1 as <-. contradiction.
      + split; [discriminate|]. intros H. destruct (H ce (or_introl eq_refl)) as [m' [H1 _]]. rewrite Ef in H1. discriminate.
  Qed.
  (* which code: a missing manifest gives 33, a manifest whose bytes do not hash to the recorded digest gives 31 --
     decided by the first chain entry that fails *)
  Theorem check_entries_modified files ces ce m :
    In ce ces -> find (fun m => N.eqb (mf_no C m) (ce_file ce)) files = Some m -> cdig (mf_content C m) <> ce_digest ce ->
    check_entries C cdig files ces = Some ErrModified \/ check_entries C cdig files ces = Some ErrMissingManifest.
  Proof.
    induction ces as [|c0 ces IH]; intros Hin Hf Hd; [destruct Hin|]. cbn [check_entries].
    destruct Hin as [->|Hin].
    - rewrite Hf. destruct (text_eqb_spec (cdig (mf_content C m)) (ce_digest ce)); [contradiction|left; reflexivity].
    - destruct (find (fun m1 => N.eqb (mf_no C m1) (ce_file c0)) files) as [m0|]; [|right; reflexivity].
      destruct (text_eqb _ _); [apply IH; auto|left; reflexivity].
  Qed.
  Theorem check_entries_missing files ces ce :
    In ce ces -> find (fun m => N.eqb (mf_no C m) (ce_file ce)) files = None ->
    check_entries C cdig files ces = Some ErrModified \/ check_entries C cdig files ces = Some ErrMissingManifest.
  Proof.
    induction ces as [|c0 ces IH]; intros Hin Hf; [destruct Hin|]. cbn [check_entries].
    destruct Hin as [->|Hin].
    - rewrite Hf. right. reflexivity.
    - destruct (find (fun m1 => N.eqb (mf_no C m1) (ce_file c0)) files) as [m0|]; [|right; reflexivity].
      destruct (text_eqb _ _); [apply IH; auto|left; reflexivity].
  Qed.
  Theorem check_chain_missing h : h_chain C h = None -> check_chain C cdig h = Some ErrNoChain.
  Proof. unfold check_chain. intros ->. reflexivity. Qed.

  (* the three dedicated exit codes (obligations on the constants regenerated from errors.py) *)
  Theorem load_err_codes :
    load_err_code ErrModified = 31%Z /\ load_err_code ErrMissingManifest = 33%Z /\ load_err_code ErrNoChain = 32%Z.
  Proof. repeat split; reflexivity. Qed.

  (* ---- every history in the tree, at any depth, is checked ---- *)
  Lemma combine_results_inl rs l : combine_results rs = inl l -> forall x, In x rs -> exists lx, snd x = inl lx.
  Proof.
    revert l. induction rs as [|[n r] rs IH]; intros l H x Hx; [destruct Hx|].
    cbn in H. destruct r as [lr|e]; [|discriminate].
    destruct (combine_results rs) as [l'|e] eqn:E; [|discriminate].
    destruct Hx as [<-|Hx]; [exists lr; reflexivity|]. eapply IH; eauto.
  Qed.

  Definition kid_results (p parent : path) (kids : list (text * node)) :=
    map (fun nk => (fst nk, discover C cdig (p ++ [fst nk]) parent (snd nk))) kids.
  Lemma discover_dir p parent h kids :
    discover C cdig p parent (Dir h kids) =
    match h with
    | None => combine_results (sort name_leb (kid_results p parent kids))
    | Some hh =>
        match check_chain C cdig hh with
        | Some e => inr e
        | None => match combine_results (sort name_leb (kid_results p p kids)) with
                  | inr e => inr e
                  | inl below => inl (below ++ [lhist_of C p (Some parent) (Some hh)])
                  end
        end
    end.
  Proof.
    cbn [discover]. unfold kid_results.
    assert (Hgo : forall par ks,
      (fix go (ks : list (text * node)) := match ks with [] => [] | (n, k) :: ks' => (n, discover C cdig (p ++ [n]) par k) :: go ks' end) ks
      = map (fun nk => (fst nk, discover C cdig (p ++ [fst nk]) par (snd nk))) ks).
    { intros par. induction ks as [|[n k] ks IH]; cbn [map fst snd]; [reflexivity|]. rewrite IH. reflexivity. }
    destruct h as [hh|]; rewrite Hgo; reflexivity.
  Qed.

  (* all histories below a node pass the chain check whenever discovery succeeds *)
  Theorem discover_checks_all : forall t p parent l,
    discover C cdig p parent t = inl l ->
    forall q h, get_hist C t q = Some h -> check_chain C cdig h = None.
  Proof.
    induction t as [c|h kids IH] using node_ind'; intros p parent l Hl q hq Hq.
    - unfold get_hist in Hq. destruct q; cbn in Hq; discriminate.
    - rewrite discover_dir in Hl.
      assert (Hkids : forall par lk, combine_results (sort name_leb (kid_results p par kids)) = inl lk ->
                      forall n q' , q = n :: q' -> check_chain C cdig hq = None).
      { intros par lk Hc n q' ->. unfold get_hist in Hq. cbn [get] in Hq.
        destruct (lookup_kid C n kids) as [k|] eqn:Ek; [|discriminate].
        assert (Hin : exists nk, In nk kids /\ snd nk = k /\ fst nk = n \/ True) by (exists (n, k); right; exact I).
        clear Hin.
        assert (Hink : exists n0, In (n0, k) kids /\ text_eqb n n0 = true).
        { clear -Ek. induction kids as [|[m k0] ks IHk]; cbn in Ek; [discriminate|].
          destruct (text_eqb n m) eqn:E; [injection Ek as <-; exists m; split; [left; reflexivity|exact E]|].
          destruct (IHk Ek) as [n0 [H1 H2]]. exists n0. split; [right; exact H1|exact H2]. }
        destruct Hink as [n0 [Hin Hn0]].
        assert (Hx : In (n0, discover C cdig (p ++ [n0]) par k) (sort name_leb (kid_results p par kids))).
        { apply sort_In. unfold kid_results. apply in_map_iff. exists (n0, k). split; [reflexivity|exact Hin]. }
        destruct (combine_results_inl _ _ Hc _ Hx) as [lx Hlx]. cbn [snd] in Hlx.
        rewrite Forall_forall in IH. eapply (IH (n0, k) Hin); [exact Hlx|]. unfold get_hist. exact Hq. }
      destruct q as [|n q'].
      + unfold get_hist in Hq. cbn in Hq. destruct h as [hh|]; [|discriminate]. injection Hq as <-.
        destruct (check_chain C cdig hh); [discriminate|reflexivity].
      + destruct h as [hh|].
        * destruct (check_chain C cdig hh); [discriminate|].
          destruct (combine_results (sort name_leb (kid_results p p kids))) as [below|e] eqn:Ec; [|discriminate].
          eapply Hkids; eauto.
        * eapply Hkids; eauto.
  Qed.

  Lemma load_dir h kids :
    load C cdig (Dir h kids) =
    match (match h with Some hh => check_chain C cdig hh | None => None end) with
    | Some e => inr e
    | None => match combine_results (sort name_leb (kid_results [] [] kids)) with
              | inr e => inr e
              | inl below => inl (below ++ [lhist_of C [] None h])
              end
    end.
  Proof.
    cbn [load]. unfold kid_results.
    assert (Hgo : forall ks,
      (fix go (ks : list (text * node)) := match ks with [] => [] | (n, k) :: ks' => (n, discover C cdig [n] [] k) :: go ks' end) ks
      = map (fun nk => (fst nk, discover C cdig ([] ++ [fst nk]) [] (snd nk))) ks).
    { induction ks as [|[n k] ks IH]; cbn [map fst snd app]; [reflexivity|]. rewrite IH. reflexivity. }
    rewrite Hgo. reflexivity.
  Qed.

  (* C05: if loading succeeds, EVERY history in the tree -- the root's and every nested one, at any depth -- has a chain
     file, and every manifest listed in any chain exists and hashes to its recorded digest.  Contrapositive: a single
     changed byte (different digest), a missing manifest or a missing chain anywhere makes load fail. *)
  Theorem load_checks_every_history t hs :
    load C cdig t = inl hs -> forall q h, get_hist C t q = Some h -> check_chain C cdig h = None.
  Proof.
    destruct t as [c|h kids]; intros Hl q hq Hq.
    - unfold get_hist in Hq. destruct q; cbn in Hq; discriminate.
    - rewrite load_dir in Hl.
      destruct q as [|n q'].
      + unfold get_hist in Hq. cbn in Hq. destruct h as [hh|]; [|discriminate]. injection Hq as <-.
        destruct (check_chain C cdig hh); [discriminate|reflexivity].
      + destruct (match h with Some hh => check_chain C cdig hh | None => None end); [discriminate|].
        destruct (combine_results (sort name_leb (kid_results [] [] kids))) as [below|e] eqn:Ec; [|discriminate].
        unfold get_hist in Hq. cbn [get] in Hq.
        destruct (lookup_kid C n kids) as [k|] eqn:Ek; [|discriminate].
        assert (Hink : exists n0, In (n0, k) kids /\ text_eqb n n0 = true).
        { clear -Ek. induction kids as [|[m k0] ks IHk]; cbn in Ek; [discriminate|].
          destruct (text_eqb n m) eqn:E; [injection Ek as <-; exists m; split; [left; reflexivity|exact E]|].
          destruct (IHk Ek) as [n0 [H1 H2]]. exists n0. split; [right; exact H1|exact H2]. }
        destruct Hink as [n0 [Hin Hn0]].
        assert (Hx : In (n0, discover C cdig ([] ++ [n0]) [] k) (sort name_leb (kid_results [] [] kids))).
        { apply sort_In. unfold kid_results. apply in_map_iff. exists (n0, k). split; [reflexivity|exact Hin]. }
        destruct (combine_results_inl _ _ Ec _ Hx) as [lx Hlx]. cbn [snd] in Hlx.
        eapply discover_checks_all; [exact Hlx|]. unfold get_hist. exact Hq.
  Qed.
End Load.

(* ---- every history-reading command refuses with the loader's code and does nothing else ---- *)
Section Refuse.
  Variable Hb : fmt -> bytes -> bytes.
  Variable matches : list text -> text -> bool.
  Variable C : Type.
  Variable cdig : C -> text.
  Variable ser : gen -> C.

  Definition refused (t : node C) (e : load_err) (r : node C * obs) : Prop :=
    r = (t, obs_exit (load_err_code e)).
  Theorem commands_refuse t e : load C cdig t = inr e ->
    (forall req no_dh dr ip ifl, refused t e (create_folder Hb matches C cdig ser t req no_dh dr ip ifl)) /\
    (forall req sf ip ifl, refused t e (create_sf Hb matches C cdig ser t req sf ip ifl)) /\
    (forall d only ip ifl, refused t e (verify_like Hb matches C cdig d t only ip ifl)) /\
    (forall f co ro ip ifl, refused t e (verify_dh Hb matches C cdig t f co ro ip ifl)) /\
    refused t e (info C cdig t) /\
    (forall file, refused t e (info_sf C cdig t file)) /\
    (forall ip ifl, refused t e (flatten C cdig t ip ifl)).
  Proof.
    intros H. unfold refused, create_folder, create_sf, verify_like, verify_core, verify_dh, info, info_sf, flatten. rewrite H.
    repeat split; reflexivity.
  Qed.
  (* the refusal writes nothing: the tree is the same and the observation has no written generation and no
     file-system operation *)
  Theorem refusal_writes_nothing e : o_written (obs_exit (load_err_code e)) = [] /\ o_ops (obs_exit (load_err_code e)) = [].
  Proof. split; reflexivity. Qed.
End Refuse.

(* ---- C13: loading does not depend on the order in which the OS lists a folder ---- *)
Section LoadOrder.
  Variable C : Type.
  Variable cdig : C -> text.
  Theorem discover_listing_order p parent h kids kids' :
    NoDup (map fst kids) -> Permutation kids kids' ->
    discover C cdig p parent (Dir h kids) = discover C cdig p parent (Dir h kids').
  Proof.
    intros Hn Hp. rewrite !discover_dir.
    assert (Hs : forall par, sort name_leb (kid_results C cdig p par kids) = sort name_leb (kid_results C cdig p par kids')).
    { intros par. apply sort_names_canonical.
      - unfold kid_results. rewrite map_map. cbn [fst]. exact Hn.
      - unfold kid_results. apply Permutation_map. exact Hp. }
    destruct h as [hh|]; rewrite ?Hs; reflexivity.
  Qed.
  Theorem load_listing_order h kids kids' :
    NoDup (map fst kids) -> Permutation kids kids' -> load C cdig (Dir h kids) = load C cdig (Dir h kids').
  Proof.
    intros Hn Hp. rewrite !load_dir.
    replace (sort name_leb (kid_results C cdig [] [] kids')) with (sort name_leb (kid_results C cdig [] [] kids)); [reflexivity|].
    apply sort_names_canonical.
    - unfold kid_results. rewrite map_map. cbn [fst]. exact Hn.
    - unfold kid_results. apply Permutation_map. exact Hp.
  Qed.
  (* manifests are sorted by number when loaded: the order of the files in the ascmhl folder is irrelevant *)
  Theorem loaded_gens_listing_order files files' chain :
    NoDup (map (mf_no C) files) -> Permutation files files' ->
    loaded_gens C (mkHist C files chain) = loaded_gens C (mkHist C files' chain).
  Proof.
    intros Hn Hp. unfold loaded_gens. cbn [h_files].
    change gen_leb with (leb_k g_no N.leb).
    apply sort_key_canonical.
    - intros a b. destruct (N.leb_spec a b); [left; reflexivity|right; apply N.leb_le; lia].
    - intros a b c H1 H2. apply N.leb_le in H1, H2. apply N.leb_le. lia.
    - intros a b H1 H2. apply N.leb_le in H1, H2. lia.
    - rewrite map_map. cbn [g_no]. exact Hn.
    - apply Permutation_map. exact Hp.
  Qed.
End LoadOrder.

(* ---- C08 / C15: `load` lists every history before the history that contains it (children before parents) ---- *)
Section LoadParentOrder.
  Variable C : Type.
  Variable cdig : C -> text.

  (* every history in l has its parent later in l, or its parent is the enclosing history `ext` *)
  Definition parent_later (ext : path) (l : list lhist) : Prop :=
    forall l1 h l2, l = l1 ++ h :: l2 -> lh_parent h = Some ext \/ exists h', In h' l2 /\ lh_parent h = Some (lh_root h').

  Lemma app_split {A} : forall (l1 : list A) h l2 a b, l1 ++ h :: l2 = a ++ b ->
    (exists l2', a = l1 ++ h :: l2' /\ l2 = l2' ++ b) \/ (exists l1', b = l1' ++ h :: l2 /\ l1 = a ++ l1').
  Proof.
    induction l1 as [|x l1 IH]; intros h l2 a b E.
    - destruct a as [|y a]; cbn in E.
      + right. exists []. auto.
      + injection E as <- E. left. exists a. auto.
    - destruct a as [|y a]; cbn in E.
      + right. exists (x :: l1). auto.
      + injection E as <- E. destruct (IH h l2 a b E) as [[l2' [-> ->]]|[l1' [-> ->]]].
        * left. exists l2'. auto.
        * right. exists l1'. auto.
  Qed.
  Lemma parent_later_app ext a b : parent_later ext a -> parent_later ext b -> parent_later ext (a ++ b).
  Proof.
    intros Ha Hb l1 h l2 E. symmetry in E.
    destruct (app_split l1 h l2 a b E) as [[l2' [Ea ->]]|[l1' [Eb ->]]].
    - destruct (Ha l1 h l2' Ea) as [H|[h' [Hin H]]]; [left; exact H|right]. exists h'. split; [apply in_or_app; left; exact Hin|exact H].
    - apply (Hb l1' h l2 Eb).
  Qed.
  Lemma parent_later_nil ext : parent_later ext [].
  Proof. intros l1 h l2 E. destruct l1; discriminate. Qed.
  Lemma parent_later_concat ext ls : Forall (parent_later ext) ls -> parent_later ext (concat ls).
  Proof. induction 1; cbn; [apply parent_later_nil|apply parent_later_app; assumption]. Qed.

  Lemma combine_results_concat rs l : combine_results rs = inl l ->
    exists ls, l = concat ls /\ Forall2 (fun r x => snd r = inl x) rs ls.
  Proof.
    revert l. induction rs as [|[n r] rs IH]; intros l H; cbn in H.
    - injection H as <-. exists []. split; [reflexivity|constructor].
    - destruct r as [lr|e]; [|discriminate]. destruct (combine_results rs) as [l'|e] eqn:E; [|discriminate].
      injection H as <-. destruct (IH l' eq_refl) as [ls [-> Hf]]. exists (lr :: ls). split; [reflexivity|constructor; auto].
  Qed.
  Lemma Forall2_In_l {A B} (R : A -> B -> Prop) la lb : Forall2 R la lb -> forall b, In b lb -> exists a, In a la /\ R a b.
  Proof. induction 1; intros b0 Hb; [destruct Hb|]. destruct Hb as [<-|Hb]; [eexists; split; [left; reflexivity|eauto]|]. destruct (IHForall2 b0 Hb) as [a [Ha Hr]]. exists a. split; [right; exact Ha|exact Hr]. Qed.

  Theorem discover_parent_later : forall t p parent l, discover C cdig p parent t = inl l -> parent_later parent l.
  Proof.
    induction t as [c|h kids IH] using node_ind'; intros p parent l Hl.
    - cbn in Hl. injection Hl as <-. apply parent_later_nil.
    - rewrite discover_dir in Hl.
      assert (Hk : forall par lk, combine_results (sort name_leb (kid_results C cdig p par kids)) = inl lk -> parent_later par lk).
      { intros par lk Hc. destruct (combine_results_concat _ _ Hc) as [ls [-> Hf]]. apply parent_later_concat.
        apply Forall_forall. intros x Hx. destruct (Forall2_In_l _ _ _ Hf x Hx) as [r [Hr Hrx]].
        apply sort_In in Hr. unfold kid_results in Hr. apply in_map_iff in Hr. destruct Hr as [nk [<- Hin]]. cbn [snd] in Hrx.
        rewrite Forall_forall in IH. eapply (IH nk Hin). exact Hrx. }
      destruct h as [hh|].
      + destruct (check_chain C cdig hh); [discriminate|].
        destruct (combine_results (sort name_leb (kid_results C cdig p p kids))) as [below|e] eqn:Ec; [|discriminate].
        injection Hl as <-. specialize (Hk p below Ec).
        intros l1 h0 l2 E. symmetry in E. destruct (app_split l1 h0 l2 below [lhist_of C p (Some parent) (Some hh)] E) as [[l2' [Ea ->]]|[l1' [Eb ->]]].
        * destruct (Hk l1 h0 l2' Ea) as [H|[h' [Hin H]]].
          -- right. exists (lhist_of C p (Some parent) (Some hh)). split; [apply in_or_app; right; left; reflexivity|exact H].
          -- right. exists h'. split; [apply in_or_app; left; exact Hin|exact H].
        * destruct l1' as [|y l1']; cbn in Eb; [injection Eb as <- <-; left; reflexivity|].
          injection Eb as _ Eb. destruct l1'; discriminate.
      + eapply Hk. exact Hl.
  Qed.

  (* C08: in the list `load` returns, every nested history comes before the history that contains it; the root history
     is last.  commit folds over this list, so children are committed before their parents. *)
  Theorem load_children_first t hs : load C cdig t = inl hs ->
    forall l1 h l2, hs = l1 ++ h :: l2 -> lh_parent h = None \/ exists h', In h' l2 /\ lh_parent h = Some (lh_root h').
  Proof.
    destruct t as [c|h kids]; intros Hl l1 h0 l2 E.
    - cbn in Hl. injection Hl as <-. destruct l1 as [|x l1]; cbn in E; [injection E as <- <-; left; reflexivity|].
      injection E as _ E. destruct l1; discriminate.
    - rewrite load_dir in Hl. destruct (match h with Some hh => check_chain C cdig hh | None => None end); [discriminate|].
      destruct (combine_results (sort name_leb (kid_results C cdig [] [] kids))) as [below|e] eqn:Ec; [|discriminate].
      injection Hl as <-.
      assert (Hk : parent_later [] below).
      { destruct (combine_results_concat _ _ Ec) as [ls [-> Hf]]. apply parent_later_concat.
        apply Forall_forall. intros x Hx. destruct (Forall2_In_l _ _ _ Hf x Hx) as [r [Hr Hrx]].
        apply sort_In in Hr. unfold kid_results in Hr. apply in_map_iff in Hr. destruct Hr as [nk [<- Hin]]. cbn [snd] in Hrx.
        eapply discover_parent_later. exact Hrx. }
      symmetry in E. destruct (app_split l1 h0 l2 below [lhist_of C [] None h] E) as [[l2' [Ea ->]]|[l1' [Eb ->]]].
      + destruct (Hk l1 h0 l2' Ea) as [H|[h' [Hin H]]].
        * right. exists (lhist_of C [] None h). split; [apply in_or_app; right; left; reflexivity|].
          rewrite H. destruct h; reflexivity.
        * right. exists h'. split; [apply in_or_app; left; exact Hin|exact H].
      + destruct l1' as [|y l1']; cbn in Eb; [injection Eb as <- <-; left; destruct h; reflexivity|].
        injection Eb as _ Eb. destruct l1'; discriminate.
  Qed.
  (* the shape of the list: the nested histories (each with a parent) followed by the history of the folder itself *)
  Theorem load_shape t hs : load C cdig t = inl hs ->
    exists below rooth, hs = below ++ [rooth] /\ lh_parent rooth = None /\ lh_root rooth = [] /\
                        forall h, In h below -> lh_parent h <> None.
  Proof.
    destruct t as [c|h kids]; intros Hl.
    - cbn in Hl. injection Hl as <-. exists [], (lhist_of C [] None None). repeat split; intros h0 [].
    - rewrite load_dir in Hl. destruct (match h with Some hh => check_chain C cdig hh | None => None end); [discriminate|].
      destruct (combine_results (sort name_leb (kid_results C cdig [] [] kids))) as [below|e] eqn:Ec; [|discriminate].
      injection Hl as <-. exists below, (lhist_of C [] None h). split; [reflexivity|]. split; [destruct h; reflexivity|]. split; [destruct h; reflexivity|].
      assert (Hk : parent_later [] below).
      { destruct (combine_results_concat _ _ Ec) as [ls [-> Hf]]. apply parent_later_concat.
        apply Forall_forall. intros x Hx. destruct (Forall2_In_l _ _ _ Hf x Hx) as [r [Hr Hrx]].
        apply sort_In in Hr. unfold kid_results in Hr. apply in_map_iff in Hr. destruct Hr as [nk [<- Hin]]. cbn [snd] in Hrx.
        eapply discover_parent_later. exact Hrx. }
      intros h0 Hin. apply in_split in Hin. destruct Hin as [l1 [l2 E]].
      destruct (Hk l1 h0 l2 E) as [H|[h' [_ H]]]; rewrite H; discriminate.
  Qed.
End LoadParentOrder.

(* ---- every loaded history sits at an existing folder of the tree ---- *)
Section LoadRoots.
  Variable C : Type.
  Variable cdig : C -> text.

  Lemma lookup_kid_In' n k (kids : list (text * node C)) : NoDup (map fst kids) -> In (n, k) kids -> lookup_kid C n kids = Some k.
  Proof.
    induction kids as [|[m k0] ks IH]; intros Hn Hin; [destruct Hin|]. cbn in Hn. inversion Hn as [|? ? Hm Hn']; subst.
    cbn [lookup_kid]. destruct Hin as [E|Hin].
    - injection E as -> ->. rewrite text_eqb_refl. reflexivity.
    - destruct (text_eqb_spec n m) as [->|Hne]; [exfalso; apply Hm; apply in_map_iff; exists (m, k); auto|apply IH; auto].
  Qed.

  Theorem discover_roots : forall t p parent l, wf_tree C t -> discover C cdig p parent t = inl l ->
    forall hh, In hh l -> exists rel, lh_root hh = p ++ rel /\ get C t rel <> None.
  Proof.
    induction t as [c|h kids IH] using node_ind'; intros p parent l Hw Hl hh Hin.
    - cbn in Hl. injection Hl as <-. destruct Hin.
    - inversion Hw as [|? ? Hnames Hkids]; subst. rewrite discover_dir in Hl.
      assert (Hk : forall par lk, combine_results (sort name_leb (kid_results C cdig p par kids)) = inl lk ->
                   forall x, In x lk -> exists rel, lh_root x = p ++ rel /\ get C (Dir h kids) rel <> None).
      { intros par lk Hc x Hx. destruct (combine_results_concat _ _ Hc) as [ls [-> Hf]].
        apply in_concat in Hx. destruct Hx as [lx [Hlx Hx]].
        destruct (Forall2_In_l _ _ _ Hf lx Hlx) as [r [Hr Hrx]].
        apply sort_In in Hr. unfold kid_results in Hr. apply in_map_iff in Hr. destruct Hr as [nk [<- Hnk]]. cbn [snd] in Hrx.
        rewrite Forall_forall in IH, Hkids. destruct (IH nk Hnk _ _ _ (Hkids nk Hnk) Hrx x Hx) as [rel [E Hg]].
        exists (fst nk :: rel). split; [rewrite E, <- app_assoc; reflexivity|].
        destruct nk as [n k]. cbn [get fst snd] in *. rewrite (lookup_kid_In' n k kids Hnames Hnk). exact Hg. }
      destruct h as [hh0|].
      + destruct (check_chain C cdig hh0); [discriminate|].
        destruct (combine_results (sort name_leb (kid_results C cdig p p kids))) as [below|e] eqn:Ec; [|discriminate].
        injection Hl as <-. apply in_app_or in Hin. destruct Hin as [Hin|[<-|[]]].
        * eapply Hk; eauto.
        * exists []. split; [cbn; rewrite app_nil_r; reflexivity|cbn; discriminate].
      + eapply Hk; eauto.
  Qed.

  Theorem load_roots_exist t hs : wf_tree C t -> load C cdig t = inl hs -> Forall (fun h => get C t (lh_root h) <> None) hs.
  Proof.
    intros Hw Hl. apply Forall_forall. intros hh Hin. destruct t as [c|h kids].
    - cbn in Hl. injection Hl as <-. destruct Hin as [<-|[]]. cbn. discriminate.
    - inversion Hw as [|? ? Hnames Hkids]; subst. rewrite load_dir in Hl.
      destruct (match h with Some hh0 => check_chain C cdig hh0 | None => None end); [discriminate|].
      destruct (combine_results (sort name_leb (kid_results C cdig [] [] kids))) as [below|e] eqn:Ec; [|discriminate].
      injection Hl as <-. apply in_app_or in Hin. destruct Hin as [Hin|[<-|[]]].
      + destruct (combine_results_concat _ _ Ec) as [ls [-> Hf]].
        apply in_concat in Hin. destruct Hin as [lx [Hlx Hx]].
        destruct (Forall2_In_l _ _ _ Hf lx Hlx) as [r [Hr Hrx]].
        apply sort_In in Hr. unfold kid_results in Hr. apply in_map_iff in Hr. destruct Hr as [nk [<- Hnk]]. cbn [snd] in Hrx.
        rewrite Forall_forall in Hkids. destruct (discover_roots (snd nk) _ _ _ (Hkids nk Hnk) Hrx hh Hx) as [rel [E Hg]].
        rewrite E. destruct nk as [n k]. cbn [app get fst snd] in *. rewrite (lookup_kid_In' n k kids Hnames Hnk). exact Hg.
      + destruct h; cbn; discriminate.
  Qed.
  (* ---- distinct histories have distinct roots ---- *)
  Lemma combine_roots_NoDup p : forall (rs : list (text * (list lhist + load_err))) l,
    NoDup (map fst rs) ->
    (forall n lr, In (n, inl lr) rs -> NoDup (map lh_root lr) /\ forall hh, In hh lr -> exists rel, lh_root hh = p ++ n :: rel) ->
    combine_results rs = inl l ->
    NoDup (map lh_root l) /\ forall hh, In hh l -> exists n rel, In n (map fst rs) /\ lh_root hh = p ++ n :: rel.
  Proof.
    induction rs as [|[n r] rs IH]; intros l Hn Hk H; cbn in H.
    - injection H as <-. split; [constructor|intros hh []].
    - destruct r as [lr|e]; [|discriminate]. destruct (combine_results rs) as [l'|e] eqn:E; [|discriminate]. injection H as <-.
      cbn [map fst] in Hn. inversion Hn as [|? ? Hnin Hn']; subst.
      destruct (IH l' Hn' (fun n0 lr0 Hin => Hk n0 lr0 (or_intror Hin)) eq_refl) as [Hd' Hp'].
      destruct (Hk n lr (or_introl eq_refl)) as [Hd Hp].
      split.
      + rewrite map_app. apply NoDup_app_intro; [exact Hd|exact Hd'|].
        intros x Hx Hx'. apply in_map_iff in Hx. destruct Hx as [a [<- Ha]]. apply in_map_iff in Hx'. destruct Hx' as [b [Eb Hb0]].
        destruct (Hp a Ha) as [rel Ea]. destruct (Hp' b Hb0) as [n' [rel' [Hn'in Eb']]]. rewrite Ea, Eb' in Eb.
        apply app_inv_head in Eb. injection Eb as Eb _. apply Hnin. rewrite <- Eb. exact Hn'in.
      + intros hh Hin. apply in_app_or in Hin. destruct Hin as [Hin|Hin].
        * destruct (Hp hh Hin) as [rel E']. exists n, rel. split; [left; reflexivity|exact E'].
        * destruct (Hp' hh Hin) as [n' [rel [H1 H2]]]. exists n', rel. split; [right; exact H1|exact H2].
  Qed.
  Lemma sorted_kid_names p par (kids : list (text * node C)) : NoDup (map fst kids) ->
    NoDup (map fst (sort name_leb (kid_results C cdig p par kids))).
  Proof.
    intros H. eapply Permutation_NoDup; [apply Permutation_map; apply sort_perm|].
    unfold kid_results. rewrite map_map. cbn [fst]. exact H.
  Qed.
  Theorem discover_roots_NoDup : forall t p parent l, wf_tree C t -> discover C cdig p parent t = inl l ->
    NoDup (map lh_root l) /\ forall hh, In hh l -> exists rel, lh_root hh = p ++ rel.
  Proof.
    induction t as [c|h kids IH] using node_ind'; intros p parent l Hw Hl.
    - cbn in Hl. injection Hl as <-. split; [constructor|intros hh []].
    - inversion Hw as [|? ? Hnames Hkids]; subst. rewrite discover_dir in Hl.
      assert (Hk : forall par lk, combine_results (sort name_leb (kid_results C cdig p par kids)) = inl lk ->
                   NoDup (map lh_root lk) /\ forall hh, In hh lk -> exists n rel, lh_root hh = p ++ n :: rel).
      { intros par lk Hc. destruct (combine_roots_NoDup p _ lk (sorted_kid_names p par kids Hnames)) as [H1 H2]; [|exact Hc|].
        - intros n lr Hin. apply sort_In in Hin. unfold kid_results in Hin. apply in_map_iff in Hin. destruct Hin as [nk [E Hnk]].
          injection E as <- E. rewrite Forall_forall in IH, Hkids. destruct (IH nk Hnk _ _ _ (Hkids nk Hnk) E) as [A B].
          split; [exact A|]. intros hh Hh. destruct (B hh Hh) as [rel Er]. exists rel. rewrite Er, <- app_assoc. reflexivity.
        - split; [exact H1|]. intros hh Hh. destruct (H2 hh Hh) as [n [rel [_ E]]]. eauto. }
      destruct h as [hh0|].
      + destruct (check_chain C cdig hh0); [discriminate|].
        destruct (combine_results (sort name_leb (kid_results C cdig p p kids))) as [below|e] eqn:Ec; [|discriminate].
        injection Hl as <-. destruct (Hk p below Ec) as [Hd Hp]. split.
        * rewrite map_app. apply NoDup_app_intro; [exact Hd|constructor; [intros []|constructor]|].
          intros x Hx [<-|[]]. apply in_map_iff in Hx. destruct Hx as [a [Ea Ha]]. destruct (Hp a Ha) as [n [rel E]].
          cbn [lh_root lhist_of] in Ea. rewrite E in Ea. apply (f_equal (@length text)) in Ea. rewrite app_length in Ea. cbn in Ea. lia.
        * intros hh Hin. apply in_app_or in Hin. destruct Hin as [Hin|[<-|[]]].
          -- destruct (Hp hh Hin) as [n [rel E]]. eauto.
          -- exists []. cbn. rewrite app_nil_r. reflexivity.
      + destruct (Hk parent l Hl) as [Hd Hp]. split; [exact Hd|]. intros hh Hin. destruct (Hp hh Hin) as [n [rel E]]. eauto.
  Qed.
  Theorem load_roots_NoDup t hs : wf_tree C t -> load C cdig t = inl hs -> NoDup (map lh_root hs).
  Proof.
    intros Hw Hl. destruct t as [c|h kids].
    - cbn in Hl. injection Hl as <-. cbn. constructor; [intros []|constructor].
    - inversion Hw as [|? ? Hnames Hkids]; subst. rewrite load_dir in Hl.
      destruct (match h with Some hh0 => check_chain C cdig hh0 | None => None end); [discriminate|].
      destruct (combine_results (sort name_leb (kid_results C cdig [] [] kids))) as [below|e] eqn:Ec; [|discriminate].
      injection Hl as <-.
      destruct (combine_roots_NoDup [] _ below (sorted_kid_names [] [] kids Hnames)) as [H1 H2]; [|exact Ec|].
      + intros n lr Hin. apply sort_In in Hin. unfold kid_results in Hin. apply in_map_iff in Hin. destruct Hin as [nk [E Hnk]].
        injection E as <- E. rewrite Forall_forall in Hkids. destruct (discover_roots_NoDup (snd nk) _ _ _ (Hkids nk Hnk) E) as [A B].
        split; [exact A|]. intros hh Hh. destruct (B hh Hh) as [rel Er]. exists rel. rewrite Er. reflexivity.
      + rewrite map_app. apply NoDup_app_intro; [exact H1|constructor; [intros []|constructor]|].
        intros x Hx [<-|[]]. apply in_map_iff in Hx. destruct Hx as [a [Ea Ha]]. destruct (H2 a Ha) as [n [rel [_ E]]].
        rewrite E in Ea. destruct h; cbn in Ea; discriminate.
  Qed.
End LoadRoots.
