(* create -sf over ANY nesting of histories: every named file is sealed once, in the history it belongs to; the run never
   aborts; on a tree whose recorded digests are current it exits 0. *)
From Coq Require Import Lia.
From MHL Require Import Model.Commands Gen.Generated Proofs.BaseFacts Proofs.SealFacts Proofs.RouteFacts Proofs.TreeFacts
  Proofs.IgnoreFacts Proofs.CommitFacts Proofs.CreateFacts Proofs.PartitionFacts Proofs.FreshFacts Proofs.LoadFacts Proofs.HistFacts
  Proofs.VerifyFacts Proofs.FlatFacts Proofs.ReloadFacts Proofs.NestedRecFacts Proofs.NestedFacts Proofs.NestedDhFacts.

Section SfNested.
  Variable Hb : fmt -> bytes -> bytes.
  Variable matches : list text -> text -> bool.
  Variable C : Type.
  Variable cdig : C -> text.
  Variable ser : gen -> C.
  Notation node := (node C).

  (* the -sf fold: the session keeps the shape R, each record stems from one sealed path *)
  Lemma sf_fold_sinv hs (Hroot : lh_root (root_hist hs) = [])
        (Hpar : forall h par, In h hs \/ h = root_hist hs -> lh_parent h = Some par -> is_prefix par (lh_root h) = true)
        (R : path -> record -> Prop) fmts : forall files s fails done,
    sinv R s done ->
    (forall p c, In (p, c) files -> let h := route_to hs p in let q := strip_prefix (lh_root h) p in
       q <> [] -> forall sz, R (lh_root h) (mkRecord q false sz (fst (seal (lh_gens h) q (fun f => digest_text Hb f c) fmts)) None)) ->
    let st := fold_left (sf_step Hb hs fmts) files (s, fails, done) in
    sinv R (fst (fst st)) (snd st).
  Proof.
    induction files as [|[p c] files IH]; intros s fails done Hs Hf; cbn [fold_left]; [exact Hs|].
    cbn zeta.
    assert (E : sf_step Hb hs fmts (s, fails, done) (p, c) =
                if mem_path p done then (s, fails, done)
                else let '(s', _, ok) := seal_file Hb hs fmts s p c in (s', if ok then fails else S fails, p :: done)) by reflexivity.
    rewrite E. clear E. destruct (mem_path p done) eqn:Em.
    - apply IH; [exact Hs|]. intros p0 c0 Hin. apply Hf. right. exact Hin.
    - assert (Hnew : ~ In p done) by (intros H; apply mem_path_In in H; congruence).
      destruct (process_event_sinv Hb matches C hs Hroot Hpar R fmts false [] (Dir None []) s 0 done (EvFile p c) Hs Hnew) as [H1 _].
      { apply Hf. left. reflexivity. }
      cbn [process_event ev_path fst] in H1.
      destruct (seal_file Hb hs fmts s p c) as [[s' n] ok] eqn:Esf. cbn [fst] in H1.
      apply IH; [exact H1|]. intros p0 c0 Hin. apply Hf. right. exact Hin.
  Qed.

  Lemma sf_fold_no_fail hs fmts : forall files s fails done,
    (forall p c, In (p, c) files -> consistent (lh_gens (route_to hs p)) (strip_prefix (lh_root (route_to hs p)) p) (fun f => digest_text Hb f c)) ->
    snd (fst (fold_left (sf_step Hb hs fmts) files (s, fails, done))) = fails.
  Proof.
    induction files as [|[p c] files IH]; intros s fails done Hc; cbn [fold_left]; [reflexivity|].
    assert (E : sf_step Hb hs fmts (s, fails, done) (p, c) =
                if mem_path p done then (s, fails, done)
                else let '(s', _, ok) := seal_file Hb hs fmts s p c in (s', if ok then fails else S fails, p :: done)) by reflexivity.
    rewrite E. clear E. destruct (mem_path p done); [apply IH; intros p0 c0 H; apply Hc; right; exact H|].
    unfold seal_file.
    pose proof (proj2 (unaltered_no_failure _ _ _ fmts (Hc p c (or_introl eq_refl)))) as Hok.
    destruct (seal (lh_gens (route_to hs p)) (strip_prefix (lh_root (route_to hs p)) p) (fun f => digest_text Hb f c) fmts) as [es res]. cbn [snd] in Hok.
    assert (Hfirst : match fmts with f0 :: _ => match find (fun x => fmt_eqb (fst x) f0) res with Some x => snd x | None => true end | [] => true end = true).
    { destruct fmts as [|f0 fs]; [reflexivity|]. destruct (find (fun x => fmt_eqb (fst x) f0) res) as [x|] eqn:Ef; [|reflexivity]. apply Hok. apply (find_some _ _ Ef). }
    rewrite Hfirst. apply IH. intros p0 c0 H. apply Hc. right. exact H.
  Qed.

  (* the files -sf works on are files of the tree *)
  Lemma sf_files_get spec (t : node) sp p c : wf_tree C t -> In (p, c) (sf_files matches C spec t sp) -> get C t p = Some (File c).
  Proof.
    intros Hwf Hin. unfold sf_files in Hin. destruct (get C t sp) as [[c0|h kids]|] eqn:Eg; [destruct Hin as [E|[]]; injection E as <- <-; exact Eg| |destruct Hin].
    apply in_flat_map in Hin. destruct Hin as [e [He Hx]]. destruct e as [q c1|q k]; [|destruct Hx]. destruct Hx as [E|[]]. injection E as <- <-.
    assert (Hsub : wf_tree C (Dir h kids)).
    { clear -Hwf Eg. revert t Hwf Eg. induction sp as [|n sp IH]; intros t Hwf Eg; [cbn in Eg; injection Eg as <-; exact Hwf|].
      destruct t as [c|h' kids']; [discriminate|]. cbn [get] in Eg. destruct (lookup_kid C n kids') as [k|] eqn:El; [|discriminate].
      inversion Hwf as [|? ? _ Hk]; subst. rewrite Forall_forall in Hk. apply (IH k); [|exact Eg].
      assert (Hin : In (n, k) kids') by (clear -El; induction kids' as [|[m x] l IHl]; [discriminate|]; cbn in El; destruct (text_eqb_spec n m) as [->|]; [injection El as ->; left; reflexivity|right; apply IHl; exact El]).
      apply (Hk (n, k) Hin). }
    assert (Hev : In (q, c1) (ev_files (events matches C spec sp (Dir h kids)))).
    { unfold ev_files. apply in_flat_map. exists (EvFile q c1). split; [exact He|left; reflexivity]. }
    destruct (ev_files_get matches C spec (Dir h kids) sp q c1 Hsub Hev) as [rel [-> Hg]].
    clear -Eg Hg. revert t Eg. induction sp as [|n sp IH]; intros t Eg; [cbn in Eg; injection Eg as ->; exact Hg|].
    destruct t as [c|h' kids']; [discriminate|]. cbn [get app] in *. destruct (lookup_kid C n kids'); [|discriminate]. apply IH. exact Eg.
  Qed.

  Theorem create_sf_nested_never_aborts h0 kids hs req sf ip ifl :
    wf_tree C (Dir h0 kids) -> load C cdig (Dir h0 kids) = inl hs ->
    o_outcome (snd (create_sf Hb matches C cdig ser (Dir h0 kids) req sf ip ifl)) <> Abort.
  Proof.
    intros Hwf Hl. destruct (load_list_facts C cdig h0 kids hs Hl) as [Hroot [_ [_ Hpar]]].
    unfold create_sf. rewrite Hl.
    set (spec := set_patterns (latest_patterns (lh_gens (root_hist hs))) ip (pattern_file_lines ifl)).
    set (t := Dir h0 kids) in *. set (files := flat_map (sf_files matches C spec t) sf).
    pose proof (sf_fold_sinv hs Hroot Hpar (fun _ r => Rval (r_path r) (r_entries r)) (sort_fmts req) files [] 0 []) as Hinv.
    match goal with |- context [fold_left ?f ?l ?i] =>
      pose proof (Hinv : _ -> _ -> sinv _ (fst (fst (fold_left f l i))) (snd (fold_left f l i))) as Hv2; clear Hinv;
      destruct (fold_left f l i) as [[sess fails] dn] end.
    cbn [fst snd] in Hv2. cbn [snd o_outcome].
    destruct (cs_abort C (commit C cdig ser hs InPlace t sess spec)) eqn:Ea; [|destruct (Nat.ltb 0 fails); discriminate].
    exfalso. unfold commit in Ea. destruct (commit_abort_cause C cdig ser InPlace sess spec hs _ Ea) as [H0|[h [_ Hv]]]; [discriminate H0|].
    destruct (validate_records_Rval (nl_records (sess_list sess (lh_root h)))) as [rs' Hrs]; [|congruence].
    assert (Hs : sinv (fun (_ : path) (r : record) => Rval (r_path r) (r_entries r)) sess dn).
    { apply Hv2; [intros k r0 Hin; cbn in Hin; destruct Hin|]. intros p c _ _ sz. cbn [r_path r_entries]. apply seal_Rval. }
    intros r Hr. apply (Hs (lh_root h) r Hr).
  Qed.

  Theorem create_sf_nested_unchanged_exit_0 h0 kids hs req sf ip ifl :
    wf_tree C (Dir h0 kids) -> load C cdig (Dir h0 kids) = inl hs -> nprev hs -> ncur Hb C hs (Dir h0 kids) ->
    o_outcome (snd (create_sf Hb matches C cdig ser (Dir h0 kids) req sf ip ifl)) = Exit 0.
  Proof.
    intros Hwf Hl Hprev Hcur.
    pose proof (create_sf_nested_never_aborts h0 kids hs req sf ip ifl Hwf Hl) as Hna.
    unfold create_sf in *. rewrite Hl in *.
    set (spec := set_patterns (latest_patterns (lh_gens (root_hist hs))) ip (pattern_file_lines ifl)) in *.
    set (t := Dir h0 kids) in *. set (files := flat_map (sf_files matches C spec t) sf) in *.
    assert (Hcons : forall p c, In (p, c) files ->
              consistent (lh_gens (route_to hs p)) (strip_prefix (lh_root (route_to hs p)) p) (fun f => digest_text Hb f c)).
    { intros p c Hin. unfold files in Hin. apply in_flat_map in Hin. destruct Hin as [sp [_ Hin]].
      apply (routed_consistent Hb C cdig h0 kids hs p c Hwf Hl Hprev Hcur). apply (sf_files_get spec t sp p c Hwf Hin). }
    pose proof (sf_fold_no_fail hs (sort_fmts req) files [] 0 [] Hcons) as Hnf.
    match goal with |- context [fold_left ?f ?l ?i] =>
      pose proof (Hnf : snd (fst (fold_left f l i)) = 0) as Hnf2; clear Hnf; destruct (fold_left f l i) as [[sess fails] dn] end.
    cbn [fst snd] in Hnf2. subst fails. cbn [snd o_outcome] in *.
    destruct (cs_abort C (commit C cdig ser hs InPlace t sess spec)); [exfalso; apply Hna; reflexivity|reflexivity].
  Qed.

  (* coverage: every named file ends up as a record of the history it is routed to *)
  Lemma sf_fold_cover hs (Hroot : lh_root (root_hist hs) = [])
        (Hpar : forall h par, In h hs \/ h = root_hist hs -> lh_parent h = Some par -> is_prefix par (lh_root h) = true)
        (R : path -> record -> Prop) fmts : forall files s fails done,
    sinv R s done ->
    (forall p c, In (p, c) files -> let h := route_to hs p in let q := strip_prefix (lh_root h) p in
       q <> [] -> forall sz, R (lh_root h) (mkRecord q false sz (fst (seal (lh_gens h) q (fun f => digest_text Hb f c) fmts)) None)) ->
    (forall p c c', In (p, c) files -> In (p, c') files -> c = c') ->
    (forall p c, In (p, c) files -> In p done -> covered Hb hs fmts s p c) ->
    let st := fold_left (sf_step Hb hs fmts) files (s, fails, done) in
    (forall k r, In r (nl_records (sess_list s k)) -> In r (nl_records (sess_list (fst (fst st)) k))) /\
    (forall p c, In (p, c) files -> covered Hb hs fmts (fst (fst st)) p c) /\
    (forall q, In q (snd st) <-> In q done \/ In q (map fst files)).
  Proof.
    induction files as [|[p c] files IH]; intros s fails done Hs Hf Hfun Hcov; cbn [fold_left].
    { cbn zeta. split; [auto|]. split; [intros p c []|intros q; cbn; tauto]. }
    cbn zeta.
    assert (E : sf_step Hb hs fmts (s, fails, done) (p, c) =
                if mem_path p done then (s, fails, done)
                else let '(s', _, ok) := seal_file Hb hs fmts s p c in (s', if ok then fails else S fails, p :: done)) by reflexivity.
    rewrite E. clear E. destruct (mem_path p done) eqn:Em.
    - apply mem_path_In in Em.
      destruct (IH s fails done Hs (fun p0 c0 H => Hf p0 c0 (or_intror H)) (fun p0 c0 c1 H1 H2 => Hfun p0 c0 c1 (or_intror H1) (or_intror H2))
                   (fun p0 c0 H Hd => Hcov p0 c0 (or_intror H) Hd)) as [A [B D]]. cbn zeta in A, B, D.
      split; [exact A|]. split.
      + intros p0 c0 [E|Hin]; [|apply B; exact Hin]. injection E as <- <-.
        pose proof (Hcov p c (or_introl eq_refl) Em) as Hc0. intros Hq Hes. destruct (Hc0 Hq Hes) as [sz Hsz]. exists sz. apply A. exact Hsz.
      + intros q. rewrite D. cbn [map fst In]. split; [tauto|]. intros [H|[<-|H]]; auto.
    - assert (Hnew : ~ In p done) by (intros H; apply mem_path_In in H; congruence).
      destruct (process_event_sinv Hb matches C hs Hroot Hpar R fmts false [] (Dir None []) s 0 done (EvFile p c) Hs Hnew) as [H1 [Hm1 Hc1]].
      { apply Hf. left. reflexivity. }
      cbn [process_event ev_path fst] in H1, Hm1, Hc1.
      destruct (seal_file Hb hs fmts s p c) as [[s' n] ok] eqn:Esf. cbn [fst] in H1, Hm1, Hc1.
      destruct (IH s' (if ok then fails else S fails) (p :: done) H1 (fun p0 c0 H => Hf p0 c0 (or_intror H))
                   (fun p0 c0 c1 H1' H2 => Hfun p0 c0 c1 (or_intror H1') (or_intror H2))) as [A [B D]].
      { intros p0 c0 Hin [<-|Hd].
        - rewrite (Hfun p c0 c (or_intror Hin) (or_introl eq_refl)). exact Hc1.
        - pose proof (Hcov p0 c0 (or_intror Hin) Hd) as Hc0. intros Hq Hes. destruct (Hc0 Hq Hes) as [sz Hsz]. exists sz. apply Hm1. exact Hsz. }
      cbn zeta in A, B, D. split; [intros k r Hr; apply A; apply Hm1; exact Hr|]. split.
      + intros p0 c0 [E|Hin]; [|apply B; exact Hin]. injection E as <- <-. intros Hq Hes. destruct (Hc1 Hq Hes) as [sz Hsz]. exists sz. apply A. exact Hsz.
      + intros q. rewrite D. cbn [map fst In]. tauto.
  Qed.

  (* C02, -sf over any nesting: every generation the run writes belongs to a loaded history k and holds file records at
     exactly the k-relative paths of the named files (the visible files beneath named folders) whose deepest enclosing
     history is k -- and nothing else *)
  Theorem create_sf_nested_records h0 kids hs req sf ip ifl t' o :
    wf_tree C (Dir h0 kids) -> load C cdig (Dir h0 kids) = inl hs -> req <> [] ->
    create_sf Hb matches C cdig ser (Dir h0 kids) req sf ip ifl = (t', o) ->
    let spec := set_patterns (latest_patterns (lh_gens (root_hist hs))) ip (pattern_file_lines ifl) in
    let files := flat_map (sf_files matches C spec (Dir h0 kids)) sf in
    forall k doc, In (k, doc) (o_written o) ->
      (exists h, In h hs /\ lh_root h = k) /\
      forall q, In q (map r_path (g_records doc)) <->
                exists p c, In (p, c) files /\ lh_root (route_to hs p) = k /\ strip_prefix k p = q.
  Proof.
    intros Hwf Hl Hreq Hc spec files k doc Hin. destruct (load_list_facts C cdig h0 kids hs Hl) as [Hroot [_ [Hrin Hpar]]].
    unfold create_sf in Hc. rewrite Hl in Hc. fold spec in Hc. fold files in Hc.
    set (R := fun (k0 : path) (r : record) => lh_root (route_to hs (k0 ++ r_path r)) = k0 /\ strip_prefix k0 (k0 ++ r_path r) = r_path r).
    assert (Hfget : forall p c, In (p, c) files -> get C (Dir h0 kids) p = Some (File c)).
    { intros p c H. unfold files in H. apply in_flat_map in H. destruct H as [sp [_ H]]. apply (sf_files_get spec (Dir h0 kids) sp p c Hwf H). }
    assert (HfR : forall p c, In (p, c) files -> let h := route_to hs p in let q := strip_prefix (lh_root h) p in
       q <> [] -> forall sz, R (lh_root h) (mkRecord q false sz (fst (seal (lh_gens h) q (fun f => digest_text Hb f c) (sort_fmts req))) None)).
    { intros p c _ h q _ sz. unfold R. cbn [r_path]. destruct (route_good hs Hroot p) as [Hg _]. fold h in Hg.
      assert (Hj : lh_root h ++ q = p) by (apply strip_prefix_rejoin; exact Hg). rewrite Hj. split; [reflexivity|reflexivity]. }
    assert (Hfun : forall p c c', In (p, c) files -> In (p, c') files -> c = c').
    { intros p c c' H1 H2. pose proof (Hfget p c H1) as G1. rewrite (Hfget p c' H2) in G1. congruence. }
    pose proof (sf_fold_sinv hs Hroot Hpar R (sort_fmts req) files [] 0 [] (fun k0 r0 (H : In r0 (nl_records (sess_list [] k0))) => match H with end) HfR) as Hinv.
    pose proof (sf_fold_cover hs Hroot Hpar R (sort_fmts req) files [] 0 [] (fun k0 r0 (H : In r0 (nl_records (sess_list [] k0))) => match H with end) HfR Hfun
                  (fun p c _ (H : In p []) => match H with end)) as Hcov.
    cbn zeta in Hinv, Hcov.
    match type of Hc with context [fold_left ?f ?l ?i] =>
      pose proof (Hinv : sinv R (fst (fst (fold_left f l i))) (snd (fold_left f l i))) as Hi2;
      pose proof (Hcov : _ /\ (forall p c, In (p, c) files -> covered Hb hs (sort_fmts req) (fst (fst (fold_left f l i))) p c) /\
                        (forall q, In q (snd (fold_left f l i)) <-> In q [] \/ In q (map fst files))) as Hc2;
      clear Hinv Hcov; destruct (fold_left f l i) as [[sess fails] dn] end.
    cbn [fst snd] in Hi2, Hc2. destruct Hc2 as [_ [Hcv Hdn]]. injection Hc as _ <-. cbn [o_written] in Hin.
    unfold commit in Hin. destruct (commit_written_paths C cdig ser InPlace sess spec _ _ k doc Hin) as [[]|[Hp Hh]].
    split; [exact Hh|]. intros q. rewrite Hp. unfold rp. split.
    - intros Hq. apply in_map_iff in Hq. destruct Hq as [r [<- Hr]]. destruct (Hi2 k r Hr) as [[Rk Rs] HD].
      apply Hdn in HD. destruct HD as [[]|HD]. apply in_map_iff in HD. destruct HD as [[p c] [Ep Hpc]]. cbn [fst] in Ep. subst p.
      exists (k ++ r_path r), c. split; [exact Hpc|]. split; [exact Rk|exact Rs].
    - intros [p [c [Hpc [Hk Hq]]]]. subst k q.
      assert (Hgt := Hfget p c Hpc). pose proof (routed_rel_nonempty C cdig h0 kids hs p c Hwf Hl Hgt) as Hne.
      assert (Hes : fst (seal (lh_gens (route_to hs p)) (strip_prefix (lh_root (route_to hs p)) p) (fun f => digest_text Hb f c) (sort_fmts req)) <> [])
        by (apply seal_nonempty; apply sort_fmts_nonempty; exact Hreq).
      destruct (Hcv p c Hpc Hne Hes) as [sz Hsz]. apply in_map_iff. eexists. split; [|exact Hsz]. reflexivity.
  Qed.

  (* C06, unconditionally: ANY sequence of create runs (folder mode without -dr, and -sf, in any mix, any formats, options
     and patterns) on ANY well-formed tree whose histories load: no run is aborted, every later load succeeds, and every
     history that existed at the start only grew (old generations and chain entries a prefix, the added ones numbered
     consecutively) -- whatever the runs found: altered files, missing files, new files *)
  Definition no_dr (r : crun) : Prop := match r with RFolder _ _ dr _ _ => dr = false | RSf _ _ _ _ => True end.
  Theorem runs_append_unconditional rs : forall h0 kids hs, Forall no_dr rs ->
    wf_tree C (Dir h0 kids) -> load C cdig (Dir h0 kids) = inl hs ->
    Forall (fun o => o_outcome o <> Abort) (snd (runs Hb matches C cdig ser (Dir h0 kids) rs)) /\
    exists hs', load C cdig (fst (runs Hb matches C cdig ser (Dir h0 kids) rs)) = inl hs' /\ Forall2 (ext C cdig ser) hs hs'.
  Proof.
    induction rs as [|r rs IH]; intros h0 kids hs Hnd Hw Hl; cbn [runs].
    - split; [constructor|]. exists hs. split; [exact Hl|]. clear. induction hs; constructor; [apply ext_refl|assumption].
    - inversion Hnd as [|? ? Hr Hnd']; subst.
      destruct (run1 Hb matches C cdig ser (Dir h0 kids) r) as [t1 o1] eqn:E1. cbn [fst snd].
      assert (Ho1 : o_outcome o1 <> Abort).
      { destruct r as [req no_dh dr ip ifl|req sf ip ifl]; cbn [run1 no_dr] in E1, Hr.
        - subst dr. pose proof (create_nested_never_aborts Hb matches C cdig ser h0 kids hs req no_dh ip ifl Hw Hl) as H. rewrite E1 in H. exact H.
        - pose proof (create_sf_nested_never_aborts h0 kids hs req sf ip ifl Hw Hl) as H. rewrite E1 in H. exact H. }
      assert (H1 : exists hs1, load C cdig t1 = inl hs1 /\ one_more C cdig ser hs (o_written o1) hs1 /\ wf_tree C t1 /\ exists h' kids', t1 = Dir h' kids').
      { destruct r as [req no_dh dr ip ifl|req sf ip ifl]; cbn [run1] in E1.
        - eapply create_folder_then_reload; eauto.
        - eapply create_sf_then_reload; eauto. }
      destruct H1 as [hs1 [Hl1 [Hom [Hw1 [h1 [kids1 ->]]]]]].
      destruct (IH h1 kids1 hs1 Hnd' Hw1 Hl1) as [Hos [hs' [Hl' Hext]]].
      destruct (runs Hb matches C cdig ser (Dir h1 kids1) rs) as [t' os] eqn:Er. cbn [fst snd] in *.
      split; [constructor; assumption|]. exists hs'. split; [exact Hl'|].
      assert (H01 : Forall2 (ext C cdig ser) hs hs1) by (eapply one_more_ext; [apply (load_roots_NoDup C cdig _ _ Hw Hl)|exact Hom]).
      clear -H01 Hext. revert hs' Hext. induction H01 as [|a b la lb Hab _ IHl]; intros hs' Hext; inversion Hext; subst; constructor; [eapply ext_trans; eauto|auto].
  Qed.
End SfNested.
