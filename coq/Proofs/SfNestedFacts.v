(* create -sf over ANY nesting of histories: every named file is sealed once, in the history it belongs to; the run never
   aborts; on a tree whose recorded digests are current it exits 0. *)
From Coq Require Import Lia.
From MHL Require Import Model.Commands Gen.Generated Proofs.BaseFacts Proofs.SealFacts Proofs.RouteFacts Proofs.TreeFacts
  Proofs.IgnoreFacts Proofs.CommitFacts Proofs.CreateFacts Proofs.PartitionFacts Proofs.FreshFacts Proofs.LoadFacts Proofs.HistFacts
  Proofs.VerifyFacts Proofs.FlatFacts Proofs.ReloadFacts Proofs.NestedFacts.

Section SfNested.
  Variable Hb : fmt -> bytes -> bytes.
  Variable matches : list text -> text -> bool.
  Variable C : Type.
  Variable cdig : C -> text.
  Variable ser : gen -> C.
  Notation node := (node C).

  (* the -sf fold: the session keeps the shape R, each record stems from one sealed path *)
  Lemma sf_fold_sinv hs (Hroot : lh_root (root_hist hs) = [])
        (Hpar : forall h par, In h hs \/ h = root_hist hs -> lh_parent h = Some par -> is_prefix par (lh_root h) = true)
        (R : path -> record -> Prop) fmts : forall files s fails done,
    sinv R s done ->
    (forall p c, In (p, c) files -> let h := route_to hs p in let q := strip_prefix (lh_root h) p in
       q <> [] -> forall sz, R (lh_root h) (mkRecord q false sz (fst (seal (lh_gens h) q (fun f => digest_text Hb f c) fmts)) None)) ->
    let st := fold_left (sf_step Hb hs fmts) files (s, fails, done) in
    sinv R (fst (fst st)) (snd st).
  Proof.
    induction files as [|[p c] files IH]; intros s fails done Hs Hf; cbn [fold_left]; [exact Hs|].
    cbn zeta.
    assert (E : sf_step Hb hs fmts (s, fails, done) (p, c) =
                if mem_path p done then (s, fails, done)
                else let '(s', _, ok) := seal_file Hb hs fmts s p c in (s', if ok then fails else S fails, p :: done)) by reflexivity.
    rewrite E. clear E. destruct (mem_path p done) eqn:Em.
    - apply IH; [exact Hs|]. intros p0 c0 Hin. apply Hf. right. exact Hin.
    - assert (Hnew : ~ In p done) by (intros H; apply mem_path_In in H; congruence).
      destruct (process_event_sinv Hb matches C hs Hroot Hpar R fmts false [] (Dir None []) s 0 done (EvFile p c) Hs Hnew) as [H1 _].
      { apply Hf. left. reflexivity. }
      cbn [process_event ev_path fst] in H1.
      destruct (seal_file Hb hs fmts s p c) as [[s' n] ok] eqn:Esf. cbn [fst] in H1.
      apply IH; [exact H1|]. intros p0 c0 Hin. apply Hf. right. exact Hin.
  Qed.

  Lemma sf_fold_no_fail hs fmts : forall files s fails done,
    (forall p c, In (p, c) files -> consistent (lh_gens (route_to hs p)) (strip_prefix (lh_root (route_to hs p)) p) (fun f => digest_text Hb f c)) ->
    snd (fst (fold_left (sf_step Hb hs fmts) files (s, fails, done))) = fails.
  Proof.
    induction files as [|[p c] files IH]; intros s fails done Hc; cbn [fold_left]; [reflexivity|].
    assert (E : sf_step Hb hs fmts (s, fails, done) (p, c) =
                if mem_path p done then (s, fails, done)
                else let '(s', _, ok) := seal_file Hb hs fmts s p c in (s', if ok then fails else S fails, p :: done)) by reflexivity.
    rewrite E. clear E. destruct (mem_path p done); [apply IH; intros p0 c0 H; apply Hc; right; exact H|].
    unfold seal_file.
    pose proof (proj2 (unaltered_no_failure _ _ _ fmts (Hc p c (or_introl eq_refl)))) as Hok.
    destruct (seal (lh_gens (route_to hs p)) (strip_prefix (lh_root (route_to hs p)) p) (fun f => digest_text Hb f c) fmts) as [es res]. cbn [snd] in Hok.
    assert (Hfirst : match fmts with f0 :: _ => match find (fun x => fmt_eqb (fst x) f0) res with Some x => snd x | None => true end | [] => true end = true).
    { destruct fmts as [|f0 fs]; [reflexivity|]. destruct (find (fun x => fmt_eqb (fst x) f0) res) as [x|] eqn:Ef; [|reflexivity]. apply Hok. apply (find_some _ _ Ef). }
    rewrite Hfirst. apply IH. intros p0 c0 H. apply Hc. right. exact H.
  Qed.

  (* the files -sf works on are files of the tree *)
  Lemma sf_files_get spec (t : node) sp p c : wf_tree C t -> In (p, c) (sf_files matches C spec t sp) -> get C t p = Some (File c).
  Proof.
    intros Hwf Hin. unfold sf_files in Hin. destruct (get C t sp) as [[c0|h kids]|] eqn:Eg; [destruct Hin as [E|[]]; injection E as <- <-; exact Eg| |destruct Hin].
    apply in_flat_map in Hin. destruct Hin as [e [He Hx]]. destruct e as [q c1|q k]; [|destruct Hx]. destruct Hx as [E|[]]. injection E as <- <-.
    assert (Hsub : wf_tree C (Dir h kids)).
    { clear -Hwf Eg. revert t Hwf Eg. induction sp as [|n sp IH]; intros t Hwf Eg; [cbn in Eg; injection Eg as <-; exact Hwf|].
      destruct t as [c|h' kids']; [discriminate|]. cbn [get] in Eg. destruct (lookup_kid C n kids') as [k|] eqn:El; [|discriminate].
      inversion Hwf as [|? ? _ Hk]; subst. rewrite Forall_forall in Hk. apply (IH k); [|exact Eg].
      assert (Hin : In (n, k) kids') by (clear -El; induction kids' as [|[m x] l IHl]; [discriminate|]; cbn in El; destruct (text_eqb_spec n m) as [->|]; [injection El as ->; left; reflexivity|right; apply IHl; exact El]).
      apply (Hk (n, k) Hin). }
    assert (Hev : In (q, c1) (ev_files (events matches C spec sp (Dir h kids)))).
    { unfold ev_files. apply in_flat_map. exists (EvFile q c1). split; [exact He|left; reflexivity]. }
    destruct (ev_files_get matches C spec (Dir h kids) sp q c1 Hsub Hev) as [rel [-> Hg]].
    clear -Eg Hg. revert t Eg. induction sp as [|n sp IH]; intros t Eg; [cbn in Eg; injection Eg as ->; exact Hg|].
    destruct t as [c|h' kids']; [discriminate|]. cbn [get app] in *. destruct (lookup_kid C n kids'); [|discriminate]. apply IH. exact Eg.
  Qed.

  Theorem create_sf_nested_never_aborts h0 kids hs req sf ip ifl :
    wf_tree C (Dir h0 kids) -> load C cdig (Dir h0 kids) = inl hs ->
    o_outcome (snd (create_sf Hb matches C cdig ser (Dir h0 kids) req sf ip ifl)) <> Abort.
  Proof.
    intros Hwf Hl. destruct (load_list_facts C cdig h0 kids hs Hl) as [Hroot [_ [_ Hpar]]].
    unfold create_sf. rewrite Hl.
    set (spec := set_patterns (latest_patterns (lh_gens (root_hist hs))) ip (pattern_file_lines ifl)).
    set (t := Dir h0 kids) in *. set (files := flat_map (sf_files matches C spec t) sf).
    pose proof (sf_fold_sinv hs Hroot Hpar (fun _ r => Rval (r_path r) (r_entries r)) (sort_fmts req) files [] 0 []) as Hinv.
    match goal with |- context [fold_left ?f ?l ?i] =>
      pose proof (Hinv : _ -> _ -> sinv _ (fst (fst (fold_left f l i))) (snd (fold_left f l i))) as Hv2; clear Hinv;
      destruct (fold_left f l i) as [[sess fails] dn] end.
    cbn [fst snd] in Hv2. cbn [snd o_outcome].
    destruct (cs_abort C (commit C cdig ser hs InPlace t sess spec)) eqn:Ea; [|destruct (Nat.ltb 0 fails); discriminate].
    exfalso. unfold commit in Ea. destruct (commit_abort_cause C cdig ser InPlace sess spec hs _ Ea) as [H0|[h [_ Hv]]]; [discriminate H0|].
    destruct (validate_records_Rval (nl_records (sess_list sess (lh_root h)))) as [rs' Hrs]; [|congruence].
    assert (Hs : sinv (fun (_ : path) (r : record) => Rval (r_path r) (r_entries r)) sess dn).
    { apply Hv2; [intros k r0 Hin; cbn in Hin; destruct Hin|]. intros p c _ _ sz. cbn [r_path r_entries]. apply seal_Rval. }
    intros r Hr. apply (Hs (lh_root h) r Hr).
  Qed.

  Theorem create_sf_nested_unchanged_exit_0 h0 kids hs req sf ip ifl :
    wf_tree C (Dir h0 kids) -> load C cdig (Dir h0 kids) = inl hs -> nprev hs -> ncur Hb C hs (Dir h0 kids) ->
    o_outcome (snd (create_sf Hb matches C cdig ser (Dir h0 kids) req sf ip ifl)) = Exit 0.
  Proof.
    intros Hwf Hl Hprev Hcur.
    pose proof (create_sf_nested_never_aborts h0 kids hs req sf ip ifl Hwf Hl) as Hna.
    unfold create_sf in *. rewrite Hl in *.
    set (spec := set_patterns (latest_patterns (lh_gens (root_hist hs))) ip (pattern_file_lines ifl)) in *.
    set (t := Dir h0 kids) in *. set (files := flat_map (sf_files matches C spec t) sf) in *.
    assert (Hcons : forall p c, In (p, c) files ->
              consistent (lh_gens (route_to hs p)) (strip_prefix (lh_root (route_to hs p)) p) (fun f => digest_text Hb f c)).
    { intros p c Hin. unfold files in Hin. apply in_flat_map in Hin. destruct Hin as [sp [_ Hin]].
      apply (routed_consistent Hb C cdig h0 kids hs p c Hwf Hl Hprev Hcur). apply (sf_files_get spec t sp p c Hwf Hin). }
    pose proof (sf_fold_no_fail hs (sort_fmts req) files [] 0 [] Hcons) as Hnf.
    match goal with |- context [fold_left ?f ?l ?i] =>
      pose proof (Hnf : snd (fst (fold_left f l i)) = 0) as Hnf2; clear Hnf; destruct (fold_left f l i) as [[sess fails] dn] end.
    cbn [fst snd] in Hnf2. subst fails. cbn [snd o_outcome] in *.
    destruct (cs_abort C (commit C cdig ser hs InPlace t sess spec)); [exfalso; apply Hna; reflexivity|reflexivity].
  Qed.
End SfNested.
