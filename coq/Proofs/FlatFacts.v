(* C03 / C04 at tree level, flat history without renames, ANY number of prior generations: if everything recorded so far
   is consistent with the tree (every recorded file digest is the digest of the file's present content) and a create run
   ends with exit 0, then (a) the same holds for the extended history and (b) verify and diff of the untouched result
   exit 0 with empty reports.  By induction: on an unaltered tree no sequence of successful seals ever produces a false
   alarm. *)
From Coq Require Import Lia Permutation.
From MHL Require Import Model.Commands Gen.Generated Proofs.BaseFacts Proofs.SealFacts Proofs.TreeFacts Proofs.RouteFacts
     Proofs.CommitFacts Proofs.LoadFacts Proofs.IgnoreFacts Proofs.VerifyFacts Proofs.CreateFacts Proofs.HistFacts Proofs.FreshFacts Proofs.InfoFacts.

Lemma filter_all_nil0 {A} (f : A -> bool) l : (forall x, In x l -> f x = false) -> filter f l = [].
Proof. induction l as [|a l IH]; intros H; [reflexivity|]. cbn. rewrite (H a (or_introl eq_refl)). apply IH. intros x Hx. apply H. right. exact Hx. Qed.

Section Flat2.
  Variable Hb : fmt -> bytes -> bytes.
  Variable matches : list text -> text -> bool.
  Variable C : Type.
  Variable cdig : C -> text.
  Variable ser : gen -> C.
  Notation node := (node C).
  Notation events := (events matches C).

  Definition file_entry (e : entry) : Prop := e_action e <> None.
  (* everything recorded so far describes the tree as it is now *)
  Definition hist_ok (gens : list gen) (t : node) : Prop :=
    (forall g r, In g gens -> In r (g_records g) -> r_prev r = None) /\
    (forall g r e c, In g gens -> In r (g_records g) -> In e (r_entries r) -> file_entry e ->
                     get C t (r_path r) = Some (File c) -> e_digest e = digest_text Hb (e_fmt e) c).

  Lemma find_media_hash_In g p r : p <> [] -> find_media_hash g p = Some r -> In r (g_records g) /\ rec_keys_match r p = true.
  Proof.
    intros Hp. unfold find_media_hash. destruct (find_last _ (g_records g)) as [y|] eqn:E.
    - intros [= <-]. apply (find_last_some _ _ _ E).
    - destruct p; [congruence|discriminate].
  Qed.
  Lemma keys_path r p : r_prev r = None -> rec_keys_match r p = true -> r_path r = p.
  Proof. intros Hp Hk. unfold rec_keys_match in Hk. rewrite Hp in Hk. cbn in Hk. rewrite orb_false_r in Hk. apply path_eqb_eq. exact Hk. Qed.

  Lemma prev_steps_id gens p : (forall g r, In g gens -> In r (g_records g) -> r_prev r = None) -> fold_left prev_step gens p = p.
  Proof.
    induction gens as [|g gens IH]; intros H; [reflexivity|]. cbn [fold_left].
    assert (Hs : prev_step p g = p).
    { unfold prev_step. destruct (find _ (g_records g)) as [r|] eqn:E; [|reflexivity]. apply find_some in E.
      rewrite (H g r (or_introl eq_refl) (proj1 E)). reflexivity. }
    rewrite Hs. apply IH. intros g' r Hg. apply H. right. exact Hg.
  Qed.

  (* the reference found in a consistent history is the digest of the present content *)
  Lemma reference_matches gens t p c e : p <> [] -> hist_ok gens t -> find_original gens p = Some e ->
    get C t p = Some (File c) -> e_digest e = digest_text Hb (e_fmt e) c.
  Proof.
    intros Hp [Hprev Hdig] Hf Hg. apply find_original_recorded in Hf. destruct Hf as [[g [r [Hin [Hm He]]]] Ha].
    destruct (find_media_hash_In g p r Hp Hm) as [Hr Hk].
    pose proof (keys_path r p (Hprev g r Hin Hr) Hk) as Hrp.
    apply (Hdig g r e c Hin Hr He); [unfold file_entry; rewrite Ha; discriminate|rewrite Hrp; exact Hg].
  Qed.

  (* the stronger form used as the invariant: every entry of a record whose path is a file now, whatever its kind *)
  Definition hist_all (gens : list gen) (t : node) : Prop :=
    (forall g r, In g gens -> In r (g_records g) -> r_prev r = None) /\
    (forall g r e c, In g gens -> In r (g_records g) -> In e (r_entries r) ->
                     get C t (r_path r) = Some (File c) -> e_digest e = digest_text Hb (e_fmt e) c).
  Lemma hist_all_ok gens t : hist_all gens t -> hist_ok gens t.
  Proof. intros [H1 H2]. split; [exact H1|]. intros g r e c Hg Hr He _ Hgt. eapply H2; eauto. Qed.
  Lemma hist_all_consistent gens t p c : p <> [] -> hist_all gens t -> get C t p = Some (File c) ->
    consistent gens p (fun f => digest_text Hb f c).
  Proof.
    intros Hp [Hprev Hdig] Hgt e [g [r [Hin [Hm He]]]].
    destruct (find_media_hash_In g p r Hp Hm) as [Hr Hk].
    pose proof (keys_path r p (Hprev g r Hin Hr) Hk) as Hrp.
    apply (Hdig g r e c Hin Hr He). rewrite Hrp. exact Hgt.
  Qed.

  (* ---- the session of a run over a flat history (any prior generations) ---- *)
  Variable h0 : lhist.
  Hypothesis h0_root : lh_root h0 = [].
  Hypothesis h0_parent : lh_parent h0 = None.

  Definition good2 (F : list (path * bytes)) (r : record) : Prop :=
    r_prev r = None /\
    (forall e, In e (r_entries r) -> file_entry e -> exists c, In (r_path r, c) F /\ e_digest e = digest_text Hb (e_fmt e) c) /\
    (find_original (lh_gens h0) (r_path r) = None -> forall e, In e (r_entries r) -> file_entry e -> is_original e = true).
  Definition covered2 (F : list (path * bytes)) (rs : list record) : Prop :=
    forall p c, In (p, c) F -> exists r e, In r rs /\ r_path r = p /\ In e (r_entries r) /\ file_entry e.

  Lemma good2_mono F F' r : (forall x, In x F -> In x F') -> good2 F r -> good2 F' r.
  Proof.
    intros Hsub [Hp [He Ho]]. split; [exact Hp|]. split; [|exact Ho].
    intros e Hin Hf. destruct (He e Hin Hf) as [c [Hc Hd]]. exists c. split; [apply Hsub; exact Hc|exact Hd].
  Qed.
  Lemma add_entries_good2 F rs p d sz es :
    Forall (good2 F) rs -> good2 F (mkRecord p d sz es None) -> Forall (good2 F) (add_entries rs p d sz es).
  Proof.
    intros Hrs [_ [Hnew Hnewo]]. induction rs as [|r rs IH]; cbn [add_entries]; [constructor; [split; [reflexivity|split; assumption]|constructor]|].
    inversion Hrs as [|? ? [Hrp [Hre Hro]] Hrs']; subst.
    destruct (path_eqb_spec (r_path r) p) as [E|E].
    - constructor; [|exact Hrs']. split; [exact Hrp|]. cbn [r_entries r_path]. split.
      + intros e Hin Hf. apply in_app_or in Hin. destruct Hin as [Hin|Hin]; [apply Hre; assumption|]. rewrite E. apply Hnew; assumption.
      + intros Hno e Hin Hf. apply in_app_or in Hin. destruct Hin as [Hin|Hin]; [apply Hro; assumption|]. apply Hnewo; [cbn [r_path]; rewrite <- E; exact Hno|exact Hin|exact Hf].
    - constructor; [split; [exact Hrp|split; assumption]|]. apply IH. exact Hrs'.
  Qed.
  Lemma add_entries_covered2 F rs p d sz es : covered2 F rs -> covered2 F (add_entries rs p d sz es).
  Proof.
    intros Hc q c Hin. destruct (Hc q c Hin) as [r [e [Hr [Hp [He Ho]]]]]. clear Hc.
    induction rs as [|r0 rs IH]; [destruct Hr|]. cbn [add_entries]. destruct (path_eqb_spec (r_path r0) p) as [E|E].
    - destruct Hr as [->|Hr].
      + eexists. exists e. split; [left; reflexivity|]. cbn [r_path r_entries]. repeat split; auto. apply in_or_app. left. exact He.
      + exists r, e. split; [right; exact Hr|auto].
    - destruct Hr as [->|Hr].
      + exists r, e. split; [left; reflexivity|auto].
      + destruct (IH Hr) as [r' [e' [H1 H2]]]. exists r', e'. split; [right; exact H1|exact H2].
  Qed.
  Lemma add_entries_covers_new2 F rs p c d sz es e0 :
    In e0 es -> file_entry e0 -> covered2 F rs -> covered2 ((p, c) :: F) (add_entries rs p d sz es).
  Proof.
    intros He0 Ho0 Hc q c' [E|Hin].
    - injection E as <- <-. destruct (add_entries_record rs p d sz es) as [r [H1 [H2 [_ H4]]]].
      exists r, e0. repeat split; auto.
    - apply (add_entries_covered2 F rs p d sz es Hc q c' Hin).
  Qed.

  Lemma seal_entries_facts fmts p c e :
    In e (fst (seal (lh_gens h0) p (fun f => digest_text Hb f c) fmts)) ->
    file_entry e /\ e_digest e = digest_text Hb (e_fmt e) c /\ (find_original (lh_gens h0) p = None -> is_original e = true).
  Proof.
    intros H. split; [|split].
    - destruct (out_In _ _ _ _ _ H) as [f [-> _]]. unfold file_entry. cbn. discriminate.
    - apply (seal_digest _ _ _ _ _ H).
    - intros Hn. unfold is_original. rewrite (proj2 (seal_original_iff _ _ _ _ _ H) Hn). reflexivity.
  Qed.
  Lemma dir_entries_no_action no_dh spec fmts p t es e :
    dir_entries Hb matches C no_dh spec fmts p t = Some es -> In e es -> e_action e = None.
  Proof.
    unfold dir_entries. destruct no_dh; [intros [= <-] []|]. intros H Hin.
    apply (opt_all_In _ _ _ H) in Hin. apply in_map_iff in Hin. destruct Hin as [f [Hf _]].
    destruct (get C t p) as [d|]; [|discriminate]. destruct (dirhash Hb matches C spec f p d) as [cs|]; [|discriminate].
    injection Hf as <-. reflexivity.
  Qed.

  Lemma process_event_good2 fmts no_dh spec t s fails F e :
    fmts <> [] -> Forall (good2 F) (recs s) -> covered2 F (recs s) ->
    (match e with EvFile p _ => p <> [] | EvDir _ _ => True end) ->
    let '(s', _) := process_event Hb matches C [h0] fmts no_dh spec t (s, fails) e in
    Forall (good2 (match e with EvFile p c => (p, c) :: F | _ => F end)) (recs s') /\
    covered2 (match e with EvFile p c => (p, c) :: F | _ => F end) (recs s').
  Proof.
    intros Hf Hg Hc Hne. destruct e as [p c|p kids]; cbn [process_event].
    - unfold seal_file. rewrite (route_flat h0), h0_root. cbn [strip_prefix].
      assert (Hsp : strip_prefix [] p = p) by (destruct p; reflexivity). rewrite ?Hsp.
      destruct (seal (lh_gens h0) p (fun f => digest_text Hb f c) fmts) as [es res] eqn:Es.
      assert (Hes : forall e, In e es -> file_entry e /\ e_digest e = digest_text Hb (e_fmt e) c /\ (find_original (lh_gens h0) p = None -> is_original e = true)).
      { intros e He. apply (seal_entries_facts fmts p c). rewrite Es. exact He. }
      assert (Hne' : es <> []).
      { replace es with (fst (seal (lh_gens h0) p (fun f => digest_text Hb f c) fmts)) by (rewrite Es; reflexivity). apply seal_nonempty. exact Hf. }
      assert (Hmono : Forall (good2 ((p, c) :: F)) (recs s)).
      { eapply Forall_impl; [|exact Hg]. intros r. apply good2_mono. intros x Hx. right. exact Hx. }
      destruct es as [|e0 es']; [congruence|].
      rewrite recs_sess_add. destruct p as [|n p']; [congruence|]. split.
      + apply add_entries_good2; [exact Hmono|]. split; [reflexivity|]. cbn [r_entries r_path]. split.
        * intros e He _. exists c. split; [left; reflexivity|apply Hes; exact He].
        * intros Hno e He _. apply (Hes e He). exact Hno.
      + apply (add_entries_covers_new2 F (recs s) (n :: p') c false _ (e0 :: es') e0); [left; reflexivity|apply Hes; left; reflexivity|exact Hc].
    - unfold record_dir. rewrite (route_flat h0), h0_root, h0_parent.
      assert (Hsp : strip_prefix [] p = p) by (destruct p; reflexivity). rewrite ?Hsp.
      assert (Hsame : forall es, match p with [] => sess_add s [] p true None es | _ :: _ => sess_add s [] p true None es end = sess_add s [] p true None es) by (intros; destruct p; reflexivity).
      rewrite Hsame, recs_sess_add. destruct p as [|n p']; [split; assumption|]. split.
      + apply add_entries_good2; [exact Hg|]. split; [reflexivity|]. cbn [r_entries r_path].
        assert (Hna : forall e, In e (match dir_entries Hb matches C no_dh spec fmts (n :: p') t with Some es => es | None => [] end) -> e_action e = None).
        { intros e He. destruct (dir_entries Hb matches C no_dh spec fmts (n :: p') t) as [es|] eqn:Ed; [|destruct He]. eapply dir_entries_no_action; eauto. }
        split; intros; exfalso; match goal with H : file_entry ?e |- _ => apply H; apply Hna; assumption end.
      + apply add_entries_covered2. exact Hc.
  Qed.

  Lemma fold_events_good2 fmts no_dh spec t : fmts <> [] -> forall evs s fails F,
    Forall (good2 F) (recs s) -> covered2 F (recs s) -> (forall q, In q (files_of evs) -> q <> []) ->
    exists F', Forall (good2 F') (recs (fst (fold_left (process_event Hb matches C [h0] fmts no_dh spec t) evs (s, fails)))) /\
               covered2 F' (recs (fst (fold_left (process_event Hb matches C [h0] fmts no_dh spec t) evs (s, fails)))) /\
               forall x, In x F' <-> In x (ev_files evs) \/ In x F.
  Proof.
    intros Hf. induction evs as [|e evs IH]; intros s fails F Hg Hc Hne; cbn [fold_left].
    - exists F. split; [exact Hg|]. split; [exact Hc|]. intros x. cbn. tauto.
    - assert (He : match e with EvFile p _ => p <> [] | EvDir _ _ => True end).
      { destruct e as [p c|]; [|exact I]. apply Hne. cbn. left. reflexivity. }
      pose proof (process_event_good2 fmts no_dh spec t s fails F e Hf Hg Hc He) as Hstep.
      destruct (process_event Hb matches C [h0] fmts no_dh spec t (s, fails) e) as [s1 f1]. destruct Hstep as [Hg1 Hc1].
      destruct (IH s1 f1 _ Hg1 Hc1) as [F' [H1 [H2 H3]]].
      { intros q Hq. apply Hne. destruct e; cbn; [right|]; exact Hq. }
      exists F'. split; [exact H1|]. split; [exact H2|].
      intros x. rewrite H3. destruct e as [p c|p k]; cbn [ev_files flat_map app In]; tauto.
  Qed.

  (* validation and read-back keep these facts *)
  Lemma file_entry_promote e : file_entry (promote e) <-> file_entry e.
  Proof. unfold file_entry. rewrite promote_action. destruct (e_action e) as [[]|]; split; intros H; try discriminate; try exact H; congruence. Qed.
  Lemma validate_record_good2 F r r' : validate_record r = Some r' -> good2 F r -> good2 F r'.
  Proof.
    intros Er [Hrp [Hre Hro]]. apply validate_record_ok in Er. destruct Er as [Ep [_ [_ [Epr [Ees _]]]]].
    split; [rewrite Epr; exact Hrp|]. rewrite Ees, Ep. split.
    - intros e Hin Hf. apply in_map_iff in Hin. destruct Hin as [e1 [<- Hin]].
      rewrite promote_digest, promote_fmt. apply Hre; [exact Hin|apply file_entry_promote; exact Hf].
    - intros Hno e Hin Hf. apply in_map_iff in Hin. destruct Hin as [e1 [<- Hin]].
      rewrite is_original_promote. apply Hro; [exact Hno|exact Hin|apply file_entry_promote; exact Hf].
  Qed.
  Lemma validate_good2 F rs rs' : validate_records rs = Some rs' ->
    Forall (good2 F) rs -> covered2 F rs -> Forall (good2 F) rs' /\ covered2 F rs'.
  Proof.
    intros H Hg Hc. apply validate_records_Forall2 in H. split.
    - clear Hc. induction H as [|r r' rs rs' Hr H IH]; [constructor|]. inversion Hg; subst. constructor; [eapply validate_record_good2; eauto|apply IH; assumption].
    - intros p c Hin. destruct (Hc p c Hin) as [r [e [Hr [Hp [He Ho]]]]]. clear Hc Hg.
      induction H as [|r0 r0' rs rs' Hv H IH]; [destruct Hr|]. destruct Hr as [->|Hr].
      + apply validate_record_ok in Hv. destruct Hv as [Ep [_ [_ [_ [Ees _]]]]].
        exists r0', (promote e). split; [left; reflexivity|]. rewrite Ep, Ees. repeat split; auto; [apply in_map; exact He|apply file_entry_promote; exact Ho].
      + destruct (IH Hr) as [r1 [e1 [H1 H2]]]. exists r1, e1. split; [right; exact H1|exact H2].
  Qed.
  Lemma readback_good2 F rs : Forall (good2 F) rs -> covered2 F rs ->
    Forall (good2 F) (map readback_record rs) /\ covered2 F (map readback_record rs).
  Proof.
    intros Hg Hc.
    assert (Hin : forall r e, In e (r_entries (readback_record r)) <-> In e (r_entries r)).
    { intros r e. unfold readback_record. destruct (r_dir r); [tauto|]. cbn [r_entries]. apply sort_In. }
    assert (Hp : forall r, r_path (readback_record r) = r_path r /\ r_prev (readback_record r) = r_prev r).
    { intros r. unfold readback_record. destruct (r_dir r); split; reflexivity. }
    split.
    - apply Forall_forall. intros r' Hr'. apply in_map_iff in Hr'. destruct Hr' as [r [<- Hr]]. rewrite Forall_forall in Hg.
      destruct (Hg r Hr) as [H1 [H2 H3]]. destruct (Hp r) as [E1 E2]. split; [rewrite E2; exact H1|]. rewrite E1. split.
      + intros e He Ho. apply H2; [apply Hin; exact He|exact Ho].
      + intros Hno e He Ho. apply H3; [exact Hno|apply Hin; exact He|exact Ho].
    - intros p c Hpc. destruct (Hc p c Hpc) as [r [e [Hr [Hrp [He Ho]]]]]. exists (readback_record r), e.
      split; [apply in_map; exact Hr|]. destruct (Hp r) as [E1 _]. rewrite E1. repeat split; auto. apply Hin. exact He.
  Qed.
  (* ---- a property of the entries of each record that every event establishes survives in the session ---- *)
  Section EntriesInv.
    Variable R : path -> list entry -> Prop.
    Hypothesis R_app : forall p a b, R p a -> R p b -> R p (a ++ b).
    Hypothesis R_nil : forall p, R p [].
    Definition all_R (rs : list record) : Prop := forall r, In r rs -> R (r_path r) (r_entries r).
    Lemma add_entries_R rs p d sz es : all_R rs -> R p es -> all_R (add_entries rs p d sz es).
    Proof.
      intros Hrs Hes. induction rs as [|r0 rs IH]; cbn [add_entries]; intros r Hr.
      - destruct Hr as [<-|[]]. exact Hes.
      - destruct (path_eqb_spec (r_path r0) p) as [E|E].
        + destruct Hr as [<-|Hr]; [|apply Hrs; right; exact Hr]. cbn [r_path r_entries]. apply R_app; [apply Hrs; left; reflexivity|rewrite E; exact Hes].
        + destruct Hr as [<-|Hr]; [apply Hrs; left; reflexivity|]. apply IH; [|exact Hr]. intros r' Hr'. apply Hrs. right. exact Hr'.
    Qed.
    Lemma process_event_R fmts no_dh spec t s fails ev :
      all_R (recs s) ->
      (match ev with
       | EvFile p c => p <> [] /\ R p (fst (seal (lh_gens h0) p (fun f => digest_text Hb f c) fmts))
       | EvDir p _ => forall es, dir_entries Hb matches C no_dh spec fmts p t = Some es -> R p es
       end) ->
      all_R (recs (fst (process_event Hb matches C [h0] fmts no_dh spec t (s, fails) ev))).
    Proof.
      intros Hs Hev. destruct ev as [p c|p kids]; cbn [process_event].
      - unfold seal_file. rewrite (route_flat h0), h0_root. cbn [strip_prefix].
        assert (Hsp : strip_prefix [] p = p) by (destruct p; reflexivity). rewrite ?Hsp.
        destruct Hev as [Hne Hev].
        destruct (seal (lh_gens h0) p (fun f => digest_text Hb f c) fmts) as [es res]. cbn [fst] in *.
        destruct es as [|e0 es']; [exact Hs|]. rewrite recs_sess_add. destruct p as [|n p']; [congruence|].
        apply add_entries_R; assumption.
      - unfold record_dir. rewrite (route_flat h0), h0_root, h0_parent.
        assert (Hsp : strip_prefix [] p = p) by (destruct p; reflexivity). rewrite ?Hsp.
        assert (Hsame : forall es, match p with [] => sess_add s [] p true None es | _ :: _ => sess_add s [] p true None es end = sess_add s [] p true None es) by (intros; destruct p; reflexivity).
        rewrite Hsame. cbn [fst]. rewrite recs_sess_add. destruct p as [|n p']; [exact Hs|].
        apply add_entries_R; [exact Hs|]. destruct (dir_entries Hb matches C no_dh spec fmts (n :: p') t) as [es|] eqn:Ed; [apply Hev; reflexivity|].
        apply R_nil.
    Qed.
    Lemma fold_events_R fmts no_dh spec t : forall evs s fails,
      all_R (recs s) ->
      (forall p c, In (p, c) (ev_files evs) -> p <> [] /\ R p (fst (seal (lh_gens h0) p (fun f => digest_text Hb f c) fmts))) ->
      (forall p es, In p (dirs_of evs) -> dir_entries Hb matches C no_dh spec fmts p t = Some es -> R p es) ->
      all_R (recs (fst (fold_left (process_event Hb matches C [h0] fmts no_dh spec t) evs (s, fails)))).
    Proof.
      induction evs as [|e evs IH]; intros s fails Hs Hf Hd; cbn [fold_left]; [exact Hs|].
      pose proof (process_event_R fmts no_dh spec t s fails e Hs) as Hstep.
      destruct (process_event Hb matches C [h0] fmts no_dh spec t (s, fails) e) as [s1 f1]. cbn [fst] in Hstep.
      apply IH.
      - apply Hstep. destruct e as [p c|p k].
        + apply Hf. cbn. left. reflexivity.
        + intros es. apply Hd. cbn. left. reflexivity.
      - intros p c Hin. apply Hf. destruct e; cbn; [right|]; exact Hin.
      - intros p es Hin. apply Hd. destruct e; cbn; [|right]; exact Hin.
    Qed.
  End EntriesInv.

  (* no format fails on files whose recorded entries all match *)
  Lemma fold_events_no_fail fmts no_dh spec t : forall evs s fails,
    (forall p c, In (p, c) (ev_files evs) -> consistent (lh_gens h0) p (fun f => digest_text Hb f c)) ->
    snd (fold_left (process_event Hb matches C [h0] fmts no_dh spec t) evs (s, fails)) = fails.
  Proof.
    induction evs as [|e evs IH]; intros s fails Hc; cbn [fold_left]; [reflexivity|].
    destruct e as [p c|p k]; cbn [process_event].
    - unfold seal_file. rewrite (route_flat h0), h0_root. cbn [strip_prefix].
      assert (Hsp : strip_prefix [] p = p) by (destruct p; reflexivity). rewrite ?Hsp.
      pose proof (proj2 (unaltered_no_failure (lh_gens h0) p (fun f => digest_text Hb f c) fmts (Hc p c (or_introl eq_refl)))) as Hok.
      destruct (seal (lh_gens h0) p (fun f => digest_text Hb f c) fmts) as [es res]. cbn [snd] in Hok.
      assert (Hz : length (filter (fun x : fmt * bool => negb (snd x)) res) = 0).
      { rewrite (filter_all_nil0 _ res); [reflexivity|]. intros x Hx. rewrite (Hok x Hx). reflexivity. }
      rewrite Hz, Nat.add_0_r. apply IH. intros q c' Hin. apply Hc. cbn. right. exact Hin.
    - apply IH. intros q c' Hin. apply Hc. exact Hin.
  Qed.
  (* entries without an action (directory hashes) are recorded only at the paths of folder events *)
  Definition Rd (D : list path) (p : path) (es : list entry) : Prop := forall e, In e es -> e_action e = None -> In p D.
  Lemma fold_events_dirs fmts no_dh spec t evs :
    (forall q, In q (files_of evs) -> q <> []) ->
    all_R (Rd (dirs_of evs)) (recs (fst (fold_left (process_event Hb matches C [h0] fmts no_dh spec t) evs ([], 0)))).
  Proof.
    intros Hne. apply fold_events_R.
    - unfold Rd. intros p a b Ha Hb0 e He Hn. apply in_app_or in He. destruct He; eauto.
    - intros p e [] .
    - intros r [].
    - intros p c Hin. split.
      + apply Hne. unfold files_of. unfold ev_files in Hin. apply in_flat_map in Hin. destruct Hin as [e [He Hin]]. apply in_flat_map. exists e. split; [exact He|].
        destruct e; [|destruct Hin]. destruct Hin as [E|[]]. injection E as -> _. left. reflexivity.
      + intros e He Ha. exfalso. destruct (out_In _ _ _ _ _ He) as [f [-> _]]. discriminate Ha.
    - intros p es Hin _ e _ _. exact Hin.
  Qed.

  (* on files whose recorded entries all match, no entry is `failed` and `new` comes with a `verified` *)
  Definition Rv (p : path) (es : list entry) : Prop :=
    has_action Failed es = false /\ (has_action New es = true -> has_action Verified es = true).
  Lemma has_action_app a x y : has_action a (x ++ y) = (has_action a x || has_action a y)%bool.
  Proof. unfold has_action. apply existsb_app. Qed.
  Lemma fold_events_valid fmts no_dh spec t evs :
    (forall p c, In (p, c) (ev_files evs) -> p <> [] /\ consistent (lh_gens h0) p (fun f => digest_text Hb f c)) ->
    all_R Rv (recs (fst (fold_left (process_event Hb matches C [h0] fmts no_dh spec t) evs ([], 0)))).
  Proof.
    intros Hc. apply fold_events_R.
    - intros p a b [Ha1 Ha2] [Hb1 Hb2]. split.
      + rewrite has_action_app, Ha1, Hb1. reflexivity.
      + rewrite !has_action_app. intros H. apply orb_true_iff in H. destruct H as [H|H]; [rewrite (Ha2 H)|rewrite (Hb2 H), orb_true_r]; reflexivity.
    - intros p. split; [reflexivity|discriminate].
    - intros r [].
    - intros p c Hin. destruct (Hc p c Hin) as [Hne Hcons]. split; [exact Hne|]. split.
      + destruct (has_action Failed _) eqn:Ef; [|reflexivity]. apply has_action_In in Ef. destruct Ef as [e [He Ha]].
        exfalso. exact (proj1 (unaltered_no_failure _ _ _ fmts Hcons) e He Ha).
      + intros Hn. apply has_action_In in Hn. destruct Hn as [e [He Ha]].
        destruct (seal_new_needs_verified _ _ _ fmts e He Ha) as [e1 [H1 A1]]. apply has_action_In. eauto.
    - intros p es _ Hd. assert (Hna : forall e, In e es -> e_action e = None) by (intros e He; eapply dir_entries_no_action; eauto).
      split.
      + destruct (has_action Failed es) eqn:Ef; [|reflexivity]. apply has_action_In in Ef. destruct Ef as [e [He Ha]]. rewrite (Hna e He) in Ha. discriminate.
      + intros Hn. apply has_action_In in Hn. destruct Hn as [e [He Ha]]. rewrite (Hna e He) in Ha. discriminate.
  Qed.
  Lemma validate_records_all rs : all_R Rv rs -> exists rs', validate_records rs = Some rs'.
  Proof.
    induction rs as [|r rs IH]; intros H; cbn [validate_records]; [eauto|].
    destruct IH as [rs' ->]; [intros r' Hr'; apply H; right; exact Hr'|].
    destruct (H r (or_introl eq_refl)) as [Hf Hn]. unfold validate_record.
    destruct (has_action New (r_entries r)) eqn:En; [|eauto]. rewrite (Hn eq_refl), Hf. cbn. eauto.
  Qed.
  (* what validation and read-back do to entries *)
  Lemma validate_readback_entries rs rs' r' e' : validate_records rs = Some rs' ->
    In r' (map readback_record rs') -> In e' (r_entries r') ->
    exists r e, In r rs /\ r_path r = r_path r' /\ In e (r_entries r) /\ e' = promote e.
  Proof.
    intros Hv Hr' He'. apply in_map_iff in Hr'. destruct Hr' as [r1 [<- Hr1]].
    assert (Hin : In e' (r_entries r1)).
    { unfold readback_record in He'. destruct (r_dir r1); [exact He'|]. cbn [r_entries] in He'. apply sort_In in He'. exact He'. }
    assert (Hp : r_path (readback_record r1) = r_path r1) by (unfold readback_record; destruct (r_dir r1); reflexivity).
    rewrite Hp. clear He' Hp. apply validate_records_Forall2 in Hv.
    induction Hv as [|r r2 rs rs' Hr Hv IH]; [destruct Hr1|]. destruct Hr1 as [->|Hr1].
    - apply validate_record_ok in Hr. destruct Hr as [Ep [_ [_ [_ [Ees _]]]]]. rewrite Ees in Hin.
      apply in_map_iff in Hin. destruct Hin as [e [<- He]]. exists r, e. split; [left; reflexivity|]. auto.
    - destruct (IH Hr1) as [r0 [e [H1 H2]]]. exists r0, e. split; [right; exact H1|exact H2].
  Qed.
End Flat2.

Section ExpectedFlat.
  Variable C : Type.
  Lemma expected_flat (h : lhist) : lh_root h = [] ->
    (forall g r, In g (lh_gens h) -> In r (g_records g) -> r_prev r = None) ->
    forall q, In q (expected_paths [h]) <-> exists g r, In g (lh_gens h) /\ In r (g_records g) /\ r_path r = q.
  Proof.
    intros Hroot Hprev q.
    assert (Hrm : rename_map [h] = []).
    { unfold rename_map. cbn [flat_map]. rewrite app_nil_r. apply hist_rename_map_nil. exact Hprev. }
    unfold expected_paths. rewrite (dedup_by_In path_eqb path_eqb_spec). 
    assert (Hren : forall p, renamed [h] p = p) by (intros p; unfold renamed; rewrite Hrm; reflexivity).
    rewrite (map_ext _ (fun p => p) Hren), map_id. unfold recorded_paths. cbn [flat_map]. rewrite app_nil_r, Hroot. cbn [app].
    split.
    - intros [Hq _]. apply in_flat_map in Hq. destruct Hq as [g [Hg Hq]]. apply in_map_iff in Hq. destruct Hq as [r [Hrp Hr]]. exists g, r. auto.
    - intros [g [r [Hg [Hr Hrp]]]]. split; [|intros []]. apply in_flat_map. exists g. split; [exact Hg|]. apply in_map_iff. exists r. auto.
  Qed.
End ExpectedFlat.

Section FlatMain.
  Variable Hb : fmt -> bytes -> bytes.
  Variable matches : list text -> text -> bool.
  Variable C : Type.
  Variable cdig : C -> text.
  Variable ser : gen -> C.
  Notation node := (node C).
  Notation events := (events matches C).

  Lemma gen_eta (d : gen) : mkGen (g_no d) (g_records d) (g_root d) (g_patterns d) (g_refs d) (g_process d) = d.
  Proof. destruct d; reflexivity. Qed.
  Lemma loaded_gens_after_commit n (old : hist C) doc :
    wellformed C cdig n old -> g_no doc = N.of_nat (S n) ->
    loaded_gens C (after_commit C cdig ser old doc) = loaded_gens C old ++ [doc].
  Proof.
    intros [Hf _] Hno. unfold loaded_gens, after_commit. cbn [h_files]. rewrite map_app. cbn [map mf_no mf_doc]. rewrite gen_eta.
    set (l := map _ (h_files C old)).
    assert (Hl : map g_no l = nums n) by (unfold l; rewrite map_map; cbn [g_no]; exact Hf).
    assert (Hs1 : Sorted.Sorted (le gen_leb) l) by (eapply gens_sorted_of_nums; exact Hl).
    assert (Hs2 : Sorted.Sorted (le gen_leb) (l ++ [doc])).
    { eapply (gens_sorted_of_nums _ 1 (S n)). rewrite map_app, Hl. cbn [map]. rewrite Hno. fold (nums (S n)). rewrite nums_S. reflexivity. }
    rewrite (sort_sorted_id gen_leb _ Hs2), (sort_sorted_id gen_leb _ Hs1). reflexivity.
  Qed.
  Lemma get_ignore_hist h h' kids p : p <> [] -> get C (Dir h kids) p = get C (Dir h' kids) p.
  Proof. destruct p; [congruence|reflexivity]. Qed.
  Lemma filter_nil_all {A} (f : A -> bool) l : filter f l = [] -> forall x, In x l -> f x = false.
  Proof. induction l as [|a l IH]; intros H x Hin; [destruct Hin|]. cbn in H. destruct (f a) eqn:E; [discriminate|]. destruct Hin as [<-|Hin]; auto. Qed.

  Lemma filter_all_nil {A} (f : A -> bool) l : (forall x, In x l -> f x = false) -> filter f l = [].
  Proof. induction l as [|a l IH]; intros H; [reflexivity|]. cbn. rewrite (H a (or_introl eq_refl)). apply IH. intros x Hx. apply H. right. exact Hx. Qed.
  Lemma create_no_missing t req no_dh ip ifl hs : load C cdig t = inl hs ->
    o_outcome (snd (create_folder Hb matches C cdig ser t req no_dh false ip ifl)) = Exit 0 ->
    let spec := set_patterns (latest_patterns (lh_gens (root_hist hs))) ip (pattern_file_lines ifl) in
    missing matches spec (diff_paths (diff_paths (expected_paths hs) (visited (events spec [] t))) []) = [].
  Proof.
    intros Hl. unfold create_folder. rewrite Hl. cbn zeta. destruct (fold_left _ _ _) as [s0 f0]. cbn [snd o_outcome dr_found dr_abort dr_sess].
    destruct (cs_abort C _ || false)%bool; [discriminate|]. destruct (Nat.ltb 0 f0); [discriminate|].
    destruct (sorted_paths _) eqn:Es; [|discriminate]. intros _. apply (proj1 (sorted_paths_nil _)) in Es. exact Es.
  Qed.
  Theorem ev_dirs_get spec : forall t p q, wf_tree C t -> In q (dirs_of (events spec p t)) ->
    exists rel h k, q = p ++ rel /\ get C t rel = Some (Dir h k).
  Proof.
    induction t as [c0|h kids IH] using node_ind'; intros p q Hw H; [destruct H|].
    inversion Hw as [|? ? Hnames Hkids]; subst.
    apply dirs_dir in H.
    destruct H as [[x [Hin H]]| ->]; [|exists [], h, kids; split; [rewrite app_nil_r; reflexivity|reflexivity]].
    assert (Hx : In (fst x, fst (snd x)) kids /\ snd (snd x) = events spec (p ++ [fst x]) (fst (snd x))).
    { unfold vis_of in Hin. apply filter_In in Hin. destruct Hin as [Hin _]. apply sort_In in Hin.
      unfold subs in Hin. apply in_map_iff in Hin. destruct Hin as [nk [<- Hin]]. cbn [fst snd]. destruct nk; auto. }
    destruct Hx as [Hk Hs]. unfold sub_evs in H. destruct (fst (snd x)) as [c1|h1 k1] eqn:E; [destruct H|].
    rewrite Hs in H. rewrite Forall_forall in IH, Hkids.
    destruct (IH (fst x, Dir h1 k1) Hk (p ++ [fst x]) q (Hkids _ Hk) H) as [rel [h' [k' [-> Hg]]]].
    exists (fst x :: rel), h', k'. split; [rewrite <- app_assoc; reflexivity|]. cbn [get]. rewrite (lookup_kid_In C _ _ _ Hnames Hk). exact Hg.
  Qed.

  (* the invariant of a flat history without renames over a tree: well-formed, duplicate-free pattern list, and everything
     recorded is consistent with the present contents *)
  Definition flat_ok (n : nat) (old : hist C) (kids : list (text * node)) : Prop :=
    wellformed C cdig n old /\ NoDup (latest_patterns (loaded_gens C old)) /\ hist_all Hb C (loaded_gens C old) (Dir (Some old) kids) /\
    (forall g, In g (loaded_gens C old) -> g_refs g = []).

  (* nothing recorded is missing, under the recorded patterns alone *)
  Definition complete (old : hist C) (kids : list (text * node)) : Prop :=
    let h := lhist_of C [] None (Some old) in
    let spec := set_patterns (latest_patterns (lh_gens h)) [] (pattern_file_lines []) in
    missing matches spec (diff_paths (expected_paths [h]) (visited (events spec [] (Dir (Some old) kids)))) = [].

  Theorem flat_create_then_verify old kids h0 n req no_dh ip ifl :
    wf_tree C (Dir (Some old) kids) -> load C cdig (Dir (Some old) kids) = inl [h0] -> flat_ok n old kids -> req <> [] ->
    let run := create_folder Hb matches C cdig ser (Dir (Some old) kids) req no_dh false ip ifl in
    o_outcome (snd run) = Exit 0 ->
    exists doc, fst run = Dir (Some (after_commit C cdig ser old doc)) kids /\
      load C cdig (fst run) = inl [lhist_of C [] None (Some (after_commit C cdig ser old doc))] /\
      flat_ok (S n) (after_commit C cdig ser old doc) kids /\ complete (after_commit C cdig ser old doc) kids /\
      verify_result Hb matches C cdig false (fst run) [] [] = Some (mkVR 0 [] [] []) /\
      verify_result Hb matches C cdig true (fst run) [] [] = Some (mkVR 0 [] [] []).
  Proof.
    intros Hwf Hl [Hw [Hnp [Hok Hrefs]]] Hreq. cbn zeta. intros Hout0.
    assert (Hout : o_outcome (snd (create_folder Hb matches C cdig ser (Dir (Some old) kids) req no_dh false ip ifl)) <> Abort) by (rewrite Hout0; discriminate).
    pose proof Hl as Hl0. rewrite load_dir in Hl0.
    destruct (check_chain C cdig old) eqn:Ecc; [discriminate|].
    destruct (combine_results (sort name_leb (kid_results C cdig [] [] kids))) as [below|e] eqn:Ec; [|discriminate].
    assert (Hb0 : below = [] /\ h0 = lhist_of C [] None (Some old)).
    { destruct below as [|b0 b1]; cbn in Hl0; [injection Hl0 as <-; auto|]. injection Hl0 as _ H. destruct b1; discriminate. }
    destruct Hb0 as [-> Eh0]. clear Hl0.
    assert (h0_root : lh_root h0 = []) by (rewrite Eh0; reflexivity).
    assert (h0_parent : lh_parent h0 = None) by (rewrite Eh0; reflexivity).
    assert (h0_gens : lh_gens h0 = loaded_gens C old) by (rewrite Eh0; reflexivity).
    set (t := Dir (Some old) kids) in *.
    destruct (create_flat_shape Hb matches C cdig ser h0 h0_root h0_parent t req no_dh ip ifl Hl eq_refl Hreq Hout)
      as [sess [recs0 [Esess [Hv [Hw' Ht]]]]].
    set (spec := set_patterns (latest_patterns (lh_gens h0)) ip (pattern_file_lines ifl)) in *.
    set (evs := events spec [] t) in *.
    set (doc := new_doc InPlace (sess_list sess []) recs0 spec [] h0) in *.
    assert (Hno : g_no doc = (latest_generation_number (loaded_gens C old) + 1)%N) by (unfold doc; rewrite Eh0; reflexivity).
    destruct (commit_appends C cdig ser n old doc Hw Hno) as [Hn [_ [_ Hwf']]].
    set (newh := after_commit C cdig ser old doc) in *.
    assert (Et' : fst (create_folder Hb matches C cdig ser t req no_dh false ip ifl) = Dir (Some newh) kids) by (rewrite Ht, Eh0; reflexivity).
    exists doc. split; [exact Et'|]. rewrite Et'. clear Ht Et'.
    (* records of the new generation *)
    destruct (fold_events_good2 Hb matches C h0 h0_root h0_parent (sort_fmts req) no_dh spec t (sort_fmts_nonempty req Hreq) evs [] 0 [])
      as [F' [Hg0 [Hc0 HF]]].
    { constructor. } { intros p c []. } { intros q Hq. eapply files_nonempty. exact Hq. }
    assert (Hg1 : Forall (good2 Hb h0 F') (recs sess)) by (rewrite Esess; exact Hg0).
    assert (Hc1 : covered2 F' (recs sess)) by (rewrite Esess; exact Hc0).
    destruct (validate_good2 Hb h0 F' _ _ Hv Hg1 Hc1) as [Hg2 Hc2].
    destruct (readback_good2 Hb h0 F' recs0 Hg2 Hc2) as [Hg Hc].
    assert (Hrecs : g_records doc = map readback_record recs0) by reflexivity.
    assert (HF' : forall x, In x F' <-> In x (ev_files evs)) by (intros x; rewrite HF; cbn; tauto).
    destruct (fold_events_inv Hb matches C h0 h0_root h0_parent (sort_fmts req) no_dh spec t (sort_fmts_nonempty req Hreq) evs [] 0 [] [])
      as [Fp [Dp [[Hn0 Hi0] [HFp HDp]]]].
    { split; [constructor|]. intros q. cbn. tauto. } { intros q Hq. eapply files_nonempty. exact Hq. }
    assert (Hnd : NoDup (map r_path (g_records doc))).
    { rewrite Hrecs, readback_paths, (validate_records_paths _ _ Hv), Esess. exact Hn0. }
    assert (Hpaths : forall q, In q (map r_path (g_records doc)) -> In q (visited evs)).
    { intros q Hq. rewrite Hrecs, readback_paths, (validate_records_paths _ _ Hv), Esess in Hq. apply Hi0 in Hq.
      rewrite visited_reported.
      pose proof (reported_are_events matches C spec t [] q eq_refl) as Hre. fold evs in Hre.
      destruct Hq as [Hq|[Hq Hne]].
      - apply HFp in Hq. destruct Hq as [Hq|[]]. destruct (proj2 Hre (or_introl Hq)) as [->|H]; [exfalso; eapply files_nonempty; [exact Hq|reflexivity]|exact H].
      - apply HDp in Hq. destruct Hq as [Hq|[]]. destruct (proj2 Hre (or_intror Hq)) as [->|H]; [congruence|exact H]. }
    (* the loaded history of the result *)
    set (h1 := lhist_of C [] None (Some newh)).
    assert (Hcc' : check_chain C cdig newh = None).
    { destruct Hwf' as [_ [ces [Hch [_ [_ Hce]]]]]. unfold check_chain. rewrite Hch. exact Hce. }
    assert (Hl1 : load C cdig (Dir (Some newh) kids) = inl [h1]) by (rewrite load_dir, Hcc', Ec; reflexivity).
    assert (Hgens : lh_gens h1 = loaded_gens C old ++ [doc]) by (apply (loaded_gens_after_commit n old doc Hw Hn)).
    assert (Hroot1 : lh_root h1 = []) by reflexivity.
    destruct Hok as [Hprev0 Hdig0].
    assert (Hprev : forall g r, In g (loaded_gens C old ++ [doc]) -> In r (g_records g) -> r_prev r = None).
    { intros g r Hin Hr. apply in_app_or in Hin. destruct Hin as [Hin|[<-|[]]]; [eapply Hprev0; eauto|].
      rewrite Hrecs in Hr. rewrite Forall_forall in Hg. apply (Hg r Hr). }
    assert (Hfile_at : forall p c, In (p, c) (ev_files evs) -> p <> [] /\ get C t p = Some (File c)).
    { intros p c Hpc. destruct (ev_files_get matches C spec t [] p c Hwf Hpc) as [rel [E Hgt]]. cbn in E. subst rel.
      split; [|exact Hgt]. intros ->. cbn in Hgt. discriminate. }
    assert (Hdirs : all_R (Rd (dirs_of evs)) (recs sess)).
    { rewrite Esess. apply (fold_events_dirs Hb matches C h0 h0_root h0_parent). intros q Hq. eapply files_nonempty. exact Hq. }
    assert (Hok' : hist_all Hb C (loaded_gens C old ++ [doc]) (Dir (Some newh) kids)).
    { split; [exact Hprev|]. intros g r e c Hin Hr He Hgt.
      assert (Hpne : r_path r <> []) by (intros E; rewrite E in Hgt; cbn in Hgt; discriminate).
      rewrite (get_ignore_hist (Some newh) (Some old) kids _ Hpne) in Hgt. fold t in Hgt.
      apply in_app_or in Hin. destruct Hin as [Hin|[<-|[]]]; [eapply Hdig0; eauto|].
      rewrite Hrecs in Hr. destruct (e_action e) as [a|] eqn:Ea.
      - rewrite Forall_forall in Hg. destruct (Hg r Hr) as [_ [Hge _]].
        destruct (Hge e He) as [c' [Hc' Hd]]; [unfold file_entry; rewrite Ea; discriminate|].
        apply HF' in Hc'. destruct (Hfile_at _ _ Hc') as [_ Hgt']. rewrite Hgt in Hgt'. injection Hgt' as <-. exact Hd.
      - exfalso. destruct (validate_readback_entries _ _ r e Hv Hr He) as [r1 [e1 [Hr1 [Hp1 [He1 ->]]]]].
        rewrite promote_action in Ea. assert (Ea1 : e_action e1 = None) by (destruct (e_action e1) as [[]|]; congruence).
        pose proof (Hdirs r1 Hr1 e1 He1 Ea1) as Hd. rewrite Hp1 in Hd.
        destruct (ev_dirs_get spec t [] _ Hwf Hd) as [rel [h' [k' [E Hg']]]]. cbn in E. subst rel. rewrite Hgt in Hg'. discriminate. }
    (* patterns *)
    assert (Hspec : set_patterns (latest_patterns (lh_gens (root_hist [h1]))) [] (pattern_file_lines []) = spec).
    { change (root_hist [h1]) with h1. rewrite Hgens. unfold latest_patterns at 1. rewrite rev_app_distr. cbn [rev app pattern_file_lines filter].
      unfold doc at 1. rewrite new_doc_patterns. unfold spec. rewrite h0_gens.
      destruct (set_patterns_stable_gen (latest_patterns (loaded_gens C old)) ip (pattern_file_lines ifl) Hnp) as [E1 E2]. cbn zeta in E1, E2. rewrite E1. exact E2. }
    (* nothing recorded is missing *)
    assert (Hcompl : missing matches spec (diff_paths (expected_paths [h1]) (visited evs)) = []).
    { pose proof (create_no_missing t req no_dh ip ifl [h0] Hl Hout0) as Hm0. change (root_hist [h0]) with h0 in Hm0. fold spec in Hm0. fold evs in Hm0.
    assert (Hold : forall q, In q (expected_paths [h0]) -> ~ In q (visited evs) -> ignored matches spec q = true).
    { intros q Hq Hnv. destruct (ignored matches spec q) eqn:Ei; [reflexivity|]. exfalso.
      pose proof (filter_nil_all _ _ Hm0 q) as Hf. cbv beta in Hf. rewrite Ei in Hf. cbn [negb] in Hf.
      assert (Hin : In q (diff_paths (diff_paths (expected_paths [h0]) (visited evs)) [])).
      { unfold diff_paths. apply filter_In. split; [|reflexivity]. apply filter_In. split; [exact Hq|]. apply negb_true_iff.
        destruct (mem_path q (visited evs)) eqn:Em; [apply mem_path_In in Em; contradiction|reflexivity]. }
      specialize (Hf Hin). discriminate. }
    unfold missing. apply filter_all_nil. intros q Hq. unfold diff_paths in Hq. apply filter_In in Hq. destruct Hq as [Hq Hnm].
    apply negb_true_iff in Hnm. assert (Hnv : ~ In q (visited evs)) by (intros Hv'; apply mem_path_In in Hv'; congruence).
    apply negb_false_iff.
    apply (expected_flat h1 Hroot1) in Hq; [|rewrite Hgens; exact Hprev]. rewrite Hgens in Hq. destruct Hq as [g [r [Hgin [Hr Hrp]]]].
    apply in_app_or in Hgin. destruct Hgin as [Hgin|[<-|[]]].
    + apply Hold; [|exact Hnv]. apply (expected_flat h0 h0_root); [rewrite h0_gens; exact Hprev0|]. rewrite h0_gens. exists g, r. auto.
    + exfalso. apply Hnv. apply Hpaths. rewrite <- Hrp. apply in_map. exact Hr. }
    split; [exact Hl1|].
    split.
    { split; [exact Hwf'|]. split.
      - rewrite (loaded_gens_after_commit n old doc Hw Hn). unfold latest_patterns. rewrite rev_app_distr. cbn [rev app].
        unfold doc. rewrite new_doc_patterns. apply set_patterns_NoDup.
      - rewrite (loaded_gens_after_commit n old doc Hw Hn). split; [exact Hok'|].
        intros g Hin. apply in_app_or in Hin. destruct Hin as [Hin|[<-|[]]]; [apply Hrefs; exact Hin|reflexivity]. }
    split.
    { fold newh. unfold complete. cbn zeta. change (lhist_of C [] None (Some newh)) with h1. change (root_hist [h1]) with h1 in Hspec. rewrite Hspec.
      rewrite (events_ignore_history matches C spec [] (Some newh) (Some old) kids). exact Hcompl. }
    apply (consistent_verifies Hb matches C cdig (Dir (Some newh) kids) [h1] [] [] Hl1).
    { change (root_hist [h1]) with h1. rewrite Hgens. destruct (loaded_gens C old); discriminate. }
    rewrite Hspec. unfold consistent_tree. rewrite (events_ignore_history matches C spec [] (Some newh) (Some old) kids). fold t. fold evs.
    split.
    - intros p c Hpc. destruct (Hfile_at p c Hpc) as [Hpne Hgt]. unfold reference. change (root_hist [h1]) with h1.
      assert (Hrt : route [h1] h1 p = h1) by (unfold route; cbn [fold_left]; unfold better; rewrite Nat.ltb_irrefl, andb_false_r; reflexivity).
      rewrite Hrt, Hroot1, Hgens. cbn [strip_prefix].
      assert (Hsp : strip_prefix [] p = p) by (destruct p; reflexivity). rewrite ?Hsp.
      rewrite (prev_steps_id _ p Hprev), find_original_app.
      destruct (find_original (loaded_gens C old) p) as [e|] eqn:Efo.
      + exists e. split; [reflexivity|]. apply (reference_matches Hb C (loaded_gens C old) t p c e Hpne (hist_all_ok Hb C _ _ (conj Hprev0 Hdig0)) Efo Hgt).
      + (* no original entry in the older generations: the new record holds one *)
        destruct (Hc p c (proj2 (HF' (p, c)) Hpc)) as [r [e0 [Hr [Hrp [He0 Hf0]]]]]. rewrite <- Hrecs in Hr.
        cbn [find_original].
        assert (Hfm : find_media_hash doc p = Some r).
        { unfold find_media_hash. rewrite (find_last_unique (fun r0 => rec_keys_match r0 p) (g_records doc) r Hr).
          - reflexivity.
          - unfold rec_keys_match. rewrite Hrp, path_eqb_refl. reflexivity.
          - intros r' Hr' Hk. assert (Hp' : r_prev r' = None) by (apply (Hprev doc r'); [apply in_or_app; right; left; reflexivity|exact Hr']).
            pose proof (keys_path r' p Hp' Hk) as Hk'. apply (NoDup_key_inj r_path (g_records doc)); auto. congruence. }
        rewrite Hfm. rewrite Hrecs in Hr. rewrite Forall_forall in Hg. destruct (Hg r Hr) as [_ [Hge Hgo]].
        assert (Hallo : forall e, In e (r_entries r) -> file_entry e -> is_original e = true) by (apply Hgo; rewrite Hrp, h0_gens; exact Efo).
        destruct (find is_original (r_entries r)) as [e|] eqn:Efi.
        * apply find_some in Efi. destruct Efi as [Hein Heo]. exists e. split; [reflexivity|].
          assert (Hfe : file_entry e) by (unfold file_entry, is_original in *; destruct (e_action e); [discriminate|discriminate Heo]).
          destruct (Hge e Hein Hfe) as [c' [Hc' Hd]]. rewrite Hrp in Hc'. apply HF' in Hc'.
          rewrite (ev_files_functional matches C spec t p c c' Hwf Hpc Hc'). exact Hd.
        * exfalso. eapply find_none in Efi; [|exact He0]. rewrite (Hallo e0 He0 Hf0) in Efi. discriminate.
    - exact Hcompl.
  Qed.
  Lemma commit_flat_abort h0 t sess sp : lh_root h0 = [] ->
    cs_abort C (commit C cdig ser [h0] InPlace t sess sp) = true ->
    exists v, sess_get sess [] = Some v /\ validate_records (nl_records v) = None.
  Proof.
    intros Hr. unfold commit. cbn [fold_left]. unfold commit_one. cbn [cs_abort cs_refs refs_get]. rewrite Hr.
    destruct (sess_get sess []) as [v|]; [|cbn; discriminate].
    destruct (validate_records (nl_records v)) as [rs|] eqn:Ev; [cbn; discriminate|]. intros _. exists v. auto.
  Qed.
  Lemma diff_paths_nil l : diff_paths l [] = l.
  Proof. unfold diff_paths. induction l as [|a l IH]; [reflexivity|]. cbn [filter mem_path existsb negb]. f_equal. exact IH. Qed.

  (* C03 / C04, create on an unchanged tree: when everything recorded still matches and nothing recorded is missing,
     `create` exits 0 whatever formats are requested *)
  Theorem unchanged_create_succeeds old kids h0 n req no_dh ip ifl :
    wf_tree C (Dir (Some old) kids) -> load C cdig (Dir (Some old) kids) = inl [h0] -> flat_ok n old kids -> req <> [] ->
    let spec := set_patterns (latest_patterns (lh_gens h0)) ip (pattern_file_lines ifl) in
    missing matches spec (diff_paths (expected_paths [h0]) (visited (events spec [] (Dir (Some old) kids)))) = [] ->
    o_outcome (snd (create_folder Hb matches C cdig ser (Dir (Some old) kids) req no_dh false ip ifl)) = Exit 0.
  Proof.
    intros Hwf Hl [Hw [Hnp [Hok Hrefs]]] Hreq. cbn zeta. intros Hmiss.
    pose proof Hl as Hl0. rewrite load_dir in Hl0.
    destruct (check_chain C cdig old) eqn:Ecc; [discriminate|].
    destruct (combine_results (sort name_leb (kid_results C cdig [] [] kids))) as [below|e] eqn:Ec; [|discriminate].
    assert (Hb0 : below = [] /\ h0 = lhist_of C [] None (Some old)).
    { destruct below as [|b0 b1]; cbn in Hl0; [injection Hl0 as <-; auto|]. injection Hl0 as _ H. destruct b1; discriminate. }
    destruct Hb0 as [-> Eh0]. clear Hl0.
    assert (h0_root : lh_root h0 = []) by (rewrite Eh0; reflexivity).
    assert (h0_parent : lh_parent h0 = None) by (rewrite Eh0; reflexivity).
    assert (h0_gens : lh_gens h0 = loaded_gens C old) by (rewrite Eh0; reflexivity).
    set (t := Dir (Some old) kids) in *.
    unfold create_folder. rewrite Hl. change (root_hist [h0]) with h0.
    set (spec := set_patterns (latest_patterns (lh_gens h0)) ip (pattern_file_lines ifl)) in *.
    set (evs := events spec [] t) in *.
    assert (Hcons : forall p c, In (p, c) (ev_files evs) -> p <> [] /\ consistent (lh_gens h0) p (fun f => digest_text Hb f c)).
    { intros p c Hpc. destruct (ev_files_get matches C spec t [] p c Hwf Hpc) as [rel [E Hgt]]. cbn in E. subst rel.
      assert (Hp : p <> []) by (intros ->; cbn in Hgt; discriminate). split; [exact Hp|].
      rewrite h0_gens. apply (hist_all_consistent Hb C _ t p c Hp Hok Hgt). }
    pose proof (fold_events_no_fail Hb matches C h0 h0_root (sort_fmts req) no_dh spec t evs [] 0 (fun p c H => proj2 (Hcons p c H))) as Hfails.
    pose proof (fold_events_valid Hb matches C h0 h0_root h0_parent (sort_fmts req) no_dh spec t evs Hcons) as Hvalid.
    match goal with |- context [fold_left ?f ?l ?i] =>
      pose proof (Hfails : snd (fold_left f l i) = 0) as Hf2; pose proof (Hvalid : all_R Rv (recs (fst (fold_left f l i)))) as Hv2;
      clear Hfails Hvalid; destruct (fold_left f l i) as [sess fails] end.
    cbn [fst snd] in Hf2, Hv2. subst fails. rename Hv2 into Hvalid.
    cbn [dr_sess dr_abort dr_found snd o_outcome]. rewrite orb_false_r.
    destruct (cs_abort C (commit C cdig ser [h0] InPlace t sess spec)) eqn:Ea.
    { exfalso. destruct (commit_flat_abort h0 t sess spec h0_root Ea) as [v [Es Ev]].
      destruct (validate_records_all (recs sess) Hvalid) as [rs' Hrs]. unfold recs, sess_list in Hrs. rewrite Es in Hrs. congruence. }
    cbn [Nat.ltb Nat.leb]. rewrite diff_paths_nil, Hmiss. cbn [sorted_paths].
    assert (Hs : sorted_paths [] = []) by reflexivity. rewrite Hs.
    unfold missing_history_folders. change (root_hist [h0]) with h0. rewrite h0_gens.
    destruct (rev (loaded_gens C old)) as [|g gs] eqn:Er; [reflexivity|].
    assert (Hg : In g (loaded_gens C old)) by (apply in_rev; rewrite Er; left; reflexivity).
    rewrite (Hrefs g Hg). reflexivity.
  Qed.

  (* the first generation of a tree without history establishes the invariant *)
  Theorem fresh_create_flat_ok kids h0 req no_dh ip ifl :
    wf_tree C (Dir None kids) -> load C cdig (Dir None kids) = inl [h0] -> req <> [] ->
    let run := create_folder Hb matches C cdig ser (Dir None kids) req no_dh false ip ifl in
    o_outcome (snd run) <> Abort ->
    exists doc, fst run = Dir (Some (after_commit C cdig ser (mkHist C [] None) doc)) kids /\
      load C cdig (fst run) = inl [lhist_of C [] None (Some (after_commit C cdig ser (mkHist C [] None) doc))] /\
      flat_ok 1 (after_commit C cdig ser (mkHist C [] None) doc) kids /\
      complete (after_commit C cdig ser (mkHist C [] None) doc) kids.
  Proof.
    intros Hwf Hl Hreq. cbn zeta. intros Hout.
    pose proof Hl as Hl0. rewrite load_dir in Hl0. cbn in Hl0.
    destruct (combine_results (sort name_leb (kid_results C cdig [] [] kids))) as [below|e] eqn:Ec; [|discriminate].
    assert (Hb0 : below = [] /\ h0 = lhist_of C [] None None).
    { destruct below as [|b0 b1]; cbn in Hl0; [injection Hl0 as <-; auto|]. injection Hl0 as _ H. destruct b1; discriminate. }
    destruct Hb0 as [-> Eh0]. clear Hl0.
    assert (h0_root : lh_root h0 = []) by (rewrite Eh0; reflexivity).
    assert (h0_parent : lh_parent h0 = None) by (rewrite Eh0; reflexivity).
    assert (h0_fresh : lh_gens h0 = []) by (rewrite Eh0; reflexivity).
    assert (h0_chain : lh_chain h0 = []) by (rewrite Eh0; reflexivity).
    set (t := Dir None kids) in *.
    destruct (create_flat_shape Hb matches C cdig ser h0 h0_root h0_parent t req no_dh ip ifl Hl eq_refl Hreq Hout)
      as [sess [recs0 [Esess [Hv [Hw Ht]]]]].
    set (spec := set_patterns (latest_patterns (lh_gens h0)) ip (pattern_file_lines ifl)) in *.
    set (evs := events spec [] t) in *.
    set (doc := new_doc InPlace (sess_list sess []) recs0 spec [] h0) in *.
    destruct (fold_events_good2 Hb matches C h0 h0_root h0_parent (sort_fmts req) no_dh spec t (sort_fmts_nonempty req Hreq) evs [] 0 [])
      as [F' [Hg0 [Hc0 HF]]].
    { constructor. } { intros p c []. } { intros q Hq. eapply files_nonempty. exact Hq. }
    assert (Hg1 : Forall (good2 Hb h0 F') (recs sess)) by (rewrite Esess; exact Hg0).
    assert (Hc1 : covered2 F' (recs sess)) by (rewrite Esess; exact Hc0).
    destruct (validate_good2 Hb h0 F' _ _ Hv Hg1 Hc1) as [Hg2 Hc2].
    destruct (readback_good2 Hb h0 F' recs0 Hg2 Hc2) as [Hg Hc].
    assert (Hrecs : g_records doc = map readback_record recs0) by reflexivity.
    assert (HF' : forall x, In x F' <-> In x (ev_files evs)) by (intros x; rewrite HF; cbn; tauto).
    assert (Hno : g_no doc = 1%N) by (unfold doc; rewrite Eh0; reflexivity).
    assert (Eold : get_hist C t [] = None) by reflexivity. rewrite Eold, h0_chain in Ht. cbn [h_files app] in Ht.
    exists doc. split; [rewrite Ht; reflexivity|]. rewrite Ht.
    set (newh := after_commit C cdig ser (mkHist C [] None) doc).
    change (set_hist C [] _ t) with (Dir (Some newh) kids).
    assert (Hlg : loaded_gens C newh = [doc]).
    { unfold loaded_gens, newh, after_commit. cbn [h_files app map mf_no mf_doc]. rewrite gen_eta. reflexivity. }
    assert (Hdirs : all_R (Rd (dirs_of evs)) (recs sess)).
    { rewrite Esess. apply (fold_events_dirs Hb matches C h0 h0_root h0_parent). intros q Hq. eapply files_nonempty. exact Hq. }
    assert (Hprev : forall g r, In g [doc] -> In r (g_records g) -> r_prev r = None).
    { intros g r [<-|[]] Hr. rewrite Hrecs in Hr. rewrite Forall_forall in Hg. apply (Hg r Hr). }
    split.
    { rewrite load_dir. unfold newh at 1, after_commit at 1. unfold check_chain, check_entries. cbn [h_chain h_files app find mf_no ce_file mf_content ce_digest].
      rewrite N.eqb_refl, text_eqb_refl, Ec. reflexivity. }
    split; [|].
    2:{ (* nothing recorded is missing: every record of the first generation was visited *)
      destruct (fold_events_inv Hb matches C h0 h0_root h0_parent (sort_fmts req) no_dh spec t (sort_fmts_nonempty req Hreq) evs [] 0 [] [])
        as [Fp [Dp [[Hn0 Hi0] [HFp HDp]]]].
      { split; [constructor|]. intros q. cbn. tauto. } { intros q Hq. eapply files_nonempty. exact Hq. }
      assert (Hpaths : forall q, In q (map r_path (g_records doc)) -> In q (visited evs)).
      { intros q Hq. rewrite Hrecs, readback_paths, (validate_records_paths _ _ Hv), Esess in Hq. apply Hi0 in Hq.
        rewrite visited_reported.
        pose proof (reported_are_events matches C spec t [] q eq_refl) as Hre. fold evs in Hre.
        destruct Hq as [Hq|[Hq Hne]].
        - apply HFp in Hq. destruct Hq as [Hq|[]]. destruct (proj2 Hre (or_introl Hq)) as [->|H]; [exfalso; eapply files_nonempty; [exact Hq|reflexivity]|exact H].
        - apply HDp in Hq. destruct Hq as [Hq|[]]. destruct (proj2 Hre (or_intror Hq)) as [->|H]; [congruence|exact H]. }
      unfold complete. cbn zeta. set (h1 := lhist_of C [] None (Some newh)).
      assert (Hgens : lh_gens h1 = [doc]) by exact Hlg.
      assert (Hsp : set_patterns (latest_patterns (lh_gens h1)) [] (pattern_file_lines []) = spec).
      { rewrite Hgens. cbn [latest_patterns rev app pattern_file_lines filter].
        unfold doc at 1. rewrite new_doc_patterns, h0_fresh. cbn [latest_patterns rev].
        unfold spec. rewrite h0_fresh. cbn [latest_patterns rev].
        destruct (set_patterns_stable ip (pattern_file_lines ifl)) as [E1 E2]. cbn zeta in E1, E2. rewrite E1. exact E2. }
      rewrite Hsp, (events_ignore_history matches C spec [] (Some newh) None kids). fold t. fold evs.
      unfold missing. apply filter_all_nil. intros q Hq. exfalso. unfold diff_paths in Hq. apply filter_In in Hq. destruct Hq as [Hq Hnm].
      apply negb_true_iff in Hnm. apply (expected_flat h1 eq_refl) in Hq; [|rewrite Hgens; exact Hprev]. rewrite Hgens in Hq.
      destruct Hq as [g [r [[<-|[]] [Hr Hrp]]]].
      assert (Hvq : In q (visited evs)) by (apply Hpaths; rewrite <- Hrp; apply in_map; exact Hr).
      apply mem_path_In in Hvq. congruence. }
    split; [|split; [|split]].
    - unfold wellformed, newh, after_commit. cbn [h_files h_chain app map mf_no]. rewrite Hno. split; [reflexivity|].
      eexists. split; [reflexivity|]. cbn [map ce_seq ce_file]. split; [reflexivity|]. split; [reflexivity|].
      unfold check_entries. cbn [find mf_no ce_file mf_content ce_digest]. rewrite N.eqb_refl, text_eqb_refl. reflexivity.
    - rewrite Hlg. cbn [latest_patterns rev app]. unfold doc. rewrite new_doc_patterns. apply set_patterns_NoDup.
    - rewrite Hlg. split.
      + intros g r [<-|[]] Hr. rewrite Hrecs in Hr. rewrite Forall_forall in Hg. apply (Hg r Hr).
      + intros g r e c [<-|[]] Hr He Hgt.
        assert (Hpne : r_path r <> []) by (intros E; rewrite E in Hgt; cbn in Hgt; discriminate).
        rewrite (get_ignore_hist (Some newh) None kids _ Hpne) in Hgt. fold t in Hgt.
        rewrite Hrecs in Hr. destruct (e_action e) as [a|] eqn:Ea.
        * rewrite Forall_forall in Hg. destruct (Hg r Hr) as [_ [Hge _]].
          destruct (Hge e He) as [c' [Hc' Hd]]; [unfold file_entry; rewrite Ea; discriminate|]. apply HF' in Hc'.
          destruct (ev_files_get matches C spec t [] _ c' Hwf Hc') as [rel [E Hgt']]. cbn in E. subst rel. rewrite Hgt in Hgt'. injection Hgt' as <-. exact Hd.
        * exfalso. destruct (validate_readback_entries _ _ r e Hv Hr He) as [r1 [e1 [Hr1 [Hp1 [He1 ->]]]]].
          rewrite promote_action in Ea. assert (Ea1 : e_action e1 = None) by (destruct (e_action e1) as [[]|]; congruence).
          pose proof (Hdirs r1 Hr1 e1 He1 Ea1) as Hd. rewrite Hp1 in Hd.
          destruct (ev_dirs_get spec t [] _ Hwf Hd) as [rel [h' [k' [E Hg']]]]. cbn in E. subst rel. rewrite Hgt in Hg'. discriminate.
    - rewrite Hlg. intros g [<-|[]]. reflexivity.
  Qed.

  (* ---- the whole cycle: an unchanged flat tree stays verifiable through any sequence of create runs ---- *)
  Definition flat_state (n : nat) (old : hist C) (kids : list (text * node)) : Prop :=
    wf_tree C (Dir (Some old) kids) /\ load C cdig (Dir (Some old) kids) = inl [lhist_of C [] None (Some old)] /\
    flat_ok n old kids /\ complete old kids.

  Theorem flat_cycle n old kids req no_dh : flat_state n old kids -> req <> [] ->
    let run := create_folder Hb matches C cdig ser (Dir (Some old) kids) req no_dh false [] [] in
    o_outcome (snd run) = Exit 0 /\
    exists old', fst run = Dir (Some old') kids /\ flat_state (S n) old' kids /\
      verify_result Hb matches C cdig false (fst run) [] [] = Some (mkVR 0 [] [] []) /\
      verify_result Hb matches C cdig true (fst run) [] [] = Some (mkVR 0 [] [] []).
  Proof.
    intros [Hwf [Hl [Hok Hcompl]]] Hreq. cbn zeta.
    assert (Hout : o_outcome (snd (create_folder Hb matches C cdig ser (Dir (Some old) kids) req no_dh false [] [])) = Exit 0).
    { apply (unchanged_create_succeeds old kids _ n req no_dh [] [] Hwf Hl Hok Hreq). exact Hcompl. }
    split; [exact Hout|].
    destruct (flat_create_then_verify old kids _ n req no_dh [] [] Hwf Hl Hok Hreq Hout) as [doc [Et [Hl' [Hok' [Hc' [Hv Hd]]]]]].
    exists (after_commit C cdig ser old doc). split; [exact Et|]. split; [|split; assumption].
    rewrite Et in Hl'. split; [|split; [exact Hl'|split; assumption]].
    inversion Hwf as [|? ? Hn Hk]; subst. constructor; assumption.
  Qed.

  Fixpoint run_creates (t : node) (rs : list (list fmt * bool)) : node * list outcome :=
    match rs with
    | [] => (t, [])
    | (req, no_dh) :: rs' =>
        let r := create_folder Hb matches C cdig ser t req no_dh false [] [] in
        let '(t', os) := run_creates (fst r) rs' in (t', o_outcome (snd r) :: os)
    end.
  Theorem unchanged_sequences rs : forall n old kids, flat_state n old kids -> Forall (fun x => fst x <> []) rs ->
    Forall (fun o => o = Exit 0) (snd (run_creates (Dir (Some old) kids) rs)) /\
    exists old', fst (run_creates (Dir (Some old) kids) rs) = Dir (Some old') kids /\ flat_state (length rs + n) old' kids /\
      (rs <> [] -> verify_result Hb matches C cdig false (Dir (Some old') kids) [] [] = Some (mkVR 0 [] [] []) /\
                   verify_result Hb matches C cdig true (Dir (Some old') kids) [] [] = Some (mkVR 0 [] [] [])).
  Proof.
    induction rs as [|[req no_dh] rs IH]; intros n old kids Hs Hreqs; cbn [run_creates].
    - split; [constructor|]. exists old. split; [reflexivity|]. split; [exact Hs|congruence].
    - inversion Hreqs as [|? ? Hreq Hreqs']; subst. cbn [fst] in Hreq.
      destruct (flat_cycle n old kids req no_dh Hs Hreq) as [Hout [old1 [Et [Hs1 [Hv1 Hd1]]]]].
      rewrite Et in *. destruct (IH (S n) old1 kids Hs1 Hreqs') as [Hos [old' [Et' [Hs' Hv']]]].
      destruct (run_creates (Dir (Some old1) kids) rs) as [t' os] eqn:Er. cbn [fst snd] in *.
      split; [constructor; assumption|]. exists old'. split; [exact Et'|]. split.
      + replace (length ((req, no_dh) :: rs) + n) with (length rs + S n) by (cbn [length]; lia). exact Hs'.
      + intros _. destruct rs as [|x rs']; [|apply Hv'; discriminate].
        cbn in Er. injection Er as <- _. injection Et' as <-. split; assumption.
  Qed.

  (* the very first run over a tree without history cannot fail either *)
  Theorem fresh_create_succeeds kids h0 req no_dh ip ifl :
    wf_tree C (Dir None kids) -> load C cdig (Dir None kids) = inl [h0] -> req <> [] ->
    o_outcome (snd (create_folder Hb matches C cdig ser (Dir None kids) req no_dh false ip ifl)) = Exit 0.
  Proof.
    intros Hwf Hl Hreq.
    pose proof Hl as Hl0. rewrite load_dir in Hl0. cbn in Hl0.
    destruct (combine_results (sort name_leb (kid_results C cdig [] [] kids))) as [below|e] eqn:Ec; [|discriminate].
    assert (Hb0 : below = [] /\ h0 = lhist_of C [] None None).
    { destruct below as [|b0 b1]; cbn in Hl0; [injection Hl0 as <-; auto|]. injection Hl0 as _ H. destruct b1; discriminate. }
    destruct Hb0 as [-> Eh0]. clear Hl0.
    assert (h0_root : lh_root h0 = []) by (rewrite Eh0; reflexivity).
    assert (h0_parent : lh_parent h0 = None) by (rewrite Eh0; reflexivity).
    assert (h0_fresh : lh_gens h0 = []) by (rewrite Eh0; reflexivity).
    set (t := Dir None kids) in *.
    unfold create_folder. rewrite Hl. change (root_hist [h0]) with h0.
    set (spec := set_patterns (latest_patterns (lh_gens h0)) ip (pattern_file_lines ifl)) in *.
    set (evs := events spec [] t) in *.
    assert (Hcons : forall p c, In (p, c) (ev_files evs) -> p <> [] /\ consistent (lh_gens h0) p (fun f => digest_text Hb f c)).
    { intros p c Hpc. destruct (ev_files_get matches C spec t [] p c Hwf Hpc) as [rel [E Hgt]]. cbn in E. subst rel.
      split; [intros ->; cbn in Hgt; discriminate|]. rewrite h0_fresh. intros e [g [r [[] _]]]. }
    pose proof (fold_events_no_fail Hb matches C h0 h0_root (sort_fmts req) no_dh spec t evs [] 0 (fun p c H => proj2 (Hcons p c H))) as Hfails.
    pose proof (fold_events_valid Hb matches C h0 h0_root h0_parent (sort_fmts req) no_dh spec t evs Hcons) as Hvalid.
    match goal with |- context [fold_left ?f ?l ?i] =>
      pose proof (Hfails : snd (fold_left f l i) = 0) as Hf2; pose proof (Hvalid : all_R Rv (recs (fst (fold_left f l i)))) as Hv2;
      clear Hfails Hvalid; destruct (fold_left f l i) as [sess fails] end.
    cbn [fst snd] in Hf2, Hv2. subst fails. rename Hv2 into Hvalid.
    cbn [dr_sess dr_abort dr_found snd o_outcome]. rewrite orb_false_r.
    destruct (cs_abort C (commit C cdig ser [h0] InPlace t sess spec)) eqn:Ea.
    { exfalso. destruct (commit_flat_abort h0 t sess spec h0_root Ea) as [v [Es Ev]].
      destruct (validate_records_all (recs sess) Hvalid) as [rs' Hrs]. unfold recs, sess_list in Hrs. rewrite Es in Hrs. congruence. }
    cbn [Nat.ltb Nat.leb].
    assert (He : expected_paths [h0] = []).
    { unfold expected_paths, recorded_paths. cbn [flat_map]. rewrite h0_fresh. reflexivity. }
    rewrite He. cbn [diff_paths filter missing sorted_paths].
    assert (Hs : sorted_paths [] = []) by reflexivity. rewrite Hs.
    unfold missing_history_folders. change (root_hist [h0]) with h0. rewrite h0_fresh. reflexivity.
  Qed.

  (* C03 / C04 end to end for a flat tree: seal a tree that has no history with any formats and patterns, then run
     `create` any number of times with any formats: every run exits 0, and `verify` and `diff` exit 0 with empty
     reports at the end *)
  Theorem seal_then_sequences kids h0 req0 nd0 ip ifl rs :
    wf_tree C (Dir None kids) -> load C cdig (Dir None kids) = inl [h0] -> req0 <> [] -> Forall (fun x => fst x <> []) rs ->
    let r0 := create_folder Hb matches C cdig ser (Dir None kids) req0 nd0 false ip ifl in
    let r := run_creates (fst r0) rs in
    o_outcome (snd r0) = Exit 0 /\ Forall (fun o => o = Exit 0) (snd r) /\
    verify_result Hb matches C cdig false (fst r) [] [] = Some (mkVR 0 [] [] []) /\
    verify_result Hb matches C cdig true (fst r) [] [] = Some (mkVR 0 [] [] []).
  Proof.
    intros Hwf Hl Hreq Hrs. cbn zeta.
    pose proof (fresh_create_succeeds kids h0 req0 nd0 ip ifl Hwf Hl Hreq) as Hout.
    split; [exact Hout|].
    assert (Hna : o_outcome (snd (create_folder Hb matches C cdig ser (Dir None kids) req0 nd0 false ip ifl)) <> Abort) by (rewrite Hout; discriminate).
    destruct (fresh_create_flat_ok kids h0 req0 nd0 ip ifl Hwf Hl Hreq Hna) as [doc [Et [Hl1 [Hok1 Hc1]]]].
    pose proof (fresh_create_then_verify Hb matches C cdig ser kids h0 req0 nd0 ip ifl Hwf Hl Hreq Hna) as Hv0.
    rewrite Et in *.
    assert (Hs1 : flat_state 1 (after_commit C cdig ser (mkHist C [] None) doc) kids).
    { split; [|split; [exact Hl1|split; assumption]]. inversion Hwf as [|? ? Hn Hk]; subst. constructor; assumption. }
    destruct (unchanged_sequences rs 1 _ kids Hs1 Hrs) as [Hos [old' [Et' [_ Hv']]]].
    split; [exact Hos|]. rewrite Et'. destruct rs as [|x rs']; [|apply Hv'; discriminate].
    cbn in Et'. injection Et' as <-. exact Hv0.
  Qed.

  (* between runs the tree may gain files and directories; the invariant survives as long as what was recorded keeps
     its bytes *)
  Definition keeps_recorded (old : hist C) (kids kids' : list (text * node)) : Prop :=
    forall g r c, In g (loaded_gens C old) -> In r (g_records g) ->
      get C (Dir (Some old) kids') (r_path r) = Some (File c) -> get C (Dir (Some old) kids) (r_path r) = Some (File c).
  Lemma flat_ok_grow n old kids kids' : flat_ok n old kids -> keeps_recorded old kids kids' -> flat_ok n old kids'.
  Proof.
    intros [Hw [Hnp [[Hp Hd] Hrf]]] Hk. split; [exact Hw|]. split; [exact Hnp|]. split; [|exact Hrf]. split; [exact Hp|].
    intros g r e c Hg Hr He Hgt. apply (Hd g r e c Hg Hr He). apply (Hk g r c Hg Hr Hgt).
  Qed.
End FlatMain.

(* ---- in a well-formed tree every event has its own path ---- *)
Section EvPaths.
  Variable matches : list text -> text -> bool.
  Variable C : Type.
  Notation node := (node C).
  Notation events := (events matches C).
  Definition ev_path (e : ev) : path := match e with EvFile p _ => p | EvDir p _ => p end.
  Lemma map_flat_map_comm {A B D} (f : B -> D) (g : A -> list B) l : map f (flat_map g l) = flat_map (fun x => map f (g x)) l.
  Proof. induction l as [|a l IH]; [reflexivity|]. cbn. rewrite map_app, IH. reflexivity. Qed.

  Lemma files_of_ev_files evs q : In q (files_of evs) <-> exists c, In (q, c) (ev_files evs).
  Proof.
    unfold files_of, ev_files. rewrite in_flat_map. split.
    - intros [e [He Hq]]. destruct e as [p c|]; [|destruct Hq]. destruct Hq as [<-|[]]. exists c. apply in_flat_map. exists (EvFile p c). split; [exact He|left; reflexivity].
    - intros [c Hc]. apply in_flat_map in Hc. destruct Hc as [e [He Hq]]. exists e. split; [exact He|]. destruct e as [p c0|]; [|destruct Hq].
      destruct Hq as [E|[]]. injection E as -> _. left. reflexivity.
  Qed.
  Lemma ev_paths_split evs q : In q (map ev_path evs) <-> In q (files_of evs) \/ In q (dirs_of evs).
  Proof.
    induction evs as [|e evs IH]; cbn [map files_of dirs_of flat_map In]; [tauto|].
    rewrite !in_app_iff, IH. destruct e; cbn [ev_path In]; tauto.
  Qed.
  Lemma ev_below spec : forall t p q, In q (map ev_path (events spec p t)) -> exists rel, q = p ++ rel.
  Proof.
    induction t as [c|h kids IH] using node_ind'; intros p q H; [destruct H|].
    apply ev_paths_split in H. rewrite files_dir, dirs_dir in H.
    assert (Hsub : forall x, In x (vis_of matches C spec p kids) -> In q (map ev_path (sub_evs C x)) -> exists rel, q = p ++ rel).
    { intros x Hx Hq. unfold vis_of in Hx. apply filter_In in Hx. destruct Hx as [Hx _]. apply sort_In in Hx.
      unfold subs in Hx. apply in_map_iff in Hx. destruct Hx as [nk [<- Hin]]. unfold sub_evs in Hq. cbn [fst snd] in Hq.
      rewrite Forall_forall in IH. specialize (IH nk Hin). destruct (snd nk) eqn:E; [destruct Hq|].
      destruct (IH _ _ Hq) as [rel ->]. exists (fst nk :: rel). rewrite <- app_assoc. reflexivity. }
    destruct H as [[[x [Hx H]]|[x [c [_ [_ ->]]]]]|[[x [Hx H]]| ->]].
    - apply (Hsub x Hx). apply ev_paths_split. left. exact H.
    - eauto.
    - apply (Hsub x Hx). apply ev_paths_split. right. exact H.
    - exists []. rewrite app_nil_r. reflexivity.
  Qed.

  Theorem ev_paths_NoDup spec : forall t p, wf_tree C t -> NoDup (map ev_path (events spec p t)).
  Proof.
    induction t as [c|h kids IH] using node_ind'; intros p Hw; [constructor|].
    inversion Hw as [|? ? Hnames Hkids]; subst.
    rewrite (events_dir' matches C), !map_app. cbn [map ev_path].
    set (V := vis_of matches C spec p kids).
    assert (HV : forall x, In x V -> In (fst x, fst (snd x)) kids /\ snd (snd x) = events spec (p ++ [fst x]) (fst (snd x))).
    { intros x Hin. unfold V, vis_of in Hin. apply filter_In in Hin. destruct Hin as [Hin _]. apply sort_In in Hin.
      unfold subs in Hin. apply in_map_iff in Hin. destruct Hin as [nk [<- Hin]]. cbn [fst snd]. destruct nk; auto. }
    assert (HVn : NoDup V).
    { unfold V, vis_of. apply NoDup_filter. eapply Permutation_NoDup; [apply sort_perm|].
      unfold subs. apply FinFun.Injective_map_NoDup.
      - intros a b E. injection E as E1 E2 _. destruct a, b; cbn in *; congruence.
      - clear -Hnames. induction kids as [|nk ks IHk]; [constructor|]. cbn in Hnames. inversion Hnames; subst.
        constructor; [|apply IHk; assumption]. intros Hin. apply H1. apply in_map. exact Hin. }
    assert (Hname_inj : forall x y, In x V -> In y V -> fst x = fst y -> x = y).
    { intros x y Hx Hy E. destruct (HV x Hx) as [Kx Sx]. destruct (HV y Hy) as [Ky Sy].
      assert (Hk : (fst x, fst (snd x)) = (fst y, fst (snd y))) by (eapply (NoDup_key_inj (@fst text node) kids); eauto).
      injection Hk as _ Hk2. destruct x as [nx [kx ex]], y as [ny [ky ey]]. cbn in *. subst. reflexivity. }
    rewrite !map_flat_map_comm.
    apply NoDup_app_intro; [|apply NoDup_app_intro|].
    - apply NoDup_flat_map_disjoint; [exact HVn| |].
      + intros x Hx. destruct (HV x Hx) as [Hk Hs]. unfold sub_evs. destruct (fst (snd x)) as [c1|h1 k1] eqn:E; [constructor|].
        rewrite Hs. rewrite Forall_forall in IH, Hkids. apply (IH (fst x, Dir h1 k1) Hk). apply (Hkids _ Hk).
      + intros x y b Hx Hy Hxy Hbx Hby. apply Hxy. apply (Hname_inj x y Hx Hy).
        destruct (HV x Hx) as [_ Sx]. destruct (HV y Hy) as [_ Sy]. unfold sub_evs in Hbx, Hby.
        destruct (fst (snd x)) eqn:Ex; [destruct Hbx|]. destruct (fst (snd y)) eqn:Ey; [destruct Hby|].
        rewrite Sx in Hbx. rewrite Sy in Hby. destruct (ev_below spec _ _ _ Hbx) as [r1 E1]. destruct (ev_below spec _ _ _ Hby) as [r2 E2].
        rewrite E1, <- !app_assoc in E2. apply app_inv_head in E2. cbn in E2. congruence.
    - apply NoDup_flat_map_disjoint; [exact HVn| |].
      + intros x _. destruct (fst (snd x)); cbn; [constructor; [intros []|constructor]|constructor].
      + intros x y b Hx Hy Hxy Hbx Hby. apply Hxy. apply (Hname_inj x y Hx Hy).
        destruct (fst (snd x)); [|destruct Hbx]. destruct (fst (snd y)); [|destruct Hby]. cbn in Hbx, Hby.
        destruct Hbx as [<-|[]]. destruct Hby as [E|[]]. apply app_inv_head in E. congruence.
    - constructor; [intros []|constructor].
    - intros q Hq [->|[]]. apply in_flat_map in Hq. destruct Hq as [x [_ Hq]]. destruct (fst (snd x)); [|destruct Hq].
      cbn in Hq. destruct Hq as [E|[]]. apply (f_equal (@length text)) in E. rewrite app_length in E. cbn in E. lia.
    - intros q Hq1 Hq2. apply in_app_or in Hq2. destruct Hq2 as [Hq2|[<-|[]]].
      + apply in_flat_map in Hq1. destruct Hq1 as [x [Hx Hq1]]. apply in_flat_map in Hq2. destruct Hq2 as [y [Hy Hq2]].
        destruct (HV x Hx) as [_ Sx]. unfold sub_evs in Hq1. destruct (fst (snd x)) eqn:Ex; [destruct Hq1|].
        destruct (fst (snd y)) eqn:Ey; [|destruct Hq2]. cbn in Hq2. destruct Hq2 as [<-|[]].
        rewrite Sx in Hq1. destruct (ev_below spec _ _ _ Hq1) as [r1 E1]. rewrite <- app_assoc in E1. apply app_inv_head in E1. cbn in E1.
        injection E1 as E1 _. assert (x = y) by (apply Hname_inj; auto). subst y. congruence.
      + apply in_flat_map in Hq1. destruct Hq1 as [x [Hx Hq1]]. destruct (HV x Hx) as [_ Sx]. unfold sub_evs in Hq1.
        destruct (fst (snd x)) eqn:Ex; [destruct Hq1|]. rewrite Sx in Hq1. destruct (ev_below spec _ _ _ Hq1) as [r1 E1].
        apply (f_equal (@length text)) in E1. rewrite !app_length in E1. cbn in E1. lia.
  Qed.
End EvPaths.

(* ---- on a well-formed tree no two events share a record, so each record holds exactly one event's entries: the
   validation of the session never aborts a flat run ---- *)
Section Flat3.
  Variable Hb : fmt -> bytes -> bytes.
  Variable matches : list text -> text -> bool.
  Variable C : Type.
  Variable cdig : C -> text.
  Variable ser : gen -> C.
  Notation node := (node C).
  Notation events := (events matches C).
  Variable h0 : lhist.
  Hypothesis h0_root : lh_root h0 = [].
  Hypothesis h0_parent : lh_parent h0 = None.

  Lemma add_entries_fresh rs p d sz es : ~ In p (map r_path rs) -> add_entries rs p d sz es = rs ++ [mkRecord p d sz es None].
  Proof.
    induction rs as [|r rs IH]; intros Hn; cbn [add_entries app]; [reflexivity|].
    destruct (path_eqb_spec (r_path r) p) as [E|E]; [exfalso; apply Hn; left; exact E|].
    rewrite IH; [reflexivity|]. intros H. apply Hn. right. exact H.
  Qed.

  Section Exact.
    Variable R : path -> list entry -> Prop.
    Lemma fold_events_R_exact fmts no_dh spec t : forall evs s fails,
      NoDup (map ev_path evs) -> (forall r, In r (recs s) -> ~ In (r_path r) (map ev_path evs)) -> all_R R (recs s) ->
      (forall p c, In (p, c) (ev_files evs) -> p <> [] /\ R p (fst (seal (lh_gens h0) p (fun f => digest_text Hb f c) fmts))) ->
      (forall p, In p (dirs_of evs) -> R p (match dir_entries Hb matches C no_dh spec fmts p t with Some es => es | None => [] end)) ->
      all_R R (recs (fst (fold_left (process_event Hb matches C [h0] fmts no_dh spec t) evs (s, fails)))).
    Proof.
      induction evs as [|e evs IH]; intros s fails Hnd Hfresh Hs Hf Hd; cbn [fold_left]; [exact Hs|].
      cbn [map] in Hnd. inversion Hnd as [|? ? Hp Hnd']; subst.
      assert (Hstep : all_R R (recs (fst (process_event Hb matches C [h0] fmts no_dh spec t (s, fails) e))) /\
                      (forall r, In r (recs (fst (process_event Hb matches C [h0] fmts no_dh spec t (s, fails) e))) -> ~ In (r_path r) (map ev_path evs))).
      { assert (Hnew : ~ In (ev_path e) (map r_path (recs s))).
        { intros H. apply in_map_iff in H. destruct H as [r [E Hr]]. apply (Hfresh r Hr). left. symmetry. exact E. }
        assert (Hold : forall r, In r (recs s) -> ~ In (r_path r) (map ev_path evs)).
        { intros r Hr H. apply (Hfresh r Hr). right. exact H. }
        destruct e as [p c|p kids]; cbn [process_event ev_path] in *.
        - unfold seal_file. rewrite (route_flat h0), h0_root. cbn [strip_prefix].
          assert (Hsp : strip_prefix [] p = p) by (destruct p; reflexivity). rewrite ?Hsp.
          destruct (Hf p c (or_introl eq_refl)) as [Hne HR].
          destruct (seal (lh_gens h0) p (fun f => digest_text Hb f c) fmts) as [es res]. cbn [fst] in *.
          destruct es as [|e0 es']; [split; assumption|]. rewrite recs_sess_add. destruct p as [|n p']; [congruence|].
          rewrite (add_entries_fresh _ _ _ _ _ Hnew). split.
          + intros r Hr. apply in_app_or in Hr. destruct Hr as [Hr|[<-|[]]]; [apply Hs; exact Hr|exact HR].
          + intros r Hr. apply in_app_or in Hr. destruct Hr as [Hr|[<-|[]]]; [apply Hold; exact Hr|exact Hp].
        - unfold record_dir. rewrite (route_flat h0), h0_root, h0_parent.
          assert (Hsp : strip_prefix [] p = p) by (destruct p; reflexivity). rewrite ?Hsp.
          assert (Hsame : forall es, match p with [] => sess_add s [] p true None es | _ :: _ => sess_add s [] p true None es end = sess_add s [] p true None es) by (intros; destruct p; reflexivity).
          rewrite Hsame. cbn [fst]. rewrite recs_sess_add. destruct p as [|n p']; [split; assumption|].
          rewrite (add_entries_fresh _ _ _ _ _ Hnew). split.
          + intros r Hr. apply in_app_or in Hr. destruct Hr as [Hr|[<-|[]]]; [apply Hs; exact Hr|]. cbn [r_path r_entries]. apply Hd. left. reflexivity.
          + intros r Hr. apply in_app_or in Hr. destruct Hr as [Hr|[<-|[]]]; [apply Hold; exact Hr|exact Hp]. }
      destruct (process_event Hb matches C [h0] fmts no_dh spec t (s, fails) e) as [s1 f1]. cbn [fst] in Hstep. destruct Hstep as [Hs1 Hfresh1].
      apply IH; auto.
      - intros p c Hin. apply Hf. destruct e; cbn; [right|]; exact Hin.
      - intros p Hin. apply Hd. destruct e; cbn; [|right]; exact Hin.
    Qed.
  End Exact.

  (* what _validate_new_hash_list demands of one record *)
  Definition Rval (p : path) (es : list entry) : Prop :=
    has_action New es = true -> has_action Verified es = true /\ has_action Failed es = false.
  Lemma validate_records_Rval rs : all_R Rval rs -> exists rs', validate_records rs = Some rs'.
  Proof.
    induction rs as [|r rs IH]; intros H; cbn [validate_records]; [eauto|].
    destruct IH as [rs' ->]; [intros r' Hr'; apply H; right; exact Hr'|].
    pose proof (H r (or_introl eq_refl)) as Hr. unfold Rval in Hr. unfold validate_record.
    destruct (has_action New (r_entries r)) eqn:En; [|eauto]. destruct (Hr eq_refl) as [-> ->]. cbn. eauto.
  Qed.
  Lemma seal_Rval gens p dg req : Rval p (fst (seal gens p dg req)).
  Proof.
    intros Hn. apply has_action_In in Hn. destruct Hn as [e [He Ha]].
    destruct (seal_new_needs_verified gens p dg req e He Ha) as [e1 [H1 A1]]. split; [apply has_action_In; eauto|].
    destruct (has_action Failed _) eqn:Ef; [|reflexivity]. apply has_action_In in Ef. destruct Ef as [e2 [H2 A2]].
    exfalso. exact (seal_failed_blocks_new gens p dg req e2 e H2 A2 He Ha).
  Qed.

  Theorem create_flat_never_aborts t req no_dh ip ifl :
    wf_tree C t -> is_dir C t = true -> load C cdig t = inl [h0] ->
    o_outcome (snd (create_folder Hb matches C cdig ser t req no_dh false ip ifl)) <> Abort.
  Proof.
    intros Hwf Hd Hl. unfold create_folder. rewrite Hl. change (root_hist [h0]) with h0.
    set (spec := set_patterns (latest_patterns (lh_gens h0)) ip (pattern_file_lines ifl)).
    set (evs := events spec [] t).
    assert (Hvalid : all_R Rval (recs (fst (fold_left (process_event Hb matches C [h0] (sort_fmts req) no_dh spec t) evs ([], 0))))).
    { apply fold_events_R_exact.
      - apply ev_paths_NoDup. exact Hwf.
      - intros r [].
      - intros r [].
      - intros p c Hin. split; [|apply seal_Rval].
        eapply files_nonempty. apply files_of_ev_files. exists c. exact Hin.
      - intros p _ Hn. exfalso. apply has_action_In in Hn. destruct Hn as [e [He Ha]].
        destruct (dir_entries Hb matches C no_dh spec (sort_fmts req) p t) as [es|] eqn:Ed; [|destruct He].
        rewrite (dir_entries_no_action Hb matches C no_dh spec (sort_fmts req) p t es e Ed He) in Ha. discriminate. }
    match goal with |- context [fold_left ?f ?l ?i] =>
      pose proof (Hvalid : all_R Rval (recs (fst (fold_left f l i)))) as Hv2; clear Hvalid; destruct (fold_left f l i) as [sess fails] end.
    cbn [fst] in Hv2. cbn [dr_sess dr_abort dr_found snd o_outcome]. rewrite orb_false_r.
    destruct (cs_abort C (commit C cdig ser [h0] InPlace t sess spec)) eqn:Ea.
    { exfalso. destruct (commit_flat_abort C cdig ser h0 t sess spec h0_root Ea) as [v [Es Ev]].
      destruct (validate_records_Rval (recs sess) Hv2) as [rs' Hrs]. unfold recs, sess_list in Hrs. rewrite Es in Hrs. congruence. }
    destruct (Nat.ltb 0 fails); [discriminate|]. destruct (sorted_paths _); [destruct (missing_history_folders C [h0] t)|]; discriminate.
  Qed.
End Flat3.

(* ---- C03, detection end to end on a flat tree: the history `old` was consistent with the tree `kids` (flat_ok) and
   the tree is now `kids'` ---- *)
Section FlatDetect.
  Variable Hb : fmt -> bytes -> bytes.
  Variable matches : list text -> text -> bool.
  Variable C : Type.
  Variable cdig : C -> text.
  Notation node := (node C).
  Notation events := (events matches C).

  Lemma reference_flat (h : lhist) p : lh_root h = [] ->
    (forall g r, In g (lh_gens h) -> In r (g_records g) -> r_prev r = None) ->
    reference [h] p = find_original (lh_gens h) p.
  Proof.
    intros Hr Hprev. unfold reference. change (root_hist [h]) with h.
    assert (Hrt : route [h] h p = h) by (unfold route; cbn [fold_left]; unfold better; rewrite Nat.ltb_irrefl, andb_false_r; reflexivity).
    rewrite Hrt, Hr. assert (Hsp : strip_prefix [] p = p) by (destruct p; reflexivity). rewrite Hsp.
    rewrite (prev_steps_id _ p Hprev). reflexivity.
  Qed.
  Lemma verify_total is_diff t ipats ifile hs : load C cdig t = inl hs -> lh_gens (root_hist hs) <> [] ->
    exists r, verify_result Hb matches C cdig is_diff t ipats ifile = Some r.
  Proof.
    intros Hl Hg. unfold verify_result, verify_like, verify_core. rewrite Hl. destruct (lh_gens (root_hist hs)) as [|g gs]; [congruence|].
    cbn [snd o_outcome]. eauto.
  Qed.
  Lemma visited_exists spec t q : wf_tree C t -> is_dir C t = true -> In q (visited (events spec [] t)) -> get C t q <> None.
  Proof.
    intros Hwf Hd Hq. rewrite visited_reported in Hq.
    destruct (proj1 (reported_are_events matches C spec t [] q Hd) (or_intror Hq)) as [H|H].
    - apply files_of_ev_files in H. destruct H as [c Hc]. destruct (ev_files_get matches C spec t [] q c Hwf Hc) as [rel [E Hg]]. cbn in E. subst. congruence.
    - destruct (ev_dirs_get matches C spec t [] q Hwf H) as [rel [h [k [E Hg]]]]. cbn in E. subst. congruence.
  Qed.

  Section Changed.
    Variables (n : nat) (old : hist C) (kids kids' : list (text * node)).
    Let t := Dir (Some old) kids.
    Let t' := Dir (Some old) kids'.
    Let h := lhist_of C [] None (Some old).
    Hypothesis Hok : flat_ok Hb C cdig n old kids.
    Hypothesis Hwf' : wf_tree C t'.
    Hypothesis Hl' : load C cdig t' = inl [h].
    Hypothesis Hn : n <> 0.

    Lemma flat_gens_nonempty : lh_gens (root_hist [h]) <> [].
    Proof.
      change (lh_gens (root_hist [h])) with (loaded_gens C old). destruct Hok as [Hw _].
      destruct (reload_ascending C cdig n old Hw) as [Hnums _]. intros E. rewrite E in Hnums. destruct n; [congruence|].
      rewrite nums_S in Hnums. cbn in Hnums. destruct (nums n0); discriminate.
    Qed.
    Lemma flat_reference p : reference [h] p = find_original (loaded_gens C old) p.
    Proof. apply (reference_flat h p eq_refl). destruct Hok as [_ [_ [[Hp _] _]]]. exact Hp. Qed.

    (* a recorded file whose bytes changed (and whose digest in the reference's format changed with them -- otherwise
       the two contents are a collision of the primitive) is named by verify, which exits 11 *)
    Theorem flat_altered_detected ipats ifile p c c' e :
      get C t p = Some (File c) -> find_original (loaded_gens C old) p = Some e ->
      In (p, c') (ev_files (events (set_patterns (latest_patterns (loaded_gens C old)) ipats (pattern_file_lines ifile)) [] t')) ->
      digest_text Hb (e_fmt e) c' <> digest_text Hb (e_fmt e) c ->
      exists r, verify_result Hb matches C cdig false t' ipats ifile = Some r /\ vr_code r = 11%Z /\ In p (vr_mismatch r).
    Proof.
      intros Hg Hfo Hin Hd.
      destruct (verify_total false t' ipats ifile [h] Hl' flat_gens_nonempty) as [r Hr]. exists r. split; [exact Hr|].
      assert (Hp : p <> []) by (intros ->; cbn in Hg; discriminate).
      assert (He : e_digest e = digest_text Hb (e_fmt e) c).
      { destruct Hok as [_ [_ [Hall _]]]. apply (reference_matches Hb C (loaded_gens C old) t p c e Hp (hist_all_ok Hb C _ _ Hall) Hfo Hg). }
      apply (altered_file_detected Hb matches C cdig t' [h] ipats ifile p c' e r Hl' Hin).
      - rewrite flat_reference. exact Hfo.
      - rewrite He. intros E. apply Hd. symmetry. exact E.
      - exact Hr.
    Qed.

    (* a file that no generation records is named as new; verify exits 21 unless something else was altered *)
    Theorem flat_new_detected ipats ifile p c' :
      find_original (loaded_gens C old) p = None ->
      In (p, c') (ev_files (events (set_patterns (latest_patterns (loaded_gens C old)) ipats (pattern_file_lines ifile)) [] t')) ->
      exists r, verify_result Hb matches C cdig false t' ipats ifile = Some r /\
        In p (vr_new r) /\ (vr_code r = 11%Z \/ vr_code r = 21%Z) /\ (vr_mismatch r = [] -> vr_code r = 21%Z).
    Proof.
      intros Hfo Hin.
      destruct (verify_total false t' ipats ifile [h] Hl' flat_gens_nonempty) as [r Hr]. exists r. split; [exact Hr|].
      apply (new_file_detected Hb matches C cdig t' [h] ipats ifile p c' r Hl' Hin); [|exact Hr].
      rewrite flat_reference. exact Hfo.
    Qed.

    (* a recorded path that is gone (and not ignored) is named as missing; verify exits non-zero, 10 unless 11 / 21 take
       precedence *)
    Theorem flat_removed_detected ipats ifile g r0 :
      In g (loaded_gens C old) -> In r0 (g_records g) -> get C t' (r_path r0) = None ->
      ignored matches (set_patterns (latest_patterns (loaded_gens C old)) ipats (pattern_file_lines ifile)) (r_path r0) = false ->
      exists r, verify_result Hb matches C cdig false t' ipats ifile = Some r /\
        In (r_path r0) (vr_missing r) /\ vr_code r <> 0%Z /\ (vr_mismatch r = [] -> vr_new r = [] -> vr_code r = 10%Z).
    Proof.
      intros Hg Hr0 Hgone Hign.
      destruct (verify_total false t' ipats ifile [h] Hl' flat_gens_nonempty) as [r Hr]. exists r. split; [exact Hr|].
      apply (missing_entry_detected Hb matches C cdig t' [h] ipats ifile (r_path r0) r Hl'); [| |exact Hign|exact Hr].
      - apply (expected_flat h eq_refl); [destruct Hok as [_ [_ [[Hp _] _]]]; exact Hp|]. exists g, r0. auto.
      - intros Hv. apply (visited_exists _ t' (r_path r0) Hwf' eq_refl) in Hv. congruence.
    Qed.
    (* ... and create, asked for a format f that is recorded for the file, exits 11 (never an abort on a flat tree) *)
    Theorem flat_altered_create_11 (ser : gen -> C) req no_dh ip ifl p c c' f e0 :
      get C t p = Some (File c) -> find_original (loaded_gens C old) p <> None ->
      In f req -> find_first (loaded_gens C old) p f = Some e0 ->
      In (p, c') (ev_files (events (set_patterns (latest_patterns (loaded_gens C old)) ip (pattern_file_lines ifl)) [] t')) ->
      digest_text Hb f c' <> digest_text Hb f c ->
      o_outcome (snd (create_folder Hb matches C cdig ser t' req no_dh false ip ifl)) = Exit 11.
    Proof.
      intros Hg Hfo Hreq Hff Hin Hd.
      assert (Hp : p <> []) by (intros ->; cbn in Hg; discriminate).
      pose proof (create_flat_never_aborts Hb matches C cdig ser h eq_refl eq_refl t' req no_dh ip ifl Hwf' eq_refl Hl') as Hna.
      destruct (create_exit_11_iff Hb matches C cdig ser t' req no_dh ip ifl [h] Hl') as [Ha|Hiff]; [contradiction|].
      apply Hiff. exists (p, c'). split; [exact Hin|].
      unfold file_failures. cbn [fst snd]. change (root_hist [h]) with h.
      assert (Hrt : route [h] h p = h) by (unfold route; cbn [fold_left]; unfold better; rewrite Nat.ltb_irrefl, andb_false_r; reflexivity).
      rewrite Hrt. change (lh_root h) with (@nil text). assert (Hsp : strip_prefix [] p = p) by (destruct p; reflexivity). rewrite Hsp.
      change (lh_gens h) with (loaded_gens C old).
      set (dg := fun f0 => digest_text Hb f0 c').
      assert (He0 : e_digest e0 = digest_text Hb f c).
      { destruct Hok as [_ [_ [Hall _]]]. pose proof (hist_all_consistent Hb C _ t p c Hp Hall Hg) as Hc.
        rewrite (Hc e0 (find_first_recorded _ _ _ _ Hff)), (find_first_fmt _ _ _ _ Hff). reflexivity. }
      assert (Hdec : decide (loaded_gens C old) p dg f = Failed).
      { apply decide_failed. split; [exact Hfo|]. exists e0. split; [exact Hff|]. rewrite He0. unfold dg. intros E. apply Hd. symmetry. exact E. }
      assert (Hreq' : In f (sort_fmts req)) by (apply sort_In; exact Hreq).
      assert (Hres : In (f, false) (snd (seal (loaded_gens C old) p dg (sort_fmts req)))).
      { rewrite seal_results. apply in_or_app. left. apply in_map_iff. exists f. split; [rewrite Hdec; reflexivity|].
        apply filter_In. split; [|apply memf_In; exact Hreq'].
        unfold carried. apply filter_In. split.
        - apply existing_formats_In. rewrite Hff. discriminate.
        - apply memf_In. apply (to_generate_req (loaded_gens C old) p dg (sort_fmts req) f Hreq'). }
      intros Hz. apply length_zero_iff_nil in Hz.
      assert (Hin' : In (f, false) (filter (fun r : fmt * bool => negb (snd r)) (snd (seal (loaded_gens C old) p dg (sort_fmts req))))) by (apply filter_In; split; [exact Hres|reflexivity]).
      rewrite Hz in Hin'. destruct Hin'.
    Qed.
    (* diff: new files give 21 (10 if something is missing as well), a removed entry gives 10 *)
    Theorem flat_new_detected_diff ipats ifile p c' :
      find_original (loaded_gens C old) p = None ->
      In (p, c') (ev_files (events (set_patterns (latest_patterns (loaded_gens C old)) ipats (pattern_file_lines ifile)) [] t')) ->
      exists r, verify_result Hb matches C cdig true t' ipats ifile = Some r /\
        In p (vr_new r) /\ (vr_code r = 10%Z \/ vr_code r = 21%Z) /\ (vr_missing r = [] -> vr_code r = 21%Z).
    Proof.
      intros Hfo Hin.
      destruct (verify_total true t' ipats ifile [h] Hl' flat_gens_nonempty) as [r Hr]. exists r. split; [exact Hr|].
      apply (diff_new_file_detected Hb matches C cdig t' [h] ipats ifile p c' r Hl' Hin); [|exact Hr].
      rewrite flat_reference. exact Hfo.
    Qed.
    Theorem flat_removed_detected_diff ipats ifile g r0 :
      In g (loaded_gens C old) -> In r0 (g_records g) -> get C t' (r_path r0) = None ->
      ignored matches (set_patterns (latest_patterns (loaded_gens C old)) ipats (pattern_file_lines ifile)) (r_path r0) = false ->
      exists r, verify_result Hb matches C cdig true t' ipats ifile = Some r /\ In (r_path r0) (vr_missing r) /\ vr_code r = 10%Z.
    Proof.
      intros Hg Hr0 Hgone Hign.
      destruct (verify_total true t' ipats ifile [h] Hl' flat_gens_nonempty) as [r Hr]. exists r. split; [exact Hr|].
      apply (diff_missing_entry_detected Hb matches C cdig t' [h] ipats ifile (r_path r0) r Hl'); [| |exact Hign|exact Hr].
      - apply (expected_flat h eq_refl); [destruct Hok as [_ [_ [[Hp _] _]]]; exact Hp|]. exists g, r0. auto.
      - intros Hv. apply (visited_exists _ t' (r_path r0) Hwf' eq_refl) in Hv. congruence.
    Qed.
    (* create: a removed entry gives 10 and is named, unless a format failed as well (11); never an abort *)
    Theorem flat_removed_create (ser : gen -> C) req no_dh ip ifl g r0 :
      In g (loaded_gens C old) -> In r0 (g_records g) -> get C t' (r_path r0) = None ->
      ignored matches (set_patterns (latest_patterns (loaded_gens C old)) ip (pattern_file_lines ifl)) (r_path r0) = false ->
      let o := snd (create_folder Hb matches C cdig ser t' req no_dh false ip ifl) in
      o_outcome o = Exit 11 \/ (o_outcome o = Exit 10 /\ In (r_path r0) (o_missing o)).
    Proof.
      intros Hg Hr0 Hgone Hign. cbn zeta.
      pose proof (create_flat_never_aborts Hb matches C cdig ser h eq_refl eq_refl t' req no_dh ip ifl Hwf' eq_refl Hl') as Hna.
      destruct (create_missing_entry_detected Hb matches C cdig ser t' req no_dh ip ifl [h] (r_path r0) Hl') as [Ha|H]; auto.
      - apply (expected_flat h eq_refl); [destruct Hok as [_ [_ [[Hp _] _]]]; exact Hp|]. exists g, r0. auto.
      - intros Hv. apply (visited_exists _ t' (r_path r0) Hwf' eq_refl) in Hv. congruence.
      - contradiction.
    Qed.
  End Changed.
End FlatDetect.
