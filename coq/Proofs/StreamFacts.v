(* C01: the chunked read loops equal one-shot hashing, for every content, every positive chunk size, every
   pattern of short reads, and every set of formats sharing the pass. *)
From Coq Require Import Lia.
From MHL Require Import Model.Stream Gen.Generated.

Section Loops.
  Variables (B st K : Type).
  Variable upd : st -> list B -> st.
  Variable updk : K -> st -> list B -> st.
  Hypothesis upd_app : forall s a b, upd s (a ++ b) = upd (upd s a) b.
  Hypothesis upd_nil : forall s, upd s [] = s.
  Hypothesis updk_app : forall k s a b, updk k s (a ++ b) = updk k (updk k s a) b.
  Hypothesis updk_nil : forall k s, updk k s [] = s.

  Lemma firstn_nil_inv : forall (size : nat) (rem : list B), 0 < size -> firstn size rem = [] -> rem = [].
  Proof. intros size rem Hs H. destruct rem; [reflexivity|]. destruct size; [lia|discriminate]. Qed.

  Lemma skipn_shorter : forall (size : nat) (rem : list B), 0 < size -> firstn size rem <> [] ->
    length (skipn size rem) < length rem.
  Proof.
    intros size rem Hs H. rewrite skipn_length. destruct rem; [destruct size; cbn in H; congruence|].
    cbn [length]. lia.
  Qed.

  Lemma hash_file_loop_ok : forall fuel size s rem, 0 < size -> length rem < fuel ->
    hash_file_loop B st upd fuel size s rem = Some (upd s rem).
  Proof.
    induction fuel as [|k IH]; intros size s rem Hs Hf; [lia|].
    cbn [hash_file_loop]. destruct (firstn size rem) as [|b c] eqn:E.
    - apply firstn_nil_inv in E; [|exact Hs]. subst rem. rewrite upd_nil. reflexivity.
    - rewrite <- E. rewrite IH.
      + rewrite <- upd_app, firstn_skipn. reflexivity.
      + exact Hs.
      + assert (length (skipn size rem) < length rem) by (apply skipn_shorter; [exact Hs|congruence]). lia.
  Qed.

  (* short reads: whatever the file object returns per call, the state reached is the one-shot state of the
     bytes consumed; nothing is skipped, reordered or fed twice *)
  Lemma hash_file_plan_ok : forall plan size s rem,
    exists pre, rem = pre ++ snd (hash_file_plan B st upd plan size s rem)
                /\ fst (hash_file_plan B st upd plan size s rem) = upd s pre.
  Proof.
    induction plan as [|n plan IH]; intros size s rem; cbn [hash_file_plan].
    - exists []. cbn. rewrite upd_nil. auto.
    - destruct (firstn (Nat.min n size) rem) as [|b c] eqn:E.
      + exists []. cbn. rewrite upd_nil. auto.
      + rewrite <- E. destruct (IH size (upd s (firstn (Nat.min n size) rem)) (skipn (Nat.min n size) rem)) as [pre [H1 H2]].
        exists (firstn (Nat.min n size) rem ++ pre). split.
        * rewrite <- app_assoc, <- H1, firstn_skipn. reflexivity.
        * rewrite H2, upd_app. reflexivity.
  Qed.

  Lemma upd_all_nil hs : upd_all B st K updk hs [] = hs.
  Proof. unfold upd_all. induction hs as [|[k s] hs IH]; cbn; [reflexivity|]. rewrite updk_nil, IH. reflexivity. Qed.
  Lemma upd_all_app hs a b : upd_all B st K updk hs (a ++ b) = upd_all B st K updk (upd_all B st K updk hs a) b.
  Proof. unfold upd_all. rewrite map_map. apply map_ext. intros [k s]. cbn. rewrite updk_app. reflexivity. Qed.

  Lemma agg_loop_ok : forall fuel size hs rem, 0 < size -> length rem < fuel ->
    agg_loop B st K updk fuel size hs rem = Some (upd_all B st K updk hs rem).
  Proof.
    induction fuel as [|k IH]; intros size hs rem Hs Hf; [lia|].
    cbn [agg_loop]. destruct (firstn size rem) as [|b c] eqn:E.
    - apply firstn_nil_inv in E; [|exact Hs]. subst rem. rewrite upd_all_nil. reflexivity.
    - rewrite <- E. rewrite IH.
      + rewrite <- upd_all_app, firstn_skipn. reflexivity.
      + exact Hs.
      + assert (length (skipn size rem) < length rem) by (apply skipn_shorter; [exact Hs|congruence]). lia.
  Qed.

  (* feeding any sequence of chunks = feeding their concatenation *)
  Lemma chunks_concat : forall chunks s, fold_left upd chunks s = upd s (concat chunks).
  Proof.
    induction chunks as [|c chunks IH]; intros s; cbn [fold_left concat].
    - rewrite upd_nil. reflexivity.
    - rewrite IH, upd_app. reflexivity.
  Qed.
End Loops.

(* obligations on the regenerated chunk sizes *)
Lemma chunk_size_single_pos : 0 < N.to_nat chunk_size_single.
Proof. unfold chunk_size_single. lia. Qed.
Lemma chunk_size_multi_pos : 0 < N.to_nat chunk_size_multi.
Proof. unfold chunk_size_multi. lia. Qed.

(* the library entry points, instantiated with the free streaming hasher *)
Lemma hash_file_digest Hb f content : hash_file Hb f content = Some (digest_text Hb f content).
Proof.
  unfold hash_file, digest_text.
  rewrite (hash_file_loop_ok N bytes (@app N)).
  - reflexivity.
  - intros; apply app_assoc.
  - intros; apply app_nil_r.
  - apply chunk_size_single_pos.
  - lia.
Qed.

Lemma multi_hash_file_pointwise Hb fmts content :
  multi_hash_file Hb fmts content = Some (map (fun f => (f, digest_text Hb f content)) (dedup_fmts fmts)).
Proof.
  unfold multi_hash_file, digest_text.
  rewrite (agg_loop_ok N bytes fmt (fun _ => @app N)).
  - unfold upd_all. rewrite !map_map. reflexivity.
  - intros; apply app_assoc.
  - intros; apply app_nil_r.
  - apply chunk_size_multi_pos.
  - lia.
Qed.
