(* history.load_from_path finds EVERY history of the tree: whatever folder carries an ascmhl folder -- at any depth, below
   any number of other histories, beside siblings with whatever names -- appears in the list `load` returns, at exactly that
   path and with exactly the generations its own ascmhl folder holds.  (LoadFacts has the other direction: every element of
   the list sits at an existing folder, and roots are pairwise distinct.) *)
From Coq Require Import Lia Permutation Sorting.Sorted.
From MHL Require Import Model.Commands Gen.Generated Proofs.BaseFacts Proofs.TreeFacts Proofs.LoadFacts Proofs.RouteFacts.

Section LoadComplete.
  Variable C : Type.
  Variable cdig : C -> text.
  Notation node := (node C).
  Notation hist := (hist C).

  Lemma Forall2_In_r {A B} (R : A -> B -> Prop) la lb : Forall2 R la lb -> forall a, In a la -> exists b, In b lb /\ R a b.
  Proof.
    induction 1 as [|a0 b0 la lb H0 H IH]; intros a Ha; [destruct Ha|].
    destruct Ha as [<-|Ha]; [exists b0; split; [left; reflexivity|exact H0]|].
    destruct (IH a Ha) as [b [Hb Hr]]. exists b. split; [right; exact Hb|exact Hr].
  Qed.

  Lemma lookup_kid_found n k (kids : list (text * node)) : lookup_kid C n kids = Some k -> In (n, k) kids.
  Proof.
    induction kids as [|[m k0] ks IH]; cbn [lookup_kid]; [discriminate|].
    destruct (text_eqb_spec n m) as [->|Hne]; [intros [= <-]; left; reflexivity|intros H; right; apply IH; exact H].
  Qed.

  (* what stands for a found history in the list *)
  Definition stands_for (lh : lhist) (q : path) (hq : hist) : Prop :=
    lh_root lh = q /\ lh_gens lh = loaded_gens C hq /\ lh_folder lh = true.

  Theorem discover_complete : forall (t : node) p parent l,
    discover C cdig p parent t = inl l ->
    forall q hq, get_hist C t q = Some hq -> exists lh, In lh l /\ stands_for lh (p ++ q) hq.
  Proof.
    induction t as [c|h kids IH] using node_ind'; intros p parent l Hl q hq Hq.
    - unfold get_hist in Hq. destruct q; cbn in Hq; discriminate.
    - rewrite discover_dir in Hl.
      assert (Hkids : forall par lk, combine_results (sort name_leb (kid_results C cdig p par kids)) = inl lk ->
                      forall n q', q = n :: q' -> exists lh, In lh lk /\ stands_for lh (p ++ q) hq).
      { intros par lk Hc n q' ->. unfold get_hist in Hq. cbn [get] in Hq.
        destruct (lookup_kid C n kids) as [k|] eqn:Ek; [|discriminate].
        pose proof (lookup_kid_found n k kids Ek) as Hin.
        assert (Hx : In (n, discover C cdig (p ++ [n]) par k) (sort name_leb (kid_results C cdig p par kids))).
        { apply sort_In. unfold kid_results. apply in_map_iff. exists (n, k). split; [reflexivity|exact Hin]. }
        destruct (combine_results_concat _ _ Hc) as [ls [-> Hf]].
        destruct (Forall2_In_r _ _ _ Hf _ Hx) as [lx [Hlx Hrx]]. cbn [snd] in Hrx.
        rewrite Forall_forall in IH.
        destruct (IH (n, k) Hin (p ++ [n]) par lx Hrx q' hq) as [lh [Hlh Hs]]; [unfold get_hist; exact Hq|].
        exists lh. split; [apply in_concat; exists lx; split; assumption|].
        rewrite <- app_assoc in Hs. exact Hs. }
      destruct q as [|n q'].
      + unfold get_hist in Hq. cbn in Hq. destruct h as [hh|]; [|discriminate]. injection Hq as ->.
        destruct (check_chain C cdig hq); [discriminate|].
        destruct (combine_results (sort name_leb (kid_results C cdig p p kids))) as [below|e]; [|discriminate].
        injection Hl as <-. exists (lhist_of C p (Some parent) (Some hq)). split; [apply in_or_app; right; left; reflexivity|].
        rewrite app_nil_r. repeat split.
      + destruct h as [hh|].
        * destruct (check_chain C cdig hh); [discriminate|].
          destruct (combine_results (sort name_leb (kid_results C cdig p p kids))) as [below|e] eqn:Ec; [|discriminate].
          injection Hl as <-. destruct (Hkids p below Ec n q' eq_refl) as [lh [Hlh Hs]].
          exists lh. split; [apply in_or_app; left; exact Hlh|exact Hs].
        * apply (Hkids parent l Hl n q' eq_refl).
  Qed.

  Theorem load_complete (t : node) hs :
    load C cdig t = inl hs ->
    forall q hq, get_hist C t q = Some hq -> exists lh, In lh hs /\ stands_for lh q hq.
  Proof.
    destruct t as [c|h kids]; intros Hl q hq Hq.
    - unfold get_hist in Hq. destruct q; cbn in Hq; discriminate.
    - rewrite load_dir in Hl.
      destruct q as [|n q'].
      + unfold get_hist in Hq. cbn in Hq. destruct h as [hh|]; [|discriminate]. injection Hq as ->.
        destruct (check_chain C cdig hq); [discriminate|].
        destruct (combine_results (sort name_leb (kid_results C cdig [] [] kids))) as [below|e]; [|discriminate].
        injection Hl as <-. exists (lhist_of C [] None (Some hq)). split; [apply in_or_app; right; left; reflexivity|repeat split].
      + destruct (match h with Some hh => check_chain C cdig hh | None => None end); [discriminate|].
        destruct (combine_results (sort name_leb (kid_results C cdig [] [] kids))) as [below|e] eqn:Ec; [|discriminate].
        injection Hl as <-.
        unfold get_hist in Hq. cbn [get] in Hq.
        destruct (lookup_kid C n kids) as [k|] eqn:Ek; [|discriminate].
        pose proof (lookup_kid_found n k kids Ek) as Hin.
        assert (Hx : In (n, discover C cdig ([] ++ [n]) [] k) (sort name_leb (kid_results C cdig [] [] kids))).
        { apply sort_In. unfold kid_results. apply in_map_iff. exists (n, k). split; [reflexivity|exact Hin]. }
        destruct (combine_results_concat _ _ Ec) as [ls [-> Hf]].
        destruct (Forall2_In_r _ _ _ Hf _ Hx) as [lx [Hlx Hrx]]. cbn [snd] in Hrx.
        destruct (discover_complete k ([] ++ [n]) [] lx Hrx q' hq) as [lh [Hlh Hs]]; [unfold get_hist; exact Hq|].
        exists lh. split; [apply in_or_app; left; apply in_concat; exists lx; split; assumption|exact Hs].
  Qed.

  (* with distinct entry names (what a file system gives) the element is unique: exactly one loaded history per ascmhl folder *)
  Theorem load_exactly_one (t : node) hs :
    wf_tree C t -> load C cdig t = inl hs ->
    forall q hq, get_hist C t q = Some hq ->
    exists lh, In lh hs /\ stands_for lh q hq /\ forall lh', In lh' hs -> lh_root lh' = q -> lh' = lh.
  Proof.
    intros Hw Hl q hq Hq. destruct (load_complete t hs Hl q hq Hq) as [lh [Hin Hs]].
    exists lh. split; [exact Hin|]. split; [exact Hs|].
    intros lh' Hin' Hr. pose proof (load_roots_NoDup C cdig t hs Hw Hl) as Hnd.
    destruct Hs as [Hroot _]. clear -Hin Hin' Hr Hroot Hnd.
    induction hs as [|a hs IH]; [destruct Hin|]. cbn [map] in Hnd. inversion Hnd as [|? ? Hna Hnd']; subst.
    destruct Hin as [->|Hin]; destruct Hin' as [->|Hin'].
    - reflexivity.
    - exfalso. apply Hna. apply in_map_iff. exists lh'. split; [congruence|exact Hin'].
    - exfalso. apply Hna. apply in_map_iff. exists lh. split; [congruence|exact Hin].
    - apply IH; assumption.
  Qed.

  (* hence the history a path is routed to is the deepest history OF THE TREE that contains it: it contains the path, it is
     one of the tree's histories or the command's root, and no folder on the way down to the path that carries an ascmhl
     folder lies deeper than its root *)
  Theorem routed_to_deepest_of_tree (t : node) hs p :
    load C cdig t = inl hs ->
    is_prefix (lh_root (route_to hs p)) p = true /\
    forall q hq, get_hist C t q = Some hq -> is_prefix q p = true -> length q <= length (lh_root (route_to hs p)).
  Proof.
    intros Hl. destruct (load_shape C cdig t hs Hl) as [below [rooth [-> [_ [Hr _]]]]].
    assert (Hlast : root_hist (below ++ [rooth]) = rooth) by (unfold root_hist; apply last_last).
    assert (Hgood : good p (root_hist (below ++ [rooth]))) by (unfold good; rewrite Hlast, Hr; reflexivity).
    destruct (route_deepest (below ++ [rooth]) (root_hist (below ++ [rooth])) p Hgood) as [H1 [_ H3]].
    split; [exact H1|]. intros q hq Hq Hpre.
    destruct (load_complete t (below ++ [rooth]) Hl q hq Hq) as [lh [Hin [Hroot _]]].
    specialize (H3 lh Hin). unfold good in H3. rewrite Hroot in H3. apply H3. exact Hpre.
  Qed.
End LoadComplete.
