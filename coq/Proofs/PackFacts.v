(* C18, end to end for a flat history: the packing list that `flatten` writes, verified against the unchanged tree.
   Everything here is about ANY list of generations with the stated shape -- not a sample. *)
From Coq Require Import Lia Permutation.
From MHL Require Import Model.Commands Gen.Generated Proofs.BaseFacts Proofs.SealFacts Proofs.RouteFacts Proofs.TreeFacts
  Proofs.IgnoreFacts Proofs.CreateFacts Proofs.FreshFacts Proofs.VerifyFacts Proofs.InfoFacts Proofs.FlatFacts.

Section PackScan.
  Definition nonfailed (e : entry) : bool := match e_action e with Some Failed => false | _ => true end.
  Definition at_path (p : path) (x : record * entry) : bool := path_eqb (r_path (fst x)) p && nonfailed (snd x).
  (* the first digest recorded for a path that did not fail is marked `original` (C04: a path's first record) *)
  Definition first_is_original (gens : list gen) : Prop :=
    forall p x, find (at_path p) (scan gens) = Some x -> is_original (snd x) = true.
  (* folder records carry directory hashes only *)
  Definition dirs_have_no_actions (gens : list gen) : Prop :=
    forall g r e, In g gens -> In r (g_records g) -> r_dir r = true -> In e (r_entries r) -> e_action e = None.

  Lemma find_exists {A} (f : A -> bool) l x : In x l -> f x = true -> exists y, find f l = Some y.
  Proof.
    induction l as [|a l IH]; intros Hin Hf; [destruct Hin|]. cbn [find]. destruct (f a) eqn:E; [eauto|].
    destruct Hin as [->|Hin]; [congruence|]. apply IH; assumption.
  Qed.
  Lemma first_at_path_is_earliest S p x : find (at_path p) S = Some x -> earliest S p (e_fmt (snd x)) = Some (snd x).
  Proof.
    unfold earliest. induction S as [|a S IH]; cbn [find]; [discriminate|]. unfold at_path at 1, ok_for at 1.
    destruct (path_eqb (r_path (fst a)) p) eqn:Ep; cbn [andb].
    - unfold nonfailed. destruct (e_action (snd a)) as [[]|] eqn:Ea; cbn [andb].
      all: try (intros [= <-]; rewrite fmt_eqb_refl; cbn [andb option_map]; reflexivity).
      rewrite andb_false_r. exact IH.
    - exact IH.
  Qed.
  Lemma earliest_in S p f e : earliest S p f = Some e -> exists x, In x S /\ r_path (fst x) = p /\ snd x = e /\ nonfailed e = true.
  Proof.
    unfold earliest. destruct (find (ok_for p f) S) as [x|] eqn:E; [|discriminate]. intros [= <-].
    apply find_some in E. destruct E as [Hin Hok]. unfold ok_for in Hok. apply andb_prop in Hok. destruct Hok as [Hok Hnf].
    apply andb_prop in Hok. destruct Hok as [Hp _]. exists x. split; [exact Hin|]. split; [apply path_eqb_eq; exact Hp|]. split; [reflexivity|exact Hnf].
  Qed.
  Lemma held_in acc p f e : held acc p f = Some e -> exists r, In r acc /\ r_path r = p /\ In e (r_entries r).
  Proof.
    unfold held. destruct (find _ acc) as [r|] eqn:E; [|discriminate]. intros He. apply find_some in E. destruct E as [Hin Hp].
    apply find_some in He. exists r. split; [exact Hin|]. split; [apply path_eqb_eq; exact Hp|apply He].
  Qed.
  Lemma find_unique {A} (f : A -> bool) : forall l x, In x l -> f x = true -> (forall y, In y l -> f y = true -> y = x) -> find f l = Some x.
  Proof.
    induction l as [|a l IH]; intros x Hin Hf Hu; [destruct Hin|]. cbn [find]. destruct (f a) eqn:E.
    - f_equal. apply Hu; [left; reflexivity|exact E].
    - destruct Hin as [->|Hin]; [congruence|]. apply IH; auto. intros y Hy. apply Hu. right. exact Hy.
  Qed.
  Lemma in_held acc r e : fl_inv acc -> fl_inv2 acc -> In r acc -> In e (r_entries r) -> held acc (r_path r) (e_fmt e) = Some e.
  Proof.
    intros [Hnd _] Hi2 Hr He. unfold held.
    rewrite (find_unique (fun r0 => path_eqb (r_path r0) (r_path r)) acc r Hr (path_eqb_refl _)).
    - unfold fl_inv2 in Hi2. rewrite Forall_forall in Hi2. destruct (Hi2 r Hr) as [_ Hnf].
      apply find_unique; [exact He|apply fmt_eqb_refl|]. intros y Hy Hf.
      apply (NoDup_key_inj e_fmt (r_entries r)); auto. destruct (fmt_eqb_spec (e_fmt y) (e_fmt e)); [assumption|discriminate].
    - intros y Hy Hp. apply (NoDup_key_inj r_path acc); auto. apply path_eqb_eq. exact Hp.
  Qed.
  Lemma scan_in gens x : In x (scan gens) <->
    exists g, In g gens /\ In (fst x) (g_records g) /\ r_dir (fst x) = false /\ In (snd x) (r_entries (fst x)).
  Proof.
    unfold scan. rewrite in_flat_map. split.
    - intros [g [Hg H]]. apply in_flat_map in H. destruct H as [r [Hr H]]. destruct (r_dir r) eqn:Ed; [destruct H|].
      apply in_map_iff in H. destruct H as [e [<- He]]. exists g. cbn [fst snd]. auto.
    - intros [g [Hg [Hr [Hd He]]]]. exists g. split; [exact Hg|]. apply in_flat_map. exists (fst x). split; [exact Hr|]. rewrite Hd.
      apply in_map_iff. exists (snd x). split; [destruct x; reflexivity|exact He].
  Qed.
  (* every path the flattened list holds was scanned *)
  Lemma flatten_paths_scanned gens q : In q (map r_path (flatten_records gens)) -> exists x, In x (scan gens) /\ r_path (fst x) = q.
  Proof.
    rewrite flatten_records_scan.
    assert (H : forall todo done acc, (forall q1, In q1 (map r_path acc) -> exists x, In x done /\ r_path (fst x) = q1) ->
                  forall q2, In q2 (map r_path (fold_left fstep todo acc)) -> exists x, In x (done ++ todo) /\ r_path (fst x) = q2).
    { clear q. induction todo as [|x todo IH]; intros done acc Hacc q0 Hq; cbn [fold_left] in Hq; [rewrite app_nil_r; apply Hacc; exact Hq|].
      replace (done ++ x :: todo) with ((done ++ [x]) ++ todo) by (rewrite <- app_assoc; reflexivity).
      apply (IH (done ++ [x]) (fstep acc x)); [|exact Hq]. clear q0 Hq. intros q Hq.
      assert (Hold : In q (map r_path acc) -> exists y, In y (done ++ [x]) /\ r_path (fst y) = q).
      { intros H0. destruct (Hacc q H0) as [y [Hy Ey]]. exists y. split; [apply in_or_app; left; exact Hy|exact Ey]. }
      unfold fstep, flatten_entry in Hq. destruct (e_action (snd x)) as [[]|].
      3: exact (Hold Hq).
      all: destruct (find_last _ acc) as [found|] eqn:Ef;
        [destruct (existsb _ (r_entries found)); [exact (Hold Hq)|];
         apply add_entries_In in Hq; destruct Hq as [Hq| ->]; [exact (Hold Hq)|];
         apply find_last_some in Ef; destruct Ef as [Hfin _]; apply Hold; apply in_map; exact Hfin
        |apply add_entries_In in Hq; destruct Hq as [Hq| ->]; [exact (Hold Hq)|];
         exists x; split; [apply in_or_app; right; left; reflexivity|reflexivity]]. }
    intros Hq. apply (H (scan gens) [] [] (fun q0 (H0 : In q0 []) => match H0 with end) q Hq).
  Qed.
End PackScan.

Section PackVerify.
  Variable Hb : fmt -> bytes -> bytes.
  Variable matches : list text -> text -> bool.
  Variable C : Type.
  Notation node := (node C).
  Notation events := (events matches C).

  Lemma readback_flat r : r_dir r = false ->
    r_path (readback_record r) = r_path r /\ r_prev (readback_record r) = r_prev r /\ r_dir (readback_record r) = false /\
    forall e, In e (r_entries (readback_record r)) <-> In e (r_entries r).
  Proof.
    intros Hd. unfold readback_record. rewrite Hd. cbn [r_path r_prev r_dir r_entries]. repeat split; try reflexivity; apply sort_In.
  Qed.

  (* the generation `verify -pl` judges by: the records the flattened manifest reads back with *)
  Definition pl_gen (gens : list gen) (pats : list text) : gen := mkGen 1 (map readback_record (flatten_records gens)) None pats [] Flatten.

  Lemma pl_no_prev gens pats : forall g r, In g (lh_gens (pl_history (pl_gen gens pats))) -> In r (g_records g) -> r_prev r = None.
  Proof.
    intros g r [<-|[]] Hr. cbn [g_records pl_gen] in Hr. apply in_map_iff in Hr. destruct Hr as [r0 [<- Hr0]].
    destruct (flatten_records_inv gens) as [_ [Hd _]]. pose proof (flatten_records_inv2 gens) as H2. unfold fl_inv2 in H2. rewrite Forall_forall in Hd, H2.
    destruct (readback_flat r0 (Hd r0 Hr0)) as [_ [-> _]]. apply (H2 r0 Hr0).
  Qed.

  (* what the packing list refers to, for a path whose first non-failed digest in the history is `original` *)
  Lemma pl_reference gens pats p : p <> [] -> first_is_original gens ->
    (exists x, In x (scan gens) /\ at_path p x = true) ->
    exists e, reference [pl_history (pl_gen gens pats)] p = Some e /\ exists x, In x (scan gens) /\ r_path (fst x) = p /\ snd x = e.
  Proof.
    intros Hp Hfirst [x0 [Hx0 Hat0]].
    destruct (find_exists (at_path p) (scan gens) x0 Hx0 Hat0) as [x1 Hx1].
    pose proof (Hfirst p x1 Hx1) as Ho1. pose proof (first_at_path_is_earliest _ _ _ Hx1) as He1.
    rewrite <- flatten_keeps_earliest in He1. destruct (held_in _ _ _ _ He1) as [r [Hr [Hrp Hin1]]].
    destruct (flatten_records_inv gens) as [Hnd [Hd Hnf]]. pose proof (flatten_records_inv2 gens) as H2.
    rewrite Forall_forall in Hd. destruct (readback_flat r (Hd r Hr)) as [Rp [Rprev [_ Rin]]].
    rewrite (reference_flat (pl_history (pl_gen gens pats)) p eq_refl (pl_no_prev gens pats)).
    cbn [pl_history lh_gens pl_gen g_records g_root g_patterns g_refs g_process find_original].
    set (g1 := mkGen 1 (map readback_record (flatten_records gens)) None pats [] Flatten).
    assert (Hfm : find_media_hash g1 p = Some (readback_record r)).
    { unfold find_media_hash. cbn [g_records g1]. rewrite (find_last_unique (fun r0 => rec_keys_match r0 p) _ (readback_record r)); [reflexivity|apply in_map; exact Hr| |].
      - unfold rec_keys_match. rewrite Rp, Hrp, path_eqb_refl. reflexivity.
      - intros r' Hr' Hk. apply in_map_iff in Hr'. destruct Hr' as [r0 [<- Hr0]].
        destruct (readback_flat r0 (Hd r0 Hr0)) as [Rp0 [Rprev0 _]].
        unfold fl_inv2 in H2. rewrite Forall_forall in H2. destruct (H2 r0 Hr0) as [Hprev0 _].
        assert (E0 : r_path r0 = p).
        { rewrite <- Rp0. apply (keys_path (readback_record r0) p); [rewrite Rprev0; exact Hprev0|exact Hk]. }
        f_equal. apply (NoDup_key_inj r_path (flatten_records gens)); auto. congruence. }
    rewrite Hfm.
    destruct (find is_original (r_entries (readback_record r))) as [e|] eqn:Ef.
    - exists e. split; [reflexivity|]. apply find_some in Ef. destruct Ef as [Hein _]. apply Rin in Hein.
      pose proof (in_held _ r e (flatten_records_inv gens) H2 Hr Hein) as Hh. rewrite flatten_keeps_earliest, Hrp in Hh.
      destruct (earliest_in _ _ _ _ Hh) as [x [Hx [Ep [Es _]]]]. exists x. auto.
    - exfalso. pose proof (find_none _ _ Ef (snd x1) (proj2 (Rin _) Hin1)) as Hn. congruence.
  Qed.

  Lemma find_original_scanned gens p e : p <> [] ->
    (forall g r, In g gens -> In r (g_records g) -> r_prev r = None) -> dirs_have_no_actions gens ->
    find_original gens p = Some e -> exists x, In x (scan gens) /\ at_path p x = true.
  Proof.
    intros Hp Hprev Hdir Hfo. destruct (find_original_recorded gens p e Hfo) as [[g [r [Hg [Hfm He]]]] Ha].
    destruct (find_media_hash_In g p r Hp Hfm) as [Hr Hk].
    exists (r, e). split.
    - apply scan_in. exists g. cbn [fst snd]. split; [exact Hg|]. split; [exact Hr|]. split; [|exact He].
      destruct (r_dir r) eqn:Ed; [|reflexivity]. rewrite (Hdir g r e Hg Hr Ed He) in Ha. discriminate.
    - unfold at_path, nonfailed. cbn [fst snd]. rewrite (keys_path r p (Hprev g r Hg Hr) Hk), path_eqb_refl, Ha. reflexivity.
  Qed.

  (* C18, last sentence, first half: a flat history without renames whose recorded digests are those of the tree, whose
     pattern list starts from the defaults, in which a path's first non-failed digest is `original` and folder records
     carry no file digests; `verify` finds nothing to report.  Then `verify -pl` against the flattened manifest of
     that history exits 0 as well. *)
  Theorem flatten_then_verify_pl (t : node) (h : lhist) :
    let gens := lh_gens h in
    let spec := set_patterns (latest_patterns gens) [] (pattern_file_lines []) in
    wf_tree C t -> is_dir C t = true -> lh_root h = [] -> gens <> [] ->
    hist_all Hb C gens t -> NoDup (latest_patterns gens) -> set_patterns [] spec [] = spec ->
    first_is_original gens -> dirs_have_no_actions gens ->
    consistent_tree Hb matches C [h] t spec ->
    let doc := pl_gen gens (readback_patterns (set_patterns [] spec [])) in
    o_outcome (snd (verify_pl Hb matches C t (Some doc) [] [])) = Exit 0.
  Proof.
    intros gens spec Hwf Hisd Hroot Hne [Hprev Hdig] Hnd Hpat Hfirst Hdir [Hfiles Hmiss] doc.
    assert (Hspec : set_patterns (g_patterns doc) [] (pattern_file_lines []) = spec).
    { unfold doc, pl_gen. cbn [g_patterns]. rewrite Hpat.
      assert (Hsne : readback_patterns spec = spec).
      { unfold readback_patterns. destruct spec eqn:E; [|reflexivity]. exfalso.
        assert (Hl : length spec <> 0); [|rewrite E in Hl; apply Hl; reflexivity].
        destruct (set_patterns_prefix (latest_patterns gens) [] (pattern_file_lines []) Hnd) as [s0 Hs0]. fold spec in Hs0. rewrite E in Hs0.
        unfold base_of in Hs0. destruct (latest_patterns gens); discriminate Hs0. }
      rewrite Hsne. destruct (set_patterns_stable_gen (latest_patterns gens) [] (pattern_file_lines []) Hnd) as [_ E2]. exact E2. }
    pose proof (verify_pl_exit_selection Hb matches C t doc [] []) as Hex. cbn zeta in Hex.
    pose proof (verify_pl_reports Hb matches C t doc [] []) as Hrep. cbn zeta in Hrep. rewrite Hspec in Hrep. destruct Hrep as [Hbad Hnew].
    set (o := snd (verify_pl Hb matches C t (Some doc) [] [])) in *.
    (* every visited file: the packing list refers to a digest the history recorded for that path, and that is the file's *)
    assert (Href : forall p c, In (p, c) (ev_files (events spec [] t)) ->
                     exists e, reference [pl_history doc] p = Some e /\ e_digest e = digest_text Hb (e_fmt e) c).
    { intros p c Hpc. destruct (ev_files_get matches C spec t [] p c Hwf Hpc) as [rel [E Hgt]]. cbn [app] in E. subst rel.
      assert (Hp : p <> []) by (intros ->; destruct t; cbn in Hgt, Hisd; discriminate).
      destruct (Hfiles p c Hpc) as [e0 [Hr0 _]]. rewrite (reference_flat h p Hroot Hprev) in Hr0.
      destruct (pl_reference gens (readback_patterns (set_patterns [] spec [])) p Hp Hfirst (find_original_scanned gens p e0 Hp Hprev Hdir Hr0))
        as [e [Hre [x [Hx [Exp Exe]]]]].
      exists e. split; [exact Hre|]. apply scan_in in Hx. destruct Hx as [g [Hg [Hr [_ He]]]]. rewrite Exe in He.
      apply (Hdig g (fst x) e c Hg Hr He). rewrite Exp. exact Hgt. }
    assert (Eb : o_mismatch o = []).
    { destruct (o_mismatch o) as [|p l] eqn:E; [reflexivity|]. exfalso.
      destruct (proj1 (Hbad p) (or_introl eq_refl)) as [c [e [Hin [Hr Hd]]]].
      destruct (Href p c Hin) as [e' [Hr' Hd']]. rewrite Hr in Hr'. injection Hr' as <-. contradiction. }
    assert (En : o_new o = []).
    { destruct (o_new o) as [|p l] eqn:E; [reflexivity|]. exfalso.
      destruct (proj1 (Hnew p) (or_introl eq_refl)) as [c [Hin Hr]]. destruct (Href p c Hin) as [e' [Hr' _]]. congruence. }
    assert (Em : o_missing o = []).
    { unfold o, verify_pl, verify_core. cbn [pl_history lh_gens root_hist last snd o_missing].
      change (latest_patterns [mkGen 1 (g_records doc) (g_root doc) (g_patterns doc) (g_refs doc) (g_process doc)]) with (g_patterns doc).
      rewrite Hspec.
      assert (Hm : missing matches spec (diff_paths (expected_paths [pl_history doc]) (visited (events spec [] t))) = []); [|rewrite Hm; reflexivity].
      unfold missing. apply filter_all_nil. intros q Hq. unfold diff_paths in Hq. apply filter_In in Hq. destruct Hq as [Hq Hnv].
      apply (expected_flat (pl_history doc) eq_refl (pl_no_prev gens _)) in Hq. destruct Hq as [g [r [[<-|[]] [Hr Hrp]]]].
      cbn [g_records doc pl_gen] in Hr.
      assert (Hqf : In q (map r_path (flatten_records gens))) by (rewrite <- readback_paths, <- Hrp; apply in_map; exact Hr).
      destruct (flatten_paths_scanned gens q Hqf) as [x [Hx Ex]]. apply scan_in in Hx. destruct Hx as [g0 [Hg0 [Hr0 _]]].
      assert (Hexp : In q (expected_paths [h])) by (apply (expected_flat h Hroot Hprev); exists g0, (fst x); auto).
      pose proof (filter_nil_all _ _ Hmiss q) as Hf. cbv beta in Hf. apply Hf. unfold diff_paths. apply filter_In. split; [exact Hexp|exact Hnv]. }
    rewrite Hex, Eb, En, Em. reflexivity.
  Qed.
  (* ... second half: a file the history recorded, altered afterwards (in whatever tree the packing list is verified
     against -- other files may have changed, appeared or gone too): exit 11, and the file is reported.  The premise on
     the hash primitive is the usual one: the new bytes do not collide with the old ones in the format judged. *)
  Theorem flatten_then_verify_pl_altered (t t' : node) (h : lhist) pats p c c' :
    let gens := lh_gens h in
    let doc := pl_gen gens pats in
    let spec' := set_patterns pats [] (pattern_file_lines []) in
    lh_root h = [] -> hist_all Hb C gens t -> first_is_original gens -> dirs_have_no_actions gens ->
    p <> [] -> get C t p = Some (File c) -> find_original gens p <> None ->
    In (p, c') (ev_files (events spec' [] t')) -> (forall f, digest_text Hb f c' <> digest_text Hb f c) ->
    let o := snd (verify_pl Hb matches C t' (Some doc) [] []) in
    o_outcome o = Exit 11 /\ In p (o_mismatch o).
  Proof.
    intros gens doc spec' Hroot [Hprev Hdig] Hfirst Hdir Hp Hgt Hrec Hvis Hcol o.
    destruct (find_original gens p) as [e0|] eqn:Efo; [|congruence].
    destruct (pl_reference gens pats p Hp Hfirst (find_original_scanned gens p e0 Hp Hprev Hdir Efo)) as [e [Hre [x [Hx [Exp Exe]]]]].
    apply scan_in in Hx. destruct Hx as [g [Hg [Hr [_ He]]]]. rewrite Exe in He.
    assert (Hd : e_digest e = digest_text Hb (e_fmt e) c) by (apply (Hdig g (fst x) e c Hg Hr He); rewrite Exp; exact Hgt).
    pose proof (verify_pl_reports Hb matches C t' doc [] []) as Hrep. cbn zeta in Hrep. destruct Hrep as [Hbad _].
    assert (Hin : In p (o_mismatch o)).
    { apply Hbad. exists c', e. split; [exact Hvis|]. split; [exact Hre|]. rewrite Hd. intros E. apply (Hcol (e_fmt e)). symmetry. exact E. }
    split; [|exact Hin]. pose proof (verify_pl_exit_selection Hb matches C t' doc [] []) as Hex. cbn zeta in Hex. fold o in Hex.
    rewrite Hex. destruct (o_mismatch o); [destruct Hin|reflexivity].
  Qed.

  (* the manifest `flatten` writes for a flat history IS that generation *)
  Theorem flatten_writes_pl_gen cdig (t : node) (h : lhist) doc :
    let gens := lh_gens h in
    let spec := set_patterns (latest_patterns gens) [] (pattern_file_lines []) in
    load C cdig t = inl [h] -> In ([], doc) (o_written (snd (flatten C cdig t [] []))) ->
    doc = pl_gen gens (readback_patterns (set_patterns [] spec [])).
  Proof.
    intros gens spec Hl Hin. unfold flatten in Hin. rewrite Hl in Hin. change (root_hist [h]) with h in Hin. fold gens in Hin.
    destruct gens as [|g0 gs] eqn:Eg; [destruct Hin|]. cbn [snd o_written] in Hin.
    destruct (map readback_record (flatten_records (g0 :: gs))) eqn:Er; [destruct Hin|].
    destruct Hin as [E|[]]. injection E as <-. unfold pl_gen. rewrite Er. reflexivity.
  Qed.
End PackVerify.
