(* C08: which histories write a new generation in a run -- exactly those that received records or have a child history
   that wrote (hence, recursively, a descendant that received records). *)
From Coq Require Import Lia.
From MHL Require Import Model.Create Gen.Generated Proofs.BaseFacts Proofs.IgnoreFacts Proofs.CommitFacts.

Lemma NoDup_app_disjoint {A} (a b : list A) : NoDup (a ++ b) -> forall x, In x a -> In x b -> False.
Proof.
  induction a as [|y a IH]; intros H x Ha Hb; [destruct Ha|]. cbn in H. inversion H as [|? ? Hn Hr]; subst.
  destruct Ha as [->|Ha]; [apply Hn; apply in_or_app; right; exact Hb|exact (IH Hr x Ha Hb)].
Qed.

Section CommitSet.
  Variable C : Type.
  Variable cdig : C -> text.
  Variable ser : gen -> C.
  Variable proc : process.
  Variable sess : session.
  Variable sp : list text.
  Notation step := (commit_one C cdig ser proc sess sp).

  Definition wrote (cs : commit_state C) (r : path) : Prop := exists doc, In (r, doc) (cs_written C cs).
  Definition receives (h : lhist) (cs : commit_state C) : bool :=
    negb (match sess_get sess (lh_root h), refs_get (cs_refs C cs) (lh_root h) with None, [] => true | _, _ => false end).

  Lemma step_aborted cs h : cs_abort C cs = true -> step cs h = cs.
  Proof. intros H. unfold commit_one. rewrite H. reflexivity. Qed.
  Lemma step_cases cs h : cs_abort C cs = false -> cs_abort C (step cs h) = false ->
    (receives h cs = false /\ step cs h = cs) \/
    (receives h cs = true /\ exists doc, cs_written C (step cs h) = cs_written C cs ++ [(lh_root h, doc)] /\
       cs_refs C (step cs h) = match lh_parent h with
                               | Some par => refs_add (cs_refs C cs) par (strip_prefix par (lh_root h), g_no doc)
                               | None => cs_refs C cs
                               end).
  Proof.
    intros Ha. unfold commit_one, receives. rewrite Ha.
    destruct (sess_get sess (lh_root h)) as [v|] eqn:Es.
    - destruct (validate_records (nl_records v)) as [recs|]; [|cbn; discriminate]. intros _. right. split; [reflexivity|].
      eexists. cbn [cs_written cs_refs]. split; reflexivity.
    - destruct (refs_get (cs_refs C cs) (lh_root h)) as [|r0 rs] eqn:Er; [intros _; left; auto|].
      cbn [nl_records validate_records]. intros _. right. split; [reflexivity|]. eexists. cbn [cs_written cs_refs]. split; reflexivity.
  Qed.
  Lemma fold_abort_mono l : forall cs, cs_abort C cs = true -> cs_abort C (fold_left step l cs) = true.
  Proof. induction l as [|h l IH]; intros cs H; cbn [fold_left]; [exact H|]. apply IH. rewrite step_aborted; assumption. Qed.

  Definition children_first (hs : list lhist) : Prop :=
    forall l1 h l2, hs = l1 ++ h :: l2 -> lh_parent h = None \/ exists h', In h' l2 /\ lh_parent h = Some (lh_root h').

  (* the invariant over the histories processed so far *)
  Definition inv (done : list lhist) (cs : commit_state C) : Prop :=
    (forall r, wrote cs r -> In r (map lh_root done)) /\
    (forall h, In h done -> (wrote cs (lh_root h) <->
        sess_get sess (lh_root h) <> None \/ exists c, In c done /\ lh_parent c = Some (lh_root h) /\ wrote cs (lh_root c))) /\
    (forall r, refs_get (cs_refs C cs) r <> [] <-> exists c, In c done /\ lh_parent c = Some r /\ wrote cs (lh_root c)).
  Lemma wrote_snoc cs cs' r0 doc r : cs_written C cs' = cs_written C cs ++ [(r0, doc)] -> (wrote cs' r <-> wrote cs r \/ r = r0).
  Proof.
    intros E. unfold wrote. rewrite E. split.
    - intros [d Hin]. apply in_app_or in Hin. destruct Hin as [Hin|[Hin|[]]]; [left; eauto|right; congruence].
    - intros [[d Hin]| ->]; [exists d; apply in_or_app; auto|exists doc; apply in_or_app; right; left; reflexivity].
  Qed.

  Lemma inv_step done h todo cs :
    NoDup (map lh_root (done ++ h :: todo)) -> children_first (done ++ h :: todo) ->
    inv done cs -> cs_abort C cs = false -> cs_abort C (step cs h) = false -> inv (done ++ [h]) (step cs h).
  Proof.
    intros Hnd Hcf [HW [HA HB]] Ha Ha'.
    assert (F1 : ~ In (lh_root h) (map lh_root done)).
    { rewrite map_app in Hnd. cbn [map] in Hnd. apply NoDup_remove_2 in Hnd. intros H. apply Hnd. apply in_or_app. left. exact H. }
    assert (Ftodo : forall h', In h' todo -> ~ In (lh_root h') (map lh_root done) /\ lh_root h' <> lh_root h).
    { intros h' Hin. rewrite map_app in Hnd. cbn [map] in Hnd. split.
      - intros H. apply in_map_iff in H. destruct H as [g [Eg Hg]].
        apply (NoDup_app_disjoint _ _ Hnd (lh_root h')); [rewrite <- Eg; apply in_map; exact Hg|right; apply in_map; exact Hin].
      - intros E. apply NoDup_remove_2 in Hnd. apply Hnd. apply in_or_app. right. rewrite <- E. apply in_map. exact Hin. }
    assert (F2 : forall g, In g done -> lh_parent h <> Some (lh_root g)).
    { intros g Hg E. destruct (Hcf done h todo eq_refl) as [Hn|[h' [Hin Hp]]]; [congruence|].
      rewrite Hp in E. injection E as E. apply (proj1 (Ftodo h' Hin)). rewrite E. apply in_map. exact Hg. }
    assert (F3 : lh_parent h <> Some (lh_root h)).
    { intros E. destruct (Hcf done h todo eq_refl) as [Hn|[h' [Hin Hp]]]; [congruence|].
      rewrite Hp in E. injection E as E. exact (proj2 (Ftodo h' Hin) E). }
    assert (Hnw : ~ wrote cs (lh_root h)) by (intros H; apply F1; apply HW; exact H).
    destruct (step_cases cs h Ha Ha') as [[Hr ->]|[Hr [doc [Ew Er]]]].
    - (* nothing to write *)
      unfold receives in Hr. apply negb_false_iff in Hr.
      destruct (sess_get sess (lh_root h)) as [v|] eqn:Es; [discriminate|].
      destruct (refs_get (cs_refs C cs) (lh_root h)) as [|r0 rs] eqn:Erf; [|discriminate].
      split; [|split].
      + intros r H. rewrite map_app. apply in_or_app. left. apply HW. exact H.
      + intros g Hg. apply in_app_or in Hg. destruct Hg as [Hg|[<-|[]]].
        * rewrite (HA g Hg). split; intros [H|[c [Hc [Hp Hwc]]]]; auto; right.
          -- exists c. split; [apply in_or_app; left; exact Hc|auto].
          -- apply in_app_or in Hc. destruct Hc as [Hc|[<-|[]]]; [exists c; auto|exfalso; exact (F2 g Hg Hp)].
        * split; [intros H; contradiction|]. intros [H|[c [Hc [Hp Hwc]]]]; [rewrite Es in H; congruence|].
          apply in_app_or in Hc. destruct Hc as [Hc|[<-|[]]]; [|contradiction].
          exfalso. assert (Hne : refs_get (cs_refs C cs) (lh_root h) <> []) by (apply HB; exists c; auto). congruence.
      + intros r. rewrite HB. split; intros [c [Hc [Hp Hwc]]].
        * exists c. split; [apply in_or_app; left; exact Hc|auto].
        * apply in_app_or in Hc. destruct Hc as [Hc|[<-|[]]]; [exists c; auto|contradiction].
    - (* a new generation for h *)
      pose proof (fun r => wrote_snoc cs (step cs h) (lh_root h) doc r Ew) as Hwr.
      assert (Hold : forall g, In g done -> (wrote (step cs h) (lh_root g) <-> wrote cs (lh_root g))).
      { intros g Hg. rewrite Hwr. split; [intros [H|E]; [exact H|exfalso; apply F1; rewrite <- E; apply in_map; exact Hg]|auto]. }
      split; [|split].
      + intros r H. apply Hwr in H. rewrite map_app. apply in_or_app. destruct H as [H| ->]; [left; apply HW; exact H|right; left; reflexivity].
      + intros g Hg. apply in_app_or in Hg. destruct Hg as [Hg|[<-|[]]].
        * rewrite (Hold g Hg), (HA g Hg). split; intros [H|[c [Hc [Hp Hwc]]]]; auto; right.
          -- exists c. split; [apply in_or_app; left; exact Hc|]. split; [exact Hp|apply (Hold c Hc); exact Hwc].
          -- apply in_app_or in Hc. destruct Hc as [Hc|[<-|[]]]; [|exfalso; exact (F2 g Hg Hp)].
             exists c. split; [exact Hc|]. split; [exact Hp|apply (Hold c Hc); exact Hwc].
        * split; [|intros _; apply Hwr; right; reflexivity]. intros _.
          unfold receives in Hr. apply negb_true_iff in Hr.
          destruct (sess_get sess (lh_root h)) as [v|] eqn:Es; [left; discriminate|]. right.
          destruct (refs_get (cs_refs C cs) (lh_root h)) as [|r0 rs] eqn:Erf; [discriminate|].
          assert (Hne : refs_get (cs_refs C cs) (lh_root h) <> []) by (rewrite Erf; discriminate).
          apply HB in Hne. destruct Hne as [c [Hc [Hp Hwc]]]. exists c. split; [apply in_or_app; left; exact Hc|].
          split; [exact Hp|apply (Hold c Hc); exact Hwc].
      + intros r. rewrite Er. destruct (lh_parent h) as [par|] eqn:Ep.
        * destruct (path_eqb_spec par r) as [->|Hne].
          -- rewrite refs_get_add_same. split.
             ++ intros _. exists h. split; [apply in_or_app; right; left; reflexivity|]. split; [exact Ep|apply Hwr; right; reflexivity].
             ++ intros _. destruct (refs_get (cs_refs C cs) r); discriminate.
          -- rewrite (refs_get_add_other _ _ _ _ Hne), HB. split; intros [c [Hc [Hp Hwc]]].
             ++ exists c. split; [apply in_or_app; left; exact Hc|]. split; [exact Hp|apply (Hold c Hc); exact Hwc].
             ++ apply in_app_or in Hc. destruct Hc as [Hc|[<-|[]]]; [|congruence].
                exists c. split; [exact Hc|]. split; [exact Hp|apply (Hold c Hc); exact Hwc].
        * rewrite HB. split; intros [c [Hc [Hp Hwc]]].
          -- exists c. split; [apply in_or_app; left; exact Hc|]. split; [exact Hp|apply (Hold c Hc); exact Hwc].
          -- apply in_app_or in Hc. destruct Hc as [Hc|[<-|[]]]; [|congruence].
             exists c. split; [exact Hc|]. split; [exact Hp|apply (Hold c Hc); exact Hwc].
  Qed.

  Lemma inv_fold : forall todo done cs,
    NoDup (map lh_root (done ++ todo)) -> children_first (done ++ todo) -> inv done cs -> cs_abort C cs = false ->
    cs_abort C (fold_left step todo cs) = false -> inv (done ++ todo) (fold_left step todo cs).
  Proof.
    induction todo as [|h todo IH]; intros done cs Hnd Hcf Hi Ha Hf; cbn [fold_left] in *.
    - rewrite app_nil_r. exact Hi.
    - assert (Ha' : cs_abort C (step cs h) = false).
      { destruct (cs_abort C (step cs h)) eqn:E; [rewrite (fold_abort_mono todo _ E) in Hf; discriminate|reflexivity]. }
      replace (done ++ h :: todo) with ((done ++ [h]) ++ todo) in * by (rewrite <- app_assoc; reflexivity).
      apply IH; auto. apply (inv_step done h todo cs); auto; rewrite <- app_assoc in *; cbn [app] in *; assumption.
  Qed.

  (* C08: after a run that did not abort, a history has written a generation exactly when the session held records for it
     or one of its child histories has written one *)
  Theorem commit_set (hs : list lhist) (t : node C) :
    NoDup (map lh_root hs) -> children_first hs ->
    let cs := commit C cdig ser hs proc t sess sp in
    cs_abort C cs = false ->
    (forall r, wrote cs r -> In r (map lh_root hs)) /\
    (forall h, In h hs -> (wrote cs (lh_root h) <->
       sess_get sess (lh_root h) <> None \/ exists c, In c hs /\ lh_parent c = Some (lh_root h) /\ wrote cs (lh_root c))).
  Proof.
    intros Hnd Hcf. cbn zeta. unfold commit. intros Ha.
    destruct (inv_fold hs [] (mkCS C t [] [] [] false) Hnd Hcf) as [HW [HA _]]; auto.
    split; [|split].
    - intros r [d []].
    - intros h [].
    - intros r. cbn. split; [congruence|intros [c [[] _]]].
  Qed.
End CommitSet.
