(* C06 for any nesting: what `load` sees depends on the tree only through (a) which folders carry a history, in the order
   of the walk, and (b) the history values; replacing history values by others that still pass their chain check yields
   the same list of histories -- same roots, same parents, same order -- with the generations of the new values.  This is
   what reloading after a create run does: the run replaces the history value of every history that wrote. *)
From Coq Require Import Lia Permutation.
From MHL Require Import Model.Commands Gen.Generated Proofs.BaseFacts Proofs.TreeFacts Proofs.LoadFacts Proofs.RouteFacts.

Lemma insert_map {A B} (leb : A -> A -> bool) (leb' : B -> B -> bool) (g : B -> A) :
  (forall a b, leb (g a) (g b) = leb' a b) -> forall x l, insert leb (g x) (map g l) = map g (insert leb' x l).
Proof.
  intros H x l. induction l as [|y l IH]; cbn [map insert]; [reflexivity|]. rewrite H. destruct (leb' x y); cbn [map]; [reflexivity|]. rewrite IH. reflexivity.
Qed.
Lemma sort_map {A B} (leb : A -> A -> bool) (leb' : B -> B -> bool) (g : B -> A) :
  (forall a b, leb (g a) (g b) = leb' a b) -> forall l, sort leb (map g l) = map g (sort leb' l).
Proof.
  intros H l. unfold sort. induction l as [|x l IH]; cbn [map fold_right]; [reflexivity|]. rewrite IH. apply insert_map. exact H.
Qed.

Section Reload.
  Variable C : Type.
  Variable cdig : C -> text.
  Notation node := (node C).
  Notation hist := (hist C).

  (* the skeleton of the walk: (root, root of the enclosing history, history value) in the order of `discover` *)
  Fixpoint dstruct (p parent : path) (t : node) : list (path * path * hist) :=
    match t with
    | File _ => []
    | Dir None kids =>
        flat_map (fun x => snd x)
          (sort name_leb ((fix go (ks : list (text * node)) := match ks with
                                                                 | [] => []
                                                                 | (n, k) :: ks' => (n, dstruct (p ++ [n]) parent k) :: go ks'
                                                                 end) kids))
    | Dir (Some h) kids =>
        flat_map (fun x => snd x)
          (sort name_leb ((fix go (ks : list (text * node)) := match ks with
                                                                 | [] => []
                                                                 | (n, k) :: ks' => (n, dstruct (p ++ [n]) p k) :: go ks'
                                                                 end) kids))
        ++ [(p, parent, h)]
    end.
  Definition kid_structs (p parent : path) (kids : list (text * node)) :=
    map (fun nk => (fst nk, dstruct (p ++ [fst nk]) parent (snd nk))) kids.
  Lemma dstruct_dir p parent h kids :
    dstruct p parent (Dir h kids) =
    match h with
    | None => flat_map (fun x => snd x) (sort name_leb (kid_structs p parent kids))
    | Some hh => flat_map (fun x => snd x) (sort name_leb (kid_structs p p kids)) ++ [(p, parent, hh)]
    end.
  Proof.
    cbn [dstruct]. unfold kid_structs.
    assert (Hgo : forall par ks,
      (fix go (ks : list (text * node)) := match ks with [] => [] | (n, k) :: ks' => (n, dstruct (p ++ [n]) par k) :: go ks' end) ks
      = map (fun nk => (fst nk, dstruct (p ++ [fst nk]) par (snd nk))) ks).
    { intros par. induction ks as [|[n k] ks IH]; cbn [map fst snd]; [reflexivity|]. rewrite IH. reflexivity. }
    destruct h as [hh|]; rewrite Hgo; reflexivity.
  Qed.

  Definition mk (x : path * path * hist) : lhist := lhist_of C (fst (fst x)) (Some (snd (fst x))) (Some (snd x)).
  Definition chk (x : path * path * hist) : Prop := check_chain C cdig (snd x) = None.

  (* discovery succeeds exactly when every history of the skeleton passes its chain check, and then lists them *)
  Theorem discover_skeleton : forall t p parent,
    (Forall chk (dstruct p parent t) -> discover C cdig p parent t = inl (map mk (dstruct p parent t))) /\
    (forall l, discover C cdig p parent t = inl l -> Forall chk (dstruct p parent t) /\ l = map mk (dstruct p parent t)).
  Proof.
    induction t as [c|h kids IH] using node_ind'; intros p parent; [split; [reflexivity|intros l [= <-]; split; [constructor|reflexivity]]|].
    rewrite dstruct_dir, discover_dir.
    (* the sorted kid results, related through the sorted kids *)
    assert (Hsortd : forall par, sort name_leb (kid_results C cdig p par kids) = map (fun nk => (fst nk, discover C cdig (p ++ [fst nk]) par (snd nk))) (sort name_leb kids)).
    { intros par. unfold kid_results. apply sort_map. reflexivity. }
    assert (Hsorts : forall par, sort name_leb (kid_structs p par kids) = map (fun nk => (fst nk, dstruct (p ++ [fst nk]) par (snd nk))) (sort name_leb kids)).
    { intros par. unfold kid_structs. apply sort_map. reflexivity. }
    assert (IH' : forall nk, In nk (sort name_leb kids) -> forall p0 par0,
              (Forall chk (dstruct p0 par0 (snd nk)) -> discover C cdig p0 par0 (snd nk) = inl (map mk (dstruct p0 par0 (snd nk)))) /\
              (forall l, discover C cdig p0 par0 (snd nk) = inl l -> Forall chk (dstruct p0 par0 (snd nk)) /\ l = map mk (dstruct p0 par0 (snd nk)))).
    { intros nk Hin. apply sort_In in Hin. rewrite Forall_forall in IH. apply IH. exact Hin. }
    assert (Hgen : forall sk, (forall nk, In nk sk -> forall p0 par0,
              (Forall chk (dstruct p0 par0 (snd nk)) -> discover C cdig p0 par0 (snd nk) = inl (map mk (dstruct p0 par0 (snd nk)))) /\
              (forall l, discover C cdig p0 par0 (snd nk) = inl l -> Forall chk (dstruct p0 par0 (snd nk)) /\ l = map mk (dstruct p0 par0 (snd nk)))) ->
            forall par,
              (Forall chk (flat_map (fun x => snd x) (map (fun nk => (fst nk, dstruct (p ++ [fst nk]) par (snd nk))) sk)) ->
               combine_results (map (fun nk => (fst nk, discover C cdig (p ++ [fst nk]) par (snd nk))) sk)
               = inl (map mk (flat_map (fun x => snd x) (map (fun nk => (fst nk, dstruct (p ++ [fst nk]) par (snd nk))) sk)))) /\
              (forall l, combine_results (map (fun nk => (fst nk, discover C cdig (p ++ [fst nk]) par (snd nk))) sk) = inl l ->
               Forall chk (flat_map (fun x => snd x) (map (fun nk => (fst nk, dstruct (p ++ [fst nk]) par (snd nk))) sk)) /\
               l = map mk (flat_map (fun x => snd x) (map (fun nk => (fst nk, dstruct (p ++ [fst nk]) par (snd nk))) sk)))).
    { clear. induction sk as [|nk sk IHs]; intros Hsk par; [split; [reflexivity|intros l [= <-]; split; [constructor|reflexivity]]|].
      destruct (Hsk nk (or_introl eq_refl) (p ++ [fst nk]) par) as [A1 A2].
      destruct (IHs (fun nk' Hin => Hsk nk' (or_intror Hin)) par) as [B1 B2].
      cbn [map flat_map combine_results fst snd]. split.
      - intros Hf. apply Forall_app in Hf. destruct Hf as [Hf1 Hf2]. rewrite (A1 Hf1), (B1 Hf2), map_app. reflexivity.
      - intros l Hl. destruct (discover C cdig (p ++ [fst nk]) par (snd nk)) as [l1|e] eqn:E1; [|discriminate].
        destruct (combine_results (map _ sk)) as [l2|e] eqn:E2; [|discriminate]. injection Hl as <-.
        destruct (A2 l1 eq_refl) as [F1 ->]. destruct (B2 l2 eq_refl) as [F2 ->]. split; [apply Forall_app; split; assumption|rewrite map_app; reflexivity]. }
    pose proof (Hgen (sort name_leb kids) IH') as Hkids.
    destruct h as [hh|].
    - rewrite Hsortd, Hsorts. destruct (Hkids p) as [K1 K2]. split.
      + intros Hf. apply Forall_app in Hf. destruct Hf as [Hf1 Hf2]. inversion Hf2 as [|? ? Hc _]; subst. unfold chk in Hc. cbn [snd] in Hc.
        rewrite Hc, (K1 Hf1), map_app. reflexivity.
      + intros l Hl. destruct (check_chain C cdig hh) eqn:Ec; [discriminate|].
        destruct (combine_results _) as [below|e] eqn:Eb; [|discriminate]. injection Hl as <-.
        destruct (K2 below eq_refl) as [F ->]. split; [apply Forall_app; split; [exact F|constructor; [exact Ec|constructor]]|rewrite map_app; reflexivity].
    - rewrite Hsortd, Hsorts. apply Hkids.
  Qed.

  (* ---- replacing history values ---- *)
  Variable f : path -> hist -> hist.
  Fixpoint mh (p : path) (t : node) : node :=
    match t with
    | File c => File c
    | Dir h kids =>
        Dir (option_map (f p) h)
            ((fix go (ks : list (text * node)) := match ks with
                                                  | [] => []
                                                  | (n, k) :: ks' => (n, mh (p ++ [n]) k) :: go ks'
                                                  end) kids)
    end.
  Lemma mh_dir p h kids : mh p (Dir h kids) = Dir (option_map (f p) h) (map (fun nk => (fst nk, mh (p ++ [fst nk]) (snd nk))) kids).
  Proof.
    cbn [mh]. f_equal. induction kids as [|[n k] ks IH]; cbn [map fst snd]; [reflexivity|]. rewrite IH. reflexivity.
  Qed.
  Definition fx (x : path * path * hist) : path * path * hist := (fst (fst x), snd (fst x), f (fst (fst x)) (snd x)).

  Theorem dstruct_mh : forall t p parent, dstruct p parent (mh p t) = map fx (dstruct p parent t).
  Proof.
    induction t as [c|h kids IH] using node_ind'; intros p parent; [reflexivity|].
    rewrite mh_dir, !dstruct_dir.
    assert (Hk : forall par, flat_map (fun x => snd x) (sort name_leb (kid_structs p par (map (fun nk => (fst nk, mh (p ++ [fst nk]) (snd nk))) kids)))
                 = map fx (flat_map (fun x => snd x) (sort name_leb (kid_structs p par kids)))).
    { intros par. unfold kid_structs. rewrite map_map. cbn [fst snd].
      rewrite (sort_map name_leb name_leb (fun nk : text * node => (fst nk, dstruct (p ++ [fst nk]) par (mh (p ++ [fst nk]) (snd nk))))) by reflexivity.
      rewrite (sort_map name_leb name_leb (fun nk : text * node => (fst nk, dstruct (p ++ [fst nk]) par (snd nk)))) by reflexivity.
      assert (IH' : forall nk, In nk (sort name_leb kids) -> forall p0 par0, dstruct p0 par0 (mh p0 (snd nk)) = map fx (dstruct p0 par0 (snd nk))).
      { intros nk Hin. apply sort_In in Hin. rewrite Forall_forall in IH. apply IH. exact Hin. }
      induction (sort name_leb kids) as [|nk sk IHs]; [reflexivity|]. cbn [map flat_map snd]. rewrite map_app, (IHs (fun nk' Hin => IH' nk' (or_intror Hin))).
      rewrite (IH' nk (or_introl eq_refl)). reflexivity. }
    destruct h as [hh|]; cbn [option_map]; rewrite Hk; [rewrite map_app; reflexivity|reflexivity].
  Qed.
  Lemma mh_id : forall t p, (forall q hh, is_prefix p q = true -> f q hh = hh) -> mh p t = t.
  Proof.
    induction t as [c|h kids IH] using node_ind'; intros p Hf; [reflexivity|]. rewrite mh_dir. f_equal.
    - destruct h as [hh|]; [|reflexivity]. cbn [option_map]. rewrite (Hf p hh); [reflexivity|]. apply is_prefix_spec. exists []. rewrite app_nil_r. reflexivity.
    - rewrite Forall_forall in IH. rewrite <- (map_id kids) at 2. apply map_ext_in. intros [n k] Hin. cbn [fst snd]. f_equal.
      apply (IH (n, k) Hin). intros q hh Hq. apply Hf. apply is_prefix_spec in Hq. destruct Hq as [s0 ->]. apply is_prefix_spec. exists (n :: s0). rewrite <- app_assoc. reflexivity.
  Qed.
End Reload.

(* ---- set_hist is a replacement of one history value ---- *)
Section SetHist.
  Variable C : Type.
  Notation node := (node C).
  Notation hist := (hist C).
  Definition at_path (target : path) (newh : hist) (q : path) (hh : hist) : hist := if path_eqb q target then newh else hh.

  Lemma upd_kid_map n (G : node -> node) (kids : list (text * node)) : NoDup (map fst kids) -> In n (map fst kids) ->
    upd_kid C n (fun o => Some (G (match o with Some k => k | None => Dir None [] end))) kids
    = map (fun nk => (fst nk, if text_eqb (fst nk) n then G (snd nk) else snd nk)) kids.
  Proof.
    induction kids as [|[m k] ks IH]; intros Hn Hin; [destruct Hin|]. cbn [map fst] in Hn. inversion Hn as [|? ? Hm Hn']; subst.
    cbn [upd_kid map fst snd]. destruct (text_eqb_spec n m) as [->|Hne].
    - rewrite text_eqb_refl. f_equal. rewrite <- (map_id ks) at 1. apply map_ext_in. intros [m' k'] Hin'. cbn [fst snd].
      destruct (text_eqb_spec m' m) as [->|]; [exfalso; apply Hm; apply in_map_iff; exists (m, k'); auto|reflexivity].
    - destruct (text_eqb_spec m n) as [E|_]; [congruence|]. f_equal. apply IH; [exact Hn'|]. destruct Hin as [E|Hin]; [cbn in E; congruence|exact Hin].
  Qed.

  Theorem set_hist_mh : forall k (t : node) p newh, wf_tree C t -> get_hist C t k <> None ->
    set_hist C k newh t = mh C (at_path (p ++ k) newh) p t.
  Proof.
    induction k as [|n k IH]; intros t p newh Hw Hg.
    - unfold get_hist in Hg. cbn [get] in Hg. destruct t as [c|[hh|] kids]; try congruence.
      unfold set_hist. cbn [alter]. rewrite mh_dir. cbn [option_map]. unfold at_path at 1. rewrite app_nil_r, path_eqb_refl. f_equal.
      rewrite <- (map_id kids) at 1. apply map_ext_in. intros [m km] Hin. cbn [fst snd]. f_equal. symmetry. apply mh_id.
      intros q hh0 Hq. unfold at_path. destruct (path_eqb_spec q p) as [E|]; [|reflexivity]. exfalso.
      subst q. apply is_prefix_spec in Hq. destruct Hq as [s0 E]. apply (f_equal (@length text)) in E. rewrite !app_length in E. cbn in E. lia.
    - unfold get_hist in Hg. destruct t as [c|h kids]; [cbn in Hg; congruence|].
      cbn [get] in Hg. destruct (lookup_kid C n kids) as [kid|] eqn:El; [|congruence].
      inversion Hw as [|? ? Hnames Hkids]; subst.
      assert (Hnin : In n (map fst kids)).
      { clear -El. induction kids as [|[m k0] ks IHk]; [discriminate|]. cbn in El. destruct (text_eqb_spec n m) as [->|]; [left; reflexivity|right; apply IHk; exact El]. }
      assert (Hkid : In (n, kid) kids).
      { clear -El. induction kids as [|[m k0] ks IHk]; [discriminate|]. cbn in El. destruct (text_eqb_spec n m) as [->|]; [injection El as ->; left; reflexivity|right; apply IHk; exact El]. }
      set (g := fun o : option node => match o with Some (Dir _ kk) => Some (Dir (Some newh) kk) | o' => o' end).
      assert (Halt : set_hist C (n :: k) newh (Dir h kids)
                     = Dir h (upd_kid C n (fun o => Some (alter C k g (match o with Some x => x | None => Dir None [] end))) kids)).
      { unfold set_hist. fold g. destruct k as [|n2 k2]; [|reflexivity]. cbn [alter].
        f_equal. clear -Hnin. induction kids as [|[m k0] ks IHk]; [destruct Hnin|]. cbn [upd_kid]. destruct (text_eqb_spec n m) as [->|Hne].
        - unfold g. destruct k0 as [c0|h0 kk0]; reflexivity.
        - f_equal. apply IHk. destruct Hnin as [E|H]; [cbn in E; congruence|exact H]. }
      rewrite Halt, (upd_kid_map n (alter C k g) kids Hnames Hnin), mh_dir. f_equal.
      + destruct h as [hh|]; [|reflexivity]. cbn [option_map]. unfold at_path. destruct (path_eqb_spec p (p ++ n :: k)) as [E|]; [|reflexivity].
        exfalso. apply (f_equal (@length text)) in E. rewrite app_length in E. cbn in E. lia.
      + apply map_ext_in. intros [m km] Hin. cbn [fst snd]. f_equal. destruct (text_eqb_spec m n) as [->|Hne].
        * assert (Epair : (n, km) = (n, kid)) by (apply (NoDup_key_inj (@fst text node) kids); auto). injection Epair as ->.
          rewrite Forall_forall in Hkids. change (alter C k g kid) with (set_hist C k newh kid).
          rewrite (IH kid (p ++ [n]) newh (Hkids (n, kid) Hkid)); [rewrite <- app_assoc; reflexivity|unfold get_hist; exact Hg].
        * symmetry. apply mh_id. intros q hh0 Hq. unfold at_path. destruct (path_eqb_spec q (p ++ n :: k)) as [E|]; [|reflexivity]. exfalso.
          subst q. apply is_prefix_spec in Hq. destruct Hq as [s0 E]. rewrite <- app_assoc in E. apply app_inv_head in E. cbn in E. congruence.
  Qed.
End SetHist.

(* ---- a commit keeps the chain check of the history it extends ---- *)
From MHL Require Import Proofs.HistFacts Proofs.CommitSetFacts.
Section CheckAfterCommit.
  Variable C : Type.
  Variable cdig : C -> text.
  Variable ser : gen -> C.
  Notation hist := (hist C).

  Lemma check_entries_more_files files more : forall ces, check_entries C cdig files ces = None -> check_entries C cdig (files ++ more) ces = None.
  Proof.
    induction ces as [|ce ces IH]; intros H; [reflexivity|]. cbn [check_entries] in *.
    destruct (find (fun m => N.eqb (mf_no C m) (ce_file ce)) files) as [m|] eqn:Ef; [|discriminate].
    rewrite (find_app_l _ _ more _ Ef). destruct (text_eqb (cdig (mf_content C m)) (ce_digest ce)); [apply IH; exact H|discriminate].
  Qed.
  Lemma check_entries_app files : forall a b, check_entries C cdig files a = None -> check_entries C cdig files (a ++ b) = check_entries C cdig files b.
  Proof.
    induction a as [|ce a IH]; intros b H; [reflexivity|]. cbn [check_entries app] in *.
    destruct (find _ files) as [m|]; [|discriminate]. destruct (text_eqb _ _); [apply IH; exact H|discriminate].
  Qed.
  Lemma find_none_app {A} (g : A -> bool) l x : (forall y, In y l -> g y = false) -> g x = true -> find g (l ++ [x]) = Some x.
  Proof. induction l as [|y l IH]; intros Hn Hx; cbn [app find]; [rewrite Hx; reflexivity|]. rewrite (Hn y (or_introl eq_refl)). apply IH; [intros z Hz; apply Hn; right; exact Hz|exact Hx]. Qed.

  Theorem check_after_commit (old : hist) doc : check_chain C cdig old = None ->
    (forall m, In m (h_files C old) -> mf_no C m <> g_no doc) -> check_chain C cdig (after_commit C cdig ser old doc) = None.
  Proof.
    unfold check_chain, after_commit. destruct (h_chain C old) as [ces|]; [|discriminate]. cbn [h_chain h_files]. intros Hc Hn.
    rewrite (check_entries_app _ ces _ (check_entries_more_files _ _ ces Hc)). cbn [check_entries ce_file ce_digest].
    rewrite find_none_app; [cbn [mf_content]; rewrite text_eqb_refl; reflexivity| |cbn [mf_no]; apply N.eqb_refl].
    intros m Hm. apply N.eqb_neq. apply Hn. exact Hm.
  Qed.

  (* the new number is above every existing one: generations are loaded in ascending order and the latest number is the last *)
  Lemma latest_is_max : forall gens acc, Sorted.Sorted (le gen_leb) gens -> (forall g, In g gens -> (acc <= g_no g)%N) ->
    let r := fold_left (fun a g => if N.eqb (g_no g) 0 then a else g_no g) gens acc in
    (acc <= r)%N /\ forall g, In g gens -> (g_no g <= r)%N.
  Proof.
    induction gens as [|g gens IH]; intros acc Hs Hacc; cbn [fold_left]; [split; [lia|intros g []]|].
    assert (Hacc' : (if N.eqb (g_no g) 0 then acc else g_no g) = g_no g).
    { destruct (N.eqb_spec (g_no g) 0) as [E|]; [|reflexivity]. pose proof (Hacc g (or_introl eq_refl)). lia. }
    rewrite Hacc'. inversion Hs as [|? ? Hs' Hhd]; subst.
    assert (Hall : forall g', In g' gens -> (g_no g <= g_no g')%N).
    { clear -Hs' Hhd. induction gens as [|x l IHl]; intros g' Hin; [destruct Hin|]. inversion Hhd as [|? ? Hle]; subst. unfold le, gen_leb in Hle. apply N.leb_le in Hle.
      destruct Hin as [<-|Hin]; [exact Hle|]. inversion Hs' as [|? ? Hs'' Hhd']; subst.
      assert (Hx : forall y, In y l -> (g_no x <= g_no y)%N).
      { clear -Hs'' Hhd'. induction l as [|z l IHz]; intros y Hy; [destruct Hy|]. inversion Hhd' as [|? ? Hle2]; subst. unfold le, gen_leb in Hle2. apply N.leb_le in Hle2.
        destruct Hy as [<-|Hy]; [exact Hle2|]. inversion Hs'' as [|? ? Hs3 Hhd3]; subst. pose proof (IHz Hs3) as IH3.
        assert (HdR : Sorted.HdRel (le gen_leb) x l) by (destruct l as [|w l']; [constructor|constructor; inversion Hhd3 as [|? ? Hle3]; subst; unfold le, gen_leb in *; apply N.leb_le; apply N.leb_le in Hle3; lia]).
        specialize (IH3 HdR y Hy). exact IH3. }
      specialize (Hx g' Hin). lia. }
    destruct (IH (g_no g) Hs' Hall) as [A B]. cbn zeta in A, B. split; [pose proof (Hacc g (or_introl eq_refl)); lia|].
    intros g' [<-|Hin]; [exact A|apply B; exact Hin].
  Qed.
  Theorem new_number_is_fresh (old : hist) m : In m (h_files C old) -> mf_no C m <> (latest_generation_number (loaded_gens C old) + 1)%N.
  Proof.
    intros Hm. unfold latest_generation_number.
    destruct (latest_is_max (loaded_gens C old) 0%N (reload_sorted_any_order C old) (fun g _ => N.le_0_l _)) as [_ B]. cbn zeta in B.
    assert (Hg : In (mkGen (mf_no C m) (g_records (mf_doc C m)) (g_root (mf_doc C m)) (g_patterns (mf_doc C m)) (g_refs (mf_doc C m)) (g_process (mf_doc C m))) (loaded_gens C old)).
    { unfold loaded_gens. apply sort_In. apply in_map_iff. exists m. auto. }
    specialize (B _ Hg). cbn [g_no] in B. lia.
  Qed.
End CheckAfterCommit.

(* ---- reloading a tree whose history values were replaced ---- *)
Section ReloadTree.
  Variable C : Type.
  Variable cdig : C -> text.
  Notation node := (node C).
  Notation hist := (hist C).

  Theorem load_skeleton h kids :
    (forall l, load C cdig (Dir h kids) = inl l ->
       (match h with Some hh => check_chain C cdig hh = None | None => True end) /\
       Forall (chk C cdig) (dstruct C [] [] (Dir None kids)) /\
       l = map (mk C) (dstruct C [] [] (Dir None kids)) ++ [lhist_of C [] None h]) /\
    ((match h with Some hh => check_chain C cdig hh = None | None => True end) ->
     Forall (chk C cdig) (dstruct C [] [] (Dir None kids)) ->
     load C cdig (Dir h kids) = inl (map (mk C) (dstruct C [] [] (Dir None kids)) ++ [lhist_of C [] None h])).
  Proof.
    rewrite load_dir. pose proof (discover_dir C cdig [] [] None kids) as Hd. cbn beta iota in Hd.
    destruct (discover_skeleton C cdig (Dir None kids) [] []) as [S1 S2]. rewrite Hd in S1, S2. split.
    - intros l Hl. destruct (match h with Some hh => check_chain C cdig hh | None => None end) eqn:Ec; [discriminate|].
      destruct (combine_results _) as [below|e] eqn:Eb; [|discriminate]. injection Hl as <-.
      destruct (S2 below eq_refl) as [F ->]. split; [destruct h; [exact Ec|exact I]|]. split; [exact F|reflexivity].
    - intros Hc Hf. assert (Ec : match h with Some hh => check_chain C cdig hh | None => None end = None) by (destruct h; [exact Hc|reflexivity]).
      rewrite Ec, (S1 Hf). reflexivity.
  Qed.

  (* replace the history values by f (the root's by f []): the same histories in the same order with the new values *)
  Theorem load_mh (f : path -> hist -> hist) h kids l :
    (forall q hh, check_chain C cdig hh = None -> check_chain C cdig (f q hh) = None) ->
    load C cdig (Dir h kids) = inl l ->
    load C cdig (mh C f [] (Dir h kids)) =
      inl (map (mk C) (map (fx C f) (dstruct C [] [] (Dir None kids))) ++ [lhist_of C [] None (option_map (f []) h)]) /\
    l = map (mk C) (dstruct C [] [] (Dir None kids)) ++ [lhist_of C [] None h].
  Proof.
    intros Hf Hl. destruct (load_skeleton h kids) as [A _]. destruct (A l Hl) as [Hc [Hk ->]]. split; [|reflexivity].
    rewrite mh_dir.
    assert (Ek : dstruct C [] [] (Dir None (map (fun nk => (fst nk, mh C f ([] ++ [fst nk]) (snd nk))) kids)) = map (fx C f) (dstruct C [] [] (Dir None kids))).
    { rewrite <- (dstruct_mh C f (Dir None kids) [] []). rewrite mh_dir. reflexivity. }
    destruct (load_skeleton (option_map (f []) h) (map (fun nk => (fst nk, mh C f ([] ++ [fst nk]) (snd nk))) kids)) as [_ B].
    rewrite Ek in B. apply B.
    - destruct h as [hh|]; [cbn [option_map]; apply Hf; exact Hc|exact I].
    - apply Forall_forall. intros x Hx. apply in_map_iff in Hx. destruct Hx as [y [<- Hy]]. rewrite Forall_forall in Hk. unfold chk, fx. cbn [snd]. apply Hf. apply (Hk y Hy).
  Qed.
End ReloadTree.

Section ReloadStep.
  Variable C : Type.
  Variable cdig : C -> text.
  Notation node := (node C).
  Notation hist := (hist C).

  Lemma lookup_kid_map n (G : text -> node -> node) (kids : list (text * node)) :
    lookup_kid C n (map (fun nk => (fst nk, G (fst nk) (snd nk))) kids) = option_map (G n) (lookup_kid C n kids).
  Proof.
    induction kids as [|[m k] ks IH]; [reflexivity|]. cbn [map lookup_kid fst snd]. destruct (text_eqb_spec n m) as [->|]; [reflexivity|exact IH].
  Qed.
  Lemma get_mh (f : path -> hist -> hist) : forall rel t p, get C (mh C f p t) rel = option_map (mh C f (p ++ rel)) (get C t rel).
  Proof.
    induction rel as [|n rel IH]; intros t p; [cbn; rewrite app_nil_r; reflexivity|].
    destruct t as [c|h kids]; [reflexivity|]. rewrite mh_dir. cbn [get].
    rewrite (lookup_kid_map n (fun m k => mh C f (p ++ [m]) k)). destruct (lookup_kid C n kids) as [k|]; [|reflexivity].
    cbn [option_map]. rewrite IH, <- app_assoc. reflexivity.
  Qed.
  Lemma get_hist_mh (f : path -> hist -> hist) rel t : get_hist C (mh C f [] t) rel = option_map (f rel) (get_hist C t rel).
  Proof.
    unfold get_hist. rewrite get_mh. cbn [app]. destruct (get C t rel) as [[c|h kids]|]; [reflexivity| |reflexivity].
    cbn [option_map]. rewrite mh_dir. reflexivity.
  Qed.
  Lemma wf_mh (f : path -> hist -> hist) : forall t p, wf_tree C t -> wf_tree C (mh C f p t).
  Proof.
    induction t as [c|h kids IH] using node_ind'; intros p Hw; [constructor|]. inversion Hw as [|? ? Hn Hk]; subst. rewrite mh_dir. constructor.
    - rewrite map_map. cbn [fst]. exact Hn.
    - apply Forall_forall. intros x Hx. apply in_map_iff in Hx. destruct Hx as [[n k] [<- Hin]]. cbn [snd]. rewrite Forall_forall in IH, Hk. apply (IH (n, k) Hin). apply (Hk (n, k) Hin).
  Qed.

  Definition updl (k : path) (newh : hist) (x : lhist) : lhist :=
    if path_eqb (lh_root x) k then lhist_of C k (lh_parent x) (Some newh) else x.

  (* one history value replaced: the reload shows the same list with that one history re-read *)
  Theorem reload_set_hist h kids k newh l :
    wf_tree C (Dir h kids) -> load C cdig (Dir h kids) = inl l -> get_hist C (Dir h kids) k <> None ->
    check_chain C cdig newh = None ->
    load C cdig (set_hist C k newh (Dir h kids)) = inl (map (updl k newh) l).
  Proof.
    intros Hw Hl Hg Hc. rewrite (set_hist_mh C k (Dir h kids) [] newh Hw Hg). cbn [app].
    destruct (load_mh C cdig (at_path C k newh) h kids l) as [E ->]; [|exact Hl|].
    { intros q hh Hq. unfold at_path. destruct (path_eqb q k); assumption. }
    rewrite E, map_app, !map_map. cbn [map]. apply f_equal. apply f_equal2.
    - apply map_ext. intros [[q par] hh]. unfold mk, fx, updl, at_path. cbn [fst snd lh_root lhist_of lh_parent].
      destruct (path_eqb_spec q k) as [->|]; reflexivity.
    - apply f_equal2; [|reflexivity]. unfold updl, at_path. destruct h as [hh|]; cbn [option_map lh_root lhist_of lh_parent].
      + destruct (path_eqb_spec [] k) as [<-|]; reflexivity.
      + destruct (path_eqb_spec [] k) as [<-|]; [|reflexivity]. exfalso. apply Hg. reflexivity.
  Qed.
  (* ... and the folder's own history coming into being (the first generation of a tree without history at the root) *)
  Theorem reload_new_root_hist kids newh l :
    load C cdig (Dir None kids) = inl l -> check_chain C cdig newh = None ->
    load C cdig (set_hist C [] newh (Dir None kids)) = inl (map (updl [] newh) l).
  Proof.
    intros Hl Hc. destruct (load_skeleton C cdig None kids) as [A _]. destruct (A l Hl) as [_ [Hk ->]].
    unfold set_hist. cbn [alter]. destruct (load_skeleton C cdig (Some newh) kids) as [_ B]. rewrite (B Hc Hk).
    rewrite map_app. cbn [map]. apply f_equal. apply f_equal2.
    - rewrite <- (map_id (map (mk C) _)) at 1. apply map_ext_in. intros x Hx. apply in_map_iff in Hx. destruct Hx as [[[q par1] hh] [<- Hin]].
      unfold updl, mk. cbn [fst snd lh_root lhist_of]. destruct (path_eqb_spec q []) as [->|]; [|reflexivity].
      (* no nested history sits at the root path *)
      exfalso.
      { clear -Hin. rewrite dstruct_dir in Hin. apply in_flat_map in Hin. destruct Hin as [[n l0] [Hx Hin]]. apply sort_In in Hx. unfold kid_structs in Hx. apply in_map_iff in Hx.
        destruct Hx as [[n0 k0] [E Hk0]]. injection E as <- <-. cbn [snd fst] in Hin.
        assert (Hpre : forall t p par x, In x (dstruct C p par t) -> exists rel, fst (fst x) = p ++ rel).
        { induction t as [c|h0 ks IH] using node_ind'; intros p par x Hx; [destruct Hx|]. rewrite dstruct_dir in Hx.
          assert (Hsub : forall par0, In x (flat_map (fun y => snd y) (sort name_leb (kid_structs C p par0 ks))) -> exists rel, fst (fst x) = p ++ rel).
          { intros par0 H. apply in_flat_map in H. destruct H as [[m lm] [Hm Hxm]]. apply sort_In in Hm. unfold kid_structs in Hm. apply in_map_iff in Hm.
            destruct Hm as [[m0 km] [E Hkm]]. injection E as <- <-. cbn [snd fst] in Hxm. rewrite Forall_forall in IH.
            destruct (IH (m0, km) Hkm _ _ _ Hxm) as [rel Er]. exists (m0 :: rel). rewrite Er, <- app_assoc. reflexivity. }
          destruct h0 as [hh0|]; [|apply (Hsub par); exact Hx]. apply in_app_or in Hx. destruct Hx as [Hx|[<-|[]]]; [apply (Hsub p); exact Hx|]. exists []. cbn. rewrite app_nil_r. reflexivity. }
        destruct (Hpre k0 ([] ++ [n0]) [] _ Hin) as [rel Er]. cbn [fst app] in Er. discriminate Er. }
    - reflexivity.
  Qed.
End ReloadStep.

(* ---- the whole commit: what the next command reads after a create run, for any nesting of histories ---- *)
Section SortSnoc.
  Context {A : Type} (leb : A -> A -> bool).
  Lemma insert_snoc y x : leb y x = true -> forall s, insert leb y (s ++ [x]) = insert leb y s ++ [x].
  Proof.
    intros H. induction s as [|z s IH]; cbn [app insert]; [rewrite H; reflexivity|].
    destruct (leb y z); [reflexivity|]. rewrite IH. reflexivity.
  Qed.
  Lemma sort_snoc x : forall l, (forall y, In y l -> leb y x = true) -> sort leb (l ++ [x]) = sort leb l ++ [x].
  Proof.
    unfold sort. induction l as [|y l IH]; intros H; [reflexivity|]. cbn [app fold_right].
    rewrite IH by (intros z Hz; apply H; right; exact Hz). apply insert_snoc. apply H. left. reflexivity.
  Qed.
End SortSnoc.

Section LoadElems.
  Variable C : Type.
  Variable cdig : C -> text.
  Notation node := (node C).
  Notation hist := (hist C).

  Lemma dstruct_get_hist : forall (t : node) p par x, wf_tree C t -> In x (dstruct C p par t) ->
    exists rel, fst (fst x) = p ++ rel /\ get_hist C t rel = Some (snd x).
  Proof.
    induction t as [c|h0 ks IH] using node_ind'; intros p par x Hw Hx; [destruct Hx|]. rewrite dstruct_dir in Hx.
    inversion Hw as [|? ? Hnames Hkids]; subst.
    assert (Hsub : forall par0, In x (flat_map (fun y => snd y) (sort name_leb (kid_structs C p par0 ks))) ->
                   exists rel, fst (fst x) = p ++ rel /\ get_hist C (Dir h0 ks) rel = Some (snd x)).
    { intros par0 H. apply in_flat_map in H. destruct H as [[m lm] [Hm Hxm]]. apply sort_In in Hm. unfold kid_structs in Hm. apply in_map_iff in Hm.
      destruct Hm as [[m0 km] [E Hkm]]. injection E as <- <-. cbn [snd fst] in Hxm. rewrite Forall_forall in IH, Hkids.
      destruct (IH (m0, km) Hkm _ _ _ (Hkids (m0, km) Hkm) Hxm) as [rel [Er Hg]]. exists (m0 :: rel). split; [rewrite Er, <- app_assoc; reflexivity|].
      unfold get_hist in *. cbn [get]. rewrite (lookup_kid_In' C m0 km ks Hnames Hkm). exact Hg. }
    destruct h0 as [hh0|]; [|apply (Hsub par); exact Hx]. apply in_app_or in Hx. destruct Hx as [Hx|[<-|[]]]; [apply (Hsub p); exact Hx|].
    exists []. cbn [fst snd]. split; [rewrite app_nil_r; reflexivity|reflexivity].
  Qed.

  (* every element of the loaded list is the reading of the history that sits at its root *)
  Theorem load_elems h kids l : wf_tree C (Dir h kids) -> load C cdig (Dir h kids) = inl l ->
    forall x, In x l -> x = lhist_of C (lh_root x) (lh_parent x) (get_hist C (Dir h kids) (lh_root x)) /\
                        (lh_root x <> [] -> get_hist C (Dir h kids) (lh_root x) <> None) /\
                        (lh_root x = [] -> lh_parent x = None) /\
                        (forall old, get_hist C (Dir h kids) (lh_root x) = Some old -> check_chain C cdig old = None).
  Proof.
    intros Hw Hl x Hx. destruct (load_skeleton C cdig h kids) as [A _]. destruct (A l Hl) as [Hroot [Hchk ->]].
    apply in_app_or in Hx. destruct Hx as [Hx|[<-|[]]].
    - apply in_map_iff in Hx. destruct Hx as [[[q par] hh] [<- Hin]].
      assert (Hw' : wf_tree C (Dir None kids)) by (inversion Hw; constructor; assumption).
      destruct (dstruct_get_hist _ _ _ _ Hw' Hin) as [rel [Er Hg]]. cbn [fst snd app] in Er, Hg. subst q.
      assert (Hrel : rel <> []).
      { intros ->. unfold get_hist in Hg. cbn in Hg. discriminate. }
      assert (Hg' : get_hist C (Dir h kids) rel = Some hh).
      { destruct rel as [|n rel]; [congruence|]. unfold get_hist in *. cbn [get] in *. exact Hg. }
      unfold mk. cbn [fst snd lh_root lh_parent lhist_of]. rewrite Hg'. split; [reflexivity|]. split; [intros _; discriminate|]. split; [intros E; congruence|].
      intros old E. injection E as <-. rewrite Forall_forall in Hchk. apply (Hchk _ Hin).
    - destruct h as [hh|]; cbn [lhist_of lh_root lh_parent]; (split; [reflexivity|]); (split; [intros E; congruence|]); (split; [reflexivity|]);
        intros old E; unfold get_hist in E; cbn in E; [injection E as <-; exact Hroot|discriminate].
  Qed.
End LoadElems.

Section ReloadCommit.
  Variable C : Type.
  Variable cdig : C -> text.
  Variable ser : gen -> C.
  Variable proc : process.
  Variable sess : session.
  Variable sp : list text.
  Notation node := (node C).
  Notation hist := (hist C).
  Notation step := (commit_one C cdig ser proc sess sp).

  Definition hist_or_empty (t : node) (k : path) : hist := match get_hist C t k with Some x => x | None => mkHist C [] None end.

  Lemma step_shape cs h : cs_abort C cs = false -> cs_abort C (step cs h) = false ->
    step cs h = cs \/
    exists doc, g_no doc = (latest_generation_number (lh_gens h) + 1)%N /\
      cs_tree C (step cs h) = set_hist C (lh_root h)
          (mkHist C (h_files C (hist_or_empty (cs_tree C cs) (lh_root h)) ++ [mkMfile C (g_no doc) (ser doc) doc])
                    (Some (lh_chain h ++ [mkCentry (g_no doc) (g_no doc) (cdig (ser doc))]))) (cs_tree C cs) /\
      cs_written C (step cs h) = cs_written C cs ++ [(lh_root h, doc)].
  Proof.
    intros Ha. unfold commit_one. rewrite Ha.
    destruct (sess_get sess (lh_root h)) as [v|] eqn:Es.
    - destruct (validate_records (nl_records v)) as [recs|]; [|cbn; discriminate]. intros _. right.
      eexists. cbn [cs_tree cs_written]. split; [|split]; [| |reflexivity]; reflexivity.
    - destruct (refs_get (cs_refs C cs) (lh_root h)) as [|r0 rs] eqn:Er; [intros _; left; reflexivity|].
      cbn [nl_records validate_records]. intros _. right. eexists. cbn [cs_tree cs_written]. split; [|split]; [| |reflexivity]; reflexivity.
  Qed.

  (* a history as the next command reads it after this run wrote generation `doc` into it *)
  Definition grown (x : lhist) (doc : gen) : lhist :=
    mkLhist (lh_root x) (lh_parent x) (lh_gens x ++ [doc]) (lh_chain x ++ [mkCentry (g_no doc) (g_no doc) (cdig (ser doc))]) true.
  Definition fin (w : list (path * gen)) (x : lhist) : lhist :=
    match find (fun e => path_eqb (fst e) (lh_root x)) w with Some e => grown x (snd e) | None => x end.
  Lemma fin_root w x : lh_root (fin w x) = lh_root x.
  Proof. unfold fin. destruct (find _ w); reflexivity. Qed.
  Lemma fin_parent w x : lh_parent (fin w x) = lh_parent x.
  Proof. unfold fin. destruct (find _ w); reflexivity. Qed.
  Lemma fin_unwritten w x : ~ In (lh_root x) (map fst w) -> fin w x = x.
  Proof.
    intros H. unfold fin. destruct (find _ w) as [e|] eqn:E; [|reflexivity]. exfalso. apply find_some in E. destruct E as [Hin He].
    apply H. apply in_map_iff. exists e. split; [|exact Hin]. destruct (path_eqb_spec (fst e) (lh_root x)); [assumption|discriminate].
  Qed.

  Lemma eta_gen d : mkGen (g_no d) (g_records d) (g_root d) (g_patterns d) (g_refs d) (g_process d) = d.
  Proof. destruct d; reflexivity. Qed.

  (* the history value one commit leaves, read back: the generations it had plus the new one, the chain plus one entry *)
  Lemma reread_after_commit k par (old : option hist) doc :
    let x := lhist_of C k par old in
    let o := match old with Some o => o | None => mkHist C [] None end in
    g_no doc = (latest_generation_number (lh_gens x) + 1)%N ->
    lhist_of C k par (Some (mkHist C (h_files C o ++ [mkMfile C (g_no doc) (ser doc) doc])
                                      (Some (lh_chain x ++ [mkCentry (g_no doc) (g_no doc) (cdig (ser doc))])))) = grown x doc.
  Proof.
    intros x o Hno. unfold grown, lhist_of at 1. cbn [h_chain lh_root lh_parent]. f_equal; [destruct old; reflexivity|destruct old; reflexivity|].
    unfold loaded_gens. cbn [h_files]. rewrite map_app. cbn [map mf_doc mf_no]. rewrite eta_gen.
    assert (Eg : lh_gens x = sort gen_leb (map (fun m => let d := mf_doc C m in mkGen (mf_no C m) (g_records d) (g_root d) (g_patterns d) (g_refs d) (g_process d)) (h_files C o))).
    { subst x o. destruct old; reflexivity. }
    rewrite Eg. apply sort_snoc. intros y Hy. unfold gen_leb. apply N.leb_le.
    assert (Hy' : In y (lh_gens x)) by (rewrite Eg; apply sort_In; exact Hy).
    rewrite Hno. unfold latest_generation_number.
    assert (Hs : Sorted.Sorted (le gen_leb) (lh_gens x)) by (rewrite Eg; exact (reload_sorted_any_order C o)).
    destruct (latest_is_max (lh_gens x) 0%N Hs (fun g _ => N.le_0_l _)) as [_ B]. cbn zeta in B. specialize (B y Hy'). eapply N.le_trans; [exact B|apply N.le_add_r].
  Qed.

  Lemma find_snoc_nomatch {A} (g : A -> bool) l e : g e = false -> find g (l ++ [e]) = find g l.
  Proof. intros H. induction l as [|y l IH]; cbn [app find]; [rewrite H; reflexivity|]. destruct (g y); [reflexivity|exact IH]. Qed.
  Lemma NoDup_map_eq {A B} (f : A -> B) : forall l a b, NoDup (map f l) -> In a l -> In b l -> f a = f b -> a = b.
  Proof.
    induction l as [|y l IH]; intros a b Hn Ha Hb E; [destruct Ha|]. cbn in Hn. inversion Hn as [|? ? Hy Hn']; subst.
    destruct Ha as [<-|Ha], Hb as [<-|Hb]; [reflexivity| | |apply IH; assumption].
    - exfalso. apply Hy. rewrite E. apply in_map. exact Hb.
    - exfalso. apply Hy. rewrite <- E. apply in_map. exact Ha.
  Qed.

  Lemma check_first_generation doc : check_chain C cdig (mkHist C [mkMfile C (g_no doc) (ser doc) doc] (Some [mkCentry (g_no doc) (g_no doc) (cdig (ser doc))])) = None.
  Proof. unfold check_chain. cbn [h_chain h_files check_entries find mf_no ce_file]. rewrite N.eqb_refl. cbn [mf_content ce_digest]. rewrite text_eqb_refl. reflexivity. Qed.

  Definition cinv (hs done : list lhist) (cs : commit_state C) : Prop :=
    (exists h' kids', cs_tree C cs = Dir h' kids') /\ wf_tree C (cs_tree C cs) /\
    load C cdig (cs_tree C cs) = inl (map (fin (cs_written C cs)) hs) /\
    (forall r, In r (map fst (cs_written C cs)) -> In r (map lh_root done)).

  Lemma cinv_step hs done h todo cs : hs = done ++ h :: todo -> NoDup (map lh_root hs) ->
    cs_abort C cs = false -> cs_abort C (step cs h) = false -> cinv hs done cs -> cinv hs (done ++ [h]) (step cs h).
  Proof.
    intros Ehs Hnd Ha Ha' [[h' [kids' Et]] [Hw [Hl Hwr]]].
    destruct (step_shape cs h Ha Ha') as [->|[doc [Hno [Etree Ewr]]]].
    { split; [eauto|]. split; [exact Hw|]. split; [exact Hl|]. intros r Hr. rewrite map_app. apply in_or_app. left. apply Hwr. exact Hr. }
    assert (Hin : In h hs) by (rewrite Ehs; apply in_or_app; right; left; reflexivity).
    assert (Hunw : ~ In (lh_root h) (map fst (cs_written C cs))).
    { intros Hr. apply Hwr in Hr. rewrite Ehs, map_app in Hnd. cbn [map] in Hnd. eapply NoDup_app_disjoint; [exact Hnd|exact Hr|left; reflexivity]. }
    assert (Hfin : fin (cs_written C cs) h = h) by (apply fin_unwritten; exact Hunw).
    assert (Hin' : In h (map (fin (cs_written C cs)) hs)) by (rewrite <- Hfin; apply in_map; exact Hin).
    rewrite Et in Hw, Hl.
    destruct (load_elems C cdig h' kids' _ Hw Hl h Hin') as [Eh [Hne [Hpar Hchk]]].
    rewrite Et in Etree. unfold hist_or_empty in Etree.
    set (old_o := get_hist C (Dir h' kids') (lh_root h)) in *.
    pose proof (reread_after_commit (lh_root h) (lh_parent h) old_o doc) as R. cbn zeta in R. rewrite <- Eh in R. specialize (R Hno).
    set (newh := mkHist C (h_files C match old_o with Some x => x | None => mkHist C [] None end ++ [mkMfile C (g_no doc) (ser doc) doc])
                         (Some (lh_chain h ++ [mkCentry (g_no doc) (g_no doc) (cdig (ser doc))]))) in *.
    assert (Hcheck : check_chain C cdig newh = None).
    { subst newh. destruct old_o as [old|] eqn:Eo.
      - assert (Ec : lh_chain h = match h_chain C old with Some c => c | None => [] end) by (rewrite Eh; reflexivity).
        assert (Eg : lh_gens h = loaded_gens C old) by (rewrite Eh; reflexivity).
        rewrite Ec. apply (check_after_commit C cdig ser old doc (Hchk old eq_refl)).
        intros m Hm. rewrite Hno, Eg. apply new_number_is_fresh. exact Hm.
      - assert (Ec : lh_chain h = []) by (rewrite Eh; reflexivity). rewrite Ec. cbn [h_files app]. apply check_first_generation. }
    assert (Hload : load C cdig (set_hist C (lh_root h) newh (Dir h' kids')) = inl (map (updl C (lh_root h) newh) (map (fin (cs_written C cs)) hs)) /\
                    wf_tree C (set_hist C (lh_root h) newh (Dir h' kids')) /\
                    exists h2 kids2, set_hist C (lh_root h) newh (Dir h' kids') = Dir h2 kids2).
    { destruct old_o as [old|] eqn:Eo.
      - assert (Hg : get_hist C (Dir h' kids') (lh_root h) <> None) by (fold old_o; rewrite Eo; discriminate).
        split; [apply reload_set_hist; assumption|]. rewrite (set_hist_mh C (lh_root h) (Dir h' kids') [] newh Hw Hg).
        split; [apply wf_mh; exact Hw|]. rewrite mh_dir. eauto.
      - assert (Er : lh_root h = []).
        { destruct (lh_root h) as [|n r] eqn:E; [reflexivity|]. exfalso. apply Hne; [discriminate|reflexivity]. }
        rewrite Er in *. assert (h' = None) as -> by (subst old_o; unfold get_hist in Eo; rewrite Er in Eo; cbn in Eo; exact Eo).
        split; [apply reload_new_root_hist; assumption|]. unfold set_hist. cbn [alter].
        split; [inversion Hw; constructor; assumption|eauto]. }
    destruct Hload as [Hload [Hw2 Hshape]].
    split; [rewrite Etree; exact Hshape|]. split; [rewrite Etree; exact Hw2|]. split.
    - rewrite Etree, Hload, Ewr, map_map. apply f_equal. apply map_ext_in. intros x Hx. unfold updl. rewrite fin_root, fin_parent.
      destruct (path_eqb_spec (lh_root x) (lh_root h)) as [E|Hneq].
      + assert (x = h) as -> by (eapply NoDup_map_eq; eauto). rewrite R. unfold fin.
        rewrite find_none_app; [reflexivity| |cbn [fst]; apply path_eqb_refl].
        intros y Hy. destruct (path_eqb_spec (fst y) (lh_root h)) as [Ey|]; [|reflexivity]. exfalso. apply Hunw. rewrite <- Ey. apply in_map. exact Hy.
      + unfold fin. rewrite find_snoc_nomatch; [reflexivity|]. cbn [fst]. destruct (path_eqb_spec (lh_root h) (lh_root x)); [congruence|reflexivity].
    - intros r Hr. rewrite Ewr, map_app in Hr. rewrite map_app. apply in_app_or in Hr. apply in_or_app. destruct Hr as [Hr|[<-|[]]]; [left; apply Hwr; exact Hr|right; left; reflexivity].
  Qed.

  Lemma cinv_fold hs : NoDup (map lh_root hs) -> forall todo done cs, hs = done ++ todo -> cinv hs done cs ->
    cs_abort C (fold_left step todo cs) = false -> cinv hs hs (fold_left step todo cs).
  Proof.
    intros Hnd. induction todo as [|h todo IH]; intros done cs Ehs Hi Hab; cbn [fold_left] in *.
    - rewrite app_nil_r in Ehs. subst done. exact Hi.
    - assert (Ha : cs_abort C cs = false).
      { destruct (cs_abort C cs) eqn:E; [|reflexivity]. rewrite (fold_abort_mono C cdig ser proc sess sp todo (step cs h)) in Hab; [discriminate|]. rewrite step_aborted; assumption. }
      assert (Ha' : cs_abort C (step cs h) = false).
      { destruct (cs_abort C (step cs h)) eqn:E; [|reflexivity]. rewrite (fold_abort_mono C cdig ser proc sess sp todo _ E) in Hab. discriminate. }
      apply (IH (done ++ [h])); [rewrite <- app_assoc; exact Ehs| |exact Hab]. eapply cinv_step; eauto.
  Qed.

  (* C06 for any nesting of histories: after a create run that was not aborted, the next command reads every history
     exactly as this one read it, and each history the run wrote into with exactly one generation more -- the document
     written, under the next number, with one more chain entry carrying that document's digest *)
  Theorem reload_after_commit h0 kids hs :
    wf_tree C (Dir h0 kids) -> load C cdig (Dir h0 kids) = inl hs ->
    let cs := commit C cdig ser hs proc (Dir h0 kids) sess sp in
    cs_abort C cs = false ->
    load C cdig (cs_tree C cs) = inl (map (fin (cs_written C cs)) hs) /\
    (forall r doc, In (r, doc) (cs_written C cs) -> exists x, In x hs /\ lh_root x = r /\ g_no doc = (latest_generation_number (lh_gens x) + 1)%N) /\
    wf_tree C (cs_tree C cs) /\ (exists h' kids', cs_tree C cs = Dir h' kids').
  Proof.
    intros Hw Hl cs Hab. pose proof (load_roots_NoDup C cdig _ _ Hw Hl) as Hnd.
    assert (Hi : cinv hs [] (mkCS C (Dir h0 kids) [] [] [] false)).
    { split; [cbn; eauto|]. split; [exact Hw|]. split; [|intros r []]. cbn [cs_tree cs_written]. rewrite Hl. apply f_equal. symmetry. rewrite <- (map_id hs) at 2. apply map_ext. intros x. reflexivity. }
    destruct (cinv_fold hs Hnd hs [] _ eq_refl Hi Hab) as [Hshape [Hwf' [Hload _]]]. split; [exact Hload|].
    split; [|split; [exact Hwf'|exact Hshape]].
    (* the numbers *)
    clear Hload Hi Hshape Hwf'. subst cs. unfold commit in *. 
    assert (G : forall todo cs0, cs_abort C (fold_left step todo cs0) = false ->
                forall r doc, In (r, doc) (cs_written C (fold_left step todo cs0)) ->
                  In (r, doc) (cs_written C cs0) \/ exists x, In x todo /\ lh_root x = r /\ g_no doc = (latest_generation_number (lh_gens x) + 1)%N).
    { induction todo as [|h todo IH]; intros cs0 Hab0 r doc Hin; cbn [fold_left] in *; [left; exact Hin|].
      assert (Ha : cs_abort C cs0 = false).
      { destruct (cs_abort C cs0) eqn:E; [|reflexivity]. rewrite (fold_abort_mono C cdig ser proc sess sp todo (step cs0 h)) in Hab0; [discriminate|]. rewrite step_aborted; assumption. }
      assert (Ha' : cs_abort C (step cs0 h) = false).
      { destruct (cs_abort C (step cs0 h)) eqn:E; [|reflexivity]. rewrite (fold_abort_mono C cdig ser proc sess sp todo _ E) in Hab0. discriminate. }
      destruct (IH _ Hab0 r doc Hin) as [Hin0|[x [Hx [Er En]]]]; [|right; exists x; split; [right; exact Hx|auto]].
      destruct (step_shape cs0 h Ha Ha') as [E|[doc' [Hno [_ Ewr]]]]; [rewrite E in Hin0; left; exact Hin0|].
      rewrite Ewr in Hin0. apply in_app_or in Hin0. destruct Hin0 as [Hin0|[E|[]]]; [left; exact Hin0|]. injection E as <- <-.
      right. exists h. split; [left; reflexivity|auto]. }
    intros r doc Hin. destruct (G hs _ Hab r doc Hin) as [[]|H]; exact H.
  Qed.
End ReloadCommit.

(* ---- the two create commands, seen by the next command ---- *)
Section ReloadCreate.
  Variable Hb : fmt -> bytes -> bytes.
  Variable matches : list text -> text -> bool.
  Variable C : Type.
  Variable cdig : C -> text.
  Variable ser : gen -> C.

  Definition one_more (hs : list lhist) (w : list (path * gen)) (hs' : list lhist) : Prop :=
    hs' = map (fin C cdig ser w) hs /\
    forall r doc, In (r, doc) w -> exists x, In x hs /\ lh_root x = r /\ g_no doc = (latest_generation_number (lh_gens x) + 1)%N.

  Theorem create_folder_then_reload h0 kids hs req no_dh dr ip ifl t' o :
    wf_tree C (Dir h0 kids) -> load C cdig (Dir h0 kids) = inl hs ->
    create_folder Hb matches C cdig ser (Dir h0 kids) req no_dh dr ip ifl = (t', o) -> o_outcome o <> Abort ->
    exists hs', load C cdig t' = inl hs' /\ one_more hs (o_written o) hs' /\ wf_tree C t' /\ exists h' kids', t' = Dir h' kids'.
  Proof.
    intros Hw Hl Hc Hout. unfold create_folder in Hc. rewrite Hl in Hc.
    match type of Hc with context [fold_left ?f ?l ?i] => destruct (fold_left f l i) as [sess0 fails] end.
    match type of Hc with context [commit C cdig ser hs InPlace ?t ?s ?sp] => set (cs := commit C cdig ser hs InPlace t s sp) in * end.
    match type of Hc with context [dr_abort ?d] => set (drs := d) in * end.
    injection Hc as <- <-. cbn [o_outcome o_written] in *.
    destruct (cs_abort C cs) eqn:Ea; [exfalso; apply Hout; reflexivity|].
    destruct (dr_abort drs) eqn:Ed; [exfalso; apply Hout; reflexivity|].
    destruct (reload_after_commit C cdig ser InPlace _ _ h0 kids hs Hw Hl Ea) as [A [B [W S]]].
    eexists. split; [exact A|]. split; [split; [reflexivity|exact B]|]. split; [exact W|exact S].
  Qed.

  Theorem create_sf_then_reload h0 kids hs req sf ip ifl t' o :
    wf_tree C (Dir h0 kids) -> load C cdig (Dir h0 kids) = inl hs ->
    create_sf Hb matches C cdig ser (Dir h0 kids) req sf ip ifl = (t', o) -> o_outcome o <> Abort ->
    exists hs', load C cdig t' = inl hs' /\ one_more hs (o_written o) hs' /\ wf_tree C t' /\ exists h' kids', t' = Dir h' kids'.
  Proof.
    intros Hw Hl Hc Hout. unfold create_sf in Hc. rewrite Hl in Hc.
    match type of Hc with context [fold_left ?f ?l ?i] => destruct (fold_left f l i) as [[sess fails] dn] end.
    match type of Hc with context [commit C cdig ser hs InPlace ?t ?s ?sp] => set (cs := commit C cdig ser hs InPlace t s sp) in * end.
    injection Hc as <- <-. cbn [o_outcome o_written] in *.
    destruct (cs_abort C cs) eqn:Ea; [exfalso; apply Hout; reflexivity|].
    destruct (reload_after_commit C cdig ser InPlace _ _ h0 kids hs Hw Hl Ea) as [A [B [W S]]].
    eexists. split; [exact A|]. split; [split; [reflexivity|exact B]|]. split; [exact W|exact S].
  Qed.

  (* ---- any sequence of create runs ---- *)
  Inductive crun :=
  | RFolder (req : list fmt) (no_dh dr : bool) (ip ifl : list text)
  | RSf (req : list fmt) (sf : list path) (ip ifl : list text).
  Definition run1 (t : node C) (r : crun) : node C * obs :=
    match r with
    | RFolder req no_dh dr ip ifl => create_folder Hb matches C cdig ser t req no_dh dr ip ifl
    | RSf req sf ip ifl => create_sf Hb matches C cdig ser t req sf ip ifl
    end.
  Fixpoint runs (t : node C) (rs : list crun) : node C * list obs :=
    match rs with
    | [] => (t, [])
    | r :: rs' => let x := run1 t r in let '(t', os) := runs (fst x) rs' in (t', snd x :: os)
    end.
  (* a history as a later command reads it, after zero or more generations were added to it *)
  Inductive ext : lhist -> lhist -> Prop :=
  | ext_refl x : ext x x
  | ext_step x y doc : ext x y -> g_no doc = (latest_generation_number (lh_gens y) + 1)%N -> ext x (grown C cdig ser y doc).
  Lemma ext_prefix x y : ext x y -> lh_root y = lh_root x /\ lh_parent y = lh_parent x /\
    exists more morec, lh_gens y = lh_gens x ++ more /\ lh_chain y = lh_chain x ++ morec /\
      map ce_file morec = map g_no more /\ map ce_digest morec = map (fun d => cdig (ser d)) more /\
      map g_no more = map (fun i => (latest_generation_number (lh_gens x) + 1 + N.of_nat i)%N) (seq 0 (length more)).
  Proof.
    induction 1 as [x|x y doc He IH Hno].
    - split; [reflexivity|]. split; [reflexivity|]. exists [], []. rewrite !app_nil_r. repeat split; reflexivity.
    - destruct IH as [Er [Ep [more [morec [Eg [Ec [Ef [Ed En]]]]]]]]. cbn [grown lh_root lh_parent lh_gens lh_chain].
      split; [exact Er|]. split; [exact Ep|]. exists (more ++ [doc]), (morec ++ [mkCentry (g_no doc) (g_no doc) (cdig (ser doc))]).
      rewrite Eg, Ec, !app_assoc, !map_app, Ef, Ed. cbn [map ce_file ce_digest]. repeat split; try reflexivity.
      rewrite app_length, seq_app, map_app, <- En. cbn [length seq map plus]. f_equal. f_equal. rewrite Hno, Eg.
      (* the latest number of gens x ++ more *)
      assert (L : forall more0, map g_no more0 = map (fun i => (latest_generation_number (lh_gens x) + 1 + N.of_nat i)%N) (seq 0 (length more0)) ->
                  latest_generation_number (lh_gens x ++ more0) = (latest_generation_number (lh_gens x) + N.of_nat (length more0))%N).
      { clear. intros more0. induction more0 as [|d m IHm] using rev_ind; intros E; [rewrite app_nil_r; cbn; lia|].
        rewrite app_length, seq_app, !map_app in E. cbn [length seq map plus] in E. apply app_inj_tail in E. destruct E as [E1 E2].
        rewrite app_assoc, latest_app, E2. destruct (N.eqb_spec (latest_generation_number (lh_gens x) + 1 + N.of_nat (length m)) 0) as [Z|_]; [lia|].
        rewrite app_length. cbn [length]. lia. }
      rewrite (L more En). lia.
  Qed.
  Lemma ext_trans x y z : ext x y -> ext y z -> ext x z.
  Proof. intros Hxy Hyz. induction Hyz as [y|y z doc _ IH Hno]; [exact Hxy|]. apply ext_step; [apply IH; exact Hxy|exact Hno]. Qed.

  Lemma one_more_ext hs w hs' : NoDup (map lh_root hs) -> one_more hs w hs' -> Forall2 ext hs hs'.
  Proof.
    intros Hnd [-> Hno]. 
    assert (G : forall l, (forall x, In x l -> In x hs) -> Forall2 ext l (map (fin C cdig ser w) l)).
    { induction l as [|x l IH]; intros Hsub; cbn [map]; constructor; [|apply IH; intros y Hy; apply Hsub; right; exact Hy].
      unfold fin. destruct (find _ w) as [e|] eqn:E; [|apply ext_refl]. apply ext_step; [apply ext_refl|].
      apply find_some in E. destruct E as [Hin He]. destruct e as [r doc]. cbn [fst snd] in *.
      destruct (Hno r doc Hin) as [x' [Hx' [Er En]]].
      assert (x' = x) as <-; [|exact En]. eapply (NoDup_map_eq lh_root); eauto; [apply Hsub; left; reflexivity|].
      rewrite Er. destruct (path_eqb_spec r (lh_root x)); [assumption|discriminate]. }
    apply G. auto.
  Qed.

  (* C06 over any number of create runs (folder mode and -sf in any mix, any options, any nesting): as long as no run
     is aborted, every later load succeeds and shows each history that existed at the start with its generations and
     chain entries as a prefix, followed by the generations added since, numbered consecutively from latest+1 *)
  Theorem runs_only_append rs : forall h0 kids hs, wf_tree C (Dir h0 kids) -> load C cdig (Dir h0 kids) = inl hs ->
    Forall (fun o => o_outcome o <> Abort) (snd (runs (Dir h0 kids) rs)) ->
    exists hs', load C cdig (fst (runs (Dir h0 kids) rs)) = inl hs' /\ Forall2 ext hs hs'.
  Proof.
    induction rs as [|r rs IH]; intros h0 kids hs Hw Hl Hout; cbn [runs] in *.
    - exists hs. split; [exact Hl|]. clear. induction hs; constructor; [apply ext_refl|assumption].
    - destruct (run1 (Dir h0 kids) r) as [t1 o1] eqn:E1. cbn [fst snd] in *.
      destruct (runs t1 rs) as [t' os] eqn:Er. cbn [fst snd] in *. inversion Hout as [|? ? Ho1 Hos]; subst.
      assert (H1 : exists hs1, load C cdig t1 = inl hs1 /\ one_more hs (o_written o1) hs1 /\ wf_tree C t1 /\ exists h' kids', t1 = Dir h' kids').
      { destruct r as [req no_dh dr ip ifl|req sf ip ifl]; cbn [run1] in E1.
        - eapply create_folder_then_reload; eauto.
        - eapply create_sf_then_reload; eauto. }
      destruct H1 as [hs1 [Hl1 [Hom [Hw1 [h1 [kids1 ->]]]]]].
      specialize (IH h1 kids1 hs1 Hw1 Hl1). rewrite Er in IH. cbn [fst snd] in IH. destruct (IH Hos) as [hs' [Hl' Hext]].
      exists hs'. split; [exact Hl'|].
      pose proof (one_more_ext hs _ hs1 (load_roots_NoDup C cdig _ _ Hw Hl) Hom) as H01.
      clear -H01 Hext. revert hs' Hext. induction H01 as [|a b la lb Hab _ IHl]; intros hs' Hext; inversion Hext; subst; constructor; [eapply ext_trans; eauto|auto].
  Qed.
End ReloadCreate.
