(* create -sf over ANY nesting of histories, the detection half: a named file (or a file below a named folder) whose
   content no longer has any of the digests recorded for it makes the run exit 11 -- whatever formats are asked for,
   recorded for that file or not, and wherever the file sits (the verdict of -sf is read from the FIRST requested
   format only, commands.py create_for_single_files_subcommand: this is the statement that this is enough). *)
From Coq Require Import Lia.
From MHL Require Import Model.Commands Gen.Generated Proofs.BaseFacts Proofs.SealFacts Proofs.RouteFacts Proofs.TreeFacts
  Proofs.IgnoreFacts Proofs.CommitFacts Proofs.CreateFacts Proofs.PartitionFacts Proofs.FreshFacts Proofs.LoadFacts Proofs.HistFacts
  Proofs.VerifyFacts Proofs.FlatFacts Proofs.ReloadFacts Proofs.NestedRecFacts Proofs.NestedFacts Proofs.NestedDhFacts Proofs.SfNestedFacts.

Section SealAltered.
  Variable gens : list gen.
  Variable p : path.
  Variable dg : fmt -> text.

  (* the file was altered: no digest recorded for the path, in any format, is the current one *)
  Definition all_differ : Prop := forall f e, find_first gens p f = Some e -> e_digest e <> dg f.

  Lemma altered_carried_failed req f : find_original gens p <> None -> all_differ -> In f (carried gens p req) -> decide gens p dg f = Failed.
  Proof.
    intros Hfo Hd Hin. apply decide_failed. split; [exact Hfo|].
    pose proof (carried_recorded gens p req f Hin) as Hr. destruct (find_first gens p f) as [e|] eqn:E; [|congruence].
    exists e. split; [reflexivity|]. apply (Hd f e E).
  Qed.

  Lemma altered_not_all_verified req : find_original gens p <> None -> all_differ -> all_verified gens p dg req = false.
  Proof.
    intros Hfo Hd.
    assert (Hex : ex gens p <> []).
    { destruct (find_original gens p) as [o|] eqn:E; [|congruence]. apply find_original_recorded in E. destruct E as [E _].
      apply recorded_find_first in E. apply existing_formats_In in E. unfold ex. intros Hnil. rewrite Hnil in E. destruct E. }
    pose proof (carried_nonempty gens p dg req Hex) as Hne.
    destruct (carried gens p req) as [|f1 l] eqn:Ec; [congruence|].
    assert (Hin1 : In f1 (carried gens p req)) by (rewrite Ec; left; reflexivity).
    unfold all_verified. rewrite Ec. cbn [forallb]. rewrite (altered_carried_failed req f1 Hfo Hd Hin1). reflexivity.
  Qed.

  (* every verdict of the run on that file is a failure ... *)
  Theorem altered_all_verdicts_false req x :
    find_original gens p <> None -> all_differ -> In x (snd (seal gens p dg req)) -> snd x = false.
  Proof.
    intros Hfo Hd Hin. rewrite seal_results in Hin. apply in_app_or in Hin. destruct Hin as [Hin|Hin]; apply in_map_iff in Hin; destruct Hin as [f [<- Hf]]; cbn [snd].
    - apply filter_In in Hf. destruct Hf as [Hf _]. rewrite (altered_carried_failed req f Hfo Hd Hf). reflexivity.
    - rewrite (altered_not_all_verified req Hfo Hd). reflexivity.
  Qed.

  (* ... and every requested format has one *)
  Theorem requested_has_verdict req f0 : In f0 req -> exists x, In x (snd (seal gens p dg req)) /\ fst x = f0.
  Proof.
    intros Hreq. rewrite seal_results.
    pose proof (to_generate_req gens p dg req f0 Hreq) as Htg.
    destruct (memf f0 (ex gens p)) eqn:Eex.
    - exists (f0, not_failed (decide gens p dg f0)). split; [|reflexivity]. apply in_or_app. left.
      apply in_map_iff. exists f0. split; [reflexivity|]. apply filter_In. split; [|apply memf_In; exact Hreq].
      unfold carried. apply filter_In. split; [apply memf_In; exact Eex|apply memf_In; exact Htg].
    - eexists. split; [apply in_or_app; right; apply in_map_iff; exists f0; split; [reflexivity|]|reflexivity].
      apply filter_In. split; [|apply memf_In; exact Hreq]. unfold fresh. apply filter_In. split; [exact Htg|rewrite Eex; reflexivity].
  Qed.

  Theorem altered_first_verdict_false req f0 :
    find_original gens p <> None -> all_differ -> In f0 req ->
    exists x, find (fun x => fmt_eqb (fst x) f0) (snd (seal gens p dg req)) = Some x /\ snd x = false.
  Proof.
    intros Hfo Hd Hreq. destruct (find (fun x => fmt_eqb (fst x) f0) (snd (seal gens p dg req))) as [x|] eqn:Ef.
    - exists x. split; [reflexivity|]. apply find_some in Ef. apply (altered_all_verdicts_false req x Hfo Hd (proj1 Ef)).
    - exfalso. destruct (requested_has_verdict req f0 Hreq) as [x [Hin Hx]]. pose proof (find_none _ _ Ef x Hin) as Hn. cbn in Hn.
      rewrite Hx, fmt_eqb_refl in Hn. discriminate.
  Qed.

  (* the converse: a failing verdict is never invented -- behind it stands a recorded digest that is not the current one *)
  Lemma forallb_false_witness {A} (P : A -> bool) l : forallb P l = false -> exists a, In a l /\ P a = false.
  Proof.
    induction l as [|a l IH]; cbn [forallb]; [discriminate|]. destruct (P a) eqn:E; cbn [andb]; intros H.
    - destruct (IH H) as [b [Hb1 Hb2]]. exists b. split; [right; exact Hb1|exact Hb2].
    - exists a. split; [left; reflexivity|exact E].
  Qed.
  Lemma not_failed_false f : not_failed (decide gens p dg f) = false -> exists e, find_first gens p f = Some e /\ e_digest e <> dg f.
  Proof.
    intros H. assert (Hd : decide gens p dg f = Failed) by (destruct (decide gens p dg f); try discriminate; reflexivity).
    apply decide_failed in Hd. destruct Hd as [_ Hd]. exact Hd.
  Qed.
  Theorem false_verdict_witness req x :
    In x (snd (seal gens p dg req)) -> snd x = false -> exists f e, find_first gens p f = Some e /\ e_digest e <> dg f.
  Proof.
    intros Hin Hx. rewrite seal_results in Hin. apply in_app_or in Hin. destruct Hin as [Hin|Hin]; apply in_map_iff in Hin; destruct Hin as [f [<- Hf]]; cbn [snd] in Hx.
    - exists f. apply not_failed_false. exact Hx.
    - destruct (all_verified gens p dg req) eqn:Ev.
      + exists f. apply not_failed_false. exact Hx.
      + unfold all_verified in Ev. apply forallb_false_witness in Ev. destruct Ev as [f1 [_ Hf1]]. exists f1. apply not_failed_false. exact Hf1.
  Qed.
End SealAltered.

Section SfAltered.
  Variable Hb : fmt -> bytes -> bytes.
  Variable matches : list text -> text -> bool.
  Variable C : Type.
  Variable cdig : C -> text.
  Variable ser : gen -> C.

  (* the failure counter of the fold never goes down *)
  Lemma sf_fold_fails_mono hs fmts : forall files s fails done,
    fails <= snd (fst (fold_left (sf_step Hb hs fmts) files (s, fails, done))).
  Proof.
    induction files as [|[p c] files IH]; intros s fails done; cbn [fold_left]; [cbn; lia|].
    assert (E : sf_step Hb hs fmts (s, fails, done) (p, c) =
                if mem_path p done then (s, fails, done)
                else let '(s', _, ok) := seal_file Hb hs fmts s p c in (s', if ok then fails else S fails, p :: done)) by reflexivity.
    rewrite E. clear E. destruct (mem_path p done); [apply IH|].
    destruct (seal_file Hb hs fmts s p c) as [[s' n] ok]. destruct ok; [apply IH|].
    specialize (IH s' (S fails) (p :: done)). lia.
  Qed.

  (* a file with a failing verdict that has not been sealed yet in this run raises it *)
  Lemma sf_fold_counts hs fmts p : forall files s fails done,
    (exists c, In (p, c) files) -> mem_path p done = false ->
    (forall c s0, In (p, c) files -> snd (seal_file Hb hs fmts s0 p c) = false) ->
    fails < snd (fst (fold_left (sf_step Hb hs fmts) files (s, fails, done))).
  Proof.
    induction files as [|[q c] files IH]; intros s fails done [c0 Hin] Hnd Hbad; [destruct Hin|]. cbn [fold_left].
    assert (E : sf_step Hb hs fmts (s, fails, done) (q, c) =
                if mem_path q done then (s, fails, done)
                else let '(s', _, ok) := seal_file Hb hs fmts s q c in (s', if ok then fails else S fails, q :: done)) by reflexivity.
    rewrite E. clear E.
    destruct (path_eqb_spec q p) as [->|Hne].
    - rewrite Hnd. pose proof (Hbad c s (or_introl eq_refl)) as Hb0.
      destruct (seal_file Hb hs fmts s p c) as [[s' n] ok]. cbn [snd] in Hb0. subst ok.
      pose proof (sf_fold_fails_mono hs fmts files s' (S fails) (p :: done)). lia.
    - assert (Hin' : exists c1, In (p, c1) files).
      { destruct Hin as [E|Hin]; [injection E as -> _; congruence|]. exists c0. exact Hin. }
      assert (Hbad' : forall c1 s0, In (p, c1) files -> snd (seal_file Hb hs fmts s0 p c1) = false) by (intros c1 s0 H; apply Hbad; right; exact H).
      destruct (mem_path q done); [apply IH; assumption|].
      destruct (seal_file Hb hs fmts s q c) as [[s' n] ok].
      assert (Hnd' : mem_path p (q :: done) = false).
      { cbn [mem_path existsb]. destruct (path_eqb_spec p q) as [->|_]; [congruence|]. exact Hnd. }
      destruct ok.
      + apply (IH s' fails (q :: done) Hin' Hnd' Hbad').
      + pose proof (IH s' (S fails) (q :: done) Hin' Hnd' Hbad'). lia.
  Qed.

  (* the counter only rises at a file whose verdict is a failure *)
  Lemma sf_fold_rise hs fmts : forall files s fails done,
    fails < snd (fst (fold_left (sf_step Hb hs fmts) files (s, fails, done))) ->
    exists p c s0, In (p, c) files /\ snd (seal_file Hb hs fmts s0 p c) = false.
  Proof.
    induction files as [|[q c] files IH]; intros s fails done H; cbn [fold_left] in H; [cbn in H; lia|].
    assert (E : sf_step Hb hs fmts (s, fails, done) (q, c) =
                if mem_path q done then (s, fails, done)
                else let '(s', _, ok) := seal_file Hb hs fmts s q c in (s', if ok then fails else S fails, q :: done)) by reflexivity.
    rewrite E in H. clear E.
    assert (Hrec : forall s1 f1 d1, fails < snd (fst (fold_left (sf_step Hb hs fmts) files (s1, f1, d1))) -> f1 = fails ->
                   exists p c0 s0, In (p, c0) ((q, c) :: files) /\ snd (seal_file Hb hs fmts s0 p c0) = false).
    { intros s1 f1 d1 H1 ->. destruct (IH s1 fails d1 H1) as [p [c0 [s0 [Hi Hv]]]]. exists p, c0, s0. split; [right; exact Hi|exact Hv]. }
    destruct (mem_path q done); [apply (Hrec s fails done H eq_refl)|].
    destruct (seal_file Hb hs fmts s q c) as [[s' n] ok] eqn:Es. destruct ok; [apply (Hrec s' fails (q :: done) H eq_refl)|].
    exists q, c, s. split; [left; reflexivity|rewrite Es; reflexivity].
  Qed.

  (* the verdict on an altered file, at the level of seal_file *)
  Lemma seal_file_altered hs fmts f0 s p c :
    In f0 fmts ->
    find_original (lh_gens (route_to hs p)) (strip_prefix (lh_root (route_to hs p)) p) <> None ->
    all_differ (lh_gens (route_to hs p)) (strip_prefix (lh_root (route_to hs p)) p) (fun f => digest_text Hb f c) ->
    snd (seal_file Hb hs fmts s p c) = false.
  Proof.
    intros Hin Hfo Hd. unfold seal_file.
    destruct fmts as [|f1 l]; [destruct Hin|].
    destruct (altered_first_verdict_false _ _ _ (f1 :: l) f1 Hfo Hd (or_introl eq_refl)) as [x [Hf Hx]].
    destruct (seal (lh_gens (route_to hs p)) (strip_prefix (lh_root (route_to hs p)) p) (fun f => digest_text Hb f c) (f1 :: l)) as [es res].
    cbn [snd] in *. rewrite Hf. exact Hx.
  Qed.

  (* create -sf: a file at or below a named path whose recorded digests are all out of date: exit 11 *)
  Theorem create_sf_nested_altered_exit_11 h0 kids hs req sf ip ifl sp p c :
    wf_tree C (Dir h0 kids) -> load C cdig (Dir h0 kids) = inl hs -> req <> [] ->
    In sp sf ->
    In (p, c) (sf_files matches C (set_patterns (latest_patterns (lh_gens (root_hist hs))) ip (pattern_file_lines ifl)) (Dir h0 kids) sp) ->
    find_original (lh_gens (route_to hs p)) (strip_prefix (lh_root (route_to hs p)) p) <> None ->
    all_differ (lh_gens (route_to hs p)) (strip_prefix (lh_root (route_to hs p)) p) (fun f => digest_text Hb f c) ->
    o_outcome (snd (create_sf Hb matches C cdig ser (Dir h0 kids) req sf ip ifl)) = Exit 11.
  Proof.
    intros Hwf Hl Hreq Hsp Hin Hfo Hd.
    pose proof (create_sf_nested_never_aborts Hb matches C cdig ser h0 kids hs req sf ip ifl Hwf Hl) as Hna.
    unfold create_sf in *. rewrite Hl in *.
    set (spec := set_patterns (latest_patterns (lh_gens (root_hist hs))) ip (pattern_file_lines ifl)) in *.
    set (t := Dir h0 kids) in *. set (files := flat_map (sf_files matches C spec t) sf) in *.
    assert (Hfiles : In (p, c) files) by (unfold files; apply in_flat_map; exists sp; split; assumption).
    assert (Hsame : forall c1, In (p, c1) files -> c1 = c).
    { intros c1 H1. unfold files in H1. apply in_flat_map in H1. destruct H1 as [sp1 [_ H1]].
      pose proof (sf_files_get matches C spec t sp1 p c1 Hwf H1) as G1. pose proof (sf_files_get matches C spec t sp p c Hwf Hin) as G2.
      rewrite G1 in G2. injection G2 as ->. reflexivity. }
    assert (Hne : sort_fmts req <> []).
    { destruct req as [|f r]; [congruence|]. intros Hn. assert (Hi : In f (sort_fmts (f :: r))) by (apply sort_In; left; reflexivity). rewrite Hn in Hi. destruct Hi. }
    assert (Hbad : forall c1 s0, In (p, c1) files -> snd (seal_file Hb hs (sort_fmts req) s0 p c1) = false).
    { intros c1 s0 H1. rewrite (Hsame c1 H1). destruct (sort_fmts req) as [|f1 l] eqn:Es; [congruence|].
      apply (seal_file_altered hs (f1 :: l) f1 s0 p c (or_introl eq_refl) Hfo Hd). }
    pose proof (sf_fold_counts hs (sort_fmts req) p files [] 0 [] (ex_intro _ c Hfiles) eq_refl Hbad) as Hcnt.
    match goal with |- context [fold_left ?f ?l ?i] =>
      pose proof (Hcnt : 0 < snd (fst (fold_left f l i))) as Hc2; clear Hcnt; destruct (fold_left f l i) as [[sess fails] dn] end.
    cbn [fst snd] in Hc2. cbn [snd o_outcome] in *.
    destruct (cs_abort C (commit C cdig ser hs InPlace t sess spec)); [exfalso; apply Hna; reflexivity|].
    destruct (Nat.ltb_spec 0 fails); [reflexivity|lia].
  Qed.

  (* never a false one: when create -sf exits 11, some file at or below a named path is recorded, in the history it belongs
     to, with a digest that is not the digest of its present content *)
  Theorem create_sf_exit_11_genuine t hs req sf ip ifl :
    load C cdig t = inl hs ->
    o_outcome (snd (create_sf Hb matches C cdig ser t req sf ip ifl)) = Exit 11 ->
    exists sp p c f e, In sp sf /\
      In (p, c) (sf_files matches C (set_patterns (latest_patterns (lh_gens (root_hist hs))) ip (pattern_file_lines ifl)) t sp) /\
      find_first (lh_gens (route_to hs p)) (strip_prefix (lh_root (route_to hs p)) p) f = Some e /\ e_digest e <> digest_text Hb f c.
  Proof.
    intros Hl H11. unfold create_sf in H11. rewrite Hl in H11.
    set (spec := set_patterns (latest_patterns (lh_gens (root_hist hs))) ip (pattern_file_lines ifl)) in *.
    set (files := flat_map (sf_files matches C spec t) sf) in *.
    pose proof (sf_fold_rise hs (sort_fmts req) files [] 0 []) as Hr.
    match type of H11 with context [fold_left ?f ?l ?i] =>
      pose proof (Hr : 0 < snd (fst (fold_left f l i)) -> _) as Hr2; clear Hr; destruct (fold_left f l i) as [[sess fails] dn] end.
    cbn [fst snd] in Hr2. cbn [snd o_outcome] in H11.
    destruct (cs_abort C (commit C cdig ser hs InPlace t sess spec)); [discriminate|].
    destruct (Nat.ltb_spec 0 fails) as [Hpos|]; [|discriminate].
    destruct (Hr2 Hpos) as [p [c [s0 [Hin Hv]]]].
    unfold files in Hin. apply in_flat_map in Hin. destruct Hin as [sp [Hsp Hin]].
    unfold seal_file in Hv.
    destruct (seal (lh_gens (route_to hs p)) (strip_prefix (lh_root (route_to hs p)) p) (fun f => digest_text Hb f c) (sort_fmts req)) as [es res] eqn:Es.
    cbn [snd] in Hv. destruct (sort_fmts req) as [|f0 l] eqn:Ef; [discriminate|].
    destruct (find (fun x => fmt_eqb (fst x) f0) res) as [x|] eqn:Efind; [|discriminate].
    apply find_some in Efind. destruct Efind as [Hx _].
    assert (Hx' : In x (snd (seal (lh_gens (route_to hs p)) (strip_prefix (lh_root (route_to hs p)) p) (fun f => digest_text Hb f c) (f0 :: l)))) by (rewrite Es; exact Hx).
    destruct (false_verdict_witness _ _ _ (f0 :: l) x Hx' Hv) as [f [e [H1 H2]]].
    exists sp, p, c, f, e. repeat split; assumption.
  Qed.
  (* ... and the same for folder mode *)
  Theorem create_exit_11_genuine t hs req no_dh ip ifl :
    load C cdig t = inl hs ->
    o_outcome (snd (create_folder Hb matches C cdig ser t req no_dh false ip ifl)) = Exit 11 ->
    exists p c f e,
      In (p, c) (ev_files (events matches C (set_patterns (latest_patterns (lh_gens (root_hist hs))) ip (pattern_file_lines ifl)) [] t)) /\
      find_first (lh_gens (route_to hs p)) (strip_prefix (lh_root (route_to hs p)) p) f = Some e /\ e_digest e <> digest_text Hb f c.
  Proof.
    intros Hl H11.
    destruct (create_exit_11_iff Hb matches C cdig ser t req no_dh ip ifl hs Hl) as [Ha|Hiff]; [rewrite H11 in Ha; discriminate|].
    destruct (proj1 Hiff H11) as [[p c] [Hin Hff]]. unfold file_failures in Hff. cbn [fst snd] in Hff.
    match type of Hff with length ?l <> 0 => destruct l as [|x l0] eqn:El; [exfalso; apply Hff; reflexivity|] end.
    assert (Hx : In x (x :: l0)) by (left; reflexivity). rewrite <- El in Hx. apply filter_In in Hx. destruct Hx as [Hx Hs].
    destruct (false_verdict_witness _ _ _ _ x Hx) as [f [e [H1 H2]]]; [destruct (snd x); [discriminate|reflexivity]|].
    exists p, c, f, e. repeat split; assumption.
  Qed.

  (* the same in folder mode: create over any nesting with one such file anywhere among the files it visits: exit 11 *)
  Theorem create_nested_altered_exit_11 h0 kids hs req no_dh ip ifl p c :
    wf_tree C (Dir h0 kids) -> load C cdig (Dir h0 kids) = inl hs -> req <> [] ->
    In (p, c) (ev_files (events matches C (set_patterns (latest_patterns (lh_gens (root_hist hs))) ip (pattern_file_lines ifl)) [] (Dir h0 kids))) ->
    find_original (lh_gens (route_to hs p)) (strip_prefix (lh_root (route_to hs p)) p) <> None ->
    all_differ (lh_gens (route_to hs p)) (strip_prefix (lh_root (route_to hs p)) p) (fun f => digest_text Hb f c) ->
    o_outcome (snd (create_folder Hb matches C cdig ser (Dir h0 kids) req no_dh false ip ifl)) = Exit 11.
  Proof.
    intros Hwf Hl Hreq Hin Hfo Hd.
    pose proof (create_nested_never_aborts Hb matches C cdig ser h0 kids hs req no_dh ip ifl Hwf Hl) as Hna.
    destruct (create_exit_11_iff Hb matches C cdig ser (Dir h0 kids) req no_dh ip ifl hs Hl) as [Ha|Hiff]; [contradiction|].
    apply Hiff. exists (p, c). split; [exact Hin|].
    unfold file_failures. cbn [fst snd].
    destruct req as [|f0 r]; [congruence|].
    assert (Hf0 : In f0 (sort_fmts (f0 :: r))) by (apply sort_In; left; reflexivity).
    destruct (requested_has_verdict (lh_gens (route_to hs p)) (strip_prefix (lh_root (route_to hs p)) p) (fun f => digest_text Hb f c) (sort_fmts (f0 :: r)) f0 Hf0) as [x [Hx _]].
    pose proof (altered_all_verdicts_false _ _ _ (sort_fmts (f0 :: r)) x Hfo Hd Hx) as Hfalse.
    intros Hz. apply length_zero_iff_nil in Hz.
    assert (Hin' : In x (filter (fun r0 : fmt * bool => negb (snd r0)) (snd (seal (lh_gens (route_to hs p)) (strip_prefix (lh_root (route_to hs p)) p) (fun f => digest_text Hb f c) (sort_fmts (f0 :: r)))))).
    { apply filter_In. split; [exact Hx|rewrite Hfalse; reflexivity]. }
    unfold route_to, rooth in Hin'. rewrite Hz in Hin'. destruct Hin'.
  Qed.
End SfAltered.
