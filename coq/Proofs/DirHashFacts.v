(* C07: directory hashes.  `dirhash` (what create records and verify -dh recomputes) is the compositional definition
   `vhash` evaluated on the tree pruned of ignored entries; it does not depend on the listing order; the content hash
   does not depend on names. *)
From Coq Require Import Lia Permutation.
From MHL Require Import Model.Create Proofs.BaseFacts Proofs.TreeFacts.

Section DH.
  Variable Hb : fmt -> bytes -> bytes.
  Variable matches : list text -> text -> bool.
  Variable C : Type.
  Notation node := (node C).
  Notation dirhash := (dirhash Hb matches C).
  Notation ignored := (ignored matches).

  (* Hasher.hash_of_hash_list sorts: any order of the same digests gives the same hash *)
  Theorem hash_of_hash_list_perm f ds ds' : Permutation ds ds' -> hash_of_hash_list Hb f ds = hash_of_hash_list Hb f ds'.
  Proof. intros H. unfold hash_of_hash_list. rewrite (sort_text_canonical ds ds' H). reflexivity. Qed.

  (* one level of the definition: from the children's (name, (content, structure)) to the folder's pair *)
  Definition combine_level (f : fmt) (vis : list (text * option (text * text))) : option (text * text) :=
    match opt_all (map snd vis) with
    | None => None
    | Some hs =>
        match opt_all (map (fun x : text * option (text * text) =>
                              match snd x with Some cs => structure_item Hb f (fst x) (snd cs) | None => None end) vis) with
        | None => None
        | Some ss =>
            match hash_of_hash_list Hb f (map fst hs), hash_of_hash_list Hb f ss with
            | Some ch, Some sh => Some (ch, sh)
            | _, _ => None
            end
        end
    end.

  Lemma dirhash_dir spec f p h kids :
    dirhash spec f p (Dir h kids) =
    combine_level f (filter (fun x => negb (ignored spec (p ++ [fst x])))
                            (map (fun nk => (fst nk, dirhash spec f (p ++ [fst nk]) (snd nk))) kids)).
  Proof.
    cbn [Create.dirhash]. unfold combine_level.
    match goal with |- context [filter _ (?F kids)] =>
      assert (Hgo : forall ks, F ks = map (fun nk => (fst nk, dirhash spec f (p ++ [fst nk]) (snd nk))) ks)
    end.
    { induction ks as [|[n k] ks IH]; cbn [map fst snd]; [reflexivity|]. rewrite IH. reflexivity. }
    rewrite Hgo. reflexivity.
  Qed.

  (* ---- the definition, on a tree that has no ignored entries any more ---- *)
  Inductive vt := VF (c : bytes) | VD (kids : list (text * vt)).
  Fixpoint vhash (f : fmt) (t : vt) : option (text * text) :=
    match t with
    | VF c => Some (digest_text Hb f c, digest_text Hb f c)
    | VD kids => combine_level f ((fix go (ks : list (text * vt)) :=
                                     match ks with [] => [] | nk :: ks' => (fst nk, vhash f (snd nk)) :: go ks' end) kids)
    end.
  Lemma vhash_dir f kids : vhash f (VD kids) = combine_level f (map (fun nk => (fst nk, vhash f (snd nk))) kids).
  Proof.
    cbn [vhash].
    match goal with |- combine_level f (?F kids) = _ =>
      assert (Hgo : forall ks, F ks = map (fun nk => (fst nk, vhash f (snd nk))) ks)
    end.
    { induction ks as [|nk ks IH]; cbn [map]; [reflexivity|]. rewrite IH. reflexivity. }
    rewrite Hgo. reflexivity.
  Qed.

  Fixpoint prune (spec : list text) (p : path) (t : node) : vt :=
    match t with
    | File c => VF c
    | Dir _ kids =>
        VD ((fix go (ks : list (text * node)) :=
               match ks with
               | [] => []
               | nk :: ks' => (if ignored spec (p ++ [fst nk]) then [] else [(fst nk, prune spec (p ++ [fst nk]) (snd nk))]) ++ go ks'
               end) kids)
    end.
  Lemma prune_dir spec p h kids :
    prune spec p (Dir h kids) =
    VD (flat_map (fun nk => if ignored spec (p ++ [fst nk]) then [] else [(fst nk, prune spec (p ++ [fst nk]) (snd nk))]) kids).
  Proof.
    cbn [prune].
    match goal with |- VD (?F kids) = _ =>
      assert (Hgo : forall ks, F ks = flat_map (fun nk => if ignored spec (p ++ [fst nk]) then [] else [(fst nk, prune spec (p ++ [fst nk]) (snd nk))]) ks)
    end.
    { induction ks as [|nk ks IH]; cbn [flat_map]; [reflexivity|]. rewrite IH. reflexivity. }
    rewrite Hgo. reflexivity.
  Qed.

  (* recorded / recomputed directory hashes are the definition evaluated over exactly the non-ignored entries *)
  Theorem dirhash_is_definition spec f : forall t p, dirhash spec f p t = vhash f (prune spec p t).
  Proof.
    induction t as [c|h kids IH] using node_ind'; intros p; [reflexivity|].
    rewrite dirhash_dir, prune_dir, vhash_dir. f_equal.
    induction kids as [|nk ks IHk]; cbn [map filter flat_map]; [reflexivity|].
    inversion IH as [|? ? Hk Hks]; subst. cbn [fst].
    destruct (ignored spec (p ++ [fst nk])); cbn [negb app map]; [apply IHk; exact Hks|].
    cbn [fst snd]. rewrite Hk. f_equal. apply IHk. exact Hks.
  Qed.

  (* ---- order of the children is irrelevant ---- *)
  Lemma opt_all_cons {A} (x : option A) l :
    opt_all (x :: l) = match x, opt_all l with Some a, Some r => Some (a :: r) | _, _ => None end.
  Proof. reflexivity. Qed.
  Lemma opt_all_perm {A} (l l' : list (option A)) : Permutation l l' ->
    match opt_all l, opt_all l' with
    | Some a, Some b => Permutation a b
    | None, None => True
    | _, _ => False
    end.
  Proof.
    induction 1 as [|x l l' _ IH|x y l|l l' l'' _ IH1 _ IH2]; rewrite ?opt_all_cons.
    - cbn. constructor.
    - destruct x, (opt_all l), (opt_all l'); auto; try tauto.
    - destruct x, y, (opt_all l); auto. apply perm_swap.
    - destruct (opt_all l), (opt_all l'), (opt_all l''); try tauto. etransitivity; eauto.
  Qed.
  Theorem combine_level_perm f vis vis' : Permutation vis vis' -> combine_level f vis = combine_level f vis'.
  Proof.
    intros Hp. unfold combine_level.
    pose proof (opt_all_perm _ _ (Permutation_map snd Hp)) as H1.
    pose proof (opt_all_perm _ _ (Permutation_map (fun x : text * option (text * text) =>
                   match snd x with Some cs => structure_item Hb f (fst x) (snd cs) | None => None end) Hp)) as H2.
    destruct (opt_all (map snd vis)) as [hs|], (opt_all (map snd vis')) as [hs'|]; try tauto.
    destruct (opt_all (map _ vis)) as [ss|], (opt_all (map _ vis')) as [ss'|]; try tauto.
    rewrite (hash_of_hash_list_perm f (map fst hs) (map fst hs') (Permutation_map fst H1)).
    rewrite (hash_of_hash_list_perm f ss ss' H2). reflexivity.
  Qed.
  Theorem vhash_listing_order f kids kids' : Permutation kids kids' -> vhash f (VD kids) = vhash f (VD kids').
  Proof. intros Hp. rewrite !vhash_dir. apply combine_level_perm. apply Permutation_map. exact Hp. Qed.
  Theorem dirhash_listing_order spec f p h kids kids' :
    Permutation kids kids' -> dirhash spec f p (Dir h kids) = dirhash spec f p (Dir h kids').
  Proof.
    intros Hp. rewrite !dirhash_dir. apply combine_level_perm. apply filter_perm. apply Permutation_map. exact Hp.
  Qed.

  (* an empty directory (also one whose entries are all ignored) hashes as the empty input *)
  Theorem empty_dir_hash f : vhash f (VD []) = Some (digest_text Hb f [], digest_text Hb f []).
  Proof. reflexivity. Qed.

  (* ---- the content hash does not see names ---- *)
  Definition content_of (f : fmt) (t : vt) : option text := option_map fst (vhash f t).
  (* the content hash of a folder is a function of the multiset of its children's content hashes alone, provided
     the structure side is defined on both sides (it always is when digests decode, see Props/C07) *)
  Lemma combine_level_content f vis vis' :
    Permutation (map snd vis) (map snd vis') ->
    match combine_level f vis, combine_level f vis' with
    | Some a, Some b => fst a = fst b
    | _, _ => True
    end.
  Proof.
    intros Hp. unfold combine_level. pose proof (opt_all_perm _ _ Hp) as H1.
    destruct (opt_all (map snd vis)) as [hs|], (opt_all (map snd vis')) as [hs'|]; try tauto.
    destruct (opt_all (map _ vis)) as [ss|]; [|exact I]. destruct (opt_all (map _ vis')) as [ss'|]; [|destruct (hash_of_hash_list _ _ _); [destruct (hash_of_hash_list _ _ _)|]; exact I].
    rewrite (hash_of_hash_list_perm f (map fst hs) (map fst hs') (Permutation_map fst H1)).
    destruct (hash_of_hash_list Hb f (map fst hs')); [|exact I].
    destruct (hash_of_hash_list Hb f ss); [|exact I]. destruct (hash_of_hash_list Hb f ss'); [reflexivity|exact I].
  Qed.

  Section VtInd.
    Variable P : vt -> Prop.
    Hypothesis HF : forall c, P (VF c).
    Hypothesis HD : forall kids, Forall (fun nk => P (snd nk)) kids -> P (VD kids).
    Fixpoint vt_ind' (t : vt) : P t :=
      match t with
      | VF c => HF c
      | VD kids => HD kids ((fix go (ks : list (text * vt)) : Forall (fun nk => P (snd nk)) ks :=
                               match ks with [] => Forall_nil _ | nk :: ks' => Forall_cons nk (vt_ind' (snd nk)) (go ks') end) kids)
      end.
  End VtInd.

  (* the content hash, written without any mention of names *)
  Fixpoint ccontent (f : fmt) (t : vt) : option text :=
    match t with
    | VF c => Some (digest_text Hb f c)
    | VD kids =>
        match opt_all ((fix go (ks : list (text * vt)) :=
                          match ks with [] => [] | nk :: ks' => ccontent f (snd nk) :: go ks' end) kids) with
        | Some cs => hash_of_hash_list Hb f cs
        | None => None
        end
    end.
  Lemma ccontent_dir f kids :
    ccontent f (VD kids) = match opt_all (map (fun nk => ccontent f (snd nk)) kids) with
                           | Some cs => hash_of_hash_list Hb f cs | None => None end.
  Proof.
    cbn [ccontent].
    match goal with |- match opt_all (?F kids) with _ => _ end = _ =>
      assert (Hgo : forall ks, F ks = map (fun nk => ccontent f (snd nk)) ks)
    end.
    { induction ks as [|nk ks IH]; cbn [map]; [reflexivity|]. rewrite IH. reflexivity. }
    rewrite Hgo. reflexivity.
  Qed.

  Theorem vhash_content_is_ccontent f : forall t c s, vhash f t = Some (c, s) -> ccontent f t = Some c.
  Proof.
    induction t as [c0|kids IH] using vt_ind'; intros c s H.
    - cbn in H. injection H as <- _. reflexivity.
    - rewrite vhash_dir in H. rewrite ccontent_dir. unfold combine_level in H. rewrite map_map in H. cbn [snd] in H.
      destruct (opt_all (map (fun x => vhash f (snd x)) kids)) as [hs|] eqn:E1; [|discriminate].
      assert (E2 : opt_all (map (fun nk => ccontent f (snd nk)) kids) = Some (map fst hs)).
      { clear H. revert hs E1. induction kids as [|nk ks IHk]; intros hs E1.
        - cbn in E1. injection E1 as <-. reflexivity.
        - cbn [map] in E1. cbn [map]. rewrite opt_all_cons in E1. rewrite opt_all_cons. inversion IH as [|? ? Hk Hks]; subst.
          destruct (vhash f (snd nk)) as [[c1 s1]|] eqn:Ev; [|discriminate].
          destruct (opt_all (map (fun x => vhash f (snd x)) ks)) as [r|] eqn:Er; [|discriminate].
          injection E1 as <-. rewrite (Hk c1 s1 eq_refl). rewrite (IHk Hks r eq_refl). reflexivity. }
      rewrite E2. destruct (opt_all _) in H; [|discriminate].
      destruct (hash_of_hash_list Hb f (map fst hs)); [|discriminate]. destruct (hash_of_hash_list Hb f l); [|discriminate].
      injection H as <- _. reflexivity.
  Qed.

  (* renaming: the same files and folders under any other names, in any order *)
  Inductive renamed : vt -> vt -> Prop :=
  | ren_file c : renamed (VF c) (VF c)
  | ren_dir kids kids' : renamed_kids kids kids' -> renamed (VD kids) (VD kids')
  with renamed_kids : list (text * vt) -> list (text * vt) -> Prop :=
  | rk_nil : renamed_kids [] []
  | rk_cons n n' t t' ks ks' : renamed t t' -> renamed_kids ks ks' -> renamed_kids ((n, t) :: ks) ((n', t') :: ks')
  | rk_swap a b ks : renamed_kids (a :: b :: ks) (b :: a :: ks)
  | rk_trans ks1 ks2 ks3 : renamed_kids ks1 ks2 -> renamed_kids ks2 ks3 -> renamed_kids ks1 ks3.
  Scheme renamed_mut := Induction for renamed Sort Prop
    with renamed_kids_mut := Induction for renamed_kids Sort Prop.

  Lemma ccontent_renamed f :
    (forall t t', renamed t t' -> ccontent f t = ccontent f t') /\ (forall ks ks', renamed_kids ks ks' ->
       Permutation (map (fun nk => ccontent f (snd nk)) ks) (map (fun nk => ccontent f (snd nk)) ks')).
  Proof.
    split.
    - intros t t' H.
      induction H using renamed_mut with
        (P0 := fun ks ks' _ => Permutation (map (fun nk => ccontent f (snd nk)) ks) (map (fun nk => ccontent f (snd nk)) ks')).
      + reflexivity.
      + rewrite !ccontent_dir. pose proof (opt_all_perm _ _ IHrenamed) as Hp.
        destruct (opt_all (map _ kids)), (opt_all (map _ kids')); try tauto. apply hash_of_hash_list_perm. exact Hp.
      + constructor.
      + cbn [map snd]. rewrite IHrenamed. apply perm_skip. exact IHrenamed0.
      + cbn [map]. apply perm_swap.
      + etransitivity; eauto.
    - intros ks ks' H.
      induction H using renamed_kids_mut with (P := fun t t' _ => ccontent f t = ccontent f t').
      + reflexivity.
      + rewrite !ccontent_dir. pose proof (opt_all_perm _ _ IHrenamed_kids) as Hp.
        destruct (opt_all (map _ kids)), (opt_all (map _ kids')); try tauto. apply hash_of_hash_list_perm. exact Hp.
      + constructor.
      + cbn [map snd]. rewrite IHrenamed_kids. apply perm_skip. exact IHrenamed_kids0.
      + cbn [map]. apply perm_swap.
      + etransitivity; eauto.
  Qed.

  (* the content hash is unaffected by renaming any file or folder, at any depth, and by any reordering *)
  Theorem content_rename_invariant f t t' c s c' s' :
    renamed t t' -> vhash f t = Some (c, s) -> vhash f t' = Some (c', s') -> c = c'.
  Proof.
    intros Hr H1 H2. apply vhash_content_is_ccontent in H1. apply vhash_content_is_ccontent in H2.
    rewrite (proj1 (ccontent_renamed f) t t' Hr) in H1. congruence.
  Qed.
End DH.
