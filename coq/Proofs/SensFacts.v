(* C07 / C09: sensitivity of the content hash -- changing the content of any file at any depth changes the content
   hash of every enclosing folder, OR exhibits an explicit collision of the hash primitive among the byte strings that
   were actually hashed.  (Collision freedom is not assumed: an injective function into a fixed-width type does not
   exist; the theorem is a reduction.) *)
From Coq Require Import Lia Permutation.
From MHL Require Import Model.Commands Proofs.BaseFacts Proofs.CodecFacts Proofs.DirHashFacts.

Section Sens.
  Variable Hb : fmt -> bytes -> bytes.
  Variable matches : list text -> text -> bool.
  Variable C : Type.
  (* the primitive returns digests of the format's width (hashlib / xxhash do; sampled by C01's correspondence) *)
  Hypothesis Hw : forall f b, Forall is_byte (Hb f b) /\ length (Hb f b) = width f.

  Definition collision (f : fmt) : Prop := exists a b : bytes, a <> b /\ Hb f a = Hb f b.
  Notation D f x := (digest_text Hb f x).
  Notation vt := (vt).

  Lemma bytes_eq_dec (a b : bytes) : {a = b} + {a <> b}.
  Proof. apply list_eq_dec, N.eq_dec. Qed.
  Lemma text_eq_dec (a b : text) : {a = b} + {a <> b}.
  Proof. apply list_eq_dec, N.eq_dec. Qed.

  Lemma digest_inj f a b : D f a = D f b -> a = b \/ collision f.
  Proof.
    intros H. destruct (bytes_eq_dec a b) as [E|E]; [left; exact E|right]. exists a, b. split; [exact E|].
    unfold digest_text in H. destruct (Hw f a), (Hw f b). eapply enc_inj; eauto.
  Qed.
  Lemma width_pos f : 0 < width f.
  Proof. destruct f; cbn; lia. Qed.

  Definition isd (f : fmt) (d : text) : Prop := exists x, d = D f x.

  Lemma dec_all_digests f : forall ds, Forall (isd f) ds ->
    exists bs, dec_all f ds = Some (concat bs) /\ Forall (fun b => length b = width f) bs /\ map (enc f) bs = ds.
  Proof.
    induction ds as [|d ds IH]; intros H; [exists []; repeat split; constructor|].
    inversion H as [|? ? [x ->] Hr]; subst. destruct (IH Hr) as [bs [H1 [H2 H3]]].
    exists (Hb f x :: bs). cbn [dec_all]. unfold digest_text. destruct (Hw f x) as [Hx1 Hx2].
    rewrite (dec_enc f _ Hx1 Hx2), H1. cbn [concat map]. repeat split; [constructor; auto|rewrite H3; reflexivity].
  Qed.

  Lemma app_inj_len : forall (a c b d : bytes), length a = length c -> a ++ b = c ++ d -> a = c /\ b = d.
  Proof.
    induction a as [|x a IH]; intros [|y c] b d Hl He; cbn in *; try discriminate; auto.
    injection He as -> He. injection Hl as Hl. destruct (IH _ _ _ Hl He) as [-> ->]. auto.
  Qed.
  Lemma concat_inj_fixed w : 0 < w -> forall l l' : list bytes,
      Forall (fun x => length x = w) l -> Forall (fun x => length x = w) l' -> concat l = concat l' -> l = l'.
  Proof.
    intros Hwp. induction l as [|x l IH]; intros [|y l'] Hl Hl' Hc; cbn in *; auto.
    - inversion Hl'; subst. apply (f_equal (@length N)) in Hc. rewrite app_length in Hc. cbn in Hc. lia.
    - inversion Hl; subst. apply (f_equal (@length N)) in Hc. rewrite app_length in Hc. cbn in Hc. lia.
    - inversion Hl; inversion Hl'; subst.
      assert (x = y /\ concat l = concat l') as [-> Hc'] by (apply app_inj_len; auto; congruence).
      f_equal. apply IH; auto.
  Qed.

  Lemma sort_isd f ds : Forall (isd f) ds -> Forall (isd f) (sort_text ds).
  Proof. intros H. eapply Permutation_Forall; [apply sort_text_perm|exact H]. Qed.

  (* equal hashes of two digest lists: the lists are permutations of each other, or a collision is exhibited *)
  Theorem hash_of_hash_list_inj f ds ds' : Forall (isd f) ds -> Forall (isd f) ds' ->
    hash_of_hash_list Hb f ds = hash_of_hash_list Hb f ds' -> Permutation ds ds' \/ collision f.
  Proof.
    intros H1 H2. unfold hash_of_hash_list.
    destruct (dec_all_digests f _ (sort_isd f ds H1)) as [bs [E1 [L1 M1]]].
    destruct (dec_all_digests f _ (sort_isd f ds' H2)) as [bs' [E2 [L2 M2]]].
    rewrite E1, E2. intros H. injection H as H. apply digest_inj in H. destruct H as [H|H]; [|right; exact H]. left.
    apply (concat_inj_fixed (width f) (width_pos f)) in H; auto. subst bs'.
    rewrite (sort_text_perm ds), (sort_text_perm ds'), <- M1, <- M2. reflexivity.
  Qed.
  Lemma hash_of_hash_list_isd f ds : Forall (isd f) ds -> exists x, hash_of_hash_list Hb f ds = Some (D f x).
  Proof.
    intros H. unfold hash_of_hash_list. destruct (dec_all_digests f _ (sort_isd f ds H)) as [bs [E _]]. rewrite E. eauto.
  Qed.

  (* the content hash of every tree is defined and is a digest *)
  Lemma ccontent_isd f : forall t : vt, exists x, ccontent Hb f t = Some (D f x).
  Proof.
    induction t as [c|kids IH] using vt_ind'; [exists c; reflexivity|].
    rewrite ccontent_dir.
    assert (exists cs, opt_all (map (fun nk : text * vt => ccontent Hb f (snd nk)) kids) = Some cs /\ Forall (isd f) cs) as [cs [E Hc]].
    { induction kids as [|nk ks IHk]; [exists []; split; [reflexivity|constructor]|].
      inversion IH as [|? ? [x Hx] Hks]; subst. destruct (IHk Hks) as [cs [E Hc]].
      exists (D f x :: cs). cbn [map]. rewrite opt_all_cons, Hx, E. split; [reflexivity|]. constructor; [exists x; reflexivity|exact Hc]. }
    rewrite E. apply hash_of_hash_list_isd. exact Hc.
  Qed.
  Lemma ccontent_kids f kids :
    exists cs, opt_all (map (fun nk : text * vt => ccontent Hb f (snd nk)) kids) = Some cs /\ Forall (isd f) cs /\
               length cs = length kids /\ forall i nk, nth_error kids i = Some nk -> option_map Some (nth_error cs i) = Some (ccontent Hb f (snd nk)).
  Proof.
    induction kids as [|nk ks IHk]; [exists []; repeat split; [constructor|intros [|i] nk H; discriminate]|].
    destruct IHk as [cs [E [Hc [Hl Hn]]]]. destruct (ccontent_isd f (snd nk)) as [x Hx].
    exists (D f x :: cs). cbn [map]. rewrite opt_all_cons, Hx, E. repeat split.
    - constructor; [exists x; reflexivity|exact Hc].
    - cbn. lia.
    - intros [|i] nk0 H; cbn in *; [injection H as <-; rewrite Hx; reflexivity|apply Hn; exact H].
  Qed.

  (* t' differs from t in the content of exactly one file, at any depth (names and everything else equal) *)
  Inductive differ1 : vt -> vt -> Prop :=
  | d_leaf c c' : c <> c' -> differ1 (VF c) (VF c')
  | d_node l1 n k k' l2 : differ1 k k' -> differ1 (VD (l1 ++ (n, k) :: l2)) (VD (l1 ++ (n, k') :: l2)).

  Lemma perm_replace_eq (l1 l2 : list text) h h' : Permutation (l1 ++ h :: l2) (l1 ++ h' :: l2) -> h = h'.
  Proof.
    intros Hp. pose proof (proj1 (Permutation_count_occ text_eq_dec (l1 ++ h :: l2) (l1 ++ h' :: l2)) Hp h) as Hc.
    rewrite !count_occ_app in Hc. cbn in Hc.
    destruct (text_eq_dec h h) as [_|]; [|congruence]. destruct (text_eq_dec h' h) as [->|]; auto. lia.
  Qed.

  Lemma opt_all_app {A} (a b : list (option A)) :
    opt_all (a ++ b) = match opt_all a, opt_all b with Some x, Some y => Some (x ++ y) | _, _ => None end.
  Proof.
    induction a as [|x a IH]; cbn [app].
    - cbn. destruct (opt_all b); reflexivity.
    - rewrite !opt_all_cons, IH. destruct x, (opt_all a), (opt_all b); reflexivity.
  Qed.

  Theorem content_sensitive f : forall t t', differ1 t t' -> ccontent Hb f t = ccontent Hb f t' -> collision f.
  Proof.
    induction 1 as [c c' Hc | l1 n k k' l2 Hd IH]; intros He.
    - cbn in He. injection He as He. apply digest_inj in He. destruct He; [contradiction|assumption].
    - rewrite !ccontent_dir, !map_app in He. cbn [map snd] in He. rewrite !opt_all_app, !opt_all_cons in He.
      destruct (ccontent_kids f l1) as [c1 [E1 [H1 _]]]. destruct (ccontent_kids f l2) as [c2 [E2 [H2 _]]].
      destruct (ccontent_isd f k) as [x Hx]. destruct (ccontent_isd f k') as [x' Hx'].
      rewrite E1, E2, Hx, Hx' in He.
      apply hash_of_hash_list_inj in He.
      + destruct He as [Hp|Hcol]; [|exact Hcol]. apply perm_replace_eq in Hp. apply IH. rewrite Hx, Hx', Hp. reflexivity.
      + apply Forall_app. split; [exact H1|]. constructor; [exists x; reflexivity|exact H2].
      + apply Forall_app. split; [exact H1|]. constructor; [exists x'; reflexivity|exact H2].
  Qed.

  (* the same statement for what create records / verify -dh recomputes, whenever both hashes are defined *)
  Corollary vhash_content_sensitive f t t' c s c' s' :
    differ1 t t' -> vhash Hb f t = Some (c, s) -> vhash Hb f t' = Some (c', s') -> c = c' -> collision f.
  Proof.
    intros Hd H1 H2 Hc. apply vhash_content_is_ccontent in H1. apply vhash_content_is_ccontent in H2.
    eapply content_sensitive; [exact Hd|]. congruence.
  Qed.
End Sens.

(* C09: a recorded directory entry whose content hash was taken from the tree before a one-file content change fails
   the comparison afterwards -- or a collision is exhibited *)
Section DhSens.
  Variable Hb : fmt -> bytes -> bytes.
  Variable matches : list text -> text -> bool.
  Variable C : Type.
  Hypothesis Hw : forall f b, Forall is_byte (Hb f b) /\ length (Hb f b) = width f.
  Theorem changed_entry_fails spec f p (d d' : node C) e c s cs' :
    differ1 (prune matches C spec p d) (prune matches C spec p d') ->
    dirhash Hb matches C spec f p d = Some (c, s) -> dirhash Hb matches C spec f p d' = Some cs' ->
    e_digest e = c -> dh_entry_ok e cs' = false \/ collision Hb f.
  Proof.
    intros Hd H1 H2 He. rewrite dirhash_is_definition in H1, H2. destruct cs' as [c' s'].
    destruct (text_eqb_spec (e_digest e) c') as [E|E].
    - right. eapply (vhash_content_sensitive Hb matches Hw f); eauto. congruence.
    - left. unfold dh_entry_ok. cbn [fst]. destruct (text_eqb_spec (e_digest e) c'); [contradiction|reflexivity].
  Qed.
End DhSens.
