(* C17: rename detection (create -dr) -- a recorded path counts as found only when a new path carries the very
   digest first recorded for it; the new record then carries the old path as previous path, and the look-ups of
   later runs find the record under both names. *)
From Coq Require Import Lia.
From MHL Require Import Model.Commands Proofs.BaseFacts Proofs.SealFacts.

Section Rename.
  Variable Hb : fmt -> bytes -> bytes.
  Variable C : Type.
  Notation node := (node C).

  (* a record that carries a previous path is found under both names by every later look-up *)
  Theorem record_found_under_both_names r old : rec_keys_match (set_prev r old) old = true /\ rec_keys_match (set_prev r old) (r_path r) = true.
  Proof.
    unfold rec_keys_match, set_prev, opt_path_eqb. cbn. rewrite !path_eqb_refl. split; [apply orb_true_r|reflexivity].
  Qed.
  Theorem set_prev_keeps r old : r_path (set_prev r old) = r_path r /\ r_entries (set_prev r old) = r_entries r /\
                                 r_dir (set_prev r old) = r_dir r /\ r_size (set_prev r old) = r_size r /\ r_prev (set_prev r old) = Some old.
  Proof. repeat split. Qed.

  (* setting the previous path touches exactly the record with that path *)
  Theorem nl_set_prev_records nl rel prev : rel <> [] ->
    nl_records (nl_set_prev nl rel prev) = map (fun r => if path_eqb (r_path r) rel then set_prev r prev else r) (nl_records nl) /\
    nl_root (nl_set_prev nl rel prev) = nl_root nl.
  Proof. intros H. destruct rel; [congruence|]. split; reflexivity. Qed.

  (* the digest a missing path is identified by: the first entry of the first generation that has entries for it *)
  Definition identity_of (hs : list lhist) (nf : path) : option entry :=
    let h := route hs (root_hist hs) nf in find_first_any (lh_gens h) (strip_prefix (lh_root h) nf).

  (* when does one comparison mark the missing path as found? only on equal digests in the format of the identity *)
  Definition matches_identity (t : node) (st : dr_state) (np : path) (nfe : entry) : Prop :=
    exists hr r, sess_find (dr_sess st) np = Some (hr, r) /\
      ((exists e, find (fun e => fmt_eqb (e_fmt e) (e_fmt nfe)) (r_entries r) = Some e /\ e_digest e = e_digest nfe) \/
       (find (fun e => fmt_eqb (e_fmt e) (e_fmt nfe)) (r_entries r) = None /\
        exists c, get C t np = Some (File c) /\ digest_text Hb (e_fmt nfe) c = e_digest nfe)).

  Theorem dr_step_found hs t np st nf x :
    In x (dr_found (dr_step Hb C hs t np st nf)) ->
    In x (dr_found st) \/ (x = nf /\ exists nfe, identity_of hs nf = Some nfe /\ matches_identity t st np nfe).
  Proof.
    unfold dr_step, identity_of. destruct (dr_abort st); [auto|].
    destruct (find_first_any _ _) as [nfe|]; [|cbn; auto].
    destruct (sess_find (dr_sess st) np) as [[hr r]|] eqn:Es; [|cbn; auto].
    destruct (find _ (r_entries r)) as [e|] eqn:Ef.
    - destruct (text_eqb_spec (e_digest e) (e_digest nfe)) as [Ed|Ed]; [|auto].
      cbn [dr_found]. intros [<-|H]; [|auto]. right. split; [reflexivity|]. exists nfe. split; [reflexivity|].
      exists hr, r. split; [exact Es|]. left. exists e. auto.
    - destruct (get C t np) as [[c|h kids]|] eqn:Eg; auto.
      destruct (text_eqb_spec (digest_text Hb (e_fmt nfe) c) (e_digest nfe)) as [Ed|Ed]; [|auto].
      cbn [dr_found]. intros [<-|H]; [|auto]. right. split; [reflexivity|]. exists nfe. split; [reflexivity|].
      exists hr, r. split; [exact Es|]. right. split; [exact Ef|]. exists c. auto.
  Qed.

  (* over the whole double loop: a path is taken off the missing list only if SOME new path carries its identity *)
  Theorem detect_renames_sound hs t sess newp nfp x :
    In x (dr_found (detect_renames Hb C hs t sess newp nfp)) ->
    In x nfp /\ exists nfe, identity_of hs x = Some nfe.
  Proof.
    unfold detect_renames.
    set (P := fun st : dr_state => forall x, In x (dr_found st) -> In x nfp /\ exists nfe, identity_of hs x = Some nfe).
    assert (HP : P (fold_left (fun st np => fold_left (dr_step Hb C hs t np) nfp st) newp (mkDR sess [] false))).
    { apply (fold_left_inv _ P newp).
      - intros st np _ Hst. apply (fold_left_inv (dr_step Hb C hs t np) P nfp); [|exact Hst].
        intros st' nf Hin Hst' y Hy. apply dr_step_found in Hy. destruct Hy as [Hy|[-> [nfe [Hid _]]]]; [apply Hst'; exact Hy|].
        split; [exact Hin|eauto].
      - intros y []. }
    intros H. apply HP. exact H.
  Qed.

  (* a successful comparison records the old path on the new record (non-root record case) and marks it found *)
  Theorem dr_step_records hs t np st nf nfe hr r e :
    dr_abort st = false -> identity_of hs nf = Some nfe -> sess_find (dr_sess st) np = Some (hr, r) -> r_path r <> [] ->
    find (fun e => fmt_eqb (e_fmt e) (e_fmt nfe)) (r_entries r) = Some e -> e_digest e = e_digest nfe ->
    let st' := dr_step Hb C hs t np st nf in
    In nf (dr_found st') /\ dr_abort st' = false /\
    dr_sess st' = sess_set_prev (dr_sess st) hr (r_path r)
                    (strip_prefix (lh_root (route hs (root_hist hs) nf)) nf).
  Proof.
    intros Ha Hid Hs Hp Hf Hd. cbn zeta. unfold dr_step. rewrite Ha. unfold identity_of in Hid. rewrite Hid, Hs, Hf.
    destruct (text_eqb_spec (e_digest e) (e_digest nfe)); [|contradiction].
    destruct (r_path r) eqn:Er; [congruence|]. cbn. auto.
  Qed.
End Rename.
