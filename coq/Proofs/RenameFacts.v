(* C17: rename detection (create -dr) -- a recorded path counts as found only when a new path carries the very
   digest first recorded for it; the new record then carries the old path as previous path, and the look-ups of
   later runs find the record under both names. *)
From Coq Require Import Lia.
From MHL Require Import Model.Commands Proofs.BaseFacts Proofs.SealFacts.

Section Rename.
  Variable Hb : fmt -> bytes -> bytes.
  Variable C : Type.
  Notation node := (node C).

  (* a record that carries a previous path is found under both names by every later look-up *)
  Theorem record_found_under_both_names r old : rec_keys_match (set_prev r old) old = true /\ rec_keys_match (set_prev r old) (r_path r) = true.
  Proof.
    unfold rec_keys_match, set_prev, opt_path_eqb. cbn. rewrite !path_eqb_refl. split; [apply orb_true_r|reflexivity].
  Qed.
  Theorem set_prev_keeps r old : r_path (set_prev r old) = r_path r /\ r_entries (set_prev r old) = r_entries r /\
                                 r_dir (set_prev r old) = r_dir r /\ r_size (set_prev r old) = r_size r /\ r_prev (set_prev r old) = Some old.
  Proof. repeat split. Qed.

  (* setting the previous path touches exactly the record with that path *)
  Theorem nl_set_prev_records nl rel prev : rel <> [] ->
    nl_records (nl_set_prev nl rel prev) = map (fun r => if path_eqb (r_path r) rel then set_prev r prev else r) (nl_records nl) /\
    nl_root (nl_set_prev nl rel prev) = nl_root nl.
  Proof. intros H. destruct rel; [congruence|]. split; reflexivity. Qed.

  (* the digest a missing path is identified by: the first entry of the first generation that has entries for it *)
  Definition identity_of (hs : list lhist) (nf : path) : option entry :=
    let h := route hs (root_hist hs) nf in find_first_any (lh_gens h) (strip_prefix (lh_root h) nf).

  (* when does one comparison mark the missing path as found? only on equal digests in the format of the identity *)
  Definition matches_identity (t : node) (st : dr_state) (np : path) (nfe : entry) : Prop :=
    exists hr r, sess_find (dr_sess st) np = Some (hr, r) /\
      ((exists e, find (fun e => fmt_eqb (e_fmt e) (e_fmt nfe)) (r_entries r) = Some e /\ e_digest e = e_digest nfe) \/
       (find (fun e => fmt_eqb (e_fmt e) (e_fmt nfe)) (r_entries r) = None /\
        exists c, get C t np = Some (File c) /\ digest_text Hb (e_fmt nfe) c = e_digest nfe)).

  Theorem dr_step_found hs t np st nf x :
    In x (dr_found (dr_step Hb C hs t np st nf)) ->
    In x (dr_found st) \/ (x = nf /\ exists nfe, identity_of hs nf = Some nfe /\ matches_identity t st np nfe).
  Proof.
    unfold dr_step, identity_of. destruct (dr_abort st); [auto|].
    destruct (find_first_any _ _) as [nfe|]; [|cbn; auto].
    destruct (sess_find (dr_sess st) np) as [[hr r]|] eqn:Es; [|cbn; auto].
    destruct (find _ (r_entries r)) as [e|] eqn:Ef.
    - destruct (text_eqb_spec (e_digest e) (e_digest nfe)) as [Ed|Ed]; [|auto].
      cbn [dr_found]. intros [<-|H]; [|auto]. right. split; [reflexivity|]. exists nfe. split; [reflexivity|].
      exists hr, r. split; [exact Es|]. left. exists e. auto.
    - destruct (get C t np) as [[c|h kids]|] eqn:Eg; auto.
      destruct (text_eqb_spec (digest_text Hb (e_fmt nfe) c) (e_digest nfe)) as [Ed|Ed]; [|auto].
      cbn [dr_found]. intros [<-|H]; [|auto]. right. split; [reflexivity|]. exists nfe. split; [reflexivity|].
      exists hr, r. split; [exact Es|]. right. split; [exact Ef|]. exists c. auto.
  Qed.

  (* over the whole double loop: a path is taken off the missing list only if SOME new path carries its identity *)
  Theorem detect_renames_sound hs t sess newp nfp x :
    In x (dr_found (detect_renames Hb C hs t sess newp nfp)) ->
    In x nfp /\ exists nfe, identity_of hs x = Some nfe.
  Proof.
    unfold detect_renames.
    set (P := fun st : dr_state => forall x, In x (dr_found st) -> In x nfp /\ exists nfe, identity_of hs x = Some nfe).
    assert (HP : P (fold_left (fun st np => fold_left (dr_step Hb C hs t np) nfp st) newp (mkDR sess [] false))).
    { apply (fold_left_inv _ P newp).
      - intros st np _ Hst. apply (fold_left_inv (dr_step Hb C hs t np) P nfp); [|exact Hst].
        intros st' nf Hin Hst' y Hy. apply dr_step_found in Hy. destruct Hy as [Hy|[-> [nfe [Hid _]]]]; [apply Hst'; exact Hy|].
        split; [exact Hin|eauto].
      - intros y []. }
    intros H. apply HP. exact H.
  Qed.

  (* a successful comparison records the old path on the new record (non-root record case) and marks it found *)
  Theorem dr_step_records hs t np st nf nfe hr r e :
    dr_abort st = false -> identity_of hs nf = Some nfe -> sess_find (dr_sess st) np = Some (hr, r) -> r_path r <> [] ->
    find (fun e => fmt_eqb (e_fmt e) (e_fmt nfe)) (r_entries r) = Some e -> e_digest e = e_digest nfe ->
    let st' := dr_step Hb C hs t np st nf in
    In nf (dr_found st') /\ dr_abort st' = false /\
    dr_sess st' = sess_set_prev (dr_sess st) hr (r_path r)
                    (strip_prefix (lh_root (route hs (root_hist hs) nf)) nf).
  Proof.
    intros Ha Hid Hs Hp Hf Hd. cbn zeta. unfold dr_step. rewrite Ha. unfold identity_of in Hid. rewrite Hid, Hs, Hf.
    destruct (text_eqb_spec (e_digest e) (e_digest nfe)); [|contradiction].
    destruct (r_path r) eqn:Er; [congruence|]. cbn. auto.
  Qed.
End Rename.

(* ---- the rename map verify / diff / create apply to the recorded paths (MHLHistory.renamed_path_with_previous_path,
   as repaired): chains of renames over several generations resolve to the latest name ---- *)
Lemma find_last_app {A} (f : A -> bool) a b : find_last f (a ++ b) = match find_last f b with Some y => Some y | None => find_last f a end.
Proof.
  induction a as [|x a IH]; cbn [app find_last]; [destruct (find_last f b); reflexivity|].
  rewrite IH. destruct (find_last f b); [reflexivity|]. reflexivity.
Qed.
Lemma lookup_last_app m ren k : lookup_last (m ++ ren) k = match lookup_last ren k with Some v => Some v | None => lookup_last m k end.
Proof. unfold lookup_last. rewrite find_last_app. destruct (find_last _ ren); reflexivity. Qed.
Lemma lookup_last_map_values (g : path -> path) m k :
  lookup_last (map (fun kv : path * path => (fst kv, g (snd kv))) m) k = option_map g (lookup_last m k).
Proof.
  unfold lookup_last. induction m as [|[k0 v0] m IH]; [reflexivity|]. cbn [map find_last fst snd].
  destruct (find_last _ (map _ m)) as [y|] eqn:E1; destruct (find_last _ m) as [z|] eqn:E2; cbn [option_map] in *; try congruence.
  destruct (path_eqb k0 k); reflexivity.
Qed.
(* one hash list: its own renames win; otherwise a path known so far follows a further rename of its target *)
Theorem rename_step_lookup h m g k :
  lookup_last (rename_step h m g) k =
  match lookup_last (gen_renames h g) k with
  | Some v => Some v
  | None => option_map (fun v => match lookup_last (gen_renames h g) v with Some p => p | None => v end) (lookup_last m k)
  end.
Proof.
  unfold rename_step. rewrite lookup_last_app. destruct (lookup_last (gen_renames h g) k); [reflexivity|].
  rewrite <- (lookup_last_map_values (fun v => match lookup_last (gen_renames h g) v with Some p => p | None => v end) m k).
  f_equal. apply map_ext. intros [k0 v0]. cbn [fst snd]. destruct (lookup_last (gen_renames h g) v0); reflexivity.
Qed.
(* a -> b in one generation and b -> c in a later one: a (and b) are expected under the name c *)
Corollary rename_chain_resolved h m g a b c :
  lookup_last m a = Some b -> lookup_last (gen_renames h g) a = None -> lookup_last (gen_renames h g) b = Some c ->
  lookup_last (rename_step h m g) a = Some c /\ lookup_last (rename_step h m g) b = Some c.
Proof.
  intros Ha Hna Hb. rewrite !rename_step_lookup, Hna, Ha, Hb. cbn [option_map]. rewrite Hb. split; reflexivity.
Qed.
Example rename_chain_example :
  let a := [[97%N]] in let b := [[98%N]] in let c := [[99%N]] in
  let mk no recs := mkGen no recs None [] [] InPlace in
  let h := mkLhist [] None [mk 1%N [mkRecord a false None [] None];
                            mk 2%N [mkRecord b false None [] (Some a)];
                            mk 3%N [mkRecord c false None [] (Some b)]] [] true in
  map (renamed [h]) (recorded_paths [h]) = [c; c; c].
Proof. vm_compute. reflexivity. Qed.
