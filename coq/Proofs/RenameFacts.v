(* C17: rename detection (create -dr) -- a recorded path counts as found only when a new path carries the very
   digest first recorded for it; the new record then carries the old path as previous path, and the look-ups of
   later runs find the record under both names. *)
From Coq Require Import Lia.
From MHL Require Import Model.Commands Proofs.BaseFacts Proofs.SealFacts.

Section Rename.
  Variable Hb : fmt -> bytes -> bytes.
  Variable C : Type.
  Notation node := (node C).

  (* a record that carries a previous path is found under both names by every later look-up *)
  Theorem record_found_under_both_names r old : rec_keys_match (set_prev r old) old = true /\ rec_keys_match (set_prev r old) (r_path r) = true.
  Proof.
    unfold rec_keys_match, set_prev, opt_path_eqb. cbn. rewrite !path_eqb_refl. split; [apply orb_true_r|reflexivity].
  Qed.
  Theorem set_prev_keeps r old : r_path (set_prev r old) = r_path r /\ r_entries (set_prev r old) = r_entries r /\
                                 r_dir (set_prev r old) = r_dir r /\ r_size (set_prev r old) = r_size r /\ r_prev (set_prev r old) = Some old.
  Proof. repeat split. Qed.

  (* setting the previous path touches exactly the record with that path *)
  Theorem nl_set_prev_records nl rel prev : rel <> [] ->
    nl_records (nl_set_prev nl rel prev) = map (fun r => if path_eqb (r_path r) rel then set_prev r prev else r) (nl_records nl) /\
    nl_root (nl_set_prev nl rel prev) = nl_root nl.
  Proof. intros H. destruct rel; [congruence|]. split; reflexivity. Qed.

  (* the digest a missing path is identified by: the first entry of the first generation that has entries for it *)
  Definition identity_of (hs : list lhist) (nf : path) : option entry :=
    let h := route hs (root_hist hs) nf in find_first_any (lh_gens h) (strip_prefix (lh_root h) nf).

  (* when does one comparison mark the missing path as found? only on equal digests in the format of the identity *)
  Definition matches_identity (t : node) (st : dr_state) (np : path) (nfe : entry) : Prop :=
    exists hr r, sess_find (dr_sess st) np = Some (hr, r) /\
      ((exists e, find (fun e => fmt_eqb (e_fmt e) (e_fmt nfe)) (r_entries r) = Some e /\ e_digest e = e_digest nfe) \/
       (find (fun e => fmt_eqb (e_fmt e) (e_fmt nfe)) (r_entries r) = None /\
        exists c, get C t np = Some (File c) /\ digest_text Hb (e_fmt nfe) c = e_digest nfe)).

  Theorem dr_step_found hs t np st nf x :
    In x (dr_found (dr_step Hb C hs t np st nf)) ->
    In x (dr_found st) \/ (x = nf /\ exists nfe, identity_of hs nf = Some nfe /\ matches_identity t st np nfe).
  Proof.
    unfold dr_step, identity_of. destruct (dr_abort st); [auto|].
    destruct (find_first_any _ _) as [nfe|]; [|cbn; auto].
    destruct (sess_find (dr_sess st) np) as [[hr r]|] eqn:Es; [|cbn; auto].
    destruct (find _ (r_entries r)) as [e|] eqn:Ef.
    - destruct (text_eqb_spec (e_digest e) (e_digest nfe)) as [Ed|Ed]; [|auto].
      cbn [dr_found]. intros [<-|H]; [|auto]. right. split; [reflexivity|]. exists nfe. split; [reflexivity|].
      exists hr, r. split; [exact Es|]. left. exists e. auto.
    - destruct (get C t np) as [[c|h kids]|] eqn:Eg; auto.
      destruct (text_eqb_spec (digest_text Hb (e_fmt nfe) c) (e_digest nfe)) as [Ed|Ed]; [|auto].
      cbn [dr_found]. intros [<-|H]; [|auto]. right. split; [reflexivity|]. exists nfe. split; [reflexivity|].
      exists hr, r. split; [exact Es|]. right. split; [exact Ef|]. exists c. auto.
  Qed.

  (* over the whole double loop: a path is taken off the missing list only if SOME new path carries its identity *)
  Theorem detect_renames_sound hs t sess newp nfp x :
    In x (dr_found (detect_renames Hb C hs t sess newp nfp)) ->
    In x nfp /\ exists nfe, identity_of hs x = Some nfe.
  Proof.
    unfold detect_renames.
    set (P := fun st : dr_state => forall x, In x (dr_found st) -> In x nfp /\ exists nfe, identity_of hs x = Some nfe).
    assert (HP : P (fold_left (fun st np => fold_left (dr_step Hb C hs t np) nfp st) newp (mkDR sess [] false))).
    { apply (fold_left_inv _ P newp).
      - intros st np _ Hst. apply (fold_left_inv (dr_step Hb C hs t np) P nfp); [|exact Hst].
        intros st' nf Hin Hst' y Hy. apply dr_step_found in Hy. destruct Hy as [Hy|[-> [nfe [Hid _]]]]; [apply Hst'; exact Hy|].
        split; [exact Hin|eauto].
      - intros y []. }
    intros H. apply HP. exact H.
  Qed.

  (* a successful comparison records the old path on the new record (non-root record case) and marks it found *)
  Theorem dr_step_records hs t np st nf nfe hr r e :
    dr_abort st = false -> identity_of hs nf = Some nfe -> sess_find (dr_sess st) np = Some (hr, r) -> r_path r <> [] ->
    find (fun e => fmt_eqb (e_fmt e) (e_fmt nfe)) (r_entries r) = Some e -> e_digest e = e_digest nfe ->
    let st' := dr_step Hb C hs t np st nf in
    In nf (dr_found st') /\ dr_abort st' = false /\
    dr_sess st' = sess_set_prev (dr_sess st) hr (r_path r)
                    (strip_prefix (lh_root (route hs (root_hist hs) nf)) nf).
  Proof.
    intros Ha Hid Hs Hp Hf Hd. cbn zeta. unfold dr_step. rewrite Ha. unfold identity_of in Hid. rewrite Hid, Hs, Hf.
    destruct (text_eqb_spec (e_digest e) (e_digest nfe)); [|contradiction].
    destruct (r_path r) eqn:Er; [congruence|]. cbn. auto.
  Qed.
  (* ---- completeness of the double loop: a moved file whose bytes carry the identity of a missing path IS matched ---- *)
  Definition view (x : path * record) : path * path * list entry := (fst x, r_path (snd x), r_entries (snd x)).
  Lemma find_map_keep (F : record -> record) rel l : (forall r, r_path (F r) = r_path r) ->
    find (fun r => path_eqb (r_path r) rel) (map F l) = option_map F (find (fun r => path_eqb (r_path r) rel) l).
  Proof.
    intros HF. induction l as [|r l IH]; [reflexivity|]. cbn [map find]. rewrite HF. destruct (path_eqb (r_path r) rel); [reflexivity|exact IH].
  Qed.
  Lemma sess_find_set_prev s h rel prev p :
    option_map view (sess_find (sess_set_prev s h rel prev) p) = option_map view (sess_find s p).
  Proof.
    induction s as [|[k nl] s IH]; [reflexivity|]. cbn [sess_set_prev].
    destruct (path_eqb_spec k h) as [->|Hk]; cbn [sess_find].
    - destruct (is_prefix h p); [|reflexivity].
      destruct (strip_prefix h p) as [|x xs] eqn:Es.
      + destruct rel as [|y ys]; cbn [nl_set_prev nl_root].
        * destruct (nl_root nl) as [r0|]; reflexivity.
        * reflexivity.
      + destruct rel as [|y ys]; cbn [nl_set_prev nl_records]; [reflexivity|].
        rewrite (find_map_keep (fun r => if path_eqb (r_path r) (y :: ys) then set_prev r prev else r)).
        * destruct (find _ (nl_records nl)) as [r0|]; [|reflexivity]. cbn [option_map]. destruct (path_eqb (r_path r0) (y :: ys)); reflexivity.
        * intros r. destruct (path_eqb (r_path r) (y :: ys)); reflexivity.
    - destruct (if is_prefix k p then _ else None) as [r0|]; [reflexivity|exact IH].
  Qed.
  Lemma dr_step_view hs t np st nf p :
    option_map view (sess_find (dr_sess (dr_step Hb C hs t np st nf)) p) = option_map view (sess_find (dr_sess st) p).
  Proof.
    unfold dr_step. destruct (dr_abort st); [reflexivity|]. destruct (find_first_any _ _) as [nfe|]; [|reflexivity].
    destruct (sess_find (dr_sess st) np) as [[hr r]|]; [|reflexivity].
    destruct (find _ (r_entries r)).
    - destruct (text_eqb _ _); [|reflexivity]. cbn [dr_sess].
      destruct (r_path r); [destruct (parent_of hs hr); [apply sess_find_set_prev|reflexivity]|apply sess_find_set_prev].
    - destruct (get C t np) as [[c|]|]; try reflexivity. destruct (text_eqb _ _); [|reflexivity]. cbn [dr_sess]. apply sess_find_set_prev.
  Qed.
  Lemma dr_step_mono hs t np st nf :
    (forall x, In x (dr_found st) -> In x (dr_found (dr_step Hb C hs t np st nf))) /\
    (dr_abort st = true -> dr_abort (dr_step Hb C hs t np st nf) = true).
  Proof.
    unfold dr_step. destruct (dr_abort st) eqn:Ea; [auto|]. split; [|discriminate].
    destruct (find_first_any _ _) as [nfe|]; [|auto]. destruct (sess_find (dr_sess st) np) as [[hr r]|]; [|auto].
    destruct (find _ (r_entries r)).
    - destruct (text_eqb _ _); [|auto]. cbn [dr_found]. intros x Hx. right. exact Hx.
    - destruct (get C t np) as [[c|]|]; auto. destruct (text_eqb _ _); [|auto]. cbn [dr_found]. intros x Hx. right. exact Hx.
  Qed.
  Lemma dr_step_hit hs t np st nf nfe hr r c :
    dr_abort (dr_step Hb C hs t np st nf) = false -> identity_of hs nf = Some nfe ->
    option_map view (sess_find (dr_sess st) np) = Some (hr, r_path r, r_entries r) ->
    (forall e, In e (r_entries r) -> e_digest e = digest_text Hb (e_fmt e) c) ->
    get C t np = Some (File c) -> digest_text Hb (e_fmt nfe) c = e_digest nfe ->
    In nf (dr_found (dr_step Hb C hs t np st nf)).
  Proof.
    intros Ha Hid Hs Hcur Hg Hd. unfold dr_step in *. destruct (dr_abort st) eqn:Ea0; [congruence|].
    unfold identity_of in Hid. rewrite Hid in *.
    destruct (sess_find (dr_sess st) np) as [[hr' r']|]; [|discriminate]. cbn [option_map view fst snd] in Hs. injection Hs as -> Hp He.
    destruct (find (fun e => fmt_eqb (e_fmt e) (e_fmt nfe)) (r_entries r')) as [e|] eqn:Ef.
    - apply find_some in Ef. destruct Ef as [Hin Hf]. destruct (fmt_eqb_spec (e_fmt e) (e_fmt nfe)) as [Efm|]; [|discriminate].
      assert (Ed : e_digest e = e_digest nfe) by (rewrite <- Hd, <- Efm; apply Hcur; rewrite <- He; exact Hin).
      destruct (text_eqb_spec (e_digest e) (e_digest nfe)); [|contradiction]. cbn [dr_found]. left. reflexivity.
    - rewrite Hg. destruct (text_eqb_spec (digest_text Hb (e_fmt nfe) c) (e_digest nfe)); [|contradiction]. cbn [dr_found]. left. reflexivity.
  Qed.

  Lemma inner_fold hs t np nfp : forall st,
    let st' := fold_left (dr_step Hb C hs t np) nfp st in
    (forall x, In x (dr_found st) -> In x (dr_found st')) /\ (dr_abort st = true -> dr_abort st' = true) /\
    (forall p, option_map view (sess_find (dr_sess st') p) = option_map view (sess_find (dr_sess st) p)).
  Proof.
    induction nfp as [|nf nfp IH]; intros st; cbn [fold_left]; [auto|].
    destruct (IH (dr_step Hb C hs t np st nf)) as [H1 [H2 H3]]. destruct (dr_step_mono hs t np st nf) as [M1 M2].
    split; [auto|]. split; [auto|]. intros p. rewrite H3. apply dr_step_view.
  Qed.
  Lemma inner_hit hs t np nfp nf nfe hr r c : forall st,
    dr_abort (fold_left (dr_step Hb C hs t np) nfp st) = false -> In nf nfp -> identity_of hs nf = Some nfe ->
    option_map view (sess_find (dr_sess st) np) = Some (hr, r_path r, r_entries r) ->
    (forall e, In e (r_entries r) -> e_digest e = digest_text Hb (e_fmt e) c) ->
    get C t np = Some (File c) -> digest_text Hb (e_fmt nfe) c = e_digest nfe ->
    In nf (dr_found (fold_left (dr_step Hb C hs t np) nfp st)).
  Proof.
    induction nfp as [|x nfp IH]; intros st Ha Hin Hid Hs Hcur Hg Hd; [destruct Hin|]. cbn [fold_left] in *.
    destruct (inner_fold hs t np nfp (dr_step Hb C hs t np st x)) as [F1 [F2 _]]. cbn zeta in F1, F2.
    destruct Hin as [->|Hin].
    - apply F1. apply (dr_step_hit hs t np st nf nfe hr r c); auto.
      destruct (dr_abort (dr_step Hb C hs t np st nf)) eqn:E; [rewrite (F2 eq_refl) in Ha; discriminate|reflexivity].
    - apply IH; auto. rewrite dr_step_view. exact Hs.
  Qed.
  Theorem detect_renames_complete hs t sess newp nfp np nf nfe hr r c :
    dr_abort (detect_renames Hb C hs t sess newp nfp) = false -> In np newp -> In nf nfp -> identity_of hs nf = Some nfe ->
    sess_find sess np = Some (hr, r) -> (forall e, In e (r_entries r) -> e_digest e = digest_text Hb (e_fmt e) c) ->
    get C t np = Some (File c) -> digest_text Hb (e_fmt nfe) c = e_digest nfe ->
    In nf (dr_found (detect_renames Hb C hs t sess newp nfp)).
  Proof.
    unfold detect_renames. intros Ha Hnp Hnf Hid Hs Hcur Hg Hd.
    assert (Hs0 : option_map view (sess_find (dr_sess (mkDR sess [] false)) np) = Some (hr, r_path r, r_entries r)) by (cbn [dr_sess]; rewrite Hs; reflexivity).
    revert Ha Hs0. generalize (mkDR sess [] false). clear Hs.
    induction newp as [|x newp IH]; intros st Ha Hs; [destruct Hnp|]. cbn [fold_left] in *.
    assert (Houter : forall l st0, (forall y, In y (dr_found st0) -> In y (dr_found (fold_left (fun st np => fold_left (dr_step Hb C hs t np) nfp st) l st0))) /\
                                   (dr_abort st0 = true -> dr_abort (fold_left (fun st np => fold_left (dr_step Hb C hs t np) nfp st) l st0) = true)).
    { induction l as [|y l IHl]; intros st0; cbn [fold_left]; [auto|].
      destruct (IHl (fold_left (dr_step Hb C hs t y) nfp st0)) as [A1 A2]. destruct (inner_fold hs t y nfp st0) as [B1 [B2 _]]. cbn zeta in B1, B2. split; auto. }
    destruct Hnp as [->|Hnp].
    - destruct (Houter newp (fold_left (dr_step Hb C hs t np) nfp st)) as [A1 A2]. apply A1.
      apply (inner_hit hs t np nfp nf nfe hr r c st); auto.
      destruct (dr_abort (fold_left (dr_step Hb C hs t np) nfp st)) eqn:E; [rewrite (A2 eq_refl) in Ha; discriminate|reflexivity].
    - apply IH; auto. destruct (inner_fold hs t x nfp st) as [_ [_ B3]]. cbn zeta in B3. rewrite B3. exact Hs.
  Qed.
End Rename.

(* ---- the rename map verify / diff / create apply to the recorded paths (MHLHistory.renamed_path_with_previous_path,
   as repaired): chains of renames over several generations resolve to the latest name ---- *)
Lemma find_last_app {A} (f : A -> bool) a b : find_last f (a ++ b) = match find_last f b with Some y => Some y | None => find_last f a end.
Proof.
  induction a as [|x a IH]; cbn [app find_last]; [destruct (find_last f b); reflexivity|].
  rewrite IH. destruct (find_last f b); [reflexivity|]. reflexivity.
Qed.
Lemma lookup_last_app m ren k : lookup_last (m ++ ren) k = match lookup_last ren k with Some v => Some v | None => lookup_last m k end.
Proof. unfold lookup_last. rewrite find_last_app. destruct (find_last _ ren); reflexivity. Qed.
Lemma lookup_last_map_values (g : path -> path) m k :
  lookup_last (map (fun kv : path * path => (fst kv, g (snd kv))) m) k = option_map g (lookup_last m k).
Proof.
  unfold lookup_last. induction m as [|[k0 v0] m IH]; [reflexivity|]. cbn [map find_last fst snd].
  destruct (find_last _ (map _ m)) as [y|] eqn:E1; destruct (find_last _ m) as [z|] eqn:E2; cbn [option_map] in *; try congruence.
  destruct (path_eqb k0 k); reflexivity.
Qed.
(* one hash list: its own renames win; otherwise a path known so far follows a further rename of its target *)
Theorem rename_step_lookup h m g k :
  lookup_last (rename_step h m g) k =
  match lookup_last (gen_renames h g) k with
  | Some v => Some v
  | None => option_map (fun v => match lookup_last (gen_renames h g) v with Some p => p | None => v end) (lookup_last m k)
  end.
Proof.
  unfold rename_step. rewrite lookup_last_app. destruct (lookup_last (gen_renames h g) k); [reflexivity|].
  rewrite <- (lookup_last_map_values (fun v => match lookup_last (gen_renames h g) v with Some p => p | None => v end) m k).
  f_equal. apply map_ext. intros [k0 v0]. cbn [fst snd]. destruct (lookup_last (gen_renames h g) v0); reflexivity.
Qed.
(* a -> b in one generation and b -> c in a later one: a (and b) are expected under the name c *)
Corollary rename_chain_resolved h m g a b c :
  lookup_last m a = Some b -> lookup_last (gen_renames h g) a = None -> lookup_last (gen_renames h g) b = Some c ->
  lookup_last (rename_step h m g) a = Some c /\ lookup_last (rename_step h m g) b = Some c.
Proof.
  intros Ha Hna Hb. rewrite !rename_step_lookup, Hna, Ha, Hb. cbn [option_map]. rewrite Hb. split; reflexivity.
Qed.
Example rename_chain_example :
  let a := [[97%N]] in let b := [[98%N]] in let c := [[99%N]] in
  let mk no recs := mkGen no recs None [] [] InPlace in
  let h := mkLhist [] None [mk 1%N [mkRecord a false None [] None];
                            mk 2%N [mkRecord b false None [] (Some a)];
                            mk 3%N [mkRecord c false None [] (Some b)]] [] true in
  map (renamed [h]) (recorded_paths [h]) = [c; c; c].
Proof. vm_compute. reflexivity. Qed.
