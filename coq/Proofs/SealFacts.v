(* C04: the per-file decision of `create` (commands.seal_file_path, generator.append_file_hash,
   history._validate_new_hash_list) against the generations that already mention the path. *)
From Coq Require Import Lia.
From MHL Require Import Model.Seal Proofs.BaseFacts.

Lemma fmt_eqb_spec a b : reflect (a = b) (fmt_eqb a b).
Proof. destruct a, b; cbn; constructor; congruence. Qed.
Lemma fmt_eqb_refl a : fmt_eqb a a = true.
Proof. destruct a; reflexivity. Qed.
Lemma memf_In f l : memf f l = true <-> In f l.
Proof. unfold memf. apply existsb_eqb_In. exact fmt_eqb_spec. Qed.
Lemma memf_not_In f l : memf f l = false <-> ~ In f l.
Proof. rewrite <- memf_In. destruct (memf f l); split; congruence. Qed.

(* ---- look-ups are stable under later generations: a later generation never becomes the reference ---- *)
Lemma find_first_app a b p f :
  find_first (a ++ b) p f = match find_first a p f with Some e => Some e | None => find_first b p f end.
Proof.
  induction a as [|g a IH]; cbn; [reflexivity|].
  destruct (find_media_hash g p); [|exact IH].
  destruct (find _ (r_entries r)); [reflexivity|exact IH].
Qed.
Lemma find_original_app a b p :
  find_original (a ++ b) p = match find_original a p with Some e => Some e | None => find_original b p end.
Proof.
  induction a as [|g a IH]; cbn; [reflexivity|].
  destruct (find_media_hash g p); [|exact IH].
  destruct (find _ (r_entries r)); [reflexivity|exact IH].
Qed.
Lemma find_first_stable gens more p f e : find_first gens p f = Some e -> find_first (gens ++ more) p f = Some e.
Proof. intros H. rewrite find_first_app, H. reflexivity. Qed.
Lemma find_original_stable gens more p e : find_original gens p = Some e -> find_original (gens ++ more) p = Some e.
Proof. intros H. rewrite find_original_app, H. reflexivity. Qed.

Lemma find_first_fmt gens p f e : find_first gens p f = Some e -> e_fmt e = f.
Proof.
  induction gens as [|g gens IH]; cbn; [discriminate|].
  destruct (find_media_hash g p); [|exact IH].
  destruct (find _ (r_entries r)) eqn:E; [|exact IH].
  intros [= <-]. apply find_some in E. destruct E as [_ E]. destruct (fmt_eqb_spec (e_fmt e0) f); congruence.
Qed.

(* the entries ever recorded for the path *)
Definition recorded (gens : list gen) (p : path) (e : entry) : Prop :=
  exists g r, In g gens /\ find_media_hash g p = Some r /\ In e (r_entries r).

Lemma find_first_recorded gens p f e : find_first gens p f = Some e -> recorded gens p e.
Proof.
  induction gens as [|g gens IH]; cbn; [discriminate|].
  destruct (find_media_hash g p) eqn:Em.
  - destruct (find _ (r_entries r)) eqn:E.
    + intros [= <-]. apply find_some in E. exists g, r. cbn. tauto.
    + intros H. destruct (IH H) as [g' [r' [H1 H2]]]. exists g', r'. cbn. tauto.
  - intros H. destruct (IH H) as [g' [r' [H1 H2]]]. exists g', r'. cbn. tauto.
Qed.
Lemma find_original_recorded gens p e : find_original gens p = Some e -> recorded gens p e /\ e_action e = Some Original.
Proof.
  induction gens as [|g gens IH]; cbn; [discriminate|].
  assert (Hlift : forall e, recorded gens p e -> recorded (g :: gens) p e).
  { intros e0 [g' [r' [H1 H2]]]. exists g', r'. cbn. tauto. }
  destruct (find_media_hash g p) eqn:Em.
  - destruct (find is_original (r_entries r)) eqn:E.
    + intros [= <-]. apply find_some in E. destruct E as [E1 E2]. split.
      * exists g, r. cbn. tauto.
      * unfold is_original in E2. destruct (e_action e0) as [[]|]; congruence.
    + intros H. destruct (IH H). split; auto.
  - intros H. destruct (IH H). split; auto.
Qed.
Lemma recorded_find_first gens p e : recorded gens p e -> find_first gens p (e_fmt e) <> None.
Proof.
  intros [g [r [Hg [Hm He]]]]. induction gens as [|g0 gens IH]; cbn; [destruct Hg|].
  destruct Hg as [->|Hg].
  - rewrite Hm. destruct (find _ (r_entries r)) eqn:E; [discriminate|].
    eapply find_none in E; [|exact He]. rewrite fmt_eqb_refl in E. discriminate.
  - destruct (find_media_hash g0 p); [|auto]. destruct (find _ (r_entries r0)); [discriminate|auto].
Qed.

Lemma existing_formats_In gens p f : In f (existing_formats gens p) <-> find_first gens p f <> None.
Proof.
  unfold existing_formats, dedup_fmts. rewrite (dedup_by_In fmt_eqb fmt_eqb_spec). cbn.
  rewrite in_flat_map. split.
  - intros [[g [Hg Hin]] _]. destruct (find_media_hash g p) eqn:Em; [|destruct Hin].
    apply in_map_iff in Hin. destruct Hin as [e [<- He]]. apply recorded_find_first. exists g, r. tauto.
  - intros H. split; [|tauto]. destruct (find_first gens p f) eqn:E; [|congruence].
    pose proof (find_first_fmt _ _ _ _ E) as Hf. apply find_first_recorded in E.
    destruct E as [g [r [Hg [Hm He]]]]. exists g. split; [exact Hg|]. rewrite Hm. apply in_map_iff. exists e. tauto.
Qed.
Lemma existing_formats_NoDup gens p : NoDup (existing_formats gens p).
Proof. apply dedup_by_NoDup. exact fmt_eqb_spec. Qed.

(* ---- the decision -------------------------------------------------------------------------------------- *)
Section Decide.
  Variable gens : list gen.
  Variable p : path.
  Variable dg : fmt -> text.

  Lemma decide_original f : decide gens p dg f = Original <-> find_original gens p = None.
  Proof.
    unfold decide. destruct (find_original gens p) as [o|]; [|tauto].
    destruct (find_first gens p f); [destruct (text_eqb _ _)|]; split; congruence.
  Qed.
  Lemma decide_verified f :
    decide gens p dg f = Verified <->
    find_original gens p <> None /\ exists e, find_first gens p f = Some e /\ e_digest e = dg f.
  Proof.
    unfold decide. destruct (find_original gens p) as [o|]; [|split; [discriminate|intros [H _]; congruence]].
    destruct (find_first gens p f) as [e|].
    - destruct (text_eqb_spec (e_digest e) (dg f)); split; try discriminate.
      + intros _. split; [discriminate|]. eauto.
      + reflexivity.
      + intros [_ [e' [[= <-] H]]]. congruence.
    - split; [discriminate|]. intros [_ [e' [H _]]]. discriminate.
  Qed.
  Lemma decide_failed f :
    decide gens p dg f = Failed <->
    find_original gens p <> None /\ exists e, find_first gens p f = Some e /\ e_digest e <> dg f.
  Proof.
    unfold decide. destruct (find_original gens p) as [o|]; [|split; [discriminate|intros [H _]; congruence]].
    destruct (find_first gens p f) as [e|].
    - destruct (text_eqb_spec (e_digest e) (dg f)); split; try discriminate.
      + intros [_ [e' [[= <-] H]]]. congruence.
      + intros _. split; [discriminate|]. eauto.
      + reflexivity.
    - split; [discriminate|]. intros [_ [e' [H _]]]. discriminate.
  Qed.
  Lemma decide_new f :
    decide gens p dg f = New <-> find_original gens p <> None /\ find_first gens p f = None.
  Proof.
    unfold decide. destruct (find_original gens p) as [o|]; [|split; [discriminate|intros [H _]; congruence]].
    destruct (find_first gens p f) as [e|].
    - destruct (text_eqb _ _); split; try discriminate; intros [_ H]; discriminate.
    - split; [intros _; split; [discriminate|reflexivity]|reflexivity].
  Qed.

  (* ---- the two loops of seal_file_path in closed form ---- *)
  Notation mk := (mk_entry gens p dg).
  Notation dec := (decide gens p dg).

  Lemma phase1_fold req tg : forall l cur ver res,
    fold_left (phase1_step gens p dg req tg) l (cur, ver, res) =
    (cur ++ map mk (filter (fun f => memf f tg) l),
     ver && forallb (fun f => not_failed (dec f)) (filter (fun f => memf f tg) l),
     res ++ map (fun f => (f, not_failed (dec f))) (filter (fun f => memf f req) (filter (fun f => memf f tg) l))).
  Proof.
    induction l as [|f l IH]; intros cur ver res; cbn [fold_left filter map forallb].
    - rewrite !app_nil_r, andb_true_r. reflexivity.
    - unfold phase1_step at 2. destruct (memf f tg) eqn:E.
      + rewrite IH. cbn [map forallb filter]. destruct (memf f req); cbn [map]; rewrite <- !app_assoc, andb_assoc; reflexivity.
      + apply IH.
  Qed.
  Lemma phase2_fold req ex verified : forall l cur res,
    fold_left (phase2_step gens p dg req ex verified) l (cur, res) =
    (cur ++ (if verified then map mk (filter (fun f => negb (memf f ex)) l) else []),
     res ++ map (fun f => (f, if verified then not_failed (dec f) else false))
                (filter (fun f => memf f req) (filter (fun f => negb (memf f ex)) l))).
  Proof.
    induction l as [|f l IH]; intros cur res; cbn [fold_left filter map].
    - destruct verified; rewrite !app_nil_r; reflexivity.
    - unfold phase2_step at 2. destruct (memf f ex) eqn:E; cbn [negb].
      + apply IH.
      + destruct verified; rewrite IH; cbn [map filter]; destruct (memf f req); cbn [map]; rewrite <- ?app_assoc; reflexivity.
  Qed.

  Definition ex := existing_formats gens p.
  Definition carried (req : list fmt) : list fmt := filter (fun f => memf f (to_generate ex req)) ex.
  Definition all_verified (req : list fmt) : bool := forallb (fun f => not_failed (dec f)) (carried req).
  Definition fresh (req : list fmt) : list fmt := filter (fun f => negb (memf f ex)) (to_generate ex req).

  (* the record written for the file: the checked entries of already recorded formats, then -- only when none of
     them failed -- the entries of the formats that are new for the path *)
  Theorem seal_entries req :
    fst (seal gens p dg req) = map mk (carried req) ++ (if all_verified req then map mk (fresh req) else []).
  Proof.
    unfold seal. fold ex. rewrite (phase1_fold req (to_generate ex req) ex [] true []).
    rewrite phase2_fold. cbn [fst app andb]. reflexivity.
  Qed.

  Lemma carried_recorded req f : In f (carried req) -> find_first gens p f <> None.
  Proof. unfold carried. rewrite filter_In. intros [H _]. apply existing_formats_In. exact H. Qed.
  Lemma fresh_unrecorded req f : In f (fresh req) -> find_first gens p f = None.
  Proof.
    unfold fresh. rewrite filter_In. intros [_ H]. apply negb_true_iff, memf_not_In in H.
    unfold ex in H. rewrite existing_formats_In in H. destruct (find_first gens p f); [exfalso; apply H; discriminate|reflexivity].
  Qed.

  Lemma to_generate_In req f : In f (to_generate ex req) -> In f ex \/ In f req.
  Proof.
    unfold to_generate. rewrite (dedup_by_In fmt_eqb fmt_eqb_spec). intros [H _]. apply in_app_or in H.
    destruct H as [H|H]; [left|right; exact H].
    destruct ex as [|f0 l] eqn:E; [destruct H|].
    destruct (filter _ (f0 :: l)) eqn:Ef.
    - destruct H as [<-|[]]. left. reflexivity.
    - rewrite <- Ef in H. apply filter_In in H. tauto.
  Qed.
  Lemma to_generate_req req f : In f req -> In f (to_generate ex req).
  Proof. intros H. unfold to_generate. rewrite (dedup_by_In fmt_eqb fmt_eqb_spec). split; [apply in_or_app; auto|tauto]. Qed.
  (* when the path is already recorded, at least one recorded format is checked again *)
  Lemma carried_nonempty req : ex <> [] -> carried req <> [].
  Proof.
    intros Hex. unfold carried.
    assert (exists f, In f ex /\ In f (to_generate ex req)) as [f [H1 H2]].
    { unfold to_generate. destruct ex as [|f0 l] eqn:E; [congruence|].
      destruct (filter (fun f => memf f req) (f0 :: l)) as [|f1 l1] eqn:Ef.
      - exists f0. split; [left; reflexivity|]. rewrite (dedup_by_In fmt_eqb fmt_eqb_spec). split; [left; reflexivity|tauto].
      - exists f1. assert (In f1 (filter (fun f => memf f req) (f0 :: l))) by (rewrite Ef; left; reflexivity).
        apply filter_In in H. split; [tauto|]. rewrite (dedup_by_In fmt_eqb fmt_eqb_spec). split; [|tauto].
        apply in_or_app. left. left. reflexivity. }
    intros Hn. assert (In f (filter (fun f => memf f (to_generate ex req)) ex)) by (apply filter_In; split; [exact H1|apply memf_In; exact H2]).
    rewrite Hn in H. destruct H.
  Qed.
End Decide.

(* ---- validation: `new` is promoted to `verified`, or the run aborts ---- *)
Lemma has_action_In a es : has_action a es = true <-> exists e, In e es /\ e_action e = Some a.
Proof.
  unfold has_action. rewrite existsb_exists. split; intros [e [H1 H2]]; exists e; split; auto.
  - destruct (e_action e) as [b|]; [|discriminate]. destruct a, b; cbn in H2; congruence.
  - cbn beta. rewrite H2. destruct a; reflexivity.
Qed.
Lemma promote_action e : e_action (promote e) = match e_action e with Some New => Some Verified | a => a end.
Proof. unfold promote. destruct (e_action e) as [[]|] eqn:E; cbn; congruence. Qed.
Lemma promote_fmt e : e_fmt (promote e) = e_fmt e.
Proof. unfold promote. destruct (e_action e) as [[]|]; reflexivity. Qed.
Lemma promote_digest e : e_digest (promote e) = e_digest e.
Proof. unfold promote. destruct (e_action e) as [[]|]; reflexivity. Qed.

Lemma validate_record_ok r r' : validate_record r = Some r' ->
  r_path r' = r_path r /\ r_dir r' = r_dir r /\ r_size r' = r_size r /\ r_prev r' = r_prev r /\
  r_entries r' = map promote (r_entries r) /\
  (has_action New (r_entries r) = true -> has_action Verified (r_entries r) = true /\ has_action Failed (r_entries r) = false).
Proof.
  unfold validate_record. destruct (has_action New (r_entries r)) eqn:En.
  - destruct (has_action Verified (r_entries r)) eqn:Ev; cbn [andb]; [|discriminate].
    destruct (has_action Failed (r_entries r)) eqn:Ef; cbn [negb]; [discriminate|].
    intros [= <-]. cbn. tauto.
  - intros [= <-]. repeat split; try discriminate.
    transitivity (map (fun x : entry => x) (r_entries r)); [symmetry; apply map_id|]. apply map_ext_in. intros e He.
    unfold promote. destruct (e_action e) as [[]|] eqn:Ea; try reflexivity.
    exfalso. assert (has_action New (r_entries r) = true) by (apply has_action_In; eauto). congruence.
Qed.
Lemma validate_record_no_new r r' : validate_record r = Some r' -> has_action New (r_entries r') = false.
Proof.
  intros H. apply validate_record_ok in H. destruct H as [_ [_ [_ [_ [He _]]]]]. rewrite He.
  destruct (has_action New (map promote (r_entries r))) eqn:E; [|reflexivity].
  apply has_action_In in E. destruct E as [e [Hin Ha]]. apply in_map_iff in Hin. destruct Hin as [e0 [<- _]].
  rewrite promote_action in Ha. destruct (e_action e0) as [[]|]; discriminate.
Qed.

(* ---- the statements of C04 at the level of one file ----------------------------------------------------- *)
Section Properties.
  Variable gens : list gen.
  Variable p : path.
  Variable dg : fmt -> text.
  Notation mk := (mk_entry gens p dg).
  Notation dec := (decide gens p dg).
  Notation out req := (fst (seal gens p dg req)).

  Theorem seal_results req :
    snd (seal gens p dg req) =
    map (fun f => (f, not_failed (dec f))) (filter (fun f => memf f req) (carried gens p req))
    ++ map (fun f => (f, if all_verified gens p dg req then not_failed (dec f) else false))
           (filter (fun f => memf f req) (fresh gens p req)).
  Proof.
    unfold seal. fold (ex gens p). rewrite (phase1_fold gens p dg req (to_generate (ex gens p) req) (ex gens p) [] true []).
    rewrite phase2_fold. cbn [snd app andb]. reflexivity.
  Qed.

  Lemma out_In req e : In e (out req) ->
    exists f, e = mk f /\ (In f (carried gens p req) \/ (all_verified gens p dg req = true /\ In f (fresh gens p req))).
  Proof.
    rewrite seal_entries. intros H. apply in_app_or in H. destruct H as [H|H].
    - apply in_map_iff in H. destruct H as [f [<- Hf]]. exists f. tauto.
    - destruct (all_verified gens p dg req) eqn:E; [|destruct H].
      apply in_map_iff in H. destruct H as [f [<- Hf]]. exists f. tauto.
  Qed.

  (* every digest written is the file's current digest in the entry's own format *)
  Theorem seal_digest req e : In e (out req) -> e_digest e = dg (e_fmt e).
  Proof. intros H. apply out_In in H. destruct H as [f [-> _]]. reflexivity. Qed.

  (* 'original' exactly when no earlier generation holds an original entry for the path *)
  Theorem seal_original_iff req e : In e (out req) -> (e_action e = Some Original <-> find_original gens p = None).
  Proof.
    intros H. apply out_In in H. destruct H as [f [-> _]]. cbn. rewrite <- (decide_original gens p dg f).
    split; congruence.
  Qed.

  (* an entry in an already recorded format is judged against the EARLIEST recorded digest of that format *)
  Theorem seal_judged_by_first req e e0 :
    In e (out req) -> find_original gens p <> None -> find_first gens p (e_fmt e) = Some e0 ->
    e_action e = Some (if text_eqb (e_digest e0) (dg (e_fmt e)) then Verified else Failed).
  Proof.
    intros H Ho Hf. apply out_In in H. destruct H as [f [-> _]]. cbn in *. unfold decide.
    destruct (find_original gens p); [|congruence]. rewrite Hf. reflexivity.
  Qed.

  (* a digest in a format that is new for the path carries the provisional action `new` ... *)
  Theorem seal_new_format req e :
    In e (out req) -> find_original gens p <> None -> find_first gens p (e_fmt e) = None -> e_action e = Some New.
  Proof.
    intros H Ho Hf. apply out_In in H. destruct H as [f [-> _]]. cbn in *. f_equal. apply decide_new. tauto.
  Qed.

  (* ... and is recorded only in a run in which no already recorded format failed *)
  Theorem seal_failed_blocks_new req e e' :
    In e (out req) -> e_action e = Some Failed -> In e' (out req) -> e_action e' <> Some New.
  Proof.
    intros H Hf H'. apply out_In in H. destruct H as [f [-> Hc]]. cbn in Hf. injection Hf as Hf.
    pose proof Hf as Hfailed. apply decide_failed in Hf. destruct Hf as [Ho [e0 [Hff _]]].
    assert (Hcar : In f (carried gens p req)).
    { destruct Hc as [Hc|[_ Hc]]; [exact Hc|]. apply fresh_unrecorded in Hc. congruence. }
    assert (Hv : all_verified gens p dg req = false).
    { unfold all_verified. destruct (forallb _ _) eqn:E; [|reflexivity].
      rewrite forallb_forall in E. specialize (E f Hcar).
      rewrite Hfailed in E. discriminate. }
    apply out_In in H'. destruct H' as [f' [-> Hc']]. cbn. intros Hn. injection Hn as Hn.
    apply decide_new in Hn. destruct Hn as [_ Hn].
    destruct Hc' as [Hc'|[Hc' _]]; [|congruence].
    apply carried_recorded in Hc'. congruence.
  Qed.

  (* ... in which, moreover, an already recorded format was checked and verified *)
  Theorem seal_new_needs_verified req e :
    In e (out req) -> e_action e = Some New -> exists e1, In e1 (out req) /\ e_action e1 = Some Verified.
  Proof.
    intros H Hn. apply out_In in H. destruct H as [f [-> Hc]]. cbn in Hn. injection Hn as Hn.
    apply decide_new in Hn. destruct Hn as [Ho Hn].
    destruct Hc as [Hc|[Hv Hc]]; [apply carried_recorded in Hc; congruence|].
    assert (Hex : ex gens p <> []).
    { destruct (find_original gens p) as [o|] eqn:E; [|congruence]. apply find_original_recorded in E. destruct E as [E _].
      apply recorded_find_first in E. apply existing_formats_In in E. unfold ex. intros Hnil. rewrite Hnil in E. destruct E. }
    pose proof (carried_nonempty gens p dg req Hex) as Hne.
    destruct (carried gens p req) as [|f1 l] eqn:Ec; [congruence|].
    assert (Hin1 : In f1 (carried gens p req)) by (rewrite Ec; left; reflexivity).
    exists (mk f1). split.
    - rewrite seal_entries. apply in_or_app. left. apply in_map. exact Hin1.
    - cbn. f_equal. unfold all_verified in Hv. rewrite forallb_forall in Hv. specialize (Hv f1 Hin1).
      apply carried_recorded in Hin1. unfold decide in *. destruct (find_original gens p); [|congruence].
      destruct (find_first gens p f1); [|congruence]. destruct (text_eqb _ _); [reflexivity|discriminate].
  Qed.

  (* ---- an unaltered file: every entry ever recorded for the path is the current digest of its format ---- *)
  Definition consistent : Prop := forall e, recorded gens p e -> e_digest e = dg (e_fmt e).

  Lemma consistent_not_failed f : consistent -> dec f <> Failed.
  Proof.
    intros Hc Hf. apply decide_failed in Hf. destruct Hf as [_ [e0 [Hff Hd]]].
    pose proof (find_first_fmt _ _ _ _ Hff) as Hfmt. apply find_first_recorded in Hff. apply Hc in Hff. congruence.
  Qed.
  Theorem unaltered_no_failure req : consistent ->
    (forall e, In e (out req) -> e_action e <> Some Failed) /\ (forall x, In x (snd (seal gens p dg req)) -> snd x = true).
  Proof.
    intros Hc.
    assert (Hnf : forall f, not_failed (dec f) = true).
    { intros f. pose proof (consistent_not_failed f Hc). destruct (dec f); cbn; congruence. }
    assert (Hv : all_verified gens p dg req = true).
    { unfold all_verified. apply forallb_forall. intros f _. apply Hnf. }
    split.
    - intros e H. apply out_In in H. destruct H as [f [-> _]]. cbn. intros [= Hf]. exact (consistent_not_failed f Hc Hf).
    - intros x. rewrite seal_results, Hv. intros H. apply in_app_or in H.
      destruct H as [H|H]; apply in_map_iff in H; destruct H as [f [<- _]]; cbn; apply Hnf.
  Qed.

  (* the record of the run passes _validate_new_hash_list: the run does not abort *)
  Theorem unaltered_validates req size : consistent ->
    exists r', validate_record (mkRecord p false size (out req) None) = Some r'.
  Proof.
    intros Hc. unfold validate_record. cbn [r_entries].
    destruct (has_action New (out req)) eqn:En; [|eauto].
    apply has_action_In in En. destruct En as [e [He Ha]].
    destruct (seal_new_needs_verified req e He Ha) as [e1 [H1 A1]].
    assert (Hv : has_action Verified (out req) = true) by (apply has_action_In; eauto).
    assert (Hf : has_action Failed (out req) = false).
    { destruct (has_action Failed (out req)) eqn:Ef; [|reflexivity]. apply has_action_In in Ef. destruct Ef as [e2 [H2 A2]].
      exfalso. exact (proj1 (unaltered_no_failure req Hc) e2 H2 A2). }
    rewrite Hv, Hf. cbn. eauto.
  Qed.
End Properties.

(* the state after the run: the validated record joins the history as one more generation *)
Definition seal_run (gens : list gen) (p : path) (dg : fmt -> text) (req : list fmt) (size : option N) : option (list gen) :=
  match fst (seal gens p dg req) with
  | [] => Some gens                                   (* nothing to record: no generation for this path *)
  | es => match validate_record (mkRecord p false size es None) with
          | Some r => Some (gens ++ [mkGen (latest_generation_number gens + 1) [r] None [] [] InPlace])
          | None => None
          end
  end.
Fixpoint seal_runs (gens : list gen) (p : path) (dg : fmt -> text) (reqs : list (list fmt)) : option (list gen) :=
  match reqs with
  | [] => Some gens
  | req :: rest => match seal_run gens p dg req None with
                   | Some gens' => seal_runs gens' p dg rest
                   | None => None
                   end
  end.

Lemma find_media_hash_single p r no : r_path r = p ->
  find_media_hash (mkGen no [r] None [] [] InPlace) p = Some r.
Proof.
  intros <-. unfold find_media_hash. cbn. unfold rec_keys_match. rewrite path_eqb_refl. reflexivity.
Qed.

Lemma consistent_step gens p dg req size gens' :
  consistent gens p dg -> seal_run gens p dg req size = Some gens' -> consistent gens' p dg.
Proof.
  intros Hc. unfold seal_run. destruct (fst (seal gens p dg req)) as [|e0 es] eqn:Eo; [intros [= <-]; exact Hc|].
  destruct (validate_record _) as [r|] eqn:Ev; [|discriminate]. intros [= <-].
  intros e [g [r0 [Hg [Hm He]]]]. apply in_app_or in Hg. destruct Hg as [Hg|[<-|[]]].
  - apply Hc. exists g, r0. tauto.
  - apply validate_record_ok in Ev. destruct Ev as [Hp [_ [_ [_ [Hes _]]]]]. cbn [r_path r_entries] in Hp, Hes.
    rewrite (find_media_hash_single p r _ Hp) in Hm. injection Hm as <-. rewrite Hes in He.
    apply in_map_iff in He. destruct He as [e1 [<- He1]]. rewrite promote_digest, promote_fmt.
    rewrite <- Eo in He1. eapply seal_digest. exact He1.
Qed.

(* On an unaltered file every sequence of format choices goes through: no run aborts, no format is reported as
   failed -- for every history the file already has, every number of runs, every choice of formats per run. *)
Theorem unaltered_sequences : forall reqs gens p dg,
  consistent gens p dg -> exists gens', seal_runs gens p dg reqs = Some gens' /\ consistent gens' p dg.
Proof.
  induction reqs as [|req reqs IH]; intros gens p dg Hc; cbn [seal_runs]; [eauto|].
  assert (exists g1, seal_run gens p dg req None = Some g1) as [g1 E1].
  { unfold seal_run. destruct (fst (seal gens p dg req)) as [|e0 es] eqn:Eo; [eauto|].
    destruct (unaltered_validates gens p dg req None Hc) as [r' Hr]. rewrite Eo in Hr. rewrite Hr. eauto. }
  rewrite E1. apply IH. eapply consistent_step; eauto.
Qed.

(* 'original' is written at most once along any sequence of runs: once some generation holds an original entry
   for the path, no later run writes another one *)
Theorem original_once gens p dg req e more :
  find_original gens p <> None -> In e (fst (seal (gens ++ more) p dg req)) -> e_action e <> Some Original.
Proof.
  intros Ho He Ha. apply seal_original_iff in He. apply He in Ha. rewrite find_original_app in Ha.
  destruct (find_original gens p); congruence.
Qed.
