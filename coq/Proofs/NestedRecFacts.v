(* C02 / C08 end to end for ANY nesting (folder mode, no rename detection): every generation a create run writes holds
   records at exactly the paths the traversal routed to that history -- session partition + commit + read-back. *)
From Coq Require Import Lia.
From MHL Require Import Model.Commands Gen.Generated Proofs.BaseFacts Proofs.SealFacts Proofs.TreeFacts Proofs.RouteFacts
  Proofs.CommitFacts Proofs.CreateFacts Proofs.PartitionFacts.

Section NestedRecords.
  Variable Hb : fmt -> bytes -> bytes.
  Variable matches : list text -> text -> bool.
  Variable C : Type.
  Variable cdig : C -> text.
  Variable ser : gen -> C.
  Notation node := (node C).

  Lemma vpaths : forall rs rs', validate_records rs = Some rs' -> map r_path rs' = map r_path rs.
  Proof.
    induction rs as [|r rs IH]; intros rs' H; cbn in H; [injection H as <-; reflexivity|].
    destruct (validate_record r) as [r'|] eqn:Er; [|discriminate]. destruct (validate_records rs) as [rest|]; [|discriminate].
    injection H as <-. cbn [map]. rewrite (IH rest eq_refl). apply validate_record_ok in Er. destruct Er as [-> _]. reflexivity.
  Qed.
  Lemma rpaths rs : map r_path (map readback_record rs) = map r_path rs.
  Proof. rewrite map_map. apply map_ext. intros r. unfold readback_record. destruct (r_dir r); reflexivity. Qed.

  (* whatever a commit writes for history k holds records at exactly the session's paths for k, in the session's order *)
  Lemma commit_written_paths proc sess sp : forall l cs0 k doc,
    In (k, doc) (cs_written C (fold_left (commit_one C cdig ser proc sess sp) l cs0)) ->
    In (k, doc) (cs_written C cs0) \/ (map r_path (g_records doc) = rp sess k /\ exists h, In h l /\ lh_root h = k).
  Proof.
    induction l as [|h l IH]; intros cs0 k doc Hin; cbn [fold_left] in Hin; [left; exact Hin|].
    destruct (IH _ k doc Hin) as [H0|[Hp [h' [Hh' Ek]]]]; [|right; split; [exact Hp|exists h'; split; [right; exact Hh'|exact Ek]]].
    destruct (commit_one_cases C cdig ser proc sess sp cs0 h) as [Hs|_ Hw _ _|nl recs d Hnl Hv Hdoc Hw _ _ _ _].
    - rewrite Hs in H0. left. exact H0.
    - rewrite Hw in H0. left. exact H0.
    - rewrite Hw in H0. apply in_app_or in H0. destruct H0 as [H0|[E|[]]]; [left; exact H0|]. injection E as <- <-. right.
      split; [|exists h; split; [left; reflexivity|reflexivity]].
      rewrite Hdoc. unfold new_doc. cbn [g_records]. rewrite rpaths, (vpaths _ _ Hv), Hnl. reflexivity.
  Qed.

  Theorem create_folder_records h0 kids hs req no_dh ip ifl t' o :
    load C cdig (Dir h0 kids) = inl hs -> req <> [] ->
    create_folder Hb matches C cdig ser (Dir h0 kids) req no_dh false ip ifl = (t', o) ->
    let spec := set_patterns (latest_patterns (lh_gens (root_hist hs))) ip (pattern_file_lines ifl) in
    forall k doc, In (k, doc) (o_written o) ->
      (exists h, In h hs /\ lh_root h = k) /\
      forall q, In q (map r_path (g_records doc)) <-> exists e, In e (events matches C spec [] (Dir h0 kids)) /\ ev_adds hs e k q.
  Proof.
    intros Hl Hreq Hc spec k doc Hin. unfold create_folder in Hc. rewrite Hl in Hc. fold spec in Hc.
    pose proof (session_partition Hb matches C hs (sort_fmts req) no_dh spec (Dir h0 kids) (sort_fmts_nonempty req Hreq)
                  (events matches C spec [] (Dir h0 kids)) [] 0) as Hpart.
    match type of Hc with context [fold_left ?f ?l ?i] =>
      pose proof (Hpart : forall k q, In q (rp (fst (fold_left f l i)) k) <-> In q (rp [] k) \/ exists e, In e (events matches C spec [] (Dir h0 kids)) /\ ev_adds hs e k q) as Hp2;
      clear Hpart; destruct (fold_left f l i) as [sess0 fails] end.
    cbn [dr_sess dr_abort dr_found fst] in *. injection Hc as _ <-. cbn [o_written] in Hin.
    unfold commit in Hin. destruct (commit_written_paths InPlace sess0 spec _ _ k doc Hin) as [[]|[Hp Hh]].
    split; [exact Hh|]. intros q. rewrite Hp, (Hp2 k q). split; [intros [H|H]; [destruct H|exact H]|intros H; right; exact H].
  Qed.
End NestedRecords.
