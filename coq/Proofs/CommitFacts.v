(* generator.commit / history.write_new_generation as `commit_one`: what one history gains in a run. *)
From Coq Require Import Lia.
From MHL Require Import Model.Create Gen.Generated Proofs.BaseFacts Proofs.IgnoreFacts.

Section Commit.
  Variable C : Type.
  Variable cdig : C -> text.
  Variable ser : gen -> C.
  Variable hs : list lhist.

  (* the generation a history writes in a run, as a function of what the session holds for it *)
  Definition new_doc (proc : process) (nl : newlist) (recs : list record) (sess_patterns : list text)
             (refs : list (path * N)) (h : lhist) : gen :=
    mkGen (latest_generation_number (lh_gens h) + generation_increment)%N
          (map readback_record recs) (readback_root (nl_root nl))
          (readback_patterns (set_patterns (latest_patterns (lh_gens h)) sess_patterns [])) refs proc.

  Inductive commit_case (proc : process) (sess : session) (sp : list text) (cs : commit_state C) (h : lhist)
            (cs' : commit_state C) : Prop :=
  | cc_skip : cs' = cs -> commit_case proc sess sp cs h cs'
  | cc_abort : cs_tree C cs' = cs_tree C cs -> cs_written C cs' = cs_written C cs -> cs_ops C cs' = cs_ops C cs ->
               cs_abort C cs' = true -> commit_case proc sess sp cs h cs'
  | cc_write nl recs doc :
      nl = sess_list sess (lh_root h) -> validate_records (nl_records nl) = Some recs ->
      doc = new_doc proc nl recs sp (refs_get (cs_refs C cs) (lh_root h)) h ->
      cs_written C cs' = cs_written C cs ++ [(lh_root h, doc)] ->
      cs_ops C cs' = cs_ops C cs ++ (if lh_folder h then [] else [(0%N, lh_root h)]) ++ [(1%N, lh_root h); (2%N, lh_root h)] ->
      cs_tree C cs' =
        set_hist C (lh_root h)
          (mkHist C (h_files C (match get_hist C (cs_tree C cs) (lh_root h) with Some x => x | None => mkHist C [] None end)
                     ++ [mkMfile C (g_no doc) (ser doc) doc])
                  (Some (lh_chain h ++ [mkCentry (g_no doc) (g_no doc) (cdig (ser doc))])))
          (cs_tree C cs) ->
      cs_abort C cs' = false ->
      cs_refs C cs' = match lh_parent h with
                      | Some par => refs_add (cs_refs C cs) par (strip_prefix par (lh_root h), g_no doc)
                      | None => cs_refs C cs
                      end ->
      commit_case proc sess sp cs h cs'.

  Lemma commit_one_cases proc sess sp cs h :
    commit_case proc sess sp cs h (commit_one C cdig ser proc sess sp cs h).
  Proof.
    unfold commit_one. destruct (cs_abort C cs) eqn:Ea; [apply cc_skip; reflexivity|].
    destruct (sess_get sess (lh_root h)) as [v|] eqn:Es.
    - destruct (validate_records (nl_records v)) as [recs|] eqn:Ev.
      + eapply cc_write with (nl := v) (recs := recs); try reflexivity; auto.
        unfold sess_list. rewrite Es. reflexivity.
      + apply cc_abort; reflexivity.
    - destruct (refs_get (cs_refs C cs) (lh_root h)) as [|r0 rs] eqn:Er; [apply cc_skip; reflexivity|].
      cbn [nl_records validate_records].
      eapply cc_write with (nl := mkNewlist [] None) (recs := []); unfold new_doc; rewrite ?Er; try reflexivity.
      unfold sess_list. rewrite Es. reflexivity.
  Qed.

  (* numbering: one above the highest existing generation *)
  Lemma new_doc_number proc nl recs sp refs h :
    g_no (new_doc proc nl recs sp refs h) = (latest_generation_number (lh_gens h) + 1)%N.
  Proof. reflexivity. Qed.

  (* patterns of the new generation: previous list (or the defaults) first, then the session's, no duplicates *)
  Lemma readback_patterns_id ps : ps <> [] -> readback_patterns ps = ps.
  Proof. destruct ps; [congruence|reflexivity]. Qed.
  Lemma set_patterns_nonempty e n f : set_patterns e n f <> [].
  Proof.
    intros H. assert (Hin : In (nth 0 default_ignore []) (set_patterns [] default_ignore [])) by (apply set_patterns_In; right; left; left; reflexivity).
    assert (Hb : exists x, In x (base_of e)).
    { unfold base_of. destruct e as [|x e]; [exists (nth 0 default_ignore []); left; reflexivity|exists x; left; reflexivity]. }
    destruct Hb as [x Hx]. assert (In x (set_patterns e n f)) by (apply set_patterns_In; left; exact Hx).
    rewrite H in H0. destruct H0.
  Qed.
  Theorem new_doc_patterns proc nl recs sp refs h :
    g_patterns (new_doc proc nl recs sp refs h) = set_patterns (latest_patterns (lh_gens h)) sp [].
  Proof. unfold new_doc. cbn [g_patterns]. apply readback_patterns_id. apply set_patterns_nonempty. Qed.

  (* references: a child's commit appends exactly one reference (relative path, new generation number) to the list of
     its parent history, and to no other list *)
  Lemma refs_get_add_same l h x : refs_get (refs_add l h x) h = refs_get l h ++ [x].
  Proof.
    induction l as [|[k v] l IH]; cbn; [rewrite path_eqb_refl; reflexivity|].
    destruct (path_eqb_spec k h) as [->|Hn]; cbn.
    - rewrite path_eqb_refl. reflexivity.
    - destruct (path_eqb_spec k h); [congruence|]. exact IH.
  Qed.
  Lemma refs_get_add_other l h h' x : h <> h' -> refs_get (refs_add l h x) h' = refs_get l h'.
  Proof.
    intros Hn. induction l as [|[k v] l IH]; cbn.
    - destruct (path_eqb_spec h h'); [congruence|reflexivity].
    - destruct (path_eqb_spec k h) as [->|Hk]; cbn.
      + destruct (path_eqb_spec h h'); [congruence|reflexivity].
      + destruct (path_eqb_spec k h'); [reflexivity|exact IH].
  Qed.

  (* the write operations of a run come grouped by history, in the order of the list of loaded histories (which lists
     children before parents): a child's manifest and chain are in place before its parent's manifest is written *)
  Theorem commit_ops_grouped proc sess sp : forall l cs0,
    exists ws, cs_ops C (fold_left (commit_one C cdig ser proc sess sp) l cs0) = cs_ops C cs0 ++ concat ws /\
               Forall2 (fun h w => forall op, In op w -> snd op = lh_root h) l ws.
  Proof.
    induction l as [|h l IH]; intros cs0; cbn [fold_left].
    - exists []. cbn. rewrite app_nil_r. split; [reflexivity|constructor].
    - destruct (IH (commit_one C cdig ser proc sess sp cs0 h)) as [ws [Hops Hf]].
      destruct (commit_one_cases proc sess sp cs0 h) as [Hs|_ _ Ho _|nl recs doc _ _ _ _ Ho _ _ _].
      + exists ([] :: ws). rewrite Hops, Hs. cbn [concat app]. split; [reflexivity|]. constructor; [intros op []|exact Hf].
      + exists ([] :: ws). rewrite Hops, Ho. cbn [concat app]. split; [reflexivity|]. constructor; [intros op []|exact Hf].
      + eexists (_ :: ws). rewrite Hops, Ho. cbn [concat]. rewrite <- app_assoc. split; [reflexivity|]. constructor; [|exact Hf].
        intros op Hin. apply in_app_or in Hin. destruct Hin as [Hin|Hin].
        * destruct (lh_folder h); [destruct Hin|]. destruct Hin as [<-|[]]. reflexivity.
        * destruct Hin as [<-|[<-|[]]]; reflexivity.
  Qed.
End Commit.
