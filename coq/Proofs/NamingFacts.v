(* C06: the loader recognises every manifest name the tool itself writes and recovers its generation number --
   whatever the folder is called. *)
From Coq Require Import Lia.
From MHL Require Import Model.Naming Gen.Generated Proofs.BaseFacts Proofs.ReadFacts.
Local Open Scope N_scope.

Lemma uint_text_digits u : forallb is_digit (uint_text u) = true.
Proof. induction u; cbn [uint_text forallb]; try rewrite IHu; reflexivity. Qed.
Lemma span_digits_app ds rest : forallb is_digit ds = true -> (match rest with c :: _ => is_digit c = false | [] => True end) ->
  span_digits (ds ++ rest) = (ds, rest).
Proof.
  induction ds as [|c ds IH]; intros Hd Hr; cbn [app].
  - destruct rest as [|c r]; [reflexivity|]. cbn [span_digits]. rewrite Hr. reflexivity.
  - cbn [forallb] in Hd. apply andb_true_iff in Hd. destruct Hd as [Hc Hd]. cbn [span_digits]. rewrite Hc, (IH Hd Hr). reflexivity.
Qed.
Lemma text_uint_zeros k s : text_uint (repeat 48 k ++ s) = option_map (fun u => Nat.iter k Decimal.D0 u) (text_uint s).
Proof.
  induction k as [|k IH]; cbn [repeat app Nat.iter].
  - destruct (text_uint s); reflexivity.
  - cbn [text_uint]. rewrite IH. destruct (text_uint s); reflexivity.
Qed.
Lemma of_uint_zeros k u : N.of_uint (Nat.iter k Decimal.D0 u) = N.of_uint u.
Proof. induction k as [|k IH]; [reflexivity|]. cbn [Nat.iter]. rewrite <- IH. reflexivity. Qed.
Lemma N_of_dec_pad n : N_of_dec (pad_number n) = Some n.
Proof.
  unfold pad_number, N_of_dec.
  assert (Hne : repeat 48 (generation_number_width - length (dec_of_N n)) ++ dec_of_N n <> []).
  { pose proof (dec_of_N_nonempty n). destruct (dec_of_N n); [congruence|]. destruct (repeat _ _); discriminate. }
  destruct (repeat 48 (generation_number_width - length (dec_of_N n)) ++ dec_of_N n) eqn:E; [congruence|]. rewrite <- E.
  rewrite text_uint_zeros. unfold dec_of_N. rewrite text_uint_uint_text. cbn [option_map]. rewrite of_uint_zeros.
  now rewrite DecimalN.Unsigned.of_to.
Qed.
Lemma pad_number_digits n : forallb is_digit (pad_number n) = true.
Proof.
  unfold pad_number. rewrite forallb_app. apply andb_true_iff. split; [|apply uint_text_digits].
  induction (generation_number_width - length (dec_of_N n))%nat; [reflexivity|]. cbn [repeat forallb]. rewrite IHn0. reflexivity.
Qed.
Lemma pad_number_length n : (4 <= length (pad_number n))%nat.
Proof. unfold pad_number. rewrite app_length, repeat_length. change generation_number_width with 4%nat. lia. Qed.

Theorem recognise_own_names n folder stamp : recognise (manifest_stem n folder stamp) = Some n.
Proof.
  unfold recognise, manifest_stem. change generation_name_sep with [95].
  rewrite (span_digits_app (pad_number n) ([95] ++ folder ++ [95] ++ stamp) (pad_number_digits n)); [|reflexivity].
  pose proof (pad_number_length n) as Hl. apply Nat.leb_le in Hl. rewrite Hl.
  cbn [app]. destruct (folder ++ 95 :: stamp) as [|c r] eqn:E; [destruct folder; discriminate|]. apply N_of_dec_pad.
Qed.
(* the obligations on the regenerated constants the model was transcribed from *)
Theorem naming_constants :
  history_file_name_regex = [94; 40; 92; 100; 123; 52; 44; 125; 41; 40; 63; 58; 95; 40; 46; 43; 41; 41; 63; 36] /\
  generation_number_width = 4%nat /\ generation_name_sep = [95] /\
  history_file_name_flags = [114; 101; 46; 68; 79; 84; 65; 76; 76].      (* "re.DOTALL" *)
Proof. repeat split. Qed.
