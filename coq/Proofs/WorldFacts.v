(* C13 / C14: commands act on the sub-tree they are given (no absolute location anywhere), writes are confined to
   the ascmhl folders of the loaded histories, the media tree is never altered. *)
From Coq Require Import Lia.
From MHL Require Import Model.World Gen.Generated Proofs.BaseFacts Proofs.TreeFacts Proofs.CommitFacts Proofs.LoadFacts.

Section WorldFacts.
  Variable C : Type.
  Variable cdig : C -> text.
  Variable ser : gen -> C.
  Notation node := (node C).

  (* ---- location independence ---- *)
  Definition relocate (root : path) (o : obs) : obs :=
    mkObs (o_outcome o) (map (fun x => (root ++ fst x, snd x)) (o_written o)) (o_missing o) (o_mismatch o) (o_new o)
          (map (fun x => (fst x, root ++ snd x)) (o_ops o)) (o_info o) (o_dh o).
  (* a command run on the folder at `root` computes its result from the sub-tree alone: neither the names of the
     ancestors nor anything beside the folder can influence it *)
  Theorem at_root_spec root (f : node -> node * obs) t sub : get C t root = Some sub ->
    at_root C root f t = (alter C root (fun _ => Some (fst (f sub))) t, relocate root (snd (f sub))).
  Proof. intros H. unfold at_root. rewrite H. destruct (f sub) as [sub' o]. reflexivity. Qed.
  Corollary location_independent (f : node -> node * obs) t1 r1 t2 r2 sub :
    get C t1 r1 = Some sub -> get C t2 r2 = Some sub ->
    exists sub' o, at_root C r1 f t1 = (alter C r1 (fun _ => Some sub') t1, relocate r1 o) /\
                   at_root C r2 f t2 = (alter C r2 (fun _ => Some sub') t2, relocate r2 o).
  Proof. intros H1 H2. exists (fst (f sub)), (snd (f sub)). split; apply at_root_spec; assumption. Qed.

  (* ---- the media tree: the tree with all ascmhl folders erased ---- *)
  Fixpoint erase (t : node) : node :=
    match t with
    | File c => File c
    | Dir _ kids => Dir None ((fix go (ks : list (text * node)) := match ks with [] => [] | nk :: ks' => (fst nk, erase (snd nk)) :: go ks' end) kids)
    end.
  Lemma erase_dir h kids : erase (Dir h kids) = Dir None (map (fun nk => (fst nk, erase (snd nk))) kids).
  Proof.
    cbn [erase].
    match goal with |- Dir None (?F kids) = _ =>
      assert (Hgo : forall ks, F ks = map (fun nk => (fst nk, erase (snd nk))) ks)
    end.
    { induction ks as [|nk ks IH]; cbn [map]; [reflexivity|]. rewrite IH. reflexivity. }
    rewrite Hgo. reflexivity.
  Qed.

  Lemma upd_kid_erase n (f : option node -> option node) kids :
    (forall k, lookup_kid C n kids = Some k -> exists k', f (Some k) = Some k' /\ erase k' = erase k) ->
    lookup_kid C n kids <> None ->
    map (fun nk => (fst nk, erase (snd nk))) (upd_kid C n f kids) = map (fun nk => (fst nk, erase (snd nk))) kids.
  Proof.
    induction kids as [|[m k] ks IH]; intros Hf Hex; cbn [lookup_kid] in *; [congruence|].
    cbn [upd_kid]. destruct (text_eqb n m) eqn:E.
    - destruct (Hf k eq_refl) as [k' [Hk He]]. rewrite Hk. cbn [map fst snd]. rewrite He. reflexivity.
    - cbn [map fst snd]. f_equal. apply IH; assumption.
  Qed.

  Lemma erase_set_hist h : forall p t, get C t p <> None -> erase (set_hist C p h t) = erase t.
  Proof.
    unfold set_hist.
    induction p as [|n p IH]; intros t Hg.
    - cbn [alter]. destruct t as [c|h0 kids]; [reflexivity|]. rewrite !erase_dir. reflexivity.
    - destruct t as [c|h0 kids]; [destruct p; reflexivity|].
      cbn [get] in Hg. destruct (lookup_kid C n kids) as [k|] eqn:Ek; [|congruence].
      destruct p as [|n' p'].
      + cbn [alter]. rewrite !erase_dir. f_equal. apply upd_kid_erase; [|congruence].
        intros k0 Hk0. rewrite Ek in Hk0. injection Hk0 as <-.
        destruct k as [c|hk kk]; [exists (File c); split; reflexivity|].
        eexists. split; [reflexivity|]. rewrite !erase_dir. reflexivity.
      + cbn [alter]. rewrite !erase_dir. f_equal. apply upd_kid_erase; [|congruence].
        intros k0 Hk0. rewrite Ek in Hk0. injection Hk0 as <-.
        eexists. split; [reflexivity|]. apply IH. exact Hg.
  Qed.

  Lemma get_erase : forall p t, get C (erase t) p = option_map erase (get C t p).
  Proof.
    induction p as [|n p IH]; intros t; [reflexivity|].
    destruct t as [c|h kids]; [reflexivity|]. rewrite erase_dir. cbn [get].
    assert (Hl : lookup_kid C n (map (fun nk => (fst nk, erase (snd nk))) kids) = option_map erase (lookup_kid C n kids)).
    { induction kids as [|[m k] ks IHk]; cbn; [reflexivity|]. destruct (text_eqb n m); [reflexivity|exact IHk]. }
    rewrite Hl. destruct (lookup_kid C n kids); cbn [option_map]; [apply IH|reflexivity].
  Qed.
  Lemma get_exists_erase t t' p : erase t = erase t' -> get C t p <> None -> get C t' p <> None.
  Proof.
    intros He Hg Hn. assert (H1 : get C (erase t) p <> None) by (rewrite get_erase; destruct (get C t p); [discriminate|congruence]).
    rewrite He, get_erase, Hn in H1. apply H1. reflexivity.
  Qed.

  (* ---- what commit does to the file system ---- *)
  Variable hs : list lhist.
  Definition ops_in_scope (ops : list (N * path)) : Prop :=
    forall op, In op ops -> exists h, In h hs /\ snd op = lh_root h /\ (fst op = 0 \/ fst op = 1 \/ fst op = 2)%N /\
                                      (fst op = 0%N -> lh_folder h = false).

  Theorem commit_confined proc t sess sp :
    Forall (fun h => get C t (lh_root h) <> None) hs ->
    let cs := commit C cdig ser hs proc t sess sp in
    erase (cs_tree C cs) = erase t /\ ops_in_scope (cs_ops C cs) /\
    (forall x, In x (cs_written C cs) -> exists h, In h hs /\ fst x = lh_root h).
  Proof.
    intros Hex. cbn zeta. unfold commit.
    set (P := fun cs : commit_state C => erase (cs_tree C cs) = erase t /\ ops_in_scope (cs_ops C cs) /\
                                         (forall x, In x (cs_written C cs) -> exists h, In h hs /\ fst x = lh_root h)).
    apply (fold_left_inv (commit_one C cdig ser proc sess sp) P hs).
    - intros cs h Hin [He [Ho Hw]]. destruct (commit_one_cases C cdig ser proc sess sp cs h) as [->|Ht Hwr Hop Hab|nl recs doc _ _ _ Hwr Hop Ht Hab Hrf].
      + split; [exact He|]. split; assumption.
      + unfold P. rewrite Ht, Hwr, Hop. split; [exact He|]. split; assumption.
      + unfold P. rewrite Ht, Hwr, Hop. split; [|split].
        * rewrite erase_set_hist; [exact He|]. eapply get_exists_erase; [symmetry; exact He|].
          rewrite Forall_forall in Hex. apply Hex. exact Hin.
        * intros op Hop'. apply in_app_or in Hop'. destruct Hop' as [Hop'|Hop']; [apply Ho; exact Hop'|].
          exists h. split; [exact Hin|]. apply in_app_or in Hop'. destruct Hop' as [Hop'|Hop'].
          -- destruct (lh_folder h) eqn:Ef; [destruct Hop'|]. destruct Hop' as [<-|[]]. cbn. repeat split; auto.
          -- destruct Hop' as [<-|[<-|[]]]; cbn; repeat split; auto; try discriminate.
        * intros x Hx. apply in_app_or in Hx. destruct Hx as [Hx|[<-|[]]]; [apply Hw; exact Hx|]. exists h. split; [exact Hin|reflexivity].
    - unfold P. cbn. split; [reflexivity|]. split; [intros op []|intros x []].
  Qed.
End WorldFacts.

(* C14 for the composed create commands: whatever the options and the outcome, the media tree is the same afterwards and
   every write operation concerns the ascmhl folder of a history of the tree *)
Section CreateConfined.
  Variable Hb : fmt -> bytes -> bytes.
  Variable matches : list text -> text -> bool.
  Variable C : Type.
  Variable cdig : C -> text.
  Variable ser : gen -> C.

  Theorem create_folder_confined t req no_dh dr ip ifl : wf_tree C t ->
    let run := create_folder Hb matches C cdig ser t req no_dh dr ip ifl in
    erase C (fst run) = erase C t /\
    (forall hs, load C cdig t = inl hs -> ops_in_scope hs (o_ops (snd run)) /\
                forall x, In x (o_written (snd run)) -> exists h, In h hs /\ fst x = lh_root h) /\
    (forall e, load C cdig t = inr e -> fst run = t /\ o_ops (snd run) = [] /\ o_written (snd run) = []).
  Proof.
    intros Hw. cbn zeta. unfold create_folder. destruct (load C cdig t) as [hs|e] eqn:Hl.
    - pose proof (LoadFacts.load_roots_exist C cdig t hs Hw Hl) as Hex.
      destruct (fold_left _ _ _) as [sess0 fails]. cbn [fst snd o_ops o_written].
      match goal with |- context [commit C cdig ser hs InPlace t ?s ?sp] =>
        destruct (commit_confined C cdig ser hs InPlace t s sp Hex) as [He [Ho Hwr]] end.
      split; [|split].
      + destruct (dr_abort _); [reflexivity|exact He].
      + intros hs' [= <-]. split.
        * destruct (dr_abort _); [intros op []|exact Ho].
        * destruct (dr_abort _); [intros x []|exact Hwr].
      + intros e [=].
    - cbn [fst snd]. split; [reflexivity|]. split; [intros hs [=]|]. intros e' _. repeat split; reflexivity.
  Qed.

  Theorem create_sf_confined t req sf ip ifl : wf_tree C t ->
    let run := create_sf Hb matches C cdig ser t req sf ip ifl in
    erase C (fst run) = erase C t /\
    (forall hs, load C cdig t = inl hs -> ops_in_scope hs (o_ops (snd run)) /\
                forall x, In x (o_written (snd run)) -> exists h, In h hs /\ fst x = lh_root h).
  Proof.
    intros Hw. cbn zeta. unfold create_sf. destruct (load C cdig t) as [hs|e] eqn:Hl.
    - pose proof (LoadFacts.load_roots_exist C cdig t hs Hw Hl) as Hex.
      destruct (fold_left _ _ _) as [[sess fails] done]. cbn [fst snd o_ops o_written].
      match goal with |- context [commit C cdig ser hs InPlace t ?s ?sp] =>
        destruct (commit_confined C cdig ser hs InPlace t s sp Hex) as [He [Ho Hwr]] end.
      split; [exact He|]. intros hs' [= <-]. split; assumption.
    - cbn [fst snd]. split; [reflexivity|]. intros hs [=].
  Qed.
End CreateConfined.
