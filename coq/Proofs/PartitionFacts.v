(* C08 / C02 for ANY nesting: after the traversal, the session holds, for every history root k, records at exactly the
   k-relative paths of the entries routed to k (the deepest history containing them) plus the roots of its child
   histories; nothing else, whatever the list of loaded histories looks like. *)
From Coq Require Import Lia.
From MHL Require Import Model.Commands Gen.Generated Proofs.BaseFacts Proofs.SealFacts Proofs.TreeFacts Proofs.RouteFacts Proofs.CreateFacts.

Section Partition.
  Variable Hb : fmt -> bytes -> bytes.
  Variable matches : list text -> text -> bool.
  Variable C : Type.
  Variable hs : list lhist.
  Notation node := (node C).

  Definition rp (s : session) (k : path) : list path := map r_path (nl_records (sess_list s k)).

  Lemma sess_list_set s k v k' : sess_list (sess_set s k v) k' = if path_eqb k k' then v else sess_list s k'.
  Proof.
    unfold sess_list. destruct (path_eqb_spec k k') as [->|Hne]; [rewrite sess_get_set_same; reflexivity|].
    rewrite (sess_get_set_other _ _ _ _ Hne). reflexivity.
  Qed.
  Lemma rp_sess_add s k p d sz es k' q :
    In q (rp (sess_add s k p d sz es) k') <-> In q (rp s k') \/ (k' = k /\ q = p /\ p <> []).
  Proof.
    unfold rp, sess_add. rewrite sess_list_set. destruct (path_eqb_spec k k') as [->|Hne].
    - unfold nl_add. destruct p as [|n p']; cbn [nl_records].
      + split; [auto|]. intros [H|[_ [_ H]]]; [exact H|congruence].
      + rewrite add_entries_In. split; intros [H|H]; auto.
        * right. split; [reflexivity|]. split; [exact H|discriminate].
        * right. apply H.
    - split; [auto|]. intros [H|[E _]]; [exact H|congruence].
  Qed.

  (* where an entry goes: the root of the history it is routed to and its path relative to that root *)
  Definition target (p : path) : path * path := let h := route_to hs p in (lh_root h, strip_prefix (lh_root h) p).
  Definition ev_adds (e : ev) (k q : path) : Prop :=
    match e with
    | EvFile p _ => fst (target p) = k /\ snd (target p) = q /\ q <> []
    | EvDir p _ =>
        (fst (target p) = k /\ snd (target p) = q /\ q <> []) \/
        (snd (target p) = [] /\ lh_parent (route_to hs p) = Some k /\ q = strip_prefix k p /\ q <> [])
    end.

  Theorem session_partition fmts no_dh spec t : fmts <> [] -> forall evs s f k q,
    In q (rp (fst (fold_left (process_event Hb matches C hs fmts no_dh spec t) evs (s, f))) k) <->
    In q (rp s k) \/ exists e, In e evs /\ ev_adds e k q.
  Proof.
    intros Hf. induction evs as [|e evs IH]; intros s f k q; cbn [fold_left].
    - split; [auto|]. intros [H|[e [[] _]]]. exact H.
    - destruct (process_event Hb matches C hs fmts no_dh spec t (s, f) e) as [s1 f1] eqn:Ep. rewrite IH.
      assert (Hstep : In q (rp s1 k) <-> In q (rp s k) \/ ev_adds e k q).
      { destruct e as [p c|p kids]; cbn [process_event] in Ep.
        - unfold seal_file in Ep.
          pose proof (seal_nonempty (lh_gens (route_to hs p)) (strip_prefix (lh_root (route_to hs p)) p) (fun f0 => digest_text Hb f0 c) fmts Hf) as Hsn.
          destruct (seal (lh_gens (route_to hs p)) (strip_prefix (lh_root (route_to hs p)) p) (fun f0 => digest_text Hb f0 c) fmts) as [es res]. cbn [fst] in Hsn.
          destruct es as [|e0 es']; [congruence|]. injection Ep as <- _. rewrite rp_sess_add. unfold ev_adds, target. cbn [fst snd].
          split; intros [H|H]; auto; right; destruct H as [H1 [H2 H3]]; subst; auto.
        - injection Ep as <- _. unfold record_dir. unfold ev_adds, target. cbn [fst snd].
          destruct (strip_prefix (lh_root (route_to hs p)) p) as [|n rel] eqn:Erel.
          + destruct (lh_parent (route_to hs p)) as [par|] eqn:Epar.
            * rewrite !rp_sess_add. split.
              -- intros [[H|[_ [_ H]]]|[H1 [H2 H3]]]; [auto|congruence|]. right. right. subst. auto.
              -- intros [H|[[_ [H2 H3]]|[_ [H2 [H3 H4]]]]]; [auto|congruence|]. injection H2 as <-. right. split; [reflexivity|]. split; [exact H3|]. rewrite <- H3. exact H4.
            * rewrite rp_sess_add. split.
              -- intros [H|[_ [_ H]]]; [auto|congruence].
              -- intros [H|[[_ [H2 H3]]|[_ [H2 _]]]]; [auto|congruence|discriminate].
          + rewrite rp_sess_add. split.
            * intros [H|[H1 [H2 H3]]]; [auto|]. right. left. subst. auto.
            * intros [H|[[H1 [H2 H3]]|[H1 _]]]; [auto| |discriminate]. right. subst. auto. }
      rewrite Hstep. split.
      + intros [[H|H]|[e' [He' Ha]]]; [auto|right; exists e; split; [left; reflexivity|exact H]|right; exists e'; split; [right; exact He'|exact Ha]].
      + intros [H|[e' [[<-|He'] Ha]]]; [auto|left; right; exact Ha|right; exists e'; auto].
  Qed.
End Partition.
