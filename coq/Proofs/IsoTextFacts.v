(* C16 -- the ISO-8601 text and the manifest file-name stamp of Model/Time.v are read back to the value written *)
From Coq Require Import Lia.
From MHL Require Import Gen.Generated Model.Base Model.Time Proofs.TimeFacts Proofs.CalendarFacts.
Open Scope Z_scope.

Lemma dim_le y m : 1 <= m <= 12 -> days_in_month y m <= 31.
Proof.
  intros H. unfold days_in_month. destruct ((m =? 2) && is_leap y); [lia|].
  assert (C : m = 1 \/ m = 2 \/ m = 3 \/ m = 4 \/ m = 5 \/ m = 6 \/ m = 7 \/ m = 8 \/ m = 9 \/ m = 10 \/ m = 11 \/ m = 12) by lia.
  repeat destruct C as [-> | C]; try subst m; apply Z.leb_le; vm_compute; reflexivity.
Qed.

Lemma civil_fields w : year_ok w = true ->
  let c := civil_of_wall w in
  1 <= c_year c <= 9999 /\ 1 <= c_month c <= 12 /\ 1 <= c_day c <= 31 /\ 0 <= c_hour c < 24 /\ 0 <= c_min c < 60 /\ 0 <= c_sec c < 60.
Proof.
  intros Hy. pose proof (civil_of_wall_valid w) as V. rewrite Hy in V. unfold civil_valid in V.
  set (c := civil_of_wall w) in *. cbn zeta.
  repeat (apply andb_prop in V as [V ?]).
  repeat match goal with H : (_ <=? _) = true |- _ => apply Z.leb_le in H | H : (_ <? _) = true |- _ => apply Z.ltb_lt in H end.
  pose proof (dim_le (c_year c) (c_month c) ltac:(lia)). lia.
Qed.

Lemma fmt_offset_head o : exists sg r, fmt_offset o = sg :: r /\ (sg = 43%N \/ sg = 45%N).
Proof. unfold fmt_offset. destruct (o <? 0); eexists _, _; split; try reflexivity; auto. Qed.

Theorem parse_iso_text s txt : iso_text s = Some txt -> 0 <= s_usec s < 1000000 -> parse_iso txt = Some s.
Proof.
  unfold iso_text. intros H Hus.
  destruct (year_ok (s_wall s)) eqn:Hy; [|discriminate]. cbn [andb] in H.
  destruct (Z.ltb_spec (-86400) (s_off s)); [|discriminate]. destruct (Z.ltb_spec (s_off s) 86400); [|discriminate].
  cbn [andb] in H. injection H as <-.
  pose proof (civil_fields (s_wall s) Hy) as F. pose proof (civil_of_wall_valid (s_wall s)) as V. rewrite Hy in V.
  pose proof (civil_roundtrip (s_wall s)) as R.
  set (c := civil_of_wall (s_wall s)) in *. cbn zeta in F. destruct F as (Fy & Fm & Fd & Fh & Fi & Fs).
  clearbody c. destruct c as [cy cm cd ch ci cs]. cbn [c_year c_month c_day c_hour c_min c_sec] in *.
  unfold civil_text. cbn [c_year c_month c_day c_hour c_min c_sec]. rewrite pad4, !pad2 by lia. cbn [app].
  pose proof (parse_fmt_offset (s_off s) ltac:(lia)) as PO.
  unfold parse_iso. rewrite four_pad4, !two_pad2 by lia.
  rewrite V. unfold dash, colon. cbn [N.eqb Pos.eqb andb negb].
  unfold frac_text. destruct (Z.eqb_spec (s_usec s) 0) as [E0|E0].
  - cbn [app]. destruct (fmt_offset_head (s_off s)) as (sg & r & E & Hsg). rewrite E in *.
    destruct Hsg as [-> | ->]; cbn [option_map]; rewrite PO; cbn; rewrite R; destruct s; cbn in *; subst; reflexivity.
  - rewrite pad6 by lia. cbn [app]. rewrite six_pad6 by lia. rewrite PO. cbn. rewrite R. destruct s; reflexivity.
Qed.

Lemma strftime_filename c : strftime filename_time_format c = filename_text c.
Proof. reflexivity. Qed.

Theorem filename_stamp_utc off now_us : year_ok (now_us / 1000000) = true ->
  parse_filename_stamp (filename_stamp off now_us) = Some (now_us / 1000000).
Proof.
  intros Hy. unfold filename_stamp, now_in_utc. cbn [s_wall]. rewrite Z.add_0_r.
  set (w := now_us / 1000000) in *.
  pose proof (civil_fields w Hy) as F. pose proof (civil_of_wall_valid w) as V. rewrite Hy in V.
  pose proof (civil_roundtrip w) as R.
  set (c := civil_of_wall w) in *. cbn zeta in F. destruct F as (Fy & Fm & Fd & Fh & Fi & Fs).
  clearbody c. destruct c as [cy cm cd ch ci cs]. cbn [c_year c_month c_day c_hour c_min c_sec] in *.
  rewrite strftime_filename. unfold filename_text. cbn [c_year c_month c_day c_hour c_min c_sec]. rewrite pad4, !pad2 by lia. cbn [app].
  unfold parse_filename_stamp. rewrite four_pad4, !two_pad2 by lia. rewrite V. cbn. rewrite R. reflexivity.
Qed.

