(* The traversal and the file lookups see the media tree only: they are the same for two trees that differ in their
   history values (erase t = erase t'), e.g. before and after a create run (C14: create_folder_confined). *)
From Coq Require Import Lia.
From MHL Require Import Model.Commands Gen.Generated Proofs.BaseFacts Proofs.TreeFacts Proofs.LoadFacts Proofs.RouteFacts Proofs.WorldFacts Proofs.ReloadFacts.

Section Media.
  Variable matches : list text -> text -> bool.
  Variable C : Type.
  Notation node := (node C).
  Notation events := (events matches C).

  Lemma filter_map_comm {A B} (f : A -> bool) (g : B -> A) l : filter f (map g l) = map g (filter (fun x => f (g x)) l).
  Proof. induction l as [|x l IH]; cbn; [reflexivity|]. destruct (f (g x)); cbn; rewrite IH; reflexivity. Qed.

  Theorem events_erase spec : forall (t : node) p, events spec p (erase C t) = events spec p t.
  Proof.
    induction t as [c|h kids IH] using node_ind'; intros p; [reflexivity|].
    rewrite erase_dir, !events_dir.
    set (g := fun x : text * (node * list ev) => (fst x, (erase C (fst (snd x)), snd (snd x)))).
    assert (Hv : vis_of matches C spec p (map (fun nk => (fst nk, erase C (snd nk))) kids) = map g (vis_of matches C spec p kids)).
    { unfold vis_of. 
      assert (Hs : subs matches C spec p (map (fun nk => (fst nk, erase C (snd nk))) kids) = map g (subs matches C spec p kids)).
      { unfold subs. rewrite !map_map. apply map_ext_in. intros [n k] Hin. unfold g. cbn [fst snd]. rewrite Forall_forall in IH. rewrite (IH (n, k) Hin). reflexivity. }
      rewrite Hs, (sort_map name_leb name_leb g) by (intros a b; reflexivity). rewrite filter_map_comm. reflexivity. }
    rewrite Hv. rewrite !flat_map_concat_map, !map_map. 
    assert (E1 : forall x, match fst (snd (g x)) with Dir _ _ => snd (snd (g x)) | File _ => [] end = match fst (snd x) with Dir _ _ => snd (snd x) | File _ => [] end).
    { intros [n [k l]]. unfold g. cbn [fst snd]. destruct k; [reflexivity|]. rewrite erase_dir. reflexivity. }
    assert (E2 : forall x, match fst (snd (g x)) with File c => [EvFile (p ++ [fst (g x)]) c] | Dir _ _ => [] end = match fst (snd x) with File c => [EvFile (p ++ [fst x]) c] | Dir _ _ => [] end).
    { intros [n [k l]]. unfold g. cbn [fst snd]. destruct k; [reflexivity|]. rewrite erase_dir. reflexivity. }
    assert (E3 : forall x, (p ++ [fst (g x)], is_dir C (fst (snd (g x)))) = (p ++ [fst x], is_dir C (fst (snd x)))).
    { intros [n [k l]]. unfold g. cbn [fst snd]. destruct k; [reflexivity|]. rewrite erase_dir. reflexivity. }
    rewrite (map_ext _ _ E1), (map_ext _ _ E2), (map_ext _ _ E3). reflexivity.
  Qed.
  Corollary events_same_media spec t t' p : erase C t = erase C t' -> events spec p t = events spec p t'.
  Proof. intros E. rewrite <- (events_erase spec t), <- (events_erase spec t'), E. reflexivity. Qed.

  Lemma get_file_erase (t : node) q c : get C (erase C t) q = Some (File c) <-> get C t q = Some (File c).
  Proof.
    rewrite get_erase. destruct (get C t q) as [[c0|h k]|]; cbn [option_map]; [tauto| |split; discriminate].
    rewrite erase_dir. split; discriminate.
  Qed.
  Corollary get_file_same_media t t' q c : erase C t = erase C t' -> get C t q = Some (File c) -> get C t' q = Some (File c).
  Proof. intros E H. apply get_file_erase. rewrite <- E. apply get_file_erase. exact H. Qed.
End Media.
