(* C16 -- the calendar of Model/Time.v: ord2ymd (CPython ord_to_ymd) inverts ymd2ord on EVERY ordinal, and the
   broken-down wall clock round-trips.  The year part is arithmetic (400 / 100 / 4 / 1-year cycles, lia); only the
   month / day split of a day-of-year (366 x 2 values) is checked by computation. *)
From Coq Require Import Lia.
From MHL Require Import Gen.Generated Model.Base Model.Time Proofs.TimeFacts.
Open Scope Z_scope.

(* bounded universal check by binary splitting: [lo, lo + 2^depth) *)
Fixpoint all_range (depth : nat) (lo : Z) (f : Z -> bool) : bool :=
  match depth with
  | O => f lo
  | S d => all_range d lo f && all_range d (lo + 2 ^ Z.of_nat d) f
  end.

Lemma all_range_spec : forall depth lo f, all_range depth lo f = true ->
  forall x, lo <= x < lo + 2 ^ Z.of_nat depth -> f x = true.
Proof.
  induction depth as [|d IH]; intros lo f H x Hx.
  - cbn in *. replace x with lo by lia. exact H.
  - cbn [all_range] in H. apply andb_prop in H as [H1 H2].
    rewrite Nat2Z.inj_succ, Z.pow_succ_r in Hx by lia.
    destruct (Z_lt_le_dec x (lo + 2 ^ Z.of_nat d)).
    + apply (IH lo f H1). lia.
    + apply (IH _ f H2). lia.
Qed.

(* the month / day part of ord_to_ymd: day-of-year r (0-based) in a common or leap year *)
Definition doy_split (leap : bool) (n : Z) : Z * Z :=
  let month := (n + 50) / 32 in
  let preceding := tbl days_before_month_tbl month + (if (2 <? month) && leap then 1 else 0) in
  if n <? preceding then
    let month' := month - 1 in
    let preceding' := preceding - (tbl days_in_month_tbl month' + (if (month' =? 2) && leap then 1 else 0)) in
    (month', n - preceding' + 1)
  else (month, n - preceding + 1).

Definition doy_check (leap : bool) (r : Z) : bool :=
  if r <? 365 + (if leap then 1 else 0) then
    let '(m, d) := doy_split leap r in
    (1 <=? m) && (m <=? 12) && (1 <=? d) && (d <=? tbl days_in_month_tbl m + (if (m =? 2) && leap then 1 else 0)) &&
    (tbl days_before_month_tbl m + (if (2 <? m) && leap then 1 else 0) + d =? r + 1)
  else true.

Lemma doy_checked : forall leap : bool, all_range 9%nat 0 (doy_check leap) = true.
Proof. intros leap; destruct leap; vm_compute; reflexivity. Qed.

Lemma doy_ok (leap : bool) r : 0 <= r < 365 + (if leap then 1 else 0) ->
  let '(m, d) := doy_split leap r in
  1 <= m <= 12 /\ 1 <= d <= tbl days_in_month_tbl m + (if (m =? 2) && leap then 1 else 0) /\
  tbl days_before_month_tbl m + (if (2 <? m) && leap then 1 else 0) + d = r + 1.
Proof.
  intros H. pose proof (all_range_spec 9 0 (doy_check leap) (doy_checked leap) r) as C.
  specialize (C ltac:(change (2 ^ Z.of_nat 9) with 512; destruct leap; lia)). unfold doy_check in C.
  replace (r <? 365 + (if leap then 1 else 0)) with true in C by (symmetry; apply Z.ltb_lt; lia).
  destruct (doy_split leap r) as [m d].
  repeat (apply andb_prop in C as [C ?]).
  repeat match goal with H : (_ <=? _) = true |- _ => apply Z.leb_le in H | H : (_ =? _) = true |- _ => apply Z.eqb_eq in H end.
  lia.
Qed.

Lemma year_arith a b c d : 0 <= b < 4 -> 0 <= c < 25 -> 0 <= d < 4 ->
  let y := 400 * a + 100 * b + 4 * c + d + 1 in
  days_before_year y = 146097 * a + 36524 * b + 1461 * c + 365 * d /\
  is_leap y = (d =? 3) && (negb (c =? 24) || (b =? 3)).
Proof.
  intros Hb Hc Hd y. split.
  - unfold days_before_year, y. cbn zeta.
    replace (400 * a + 100 * b + 4 * c + d + 1 - 1) with (400 * a + 100 * b + 4 * c + d) by lia.
    assert ((400 * a + 100 * b + 4 * c + d) / 4 = 100 * a + 25 * b + c) by (Z.div_mod_to_equations; lia).
    assert ((400 * a + 100 * b + 4 * c + d) / 100 = 4 * a + b) by (Z.div_mod_to_equations; lia).
    assert ((400 * a + 100 * b + 4 * c + d) / 400 = a) by (Z.div_mod_to_equations; lia).
    lia.
  - unfold is_leap, y.
    assert (E4 : (400 * a + 100 * b + 4 * c + d + 1) mod 4 = (d + 1) mod 4) by (Z.div_mod_to_equations; lia).
    assert (E100 : (400 * a + 100 * b + 4 * c + d + 1) mod 100 = 4 * c + d + 1 - (if (c =? 24) && (d =? 3) then 100 else 0)).
    { destruct (Z.eqb_spec c 24); destruct (Z.eqb_spec d 3); cbn [andb]; Z.div_mod_to_equations; lia. }
    assert (E400 : (400 * a + 100 * b + 4 * c + d + 1) mod 400 = 100 * b + 4 * c + d + 1 - (if (b =? 3) && (c =? 24) && (d =? 3) then 400 else 0)).
    { destruct (Z.eqb_spec b 3); destruct (Z.eqb_spec c 24); destruct (Z.eqb_spec d 3); cbn [andb]; Z.div_mod_to_equations; lia. }
    rewrite E4, E100, E400.
    destruct (Z.eqb_spec d 3) as [->|]; destruct (Z.eqb_spec c 24) as [->|]; destruct (Z.eqb_spec b 3) as [->|]; cbn [andb negb orb];
      repeat match goal with |- context [Z.eqb ?x ?y] => destruct (Z.eqb_spec x y); try lia end; try reflexivity;
      try (exfalso; Z.div_mod_to_equations; lia).
Qed.

Lemma ord2ymd_eq n0 :
  ord2ymd n0 =
  let n := n0 - 1 in
  let a := n / DI400Y in let r := n mod DI400Y in
  let b := r / DI100Y in let r2 := r mod DI100Y in
  let c := r2 / DI4Y in let r3 := r2 mod DI4Y in
  let d := r3 / 365 in let r4 := r3 mod 365 in
  let y := a * 400 + 1 + b * 100 + c * 4 + d in
  if (d =? 4) || (b =? 4) then (y - 1, 12, 31)
  else let '(m, dd) := doy_split ((d =? 3) && (negb (c =? 24) || (b =? 3))) r4 in (y, m, dd).
Proof.
  unfold ord2ymd, doy_split. cbn zeta.
  repeat match goal with |- context [if ?c then _ else _] => destruct c end; reflexivity.
Qed.

Lemma tbl_dim_feb : tbl days_in_month_tbl 2 = 28. Proof. reflexivity. Qed.

Theorem ord2ymd_correct n0 :
  let '(y, m, d) := ord2ymd n0 in 1 <= m <= 12 /\ 1 <= d <= days_in_month y m /\ ymd2ord y m d = n0.
Proof.
  rewrite ord2ymd_eq. cbn zeta. unfold DI400Y, DI100Y, DI4Y.
  set (n := n0 - 1).
  pose proof (Z.div_mod n 146097 ltac:(lia)) as E1. pose proof (Z.mod_pos_bound n 146097 ltac:(lia)) as B1.
  set (a := n / 146097) in *. set (r := n mod 146097) in *.
  pose proof (Z.div_mod r 36524 ltac:(lia)) as E2. pose proof (Z.mod_pos_bound r 36524 ltac:(lia)) as B2.
  set (b := r / 36524) in *. set (r2 := r mod 36524) in *.
  pose proof (Z.div_mod r2 1461 ltac:(lia)) as E3. pose proof (Z.mod_pos_bound r2 1461 ltac:(lia)) as B3.
  set (c := r2 / 1461) in *. set (r3 := r2 mod 1461) in *.
  pose proof (Z.div_mod r3 365 ltac:(lia)) as E4. pose proof (Z.mod_pos_bound r3 365 ltac:(lia)) as B4.
  set (d := r3 / 365) in *. set (r4 := r3 mod 365) in *.
  clearbody a r b r2 c r3 d r4.
  assert (Hb : 0 <= b <= 4) by lia. assert (Hc : 0 <= c <= 24) by lia. assert (Hd : 0 <= d <= 4) by lia.
  destruct (Z.eqb_spec b 4) as [Eb|Eb].
  - (* last day of a 400-year cycle *)
    rewrite orb_true_r.
    assert (r2 = 0 /\ c = 0 /\ d = 0 /\ r3 = 0 /\ r4 = 0) as (-> & -> & -> & -> & ->) by lia. subst b.
    destruct (year_arith a 3 24 3 ltac:(lia) ltac:(lia) ltac:(lia)) as [Y L]. cbn zeta in Y, L.
    replace (a * 400 + 1 + 4 * 100 + 0 * 4 + 0 - 1) with (400 * a + 100 * 3 + 4 * 24 + 3 + 1) by lia.
    replace ((3 =? 3) && (negb (24 =? 24) || (3 =? 3))) with true in L by reflexivity.
    unfold days_in_month, ymd2ord, days_before_month. rewrite Y, L.
    replace (12 =? 2) with false by reflexivity. replace (2 <? 12) with true by reflexivity.
    change (tbl days_in_month_tbl 12) with 31. change (tbl days_before_month_tbl 12) with 334.
    cbn [andb]. subst n. lia.
  - destruct (Z.eqb_spec d 4) as [Ed|Ed]; cbn [orb].
    + (* last day of a leap year *)
      assert (c < 24 /\ r4 = 0) as [Hc' ->] by lia. subst d.
      destruct (year_arith a b c 3 ltac:(lia) ltac:(lia) ltac:(lia)) as [Y L]. cbn zeta in Y, L.
      replace (a * 400 + 1 + b * 100 + c * 4 + 4 - 1) with (400 * a + 100 * b + 4 * c + 3 + 1) by lia.
      unfold days_in_month, ymd2ord, days_before_month. rewrite Y, L.
      replace (c =? 24) with false by (symmetry; apply Z.eqb_neq; lia).
      replace (12 =? 2) with false by reflexivity. replace (2 <? 12) with true by reflexivity. replace (3 =? 3) with true by reflexivity.
      change (tbl days_in_month_tbl 12) with 31. change (tbl days_before_month_tbl 12) with 334.
      cbn [andb negb orb]. subst n. lia.
    + destruct (year_arith a b c d ltac:(lia) ltac:(lia) ltac:(lia)) as [Y L]. cbn zeta in Y, L.
      replace (a * 400 + 1 + b * 100 + c * 4 + d) with (400 * a + 100 * b + 4 * c + d + 1) by lia.
      set (leap := (d =? 3) && (negb (c =? 24) || (b =? 3))) in *.
      pose proof (doy_ok leap r4 ltac:(destruct leap; lia)) as K.
      destruct (doy_split leap r4) as [m dd]. destruct K as (Km & Kd & Ko).
      unfold days_in_month, ymd2ord, days_before_month. rewrite Y, L.
      split; [exact Km|]. split.
      * revert Kd. destruct (Z.eqb_spec m 2) as [->|Hm2]; destruct leap; cbn [andb]; try rewrite tbl_dim_feb; lia.
      * subst n. lia.
Qed.

Lemma civil_roundtrip w : wall_of_civil (civil_of_wall w) = w.
Proof.
  unfold civil_of_wall, wall_of_civil. pose proof (ord2ymd_correct (epoch_ordinal + w / 86400)) as C.
  destruct (ord2ymd (epoch_ordinal + w / 86400)) as [[y m] d]. cbn [c_year c_month c_day c_hour c_min c_sec].
  destruct C as (_ & _ & ->).
  pose proof (Z.div_mod w 86400 ltac:(lia)). pose proof (Z.mod_pos_bound w 86400 ltac:(lia)).
  set (sod := w mod 86400) in *.
  pose proof (Z.div_mod sod 3600 ltac:(lia)). pose proof (Z.div_mod (sod mod 3600) 60 ltac:(lia)).
  replace (sod mod 60) with ((sod mod 3600) mod 60) by (Z.div_mod_to_equations; lia). lia.
Qed.

Lemma civil_of_wall_valid w : civil_valid (civil_of_wall w) = year_ok w.
Proof.
  unfold year_ok, civil_valid. unfold civil_of_wall. pose proof (ord2ymd_correct (epoch_ordinal + w / 86400)) as C.
  destruct (ord2ymd (epoch_ordinal + w / 86400)) as [[y m] d]. cbn [c_year c_month c_day c_hour c_min c_sec].
  destruct C as (Hm & Hd & _).
  pose proof (Z.mod_pos_bound w 86400 ltac:(lia)). set (sod := w mod 86400) in *.
  assert (0 <= sod / 3600 < 24) by (split; [apply Z.div_pos; lia|apply Z.div_lt_upper_bound; lia]).
  pose proof (Z.mod_pos_bound sod 3600 ltac:(lia)).
  assert (0 <= sod mod 3600 / 60 < 60) by (split; [apply Z.div_pos; lia|apply Z.div_lt_upper_bound; lia]).
  pose proof (Z.mod_pos_bound sod 60 ltac:(lia)).
  repeat match goal with
  | |- context [?a <=? ?b] => lazymatch a with 1 => lazymatch b with y => fail | _ => idtac end | _ => idtac end;
                              lazymatch b with 9999 => fail | _ => idtac end;
                              replace (a <=? b) with true by (symmetry; apply Z.leb_le; lia)
  | |- context [?a <? ?b] => replace (a <? b) with true by (symmetry; apply Z.ltb_lt; lia)
  end.
  rewrite !andb_true_r. reflexivity.
Qed.

