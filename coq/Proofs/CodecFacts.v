(* C01 (and C07): facts about the hex and C4 text codecs, for every byte string / every 512-bit value. *)
From Coq Require Import Lia ZifyBool ZifyN ZifyNat String.
From MHL Require Import Model.Codec Gen.Generated.
Local Open Scope N_scope.

Definition is_byte (x : N) : Prop := x < 256.

(* ---------------------------------------------------------------------------------------------- hex *)
Lemma hexval_hexdigit d : d < 16 -> hexval (hexdigit d) = Some d.
Proof.
  intros H. unfold hexval, hexdigit. destruct (N.ltb_spec d 10) as [Hd|Hd].
  - replace ((48 <=? 48 + d) && (48 + d <=? 57))%bool with true by lia. f_equal. lia.
  - replace ((48 <=? 87 + d) && (87 + d <=? 57))%bool with false by lia.
    replace ((97 <=? 87 + d) && (87 + d <=? 102))%bool with true by lia. f_equal. lia.
Qed.

Lemma hex_dec_enc b : Forall is_byte b -> hex_dec (hex_enc b) = Some b.
Proof.
  unfold is_byte. induction 1 as [|x b Hx Hb IH]; [reflexivity|].
  cbn [hex_enc flat_map app]. fold (hex_enc b). cbn [hex_dec]. fold hex_dec.
  assert (Hq : x / 16 < 16) by (apply N.div_lt_upper_bound; lia).
  assert (Hr : x mod 16 < 16) by (apply N.mod_lt; lia).
  rewrite (hexval_hexdigit _ Hq), (hexval_hexdigit _ Hr), IH. f_equal. f_equal.
  rewrite (N.div_mod x 16) at 3 by lia. lia.
Qed.

Lemma hex_enc_length b : length (hex_enc b) = (2 * length b)%nat.
Proof. induction b as [|x b IH]; cbn [hex_enc flat_map app length] in *; [reflexivity|]. fold (hex_enc b). lia. Qed.

Definition lower_hex_char (c : N) : Prop := (48 <= c /\ c <= 57) \/ (97 <= c /\ c <= 102).
Lemma hexdigit_lower d : d < 16 -> lower_hex_char (hexdigit d).
Proof. intros H. unfold lower_hex_char, hexdigit. destruct (N.ltb_spec d 10); lia. Qed.
Lemma hex_enc_lower b : Forall is_byte b -> Forall lower_hex_char (hex_enc b).
Proof.
  unfold is_byte. induction 1 as [|x b Hx Hb IH]; [constructor|].
  cbn [hex_enc flat_map app]. fold (hex_enc b).
  constructor; [apply hexdigit_lower, N.div_lt_upper_bound; lia|].
  constructor; [apply hexdigit_lower, N.mod_lt; lia|exact IH].
Qed.

Lemma hex_enc_inj a b : Forall is_byte a -> Forall is_byte b -> hex_enc a = hex_enc b -> a = b.
Proof. intros Ha Hb H. apply (f_equal hex_dec) in H. rewrite !hex_dec_enc in H by assumption. congruence. Qed.

(* ----------------------------------------------------------------------------- positional notation *)
Definition value_from (r : N) (ds : list N) : N := fold_left (fun r d => r * 58 + d) ds r.
Definition value := value_from 0.

Lemma value_from_shift : forall ds r, value_from r ds = r * 58 ^ N.of_nat (length ds) + value ds.
Proof.
  unfold value, value_from. induction ds as [|d ds IH]; intros r; cbn [fold_left length].
  - rewrite N.pow_0_r. lia.
  - rewrite IH. rewrite (IH (0 * 58 + d)). rewrite Nat2N.inj_succ, N.pow_succ_r'. lia.
Qed.
Lemma value_cons d ds : value (d :: ds) = d * 58 ^ N.of_nat (length ds) + value ds.
Proof. unfold value at 1, value_from. cbn [fold_left]. fold (value_from (0 * 58 + d) ds). rewrite value_from_shift. lia. Qed.
Lemma value_app a b : value (a ++ b) = value a * 58 ^ N.of_nat (length b) + value b.
Proof. unfold value at 1, value_from. rewrite fold_left_app. fold (value_from 0 a). fold (value a). fold (value_from (value a) b). apply value_from_shift. Qed.
Lemma value_zeros n : value (repeat_n 0 n) = 0.
Proof. induction n as [|n IH]; cbn [repeat_n]; [reflexivity|]. rewrite value_cons, IH. lia. Qed.
Lemma repeat_n_length {A} (x : A) n : length (repeat_n x n) = n.
Proof. induction n; cbn; congruence. Qed.

Lemma value_bound ds : Forall (fun d => d < 58) ds -> value ds < 58 ^ N.of_nat (length ds).
Proof.
  induction 1 as [|d ds Hd Hds IH]; [cbn; lia|].
  rewrite value_cons. cbn [length]. rewrite Nat2N.inj_succ, N.pow_succ_r'.
  set (P := 58 ^ N.of_nat (length ds)) in *. nia.
Qed.

(* digits of the encode loop, as numbers *)
Fixpoint dig_loop (fuel : nat) (v : N) (acc : list N) : list N :=
  match fuel with
  | O => acc
  | S k => if v =? 0 then acc else dig_loop k (v / 58) (v mod 58 :: acc)
  end.

Lemma dig_loop_value : forall fuel v acc, v < 58 ^ N.of_nat fuel ->
  value (dig_loop fuel v acc) = v * 58 ^ N.of_nat (length acc) + value acc.
Proof.
  induction fuel as [|k IH]; intros v acc Hf.
  - cbn in Hf. assert (v = 0) by lia. subst. cbn [dig_loop]. lia.
  - cbn [dig_loop]. destruct (N.eqb_spec v 0) as [->|Hv]; [lia|].
    rewrite Nat2N.inj_succ, N.pow_succ_r' in Hf.
    rewrite IH by (apply N.div_lt_upper_bound; lia).
    rewrite (value_cons (v mod 58) acc).
    cbn [length]. rewrite Nat2N.inj_succ, N.pow_succ_r'.
    pose proof (N.div_mod v 58 ltac:(lia)) as Hdm.
    set (q := v / 58) in *. set (m := v mod 58) in *. set (P := 58 ^ N.of_nat (length acc)).
    nia.
Qed.

Lemma dig_loop_digits : forall fuel v acc, Forall (fun d => d < 58) acc -> Forall (fun d => d < 58) (dig_loop fuel v acc).
Proof.
  induction fuel as [|k IH]; intros v acc Ha; cbn [dig_loop]; [exact Ha|].
  destruct (v =? 0); [exact Ha|]. apply IH. constructor; [apply N.mod_lt; lia|exact Ha].
Qed.

Lemma dig_loop_length : forall fuel v acc k, v < 58 ^ N.of_nat k ->
  (length (dig_loop fuel v acc) <= k + length acc)%nat.
Proof.
  induction fuel as [|f IH]; intros v acc k Hk; cbn [dig_loop]; [lia|].
  destruct (N.eqb_spec v 0) as [->|Hv]; [lia|].
  destruct k as [|k]; [cbn in Hk; lia|].
  rewrite Nat2N.inj_succ, N.pow_succ_r' in Hk.
  specialize (IH (v / 58) (v mod 58 :: acc) k). cbn [length] in IH.
  assert (v / 58 < 58 ^ N.of_nat k) by (apply N.div_lt_upper_bound; lia). lia.
Qed.

(* no leading zero digit: the loop stops at 0, so the most significant digit it emits is non-zero *)
Lemma dig_loop_head : forall fuel v acc, v < 58 ^ N.of_nat fuel -> v <> 0 ->
  exists d rest, dig_loop fuel v acc = d :: rest ++ acc /\ d <> 0.
Proof.
  induction fuel as [|k IH]; intros v acc Hf Hv; [cbn in Hf; lia|].
  cbn [dig_loop]. destruct (N.eqb_spec v 0) as [|_]; [contradiction|].
  rewrite Nat2N.inj_succ, N.pow_succ_r' in Hf.
  destruct (N.eq_dec (v / 58) 0) as [Hq|Hq].
  - rewrite Hq. destruct k; cbn [dig_loop]; [|rewrite N.eqb_refl]; exists (v mod 58), [];
      (split; [reflexivity|]); pose proof (N.div_mod v 58 ltac:(lia)); lia.
  - destruct (IH (v / 58) (v mod 58 :: acc)) as [d [rest [H1 H2]]]; [apply N.div_lt_upper_bound; lia|exact Hq|].
    exists d, (rest ++ [v mod 58]). rewrite H1, <- app_assoc. auto.
Qed.

(* ------------------------------------------------------------------- obligations on the constants *)
Lemma c4_base_enc_is : c4_base_enc = 58. Proof. reflexivity. Qed.
Lemma c4_base_dec_is : c4_base_dec = 58. Proof. reflexivity. Qed.
Lemma c4_charset_length : length c4_charset = 58%nat. Proof. reflexivity. Qed.
Lemma c4_zero_is_digit0 : c4_zero = [nth 0 c4_charset 0]. Proof. reflexivity. Qed.
Lemma c4_prefix_is : c4_prefix = t "c4"%string. Proof. reflexivity. Qed.
Lemma c4_widths : (N.to_nat (c4_len_enc - c4_pad_sub) = 88 /\ N.to_nat (c4_len_dec - c4_dec_start) = 88
                   /\ N.to_nat c4_dec_start = length c4_prefix /\ N.to_nat c4_len_enc = 90)%nat.
Proof. repeat split. Qed.
Lemma c4_digest_bytes_is : c4_digest_bytes = 64. Proof. reflexivity. Qed.
Lemma pow_2_512_le : 256 ^ 64 <= 58 ^ 88. Proof. vm_compute. discriminate. Qed.

(* strictly ascending code points: gives NoDup and makes text order = numeric order (C07) *)
Fixpoint strictly_ascending (l : list N) : bool :=
  match l with
  | x :: ((y :: _) as l') => (x <? y) && strictly_ascending l'
  | _ => true
  end.
Lemma c4_charset_ascending : strictly_ascending c4_charset = true. Proof. reflexivity. Qed.

Lemma ascending_lt_all : forall l x, strictly_ascending (x :: l) = true -> Forall (fun y => x < y) l.
Proof.
  induction l as [|y l IH]; intros x H; [constructor|].
  cbn [strictly_ascending] in H. apply andb_true_iff in H as [H1 H2]. apply N.ltb_lt in H1.
  constructor; [exact H1|]. specialize (IH y H2). eapply Forall_impl; [|exact IH]. cbn. intros; lia.
Qed.
Lemma ascending_tail x l : strictly_ascending (x :: l) = true -> strictly_ascending l = true.
Proof. destruct l as [|y l]; [reflexivity|]. cbn [strictly_ascending]. intros H. apply andb_true_iff in H. tauto. Qed.

Lemma index_of_nth : forall l n, strictly_ascending l = true -> (n < length l)%nat ->
  index_of (nth n l 0) l = Some (N.of_nat n).
Proof.
  induction l as [|x l IH]; intros n Ha Hn; [cbn in Hn; lia|].
  destruct n as [|n]; cbn [nth index_of].
  - rewrite N.eqb_refl. reflexivity.
  - pose proof (ascending_lt_all _ _ Ha) as Hall. cbn [length] in Hn.
    assert (Hlt : x < nth n l 0).
    { rewrite Forall_forall in Hall. apply Hall, nth_In. lia. }
    destruct (N.eqb_spec (nth n l 0) x) as [E|_]; [lia|].
    rewrite (IH n (ascending_tail _ _ Ha)) by lia. cbn. f_equal. lia.
Qed.

Definition chr (d : N) : N := nth (N.to_nat d) c4_charset 0.
Lemma index_of_chr d : d < 58 -> index_of (chr d) c4_charset = Some d.
Proof.
  intros H. unfold chr. rewrite index_of_nth.
  - f_equal. lia.
  - exact c4_charset_ascending.
  - rewrite c4_charset_length. lia.
Qed.
Lemma chr_in_charset d : d < 58 -> In (chr d) c4_charset.
Proof. intros H. unfold chr. apply nth_In. rewrite c4_charset_length. lia. Qed.

(* ---------------------------------------------------------------------------------- encode / decode *)
Lemma enc_loop_dig : forall fuel v acc, c4_enc_loop fuel v (map chr acc) = map chr (dig_loop fuel v acc).
Proof.
  induction fuel as [|k IH]; intros v acc; cbn [c4_enc_loop dig_loop]; [reflexivity|].
  destruct (v =? 0); [reflexivity|]. change c4_base_enc with 58.
  change (nth (N.to_nat (v mod 58)) c4_charset 0) with (chr (v mod 58)).
  rewrite <- IH. reflexivity.
Qed.

Lemma dec_loop_chr : forall ds r, Forall (fun d => d < 58) ds ->
  c4_dec_loop (map chr ds) r = Some (value_from r ds).
Proof.
  induction ds as [|d ds IH]; intros r H; [reflexivity|]. inversion H as [|? ? Hd Hds]; subst.
  cbn [map c4_dec_loop]. rewrite (index_of_chr d Hd). change c4_base_dec with 58.
  rewrite IH by exact Hds. reflexivity.
Qed.

(* the 88 characters after the prefix, as digits *)
Definition c4_digits (fuel : nat) (v : N) : list N :=
  let ds := dig_loop fuel v [] in repeat_n 0 (88 - length ds) ++ ds.

Lemma c4_enc_value_shape fuel v :
  c4_enc_value fuel v = c4_prefix ++ map chr (c4_digits fuel v).
Proof.
  unfold c4_enc_value, c4_digits, rjust. f_equal.
  change (N.to_nat (c4_len_enc - c4_pad_sub)) with 88%nat.
  pose proof (enc_loop_dig fuel v []) as He. cbn [map] in He. rewrite He.
  rewrite map_app, map_length. f_equal.
  change c4_zero_char with (chr 0).
  induction (88 - length (dig_loop fuel v []))%nat as [|n IH]; cbn [repeat_n map]; congruence.
Qed.

Lemma c4_digits_length fuel v : v < 58 ^ 88 -> length (c4_digits fuel v) = 88%nat.
Proof.
  intros Hv. unfold c4_digits. rewrite app_length, repeat_n_length.
  pose proof (dig_loop_length fuel v [] 88 Hv) as H. cbn [length] in H. lia.
Qed.
Lemma c4_digits_value fuel v : v < 58 ^ N.of_nat fuel -> value (c4_digits fuel v) = v.
Proof.
  intros Hv. unfold c4_digits. rewrite value_app, value_zeros, dig_loop_value by exact Hv.
  cbn [length]. change (value []) with 0. rewrite N.pow_0_r. lia.
Qed.
Lemma c4_digits_range fuel v : Forall (fun d => d < 58) (c4_digits fuel v).
Proof.
  unfold c4_digits. apply Forall_app. split.
  - induction (88 - _)%nat; cbn [repeat_n]; constructor; [lia|assumption].
  - apply dig_loop_digits. constructor.
Qed.

Theorem c4_length fuel v : v < 58 ^ 88 -> length (c4_enc_value fuel v) = 90%nat.
Proof. intros Hv. rewrite c4_enc_value_shape, app_length, map_length, c4_digits_length by exact Hv. reflexivity. Qed.

Theorem c4_has_prefix fuel v : firstn 2 (c4_enc_value fuel v) = t "c4"%string.
Proof. rewrite c4_enc_value_shape. reflexivity. Qed.

Theorem c4_alphabet fuel v : Forall (fun c => In c c4_charset) (skipn 2 (c4_enc_value fuel v)).
Proof.
  rewrite c4_enc_value_shape. change (skipn 2 (c4_prefix ++ ?x)) with x.
  cbn [c4_prefix app skipn]. rewrite Forall_map. eapply Forall_impl; [|apply c4_digits_range].
  intros d Hd. apply chr_in_charset. exact Hd.
Qed.

(* left padding with the zero digit: a value below 58^k shows at least 88-k leading '1' characters *)
Theorem c4_padding fuel v k : (k <= 88)%nat -> v < 58 ^ N.of_nat k ->
  firstn (88 - k) (skipn 2 (c4_enc_value fuel v)) = repeat_n c4_zero_char (88 - k).
Proof.
  intros Hk Hv. rewrite c4_enc_value_shape. cbn [c4_prefix app skipn]. unfold c4_digits.
  pose proof (dig_loop_length fuel v [] k Hv) as Hl. cbn [length] in Hl. rewrite Nat.add_0_r in Hl.
  set (ds := dig_loop fuel v []) in *.
  replace (88 - length ds)%nat with ((88 - k) + (k - length ds))%nat by lia.
  assert (Hrep : forall a b, repeat_n 0 (a + b) = repeat_n 0 a ++ repeat_n 0 b).
  { induction a as [|a IH]; intros b; cbn [repeat_n Nat.add app]; [reflexivity|]. rewrite IH. reflexivity. }
  rewrite Hrep, <- app_assoc, map_app, firstn_app, map_length, repeat_n_length, Nat.sub_diag.
  cbn [firstn]. rewrite app_nil_r, firstn_all2 by (rewrite map_length, repeat_n_length; lia).
  change c4_zero_char with (chr 0). induction (88 - k)%nat as [|n IH]; cbn [repeat_n map]; congruence.
Qed.

Theorem c4_dec_enc_value fuel v : v < 58 ^ N.of_nat fuel -> v < 58 ^ 88 ->
  c4_dec_value (c4_enc_value fuel v) = Some v.
Proof.
  intros Hf Hv. unfold c4_dec_value. rewrite c4_enc_value_shape.
  change (N.to_nat (c4_len_dec - c4_dec_start)) with 88%nat. change (N.to_nat c4_dec_start) with 2%nat.
  cbn [c4_prefix app skipn].
  rewrite firstn_all2 by (rewrite map_length, c4_digits_length by exact Hv; lia).
  rewrite map_length, c4_digits_length by exact Hv. cbn [Nat.ltb Nat.leb].
  rewrite dec_loop_chr by apply c4_digits_range.
  fold (value (c4_digits fuel v)). rewrite c4_digits_value by exact Hf. reflexivity.
Qed.

(* ------------------------------------------------------------------------------ big-endian integers *)
Lemma be_to_N_app a b : be_to_N (a ++ b) = be_to_N a * 256 ^ N.of_nat (length b) + be_to_N b.
Proof.
  unfold be_to_N. rewrite fold_left_app. generalize (fold_left (fun r x => r * 256 + x) a 0). clear a.
  induction b as [|x b IH]; intros r; cbn [fold_left length].
  - rewrite N.pow_0_r. lia.
  - rewrite IH, (IH (0 * 256 + x)). rewrite Nat2N.inj_succ, N.pow_succ_r'. lia.
Qed.
Lemma be_to_N_snoc b x : be_to_N (b ++ [x]) = be_to_N b * 256 + x.
Proof. unfold be_to_N. rewrite fold_left_app. reflexivity. Qed.
Lemma be_to_N_bound b : Forall is_byte b -> be_to_N b < 256 ^ N.of_nat (length b).
Proof.
  unfold is_byte. induction b as [|x b IH] using rev_ind; intros H; [cbn; lia|].
  apply Forall_app in H as [Hb Hx]. inversion Hx as [|? ? Hx' _]; subst.
  rewrite be_to_N_snoc, app_length. cbn [length]. rewrite Nat.add_1_r, Nat2N.inj_succ, N.pow_succ_r'.
  specialize (IH Hb). set (P := 256 ^ N.of_nat (length b)) in *. nia.
Qed.
Lemma be_of_N_length n v : length (be_of_N n v) = n.
Proof. revert v. induction n as [|n IH]; intros v; cbn [be_of_N]; [reflexivity|]. rewrite app_length, IH. cbn. lia. Qed.
Lemma be_of_to b : Forall is_byte b -> be_of_N (length b) (be_to_N b) = b.
Proof.
  unfold is_byte. induction b as [|x b IH] using rev_ind; intros H; [reflexivity|].
  apply Forall_app in H as [Hb Hx]. inversion Hx as [|? ? Hx' _]; subst.
  rewrite app_length. cbn [length]. rewrite Nat.add_1_r. cbn [be_of_N].
  rewrite be_to_N_snoc.
  replace ((be_to_N b * 256 + x) / 256) with (be_to_N b)
    by (apply N.div_unique with x; lia).
  replace ((be_to_N b * 256 + x) mod 256) with x
    by (apply N.mod_unique with (be_to_N b); lia).
  rewrite IH by exact Hb. reflexivity.
Qed.
Lemma be_of_N_bytes n v : Forall is_byte (be_of_N n v).
Proof.
  revert v. induction n as [|n IH]; intros v; cbn [be_of_N]; [constructor|].
  apply Forall_app. split; [apply IH|]. constructor; [apply N.mod_lt; lia|constructor].
Qed.
Lemma be_to_of n v : v < 256 ^ N.of_nat n -> be_to_N (be_of_N n v) = v.
Proof.
  revert v. induction n as [|n IH]; intros v Hv; [cbn in *; lia|].
  cbn [be_of_N]. rewrite be_to_N_snoc.
  rewrite Nat2N.inj_succ, N.pow_succ_r' in Hv.
  rewrite IH by (apply N.div_lt_upper_bound; lia).
  pose proof (N.div_mod v 256 ltac:(lia)). lia.
Qed.

(* ------------------------------------------------------------- the round trip on SHA-512 digests *)
Lemma pow256_le_58 n : 256 ^ N.of_nat n <= 58 ^ N.of_nat (2 * n).
Proof.
  induction n as [|n IH]; [cbn; lia|].
  replace (2 * S n)%nat with (S (S (2 * n))) by lia.
  rewrite !Nat2N.inj_succ, !N.pow_succ_r'. nia.
Qed.

Theorem c4_dec_enc digest : Forall is_byte digest -> length digest = 64%nat ->
  c4_bytes_from_string (c4_string_digest digest) = Some digest.
Proof.
  intros Hb Hl. unfold c4_bytes_from_string, c4_string_digest.
  pose proof (be_to_N_bound digest Hb) as Hv. rewrite Hl in Hv.
  rewrite c4_dec_enc_value.
  - change c4_digest_bytes with 64. replace (be_to_N digest <? 256 ^ 64) with true by (symmetry; apply N.ltb_lt; exact Hv).
    change (N.to_nat 64) with 64%nat. rewrite <- Hl at 1. rewrite be_of_to by exact Hb. reflexivity.
  - eapply N.lt_le_trans; [|apply pow256_le_58]. rewrite Hl. exact Hv.
  - eapply N.lt_le_trans; [exact Hv|exact pow_2_512_le].
Qed.

Theorem c4_string_digest_length digest : Forall is_byte digest -> length digest = 64%nat ->
  length (c4_string_digest digest) = 90%nat.
Proof.
  intros Hb Hl. apply c4_length. pose proof (be_to_N_bound digest Hb) as Hv. rewrite Hl in Hv.
  eapply N.lt_le_trans; [exact Hv|exact pow_2_512_le].
Qed.

Theorem c4_string_digest_inj a b : Forall is_byte a -> Forall is_byte b -> length a = 64%nat -> length b = 64%nat ->
  c4_string_digest a = c4_string_digest b -> a = b.
Proof. intros Ha Hb La Lb H. apply (f_equal c4_bytes_from_string) in H. rewrite !c4_dec_enc in H by assumption. congruence. Qed.

(* every format: decoding what was encoded returns the digest *)
Theorem dec_enc f digest : Forall is_byte digest -> length digest = width f -> dec f (enc f digest) = Some digest.
Proof. intros Hb Hl. destruct f; cbn [enc dec]; try (apply hex_dec_enc; exact Hb). apply c4_dec_enc; assumption. Qed.
Theorem enc_inj f a b : Forall is_byte a -> Forall is_byte b -> length a = width f -> length b = width f ->
  enc f a = enc f b -> a = b.
Proof. intros Ha Hb La Lb H. apply (f_equal (dec f)) in H. rewrite !dec_enc in H by assumption. congruence. Qed.

(* the table regenerated from hasher.py binds every format name to the stated primitive and codec *)
Theorem table_ok :
  hash_table = [ (t "md5"%string, (t "hex"%string, t "hashlib.md5"%string)); (t "sha1"%string, (t "hex"%string, t "hashlib.sha1"%string));
                 (t "xxh32"%string, (t "hex"%string, t "xxhash.xxh32"%string)); (t "xxh64"%string, (t "hex"%string, t "xxhash.xxh64"%string));
                 (t "xxh3"%string, (t "hex"%string, t "xxhash.xxh3_64"%string)); (t "xxh128"%string, (t "hex"%string, t "xxhash.xxh3_128"%string));
                 (t "c4"%string, (t "c4"%string, t "hashlib.sha512"%string)) ].
Proof. reflexivity. Qed.
Theorem table_matches_model :
  map fst hash_table = map fmt_name all_fmts /\
  map (fun r => fst (snd r)) hash_table = map (fun f => match f with C4 => t "c4"%string | _ => t "hex"%string end) all_fmts.
Proof. split; reflexivity. Qed.
Theorem cli_formats_ok :
  supported_hashformats = map fmt_name [Md5; Sha1; Xxh128; Xxh3; Xxh64; C4] /\ default_hashformat = fmt_name Xxh128
  /\ reference_hash_format = fmt_name C4.
Proof. repeat split. Qed.
