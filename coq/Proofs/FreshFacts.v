(* C03 (first sentence, base case): sealing a tree that has no history yet and then verifying / diffing the untouched tree
   gives exit 0 with empty reports -- for every well-formed tree, format set, pattern list, matcher and primitive. *)
From Coq Require Import Lia Permutation.
From MHL Require Import Model.Commands Gen.Generated Proofs.BaseFacts Proofs.SealFacts Proofs.TreeFacts Proofs.RouteFacts
     Proofs.CommitFacts Proofs.LoadFacts Proofs.IgnoreFacts Proofs.VerifyFacts Proofs.CreateFacts Proofs.HistFacts.

Section Fresh.
  Variable Hb : fmt -> bytes -> bytes.
  Variable matches : list text -> text -> bool.
  Variable C : Type.
  Variable cdig : C -> text.
  Variable ser : gen -> C.
  Notation node := (node C).
  Notation events := (events matches C).

  Variable h0 : lhist.
  Hypothesis h0_root : lh_root h0 = [].
  Hypothesis h0_parent : lh_parent h0 = None.
  Hypothesis h0_fresh : lh_gens h0 = [].

  (* records as the first generation writes them: no previous path; every `original` entry is the digest, in its own
     format, of a content the traversal saw under that path *)
  Definition good_rec (F : list (path * bytes)) (r : record) : Prop :=
    r_prev r = None /\
    forall e, In e (r_entries r) -> is_original e = true -> exists c, In (r_path r, c) F /\ e_digest e = digest_text Hb (e_fmt e) c.
  (* every file the traversal saw has a record holding an `original` entry *)
  Definition covered (F : list (path * bytes)) (rs : list record) : Prop :=
    forall p c, In (p, c) F -> exists r e, In r rs /\ r_path r = p /\ In e (r_entries r) /\ is_original e = true.

  Lemma good_rec_mono F F' r : (forall x, In x F -> In x F') -> good_rec F r -> good_rec F' r.
  Proof.
    intros Hsub [Hp He]. split; [exact Hp|]. intros e Hin Ho. destruct (He e Hin Ho) as [c [Hc Hd]]. exists c. split; [apply Hsub; exact Hc|exact Hd].
  Qed.

  Lemma add_entries_good F rs p d sz es :
    Forall (good_rec F) rs -> good_rec F (mkRecord p d sz es None) -> Forall (good_rec F) (add_entries rs p d sz es).
  Proof.
    intros Hrs [_ Hnew]. induction rs as [|r rs IH]; cbn [add_entries]; [constructor; [split; [reflexivity|exact Hnew]|constructor]|].
    inversion Hrs as [|? ? [Hrp Hre] Hrs']; subst.
    destruct (path_eqb_spec (r_path r) p) as [E|E].
    - constructor; [|exact Hrs']. split; [exact Hrp|]. cbn [r_entries r_path]. intros e Hin Ho.
      apply in_app_or in Hin. destruct Hin as [Hin|Hin]; [apply Hre; assumption|]. rewrite E. apply Hnew; assumption.
    - constructor; [split; assumption|]. apply IH. exact Hrs'.
  Qed.
  Lemma add_entries_covered F rs p d sz es :
    covered F rs -> covered F (add_entries rs p d sz es).
  Proof.
    intros Hc q c Hin. destruct (Hc q c Hin) as [r [e [Hr [Hp [He Ho]]]]]. clear Hc.
    induction rs as [|r0 rs IH]; [destruct Hr|]. cbn [add_entries]. destruct (path_eqb_spec (r_path r0) p) as [E|E].
    - destruct Hr as [->|Hr].
      + eexists. exists e. split; [left; reflexivity|]. cbn [r_path r_entries]. repeat split; auto. apply in_or_app. left. exact He.
      + exists r, e. split; [right; exact Hr|auto].
    - destruct Hr as [->|Hr].
      + exists r, e. split; [left; reflexivity|auto].
      + destruct (IH Hr) as [r' [e' [H1 H2]]]. exists r', e'. split; [right; exact H1|exact H2].
  Qed.
  Lemma add_entries_covers_new F rs p c d sz es e0 :
    In e0 es -> is_original e0 = true -> covered F rs -> covered ((p, c) :: F) (add_entries rs p d sz es).
  Proof.
    intros He0 Ho0 Hc q c' [E|Hin].
    - injection E as <- <-. destruct (add_entries_record rs p d sz es) as [r [H1 [H2 [_ H4]]]].
      exists r, e0. repeat split; auto.
    - apply (add_entries_covered F rs p d sz es Hc q c' Hin).
  Qed.

  Lemma seal_fresh_entries fmts p c e :
    In e (fst (seal (lh_gens h0) p (fun f => digest_text Hb f c) fmts)) ->
    is_original e = true /\ e_digest e = digest_text Hb (e_fmt e) c.
  Proof.
    intros H. split.
    - unfold is_original. rewrite (proj2 (seal_original_iff _ _ _ _ _ H)); [reflexivity|]. rewrite h0_fresh. reflexivity.
    - apply (seal_digest _ _ _ _ _ H).
  Qed.

  Lemma opt_all_In {A} : forall (l : list (option A)) xs x, opt_all l = Some xs -> In x xs -> In (Some x) l.
  Proof.
    induction l as [|o l IH]; intros xs x H Hin.
    - cbn in H. injection H as <-. destruct Hin.
    - change (opt_all (o :: l)) with (match o, opt_all l with Some a, Some r => Some (a :: r) | _, _ => None end) in H.
      destruct o as [a|]; [|discriminate]. destruct (opt_all l) as [r|] eqn:E; [|discriminate]. injection H as <-.
      destruct Hin as [->|Hin]; [left; reflexivity|right; eapply IH; eauto].
  Qed.
  Lemma dir_entries_not_original no_dh spec fmts p t es e :
    dir_entries Hb matches C no_dh spec fmts p t = Some es -> In e es -> is_original e = false.
  Proof.
    unfold dir_entries. destruct no_dh; [intros [= <-] []|]. intros H Hin.
    apply (opt_all_In _ _ _ H) in Hin. apply in_map_iff in Hin. destruct Hin as [f [Hf _]].
    destruct (get C t p) as [d|]; [|discriminate]. destruct (dirhash Hb matches C spec f p d) as [cs|]; [|discriminate].
    injection Hf as <-. reflexivity.
  Qed.

  (* the session after any prefix of the traversal *)
  Lemma process_event_good fmts no_dh spec t s fails F e :
    fmts <> [] -> Forall (good_rec F) (recs s) -> covered F (recs s) ->
    (match e with EvFile p _ => p <> [] | EvDir _ _ => True end) ->
    let '(s', _) := process_event Hb matches C [h0] fmts no_dh spec t (s, fails) e in
    Forall (good_rec (match e with EvFile p c => (p, c) :: F | _ => F end)) (recs s') /\
    covered (match e with EvFile p c => (p, c) :: F | _ => F end) (recs s').
  Proof.
    intros Hf Hg Hc Hne. destruct e as [p c|p kids]; cbn [process_event].
    - unfold seal_file. rewrite (route_flat h0), h0_root. cbn [strip_prefix].
      assert (Hsp : strip_prefix [] p = p) by (destruct p; reflexivity). rewrite ?Hsp.
      destruct (seal (lh_gens h0) p (fun f => digest_text Hb f c) fmts) as [es res] eqn:Es.
      assert (Hes : forall e, In e es -> is_original e = true /\ e_digest e = digest_text Hb (e_fmt e) c).
      { intros e He. apply (seal_fresh_entries fmts p c). rewrite Es. exact He. }
      assert (Hne' : es <> []).
      { replace es with (fst (seal (lh_gens h0) p (fun f => digest_text Hb f c) fmts)) by (rewrite Es; reflexivity). apply seal_nonempty. exact Hf. }
      assert (Hmono : Forall (good_rec ((p, c) :: F)) (recs s)).
      { eapply Forall_impl; [|exact Hg]. intros r. apply good_rec_mono. intros x Hx. right. exact Hx. }
      destruct es as [|e0 es']; [congruence|].
      rewrite recs_sess_add. destruct p as [|n p']; [congruence|]. split.
      + apply add_entries_good; [exact Hmono|]. split; [reflexivity|]. cbn [r_entries r_path].
        intros e He _. exists c. split; [left; reflexivity|apply Hes; exact He].
      + apply (add_entries_covers_new F (recs s) (n :: p') c false _ (e0 :: es') e0); [left; reflexivity|apply Hes; left; reflexivity|exact Hc].
    - unfold record_dir. rewrite (route_flat h0), h0_root, h0_parent.
      assert (Hsp : strip_prefix [] p = p) by (destruct p; reflexivity). rewrite ?Hsp.
      assert (Hsame : forall es, match p with [] => sess_add s [] p true None es | _ :: _ => sess_add s [] p true None es end = sess_add s [] p true None es) by (intros; destruct p; reflexivity).
      rewrite Hsame, recs_sess_add. destruct p as [|n p']; [split; assumption|]. split.
      + apply add_entries_good; [exact Hg|]. split; [reflexivity|]. cbn [r_entries r_path]. intros e He Ho.
        destruct (dir_entries Hb matches C no_dh spec fmts (n :: p') t) as [es|] eqn:Ed; [|destruct He].
        rewrite (dir_entries_not_original _ _ _ _ _ _ _ Ed He) in Ho. discriminate.
      + apply add_entries_covered. exact Hc.
  Qed.

  Lemma fold_events_good fmts no_dh spec t : fmts <> [] -> forall evs s fails F,
    Forall (good_rec F) (recs s) -> covered F (recs s) -> (forall q, In q (files_of evs) -> q <> []) ->
    exists F', Forall (good_rec F') (recs (fst (fold_left (process_event Hb matches C [h0] fmts no_dh spec t) evs (s, fails)))) /\
               covered F' (recs (fst (fold_left (process_event Hb matches C [h0] fmts no_dh spec t) evs (s, fails)))) /\
               forall x, In x F' <-> In x (ev_files evs) \/ In x F.
  Proof.
    intros Hf. induction evs as [|e evs IH]; intros s fails F Hg Hc Hne; cbn [fold_left].
    - exists F. split; [exact Hg|]. split; [exact Hc|]. intros x. cbn. tauto.
    - assert (He : match e with EvFile p _ => p <> [] | EvDir _ _ => True end).
      { destruct e as [p c|]; [|exact I]. apply Hne. cbn. left. reflexivity. }
      pose proof (process_event_good fmts no_dh spec t s fails F e Hf Hg Hc He) as Hstep.
      destruct (process_event Hb matches C [h0] fmts no_dh spec t (s, fails) e) as [s1 f1]. destruct Hstep as [Hg1 Hc1].
      destruct (IH s1 f1 _ Hg1 Hc1) as [F' [H1 [H2 H3]]].
      { intros q Hq. apply Hne. destruct e; cbn; [right|]; exact Hq. }
      exists F'. split; [exact H1|]. split; [exact H2|].
      intros x. rewrite H3. destruct e as [p c|p k]; cbn [ev_files flat_map app In]; tauto.
  Qed.

  (* validation and read-back keep these facts *)
  Lemma is_original_promote e : is_original (promote e) = is_original e.
  Proof. unfold is_original. rewrite promote_action. destruct (e_action e) as [[]|]; reflexivity. Qed.
  Lemma validate_records_Forall2 : forall rs rs', validate_records rs = Some rs' ->
    Forall2 (fun r r' => validate_record r = Some r') rs rs'.
  Proof.
    induction rs as [|r rs IH]; intros rs' H; cbn in H; [injection H as <-; constructor|].
    destruct (validate_record r) as [r'|] eqn:Er; [|discriminate]. destruct (validate_records rs) as [rest|]; [|discriminate].
    injection H as <-. constructor; [exact Er|apply IH; reflexivity].
  Qed.
  Lemma validate_record_good F r r' : validate_record r = Some r' -> good_rec F r -> good_rec F r'.
  Proof.
    intros Er [Hrp Hre]. apply validate_record_ok in Er. destruct Er as [Ep [_ [_ [Epr [Ees _]]]]].
    split; [rewrite Epr; exact Hrp|]. rewrite Ees, Ep. intros e Hin Ho. apply in_map_iff in Hin. destruct Hin as [e1 [<- Hin]].
    rewrite is_original_promote in Ho. rewrite promote_digest, promote_fmt. apply Hre; assumption.
  Qed.
  Lemma validate_good F rs rs' : validate_records rs = Some rs' ->
    Forall (good_rec F) rs -> covered F rs -> Forall (good_rec F) rs' /\ covered F rs'.
  Proof.
    intros H Hg Hc. apply validate_records_Forall2 in H. split.
    - clear Hc. induction H as [|r r' rs rs' Hr H IH]; [constructor|]. inversion Hg; subst. constructor; [eapply validate_record_good; eauto|apply IH; assumption].
    - intros p c Hin. destruct (Hc p c Hin) as [r [e [Hr [Hp [He Ho]]]]]. clear Hc Hg.
      induction H as [|r0 r0' rs rs' Hv H IH]; [destruct Hr|]. destruct Hr as [->|Hr].
      + apply validate_record_ok in Hv. destruct Hv as [Ep [_ [_ [_ [Ees _]]]]].
        exists r0', (promote e). split; [left; reflexivity|]. rewrite Ep, Ees. repeat split; auto; [apply in_map; exact He|rewrite is_original_promote; exact Ho].
      + destruct (IH Hr) as [r1 [e1 [H1 H2]]]. exists r1, e1. split; [right; exact H1|exact H2].
  Qed.
  Lemma readback_good F rs : Forall (good_rec F) rs -> covered F rs ->
    Forall (good_rec F) (map readback_record rs) /\ covered F (map readback_record rs).
  Proof.
    intros Hg Hc.
    assert (Hin : forall r e, In e (r_entries (readback_record r)) <-> In e (r_entries r)).
    { intros r e. unfold readback_record. destruct (r_dir r); [tauto|]. cbn [r_entries]. apply sort_In. }
    assert (Hp : forall r, r_path (readback_record r) = r_path r /\ r_prev (readback_record r) = r_prev r).
    { intros r. unfold readback_record. destruct (r_dir r); split; reflexivity. }
    split.
    - apply Forall_forall. intros r' Hr'. apply in_map_iff in Hr'. destruct Hr' as [r [<- Hr]]. rewrite Forall_forall in Hg.
      destruct (Hg r Hr) as [H1 H2]. destruct (Hp r) as [E1 E2]. split; [rewrite E2; exact H1|]. rewrite E1. intros e He Ho. apply H2; [apply Hin; exact He|exact Ho].
    - intros p c Hpc. destruct (Hc p c Hpc) as [r [e [Hr [Hrp [He Ho]]]]]. exists (readback_record r), e.
      split; [apply in_map; exact Hr|]. destruct (Hp r) as [E1 _]. rewrite E1. repeat split; auto. apply Hin. exact He.
  Qed.
End Fresh.

(* ---- in a well-formed tree a file event carries the content found at its path ---- *)
Section FilesAt.
  Variable matches : list text -> text -> bool.
  Variable C : Type.
  Notation node := (node C).
  Notation events := (events matches C).

  Lemma lookup_kid_In n k (kids : list (text * node)) : NoDup (map fst kids) -> In (n, k) kids -> lookup_kid C n kids = Some k.
  Proof.
    induction kids as [|[m k0] ks IH]; intros Hn Hin; [destruct Hin|]. cbn in Hn. inversion Hn as [|? ? Hm Hn']; subst.
    cbn [lookup_kid]. destruct Hin as [E|Hin].
    - injection E as -> ->. rewrite text_eqb_refl. reflexivity.
    - destruct (text_eqb_spec n m) as [->|Hne]; [exfalso; apply Hm; apply in_map_iff; exists (m, k); auto|apply IH; auto].
  Qed.

  Lemma ev_files_dir spec p h kids q c :
    In (q, c) (ev_files (events spec p (Dir h kids))) <->
    (exists x, In x (vis_of matches C spec p kids) /\ In (q, c) (ev_files (sub_evs C x))) \/
    (exists x, In x (vis_of matches C spec p kids) /\ fst (snd x) = File c /\ q = p ++ [fst x]).
  Proof.
    rewrite (events_dir' matches C). unfold ev_files. rewrite !flat_map_app, !in_app_iff. cbn [flat_map app In]. split.
    - intros [H|[H|[]]].
      + left. apply in_flat_map in H. destruct H as [e [He H]]. apply in_flat_map in He. destruct He as [x [Hx He]].
        exists x. split; [exact Hx|]. apply in_flat_map. exists e. auto.
      + right. apply in_flat_map in H. destruct H as [e [He H]]. apply in_flat_map in He. destruct He as [x [Hx He]].
        destruct (fst (snd x)) as [c0|] eqn:E; [|destruct He]. destruct He as [<-|[]]. cbn in H. destruct H as [H|[]]. injection H as <- <-.
        exists x. auto.
    - intros [[x [Hx H]]|[x [Hx [E ->]]]].
      + left. apply in_flat_map in H. destruct H as [e [He H]]. apply in_flat_map. exists e. split; [|exact H].
        apply in_flat_map. exists x. auto.
      + right. left. apply in_flat_map. exists (EvFile (p ++ [fst x]) c). split; [|left; reflexivity].
        apply in_flat_map. exists x. split; [exact Hx|]. rewrite E. left. reflexivity.
  Qed.

  Theorem ev_files_get spec : forall t p q c, wf_tree C t -> In (q, c) (ev_files (events spec p t)) ->
    exists rel, q = p ++ rel /\ get C t rel = Some (File c).
  Proof.
    induction t as [c0|h kids IH] using node_ind'; intros p q c Hw H; [destruct H|].
    inversion Hw as [|? ? Hnames Hkids]; subst.
    apply ev_files_dir in H.
    assert (Hx : forall x, In x (vis_of matches C spec p kids) -> In (fst x, fst (snd x)) kids /\ snd (snd x) = events spec (p ++ [fst x]) (fst (snd x))).
    { intros x Hin. unfold vis_of in Hin. apply filter_In in Hin. destruct Hin as [Hin _]. apply sort_In in Hin.
      unfold subs in Hin. apply in_map_iff in Hin. destruct Hin as [nk [<- Hin]]. cbn [fst snd]. destruct nk; auto. }
    destruct H as [[x [Hin H]]|[x [Hin [E ->]]]].
    - destruct (Hx x Hin) as [Hk Hs]. unfold sub_evs in H. destruct (fst (snd x)) as [c1|h1 k1] eqn:E; [destruct H|].
      rewrite Hs in H. rewrite Forall_forall in IH, Hkids.
      destruct (IH (fst x, Dir h1 k1) Hk (p ++ [fst x]) q c (Hkids _ Hk) H) as [rel [-> Hg]].
      exists (fst x :: rel). split; [rewrite <- app_assoc; reflexivity|]. cbn [get]. rewrite (lookup_kid_In _ _ _ Hnames Hk). exact Hg.
    - destruct (Hx x Hin) as [Hk _]. rewrite E in Hk. exists [fst x]. split; [reflexivity|]. cbn [get]. rewrite (lookup_kid_In _ _ _ Hnames Hk). reflexivity.
  Qed.
  Corollary ev_files_functional spec t q c c' : wf_tree C t ->
    In (q, c) (ev_files (events spec [] t)) -> In (q, c') (ev_files (events spec [] t)) -> c = c'.
  Proof.
    intros Hw H1 H2. destruct (ev_files_get spec t [] q c Hw H1) as [r1 [E1 G1]]. destruct (ev_files_get spec t [] q c' Hw H2) as [r2 [E2 G2]].
    cbn in E1, E2. subst. congruence.
  Qed.
End FilesAt.

(* ---- the main statement ---- *)
Section FreshMain.
  Variable Hb : fmt -> bytes -> bytes.
  Variable matches : list text -> text -> bool.
  Variable C : Type.
  Variable cdig : C -> text.
  Variable ser : gen -> C.
  Notation node := (node C).
  Notation events := (events matches C).

  Lemma events_ignore_history spec p h h' kids : events spec p (Dir h kids) = events spec p (Dir h' kids).
  Proof. rewrite !events_dir. reflexivity. Qed.
  Lemma visited_reported evs : visited evs = map fst (reported evs).
  Proof.
    unfold visited, reported. induction evs as [|e evs IH]; [reflexivity|]. cbn [flat_map]. rewrite map_app, IH.
    destruct e; reflexivity.
  Qed.
  Lemma find_last_unique (f : record -> bool) : forall rs r, In r rs -> f r = true ->
    (forall r', In r' rs -> f r' = true -> r' = r) -> find_last f rs = Some r.
  Proof.
    induction rs as [|r0 rs IH]; intros r Hin Hf Hu; [destruct Hin|]. cbn [find_last].
    destruct (find_last f rs) as [y|] eqn:E.
    - f_equal. assert (Hy : In y rs /\ f y = true).
      { clear -E. revert y E. induction rs as [|a rs IH]; intros y E; [discriminate|]. cbn in E.
        destruct (find_last f rs) as [z|] eqn:Ez; [injection E as <-; destruct (IH z eq_refl); split; [right|]; assumption|].
        destruct (f a) eqn:Ea; [injection E as <-; split; [left; reflexivity|exact Ea]|discriminate]. }
      apply Hu; [right; tauto|tauto].
    - destruct Hin as [->|Hin]; [rewrite Hf; reflexivity|].
      exfalso. clear -E Hin Hf. induction rs as [|a rs IH]; [destruct Hin|]. cbn in E.
      destruct (find_last f rs); [discriminate|]. destruct Hin as [->|Hin]; [rewrite Hf in E; discriminate|]. destruct (f a); [discriminate|]. auto.
  Qed.

  (* C03, base case: seal a well-formed tree that has no history anywhere, then verify / diff the untouched result: exit 0,
     nothing reported -- for every format request, -n or not, every pattern list, matcher and hash primitive *)
  Theorem fresh_create_then_verify kids h0 req no_dh ip ifl :
    wf_tree C (Dir None kids) -> load C cdig (Dir None kids) = inl [h0] -> req <> [] ->
    let run := create_folder Hb matches C cdig ser (Dir None kids) req no_dh false ip ifl in
    o_outcome (snd run) <> Abort ->
    verify_result Hb matches C cdig false (fst run) [] [] = Some (mkVR 0 [] [] []) /\
    verify_result Hb matches C cdig true (fst run) [] [] = Some (mkVR 0 [] [] []).
  Proof.
    intros Hwf Hl Hreq. cbn zeta. intros Hout.
    (* the loaded history of a tree without ascmhl folders *)
    pose proof Hl as Hl0. rewrite load_dir in Hl0. cbn in Hl0.
    destruct (combine_results (sort name_leb (kid_results C cdig [] [] kids))) as [below|e] eqn:Ec; [|discriminate].
    assert (Hb0 : below = [] /\ h0 = lhist_of C [] None None).
    { destruct below as [|b0 b1]; cbn in Hl0; [injection Hl0 as <-; auto|]. injection Hl0 as _ H. destruct b1; discriminate. }
    destruct Hb0 as [-> Eh0]. clear Hl0.
    assert (h0_root : lh_root h0 = []) by (rewrite Eh0; reflexivity).
    assert (h0_parent : lh_parent h0 = None) by (rewrite Eh0; reflexivity).
    assert (h0_fresh : lh_gens h0 = []) by (rewrite Eh0; reflexivity).
    assert (h0_chain : lh_chain h0 = []) by (rewrite Eh0; reflexivity).
    set (t := Dir None kids) in *.
    destruct (create_flat_shape Hb matches C cdig ser h0 h0_root h0_parent t req no_dh ip ifl Hl eq_refl Hreq Hout)
      as [sess [recs0 [Esess [Hv [Hw Ht]]]]].
    set (spec := set_patterns (latest_patterns (lh_gens h0)) ip (pattern_file_lines ifl)) in *.
    set (evs := events spec [] t) in *.
    set (doc := new_doc InPlace (sess_list sess []) recs0 spec [] h0) in *.
    (* the records of the session, validated and read back *)
    destruct (fold_events_good Hb matches C h0 h0_root h0_parent h0_fresh (sort_fmts req) no_dh spec t (sort_fmts_nonempty req Hreq) evs [] 0 [])
      as [F' [Hg0 [Hc0 HF]]].
    { constructor. } { intros p c []. } { intros q Hq. eapply files_nonempty. exact Hq. }
    assert (Hg1 : Forall (good_rec Hb F') (recs sess)) by (rewrite Esess; exact Hg0).
    assert (Hc1 : covered F' (recs sess)) by (rewrite Esess; exact Hc0).
    destruct (validate_good Hb F' _ _ Hv Hg1 Hc1) as [Hg2 Hc2].
    destruct (readback_good Hb F' recs0 Hg2 Hc2) as [Hg Hc].
    assert (Hrecs : g_records doc = map readback_record recs0) by reflexivity.
    assert (HF' : forall x, In x F' <-> In x (ev_files evs)) by (intros x; rewrite HF; cbn; tauto).
    (* paths of the records *)
    destruct (fold_events_inv Hb matches C h0 h0_root h0_parent (sort_fmts req) no_dh spec t (sort_fmts_nonempty req Hreq) evs [] 0 [] [])
      as [Fp [Dp [[Hn0 Hi0] [HFp HDp]]]].
    { split; [constructor|]. intros q. cbn. tauto. } { intros q Hq. eapply files_nonempty. exact Hq. }
    assert (Hnd : NoDup (map r_path (g_records doc))).
    { rewrite Hrecs, readback_paths, (validate_records_paths _ _ Hv), Esess. exact Hn0. }
    assert (Hpaths : forall q, In q (map r_path (g_records doc)) -> In q (visited evs)).
    { intros q Hq. rewrite Hrecs, readback_paths, (validate_records_paths _ _ Hv), Esess in Hq. apply Hi0 in Hq.
      rewrite visited_reported.
      pose proof (reported_are_events matches C spec t [] q eq_refl) as Hre. fold evs in Hre.
      destruct Hq as [Hq|[Hq Hne]].
      - apply HFp in Hq. destruct Hq as [Hq|[]]. destruct (proj2 Hre (or_introl Hq)) as [->|H]; [exfalso; eapply files_nonempty; [exact Hq|reflexivity]|exact H].
      - apply HDp in Hq. destruct Hq as [Hq|[]]. destruct (proj2 Hre (or_intror Hq)) as [->|H]; [congruence|exact H]. }
    (* the tree after the run and its loaded history *)
    assert (Eold : get_hist C t [] = None) by reflexivity. rewrite Eold, h0_chain in Ht. cbn [h_files app] in Ht.
    set (newh := mkHist C [mkMfile C (g_no doc) (ser doc) doc] (Some [mkCentry (g_no doc) (g_no doc) (cdig (ser doc))])) in *.
    assert (Et' : fst (create_folder Hb matches C cdig ser t req no_dh false ip ifl) = Dir (Some newh) kids) by (rewrite Ht; reflexivity).
    rewrite Et'. clear Ht Et' Hw.
    set (h1 := lhist_of C [] None (Some newh)).
    assert (Hl1 : load C cdig (Dir (Some newh) kids) = inl [h1]).
    { rewrite load_dir. unfold newh at 1. unfold check_chain, check_entries. cbn [h_chain h_files find mf_no ce_file mf_content ce_digest].
      rewrite N.eqb_refl, text_eqb_refl, Ec. reflexivity. }
    assert (Hgens : lh_gens h1 = [doc]) by reflexivity.
    assert (Hroot1 : lh_root h1 = []) by reflexivity.
    (* the effective patterns of the verify run are those of the create run *)
    assert (Hspec : set_patterns (latest_patterns (lh_gens (root_hist [h1]))) [] (pattern_file_lines []) = spec).
    { change (root_hist [h1]) with h1. rewrite Hgens. cbn [latest_patterns rev app pattern_file_lines filter].
      unfold doc at 1. rewrite new_doc_patterns, h0_fresh. cbn [latest_patterns rev].
      unfold spec. rewrite h0_fresh. cbn [latest_patterns rev].
      destruct (set_patterns_stable ip (pattern_file_lines ifl)) as [E1 E2]. cbn zeta in E1, E2. rewrite E1. exact E2. }
    apply (consistent_verifies Hb matches C cdig (Dir (Some newh) kids) [h1] [] [] Hl1).
    { change (root_hist [h1]) with h1. rewrite Hgens. discriminate. }
    rewrite Hspec. unfold consistent_tree. rewrite (events_ignore_history spec [] (Some newh) None kids). fold t. fold evs.
    assert (Hprev : forall r', In r' (g_records doc) -> r_prev r' = None).
    { intros r' Hr'. rewrite Hrecs in Hr'. rewrite Forall_forall in Hg. apply (Hg r' Hr'). }
    split.
    - (* every visited file has its original digest as reference *)
      intros p c Hpc. unfold reference. change (root_hist [h1]) with h1.
      assert (Hrt : route [h1] h1 p = h1) by (unfold route; cbn [fold_left]; unfold better; rewrite Nat.ltb_irrefl, andb_false_r; reflexivity).
      rewrite Hrt, Hroot1, Hgens. cbn [strip_prefix fold_left].
      assert (Hsp : strip_prefix [] p = p) by (destruct p; reflexivity). rewrite ?Hsp.
      destruct (Hc p c (proj2 (HF' (p, c)) Hpc)) as [r [e0 [Hr [Hrp [He0 Ho0]]]]]. rewrite <- Hrecs in Hr.
      assert (Hps : prev_step p doc = p).
      { unfold prev_step. destruct (find _ (g_records doc)) as [r'|] eqn:Ef; [|reflexivity]. apply find_some in Ef. rewrite (Hprev r' (proj1 Ef)). reflexivity. }
      rewrite Hps. cbn [find_original].
      assert (Hfm : find_media_hash doc p = Some r).
      { unfold find_media_hash. rewrite (find_last_unique (fun r0 => rec_keys_match r0 p) (g_records doc) r Hr).
        - reflexivity.
        - unfold rec_keys_match. rewrite Hrp, path_eqb_refl. reflexivity.
        - intros r' Hr' Hk. unfold rec_keys_match in Hk. rewrite (Hprev r' Hr') in Hk. cbn [opt_path_eqb] in Hk. rewrite orb_false_r in Hk.
          apply path_eqb_eq in Hk.
          apply (NoDup_key_inj r_path (g_records doc)); auto. congruence. }
      rewrite Hfm. destruct (find is_original (r_entries r)) as [e|] eqn:Efo.
      + apply find_some in Efo. destruct Efo as [Hein Heo]. exists e. split; [reflexivity|].
        rewrite Forall_forall in Hg. rewrite Hrecs in Hr. destruct (Hg r Hr) as [_ Hge]. destruct (Hge e Hein Heo) as [c' [Hc' Hd]].
        rewrite Hrp in Hc'. apply HF' in Hc'. rewrite (ev_files_functional matches C spec t p c c' Hwf Hpc Hc'). exact Hd.
      + exfalso. eapply find_none in Efo; [|exact He0]. congruence.
    - (* nothing recorded is missing *)
      assert (Hexp : forall q, In q (expected_paths [h1]) -> In q (visited evs)).
      { intros q Hq. unfold expected_paths in Hq. apply (dedup_by_In path_eqb path_eqb_spec) in Hq. destruct Hq as [Hq _].
        apply in_map_iff in Hq. destruct Hq as [q0 [Hren Hq0]].
        assert (Hrm : rename_map [h1] = []).
        { unfold rename_map. cbn [flat_map]. rewrite app_nil_r. apply hist_rename_map_nil. rewrite Hgens. intros g r [<-|[]] Hr. apply Hprev. exact Hr. }
        unfold renamed in Hren. rewrite Hrm in Hren. cbn in Hren. subst q0.
        unfold recorded_paths in Hq0. cbn [flat_map] in Hq0. rewrite Hgens, Hroot1 in Hq0. cbn [flat_map app] in Hq0. rewrite !app_nil_r in Hq0.
        apply Hpaths. exact Hq0. }
      assert (Hdiff : diff_paths (expected_paths [h1]) (visited evs) = []).
      { unfold diff_paths. induction (expected_paths [h1]) as [|q l IH]; [reflexivity|]. cbn [filter].
        assert (Hm : mem_path q (visited evs) = true) by (apply mem_path_In; apply Hexp; left; reflexivity). rewrite Hm. cbn [negb].
        apply IH. intros q' Hq'. apply Hexp. right. exact Hq'. }
      rewrite Hdiff. reflexivity.
  Qed.
End FreshMain.

(* ---- C06 / C12 end to end for a flat history with any number of prior generations ---- *)
Section FlatAppend.
  Variable Hb : fmt -> bytes -> bytes.
  Variable matches : list text -> text -> bool.
  Variable C : Type.
  Variable cdig : C -> text.
  Variable ser : gen -> C.

  (* create on a tree whose only history is the root's, that history being well-formed with n generations: afterwards
     the history is `after_commit old doc` -- all n manifests kept, one added with number n+1, the chain extended by
     exactly one matching entry -- and well-formed with n+1 generations *)
  Theorem create_flat_appends old kids h0 n req no_dh ip ifl :
    load C cdig (Dir (Some old) kids) = inl [h0] -> HistFacts.wellformed C cdig n old -> req <> [] ->
    let run := create_folder Hb matches C cdig ser (Dir (Some old) kids) req no_dh false ip ifl in
    o_outcome (snd run) <> Abort ->
    exists doc, o_written (snd run) = [([], doc)] /\ g_no doc = N.of_nat (S n) /\
      fst run = Dir (Some (HistFacts.after_commit C cdig ser old doc)) kids /\
      HistFacts.wellformed C cdig (S n) (HistFacts.after_commit C cdig ser old doc) /\
      (exists new, h_files C (HistFacts.after_commit C cdig ser old doc) = h_files C old ++ [new]).
  Proof.
    intros Hl Hw Hreq. cbn zeta. intros Hout.
    pose proof Hl as Hl0. rewrite load_dir in Hl0.
    destruct (check_chain C cdig old); [discriminate|].
    destruct (combine_results (sort name_leb (kid_results C cdig [] [] kids))) as [below|e] eqn:Ec; [|discriminate].
    assert (Hb0 : below = [] /\ h0 = lhist_of C [] None (Some old)).
    { destruct below as [|b0 b1]; cbn in Hl0; [injection Hl0 as <-; auto|]. injection Hl0 as _ H. destruct b1; discriminate. }
    destruct Hb0 as [-> Eh0]. clear Hl0.
    assert (h0_root : lh_root h0 = []) by (rewrite Eh0; reflexivity).
    assert (h0_parent : lh_parent h0 = None) by (rewrite Eh0; reflexivity).
    destruct (create_flat_shape Hb matches C cdig ser h0 h0_root h0_parent (Dir (Some old) kids) req no_dh ip ifl Hl eq_refl Hreq Hout)
      as [sess [recs0 [_ [_ [Hw' Ht]]]]].
    set (doc := new_doc InPlace (sess_list sess []) recs0 (set_patterns (latest_patterns (lh_gens h0)) ip (pattern_file_lines ifl)) [] h0) in *.
    assert (Hno : g_no doc = (latest_generation_number (loaded_gens C old) + 1)%N) by (unfold doc; rewrite Eh0; reflexivity).
    destruct (HistFacts.commit_appends C cdig ser n old doc Hw Hno) as [Hn [Hfiles [_ Hwf]]].
    exists doc. split; [exact Hw'|]. split; [exact Hn|]. split; [|split; [exact Hwf|]].
    - rewrite Ht. rewrite Eh0. reflexivity.
    - destruct Hfiles as [new [Hf _]]. exists new. exact Hf.
  Qed.

  (* C12 end to end (flat history): nothing that the effective patterns exclude -- neither an ignored entry nor anything
     below an ignored folder -- gets a record in the new generation *)
  Theorem create_flat_records_visible (t : node C) h0 req no_dh ip ifl :
    load C cdig t = inl [h0] -> is_dir C t = true -> req <> [] ->
    let spec := set_patterns (latest_patterns (lh_gens h0)) ip (pattern_file_lines ifl) in
    let o := snd (create_folder Hb matches C cdig ser t req no_dh false ip ifl) in
    o_outcome o <> Abort ->
    forall h doc r, In (h, doc) (o_written o) -> In r (g_records doc) -> visible matches spec [] (r_path r).
  Proof.
    intros Hl Hd Hreq. cbn zeta. intros Hout h doc r Hin Hr.
    destruct (create_flat_records_exact Hb matches C cdig ser t h0 req no_dh ip ifl Hl Hd Hreq Hout) as [doc0 [Hw [_ Hiff]]].
    rewrite Hw in Hin. destruct Hin as [E|[]]. injection E as _ <-.
    assert (Hq : In (r_path r) (map fst (entries matches C (set_patterns (latest_patterns (lh_gens h0)) ip (pattern_file_lines ifl)) [] t))).
    { apply Hiff. apply in_map. exact Hr. }
    apply in_map_iff in Hq. destruct Hq as [[q d] [Hq1 Hq2]]. cbn in Hq1. subst q. eapply entries_visible. exact Hq2.
  Qed.
End FlatAppend.
