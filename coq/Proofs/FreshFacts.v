(* C03 (first sentence, base case): sealing a tree that has no history yet and then verifying / diffing the untouched tree
   gives exit 0 with empty reports -- for every well-formed tree, format set, pattern list, matcher and primitive. *)
From Coq Require Import Lia Permutation.
From MHL Require Import Model.Commands Gen.Generated Proofs.BaseFacts Proofs.SealFacts Proofs.TreeFacts Proofs.RouteFacts
     Proofs.CommitFacts Proofs.LoadFacts Proofs.IgnoreFacts Proofs.VerifyFacts Proofs.CreateFacts.

Section Fresh.
  Variable Hb : fmt -> bytes -> bytes.
  Variable matches : list text -> text -> bool.
  Variable C : Type.
  Variable cdig : C -> text.
  Variable ser : gen -> C.
  Notation node := (node C).
  Notation events := (events matches C).

  Variable h0 : lhist.
  Hypothesis h0_root : lh_root h0 = [].
  Hypothesis h0_parent : lh_parent h0 = None.
  Hypothesis h0_fresh : lh_gens h0 = [].

  (* a record as the first generation writes it for a file with content c: only `original` entries, each the digest
     of c in its own format, no previous path *)
  Definition good_entry (c : bytes) (e : entry) : Prop := e_action e = Some Original /\ e_digest e = digest_text Hb (e_fmt e) c.
  Definition good_rec (F : list (path * bytes)) (r : record) : Prop :=
    r_prev r = None /\
    (r_dir r = false -> r_entries r <> [] /\ forall e, In e (r_entries r) -> exists c, In (r_path r, c) F /\ good_entry c e).

  Lemma good_rec_mono F F' r : (forall x, In x F -> In x F') -> good_rec F r -> good_rec F' r.
  Proof.
    intros Hsub [Hp Hd]. split; [exact Hp|]. intros Hdir. destruct (Hd Hdir) as [Hne He]. split; [exact Hne|].
    intros e Hin. destruct (He e Hin) as [c [Hc Hg]]. exists c. split; [apply Hsub; exact Hc|exact Hg].
  Qed.

  Lemma add_entries_good F rs p d sz es :
    Forall (good_rec F) rs -> good_rec F (mkRecord p d sz es None) ->
    (forall r, In r rs -> r_path r = p -> good_rec F (mkRecord (r_path r) (r_dir r || d) (r_size r) (r_entries r ++ es) (r_prev r))) ->
    Forall (good_rec F) (add_entries rs p d sz es).
  Proof.
    intros Hrs Hnew Hmerge. induction rs as [|r rs IH]; cbn [add_entries]; [constructor; [exact Hnew|constructor]|].
    inversion Hrs as [|? ? Hr Hrs']; subst.
    destruct (path_eqb_spec (r_path r) p) as [E|E].
    - constructor; [apply Hmerge; [left; reflexivity|exact E]|exact Hrs'].
    - constructor; [exact Hr|]. apply IH; [exact Hrs'|]. intros r' Hin. apply Hmerge. right. exact Hin.
  Qed.

  Lemma seal_fresh_good fmts p c e :
    In e (fst (seal (lh_gens h0) p (fun f => digest_text Hb f c) fmts)) -> good_entry c e.
  Proof.
    intros H. split.
    - apply (seal_original_iff _ _ _ _ _ H). rewrite h0_fresh. reflexivity.
    - apply (seal_digest _ _ _ _ _ H).
  Qed.

  (* the session after any prefix of the traversal: all records good w.r.t. the file events processed so far *)
  Lemma process_event_good fmts no_dh spec t s fails F e :
    fmts <> [] -> Forall (good_rec F) (recs s) ->
    let '(s', _) := process_event Hb matches C [h0] fmts no_dh spec t (s, fails) e in
    Forall (good_rec (match e with EvFile p c => (p, c) :: F | _ => F end)) (recs s').
  Proof.
    intros Hf Hg. destruct e as [p c|p kids]; cbn [process_event].
    - unfold seal_file. rewrite (route_flat h0), h0_root. cbn [strip_prefix].
      assert (Hsp : strip_prefix [] p = p) by (destruct p; reflexivity). rewrite ?Hsp.
      destruct (seal (lh_gens h0) p (fun f => digest_text Hb f c) fmts) as [es res] eqn:Es.
      assert (Hes : forall e, In e es -> good_entry c e).
      { intros e He. apply (seal_fresh_good fmts p c). rewrite Es. exact He. }
      assert (Hmono : Forall (good_rec ((p, c) :: F)) (recs s)).
      { eapply Forall_impl; [|exact Hg]. intros r. apply good_rec_mono. intros x Hx. right. exact Hx. }
      destruct es as [|e0 es']; [exact Hmono|].
      rewrite recs_sess_add. destruct p as [|n p']; [exact Hmono|].
      apply add_entries_good; [exact Hmono| |].
      + split; [reflexivity|]. intros _. cbn [r_entries r_path]. split; [discriminate|].
        intros e He. exists c. split; [left; reflexivity|apply Hes; exact He].
      + intros r Hin Hp. rewrite Forall_forall in Hmono. destruct (Hmono r Hin) as [Hprev Hd]. split; [exact Hprev|].
        cbn [r_dir r_entries r_path]. rewrite orb_false_r. intros Hdir. destruct (Hd Hdir) as [Hne Hall]. split.
        * destruct (r_entries r); [congruence|discriminate].
        * intros e He. apply in_app_or in He. destruct He as [He|He]; [apply Hall; exact He|].
          exists c. split; [rewrite Hp; left; reflexivity|apply Hes; exact He].
    - unfold record_dir. rewrite (route_flat h0), h0_root, h0_parent.
      assert (Hsp : strip_prefix [] p = p) by (destruct p; reflexivity). rewrite ?Hsp.
      assert (Hsame : forall es, match p with [] => sess_add s [] p true None es | _ :: _ => sess_add s [] p true None es end = sess_add s [] p true None es) by (intros; destruct p; reflexivity).
      rewrite Hsame, recs_sess_add. destruct p as [|n p']; [exact Hg|].
      apply add_entries_good; [exact Hg| |].
      + split; [reflexivity|]. cbn [r_dir]. discriminate.
      + intros r Hin Hp. rewrite Forall_forall in Hg. destruct (Hg r Hin) as [Hprev _]. split; [exact Hprev|].
        cbn [r_dir]. rewrite orb_true_r. discriminate.
  Qed.

  Lemma fold_events_good fmts no_dh spec t : fmts <> [] -> forall evs s fails F,
    Forall (good_rec F) (recs s) ->
    exists F', Forall (good_rec F') (recs (fst (fold_left (process_event Hb matches C [h0] fmts no_dh spec t) evs (s, fails)))) /\
               forall x, In x F' <-> In x (ev_files evs) \/ In x F.
  Proof.
    intros Hf. induction evs as [|e evs IH]; intros s fails F Hg; cbn [fold_left].
    - exists F. split; [exact Hg|]. intros x. cbn. tauto.
    - pose proof (process_event_good fmts no_dh spec t s fails F e Hf Hg) as Hstep.
      destruct (process_event Hb matches C [h0] fmts no_dh spec t (s, fails) e) as [s1 f1].
      destruct (IH s1 f1 _ Hstep) as [F' [H1 H2]]. exists F'. split; [exact H1|].
      intros x. rewrite H2. destruct e as [p c|p k]; cbn [ev_files flat_map app In]; tauto.
  Qed.
End Fresh.
