(* Lemmas for C10: the readers of Model/Read.v invert the writers of Model/Emit.v on well-formed objects. *)
From Coq Require Import DecimalN DecimalPos Lia String Ascii.
From MHL Require Import Model.Read Proofs.BaseFacts.
From MHL Require Import Gen.Generated.
Local Open Scope N_scope.

(* ---- str(int) / int(str) ---------------------------------------------------------------------------- *)
Lemma text_uint_uint_text u : text_uint (uint_text u) = Some u.
Proof. induction u; simpl; try rewrite IHu; reflexivity. Qed.
Lemma dec_of_N_nonempty n : dec_of_N n <> [].
Proof.
  unfold dec_of_N. destruct n as [|p]; simpl; [discriminate|].
  pose proof (DecimalPos.Unsigned.to_uint_nonnil p). destruct (Pos.to_uint p); simpl; congruence.
Qed.
Lemma N_of_dec_of_N n : N_of_dec (dec_of_N n) = Some n.
Proof.
  unfold N_of_dec. pose proof (dec_of_N_nonempty n). destruct (dec_of_N n) eqn:E; [congruence|].
  rewrite <- E. unfold dec_of_N. rewrite text_uint_uint_text. simpl. now rewrite DecimalN.Unsigned.of_to.
Qed.
Lemma truthy_dec n : truthy_text (Some (dec_of_N n)) = Some (dec_of_N n).
Proof. pose proof (dec_of_N_nonempty n). destruct (dec_of_N n); [congruence|reflexivity]. Qed.

(* ---- isoformat / parse ------------------------------------------------------------------------------ *)
Lemma dig_add k : k < 10 -> dig (48 + k) = Some k.
Proof.
  intros H. unfold dig.
  replace (48 <=? 48 + k) with true by (symmetry; apply N.leb_le; lia).
  replace (48 + k <=? 57) with true by (symmetry; apply N.leb_le; lia).
  cbn [andb]. f_equal. lia.
Qed.
Lemma p2_d2 n : n < 100 -> p2 (48 + n / 10) (48 + n mod 10) = Some n.
Proof.
  intros H. unfold p2.
  rewrite dig_add by (apply N.div_lt_upper_bound; lia).
  rewrite dig_add by (apply N.mod_lt; lia).
  f_equal. pose proof (N.div_mod n 10). lia.
Qed.
Lemma p4_d4 n : n < 10000 ->
  p4 (48 + n / 100 / 10) (48 + (n / 100) mod 10) (48 + (n mod 100) / 10) (48 + (n mod 100) mod 10) = Some n.
Proof.
  intros H. unfold p4.
  rewrite p2_d2 by (apply N.div_lt_upper_bound; lia).
  rewrite p2_d2 by (apply N.mod_lt; lia).
  f_equal. pose proof (N.div_mod n 100). lia.
Qed.
Lemma p6_d6 n : n < 1000000 ->
  p6 (48 + n / 10000 / 10) (48 + (n / 10000) mod 10) (48 + ((n / 100) mod 100) / 10) (48 + ((n / 100) mod 100) mod 10)
     (48 + (n mod 100) / 10) (48 + (n mod 100) mod 10) = Some n.
Proof.
  intros H. unfold p6.
  rewrite p2_d2 by (apply N.div_lt_upper_bound; lia).
  rewrite p2_d2 by (apply N.mod_lt; lia).
  rewrite p2_d2 by (apply N.mod_lt; lia).
  f_equal.
  pose proof (N.div_mod n 100). pose proof (N.div_mod (n / 100) 100).
  assert (n / 100 / 100 = n / 10000) by (rewrite N.div_div by lia; reflexivity). lia.
Qed.

Lemma iso_parse_offset_format off : (-6000 < off < 6000)%Z -> iso_parse_offset (iso_offset off) = Some off.
Proof.
  intros H. unfold iso_offset, d2. cbn [app]. unfold iso_parse_offset.
  assert (Ha : Z.abs_N off < 6000) by lia.
  rewrite p2_d2 by (apply N.div_lt_upper_bound; lia).
  rewrite p2_d2 by (pose proof (N.mod_lt (Z.abs_N off) 60); lia).
  replace (58 =? 58) with true by reflexivity. cbn [negb].
  assert (E : Z.abs_N off / 60 * 60 + Z.abs_N off mod 60 = Z.abs_N off) by (pose proof (N.div_mod (Z.abs_N off) 60); lia).
  rewrite E. rewrite N2Z.inj_abs_N.
  destruct (off <? 0)%Z eqn:S.
  - apply Z.ltb_lt in S. replace (45 =? 43) with false by reflexivity. replace (45 =? 45) with true by reflexivity. f_equal. lia.
  - apply Z.ltb_ge in S. replace (43 =? 43) with true by reflexivity. f_equal. lia.
Qed.

Lemma date_ok_spec d : date_ok d = true ->
  dt_y d < 10000 /\ dt_mo d < 100 /\ dt_d d < 100 /\ dt_h d < 100 /\ dt_mi d < 100 /\ dt_s d < 100 /\ dt_us d < 1000000
  /\ (-6000 < dt_off d < 6000)%Z.
Proof.
  unfold date_ok. rewrite !andb_true_iff, !N.ltb_lt, !Z.ltb_lt. tauto.
Qed.

Lemma iso_parse_format d : date_ok d = true -> iso_parse (iso_format true d) = Some d.
Proof.
  intros H. apply date_ok_spec in H. destruct H as (Hy & Hmo & Hd & Hh & Hmi & Hs & Hus & Hoff).
  destruct d as [y mo dd h mi s us off]. cbn [dt_y dt_mo dt_d dt_h dt_mi dt_s dt_us dt_off] in *.
  unfold iso_format. cbn [dt_y dt_mo dt_d dt_h dt_mi dt_s dt_us dt_off andb].
  unfold d4, d2. cbn [app]. unfold iso_parse.
  replace ((45 =? 45) && (45 =? 45) && (84 =? 84) && (58 =? 58) && (58 =? 58)) with true by reflexivity.
  rewrite p4_d4 by assumption. rewrite !p2_d2 by assumption.
  destruct (us =? 0) eqn:U; cbn [negb].
  - apply N.eqb_eq in U. subst us. cbn [app].
    pose proof (iso_parse_offset_format off Hoff) as P.
    unfold iso_offset, d2 in *. cbn [app] in *. rewrite P. reflexivity.
  - unfold d6, d2. cbn [app].
    replace (46 =? 46) with true by reflexivity.
    rewrite p6_d6 by assumption. rewrite iso_parse_offset_format by assumption. reflexivity.
Qed.

(* ---- paths ------------------------------------------------------------------------------------------ *)
Lemma posix_norm_nonempty p : posix_norm p <> [].
Proof. unfold posix_norm. destruct (split_root p) as [root rel]. destruct (root ++ _); discriminate. Qed.
Lemma node_text_posix p : node_text (Some (posix_norm p)) = Some (posix_norm p).
Proof. pose proof (posix_norm_nonempty p). destruct (posix_norm p); [congruence|reflexivity]. Qed.
Lemma node_text_opt_posix p : node_text (option_map convert_local_path_to_posix p) = option_map posix_norm p.
Proof. destruct p; [apply node_text_posix|reflexivity]. Qed.

(* ---- tag dispatch ----------------------------------------------------------------------------------- *)
Lemma classify_creatorinfo : classify s_creatorinfo = KCreatorinfo. Proof. reflexivity. Qed.
Lemma classify_processinfo : classify s_processinfo = KProcessinfo. Proof. reflexivity. Qed.
Lemma classify_hash : classify s_hash = KHash. Proof. reflexivity. Qed.
Lemma classify_directoryhash : classify s_directoryhash = KDirectoryhash. Proof. reflexivity. Qed.
Lemma classify_hashlistreference : classify s_hashlistreference = KHashlistreference. Proof. reflexivity. Qed.
Lemma classify_ignore : classify s_ignore = KIgnore. Proof. reflexivity. Qed.
Lemma classify_roothash : classify s_roothash = KRoothash. Proof. reflexivity. Qed.
Lemma classify_author : classify s_author = KAuthor. Proof. reflexivity. Qed.
Lemma classify_structure : classify s_structure = KStructure. Proof. reflexivity. Qed.
Lemma classify_content : classify s_content = KContent. Proof. reflexivity. Qed.
Lemma classify_creationdate : classify s_creationdate = KCreationdate. Proof. reflexivity. Qed.
Lemma classify_tool : classify s_tool = KTool. Proof. reflexivity. Qed.
Lemma classify_hostname : classify s_hostname = KHostname. Proof. reflexivity. Qed.
Lemma classify_location : classify s_location = KLocation. Proof. reflexivity. Qed.
Lemma classify_comment : classify s_comment = KComment. Proof. reflexivity. Qed.
Lemma classify_process : classify s_process = KProcess. Proof. reflexivity. Qed.
Lemma classify_pattern : classify s_pattern = KPattern. Proof. reflexivity. Qed.
Lemma classify_path : classify s_path = KPath. Proof. reflexivity. Qed.
Lemma classify_previousPath : classify s_previousPath = KPreviousPath. Proof. reflexivity. Qed.
Lemma classify_hashlist : classify s_hashlist = KHashlist. Proof. reflexivity. Qed.
Lemma classify_hashes : classify s_hashes = KOther. Proof. reflexivity. Qed.
Lemma classify_references : classify s_references = KOther. Proof. reflexivity. Qed.
Lemma classify_ascmhldirectory : classify s_ascmhldirectory = KOther. Proof. reflexivity. Qed.
Lemma classify_c4 : classify s_c4 = KFmt. Proof. reflexivity. Qed.
Lemma classify_fmt f : mem_text f supported_hashformats = true -> classify f = KFmt.
Proof.
  intros H. apply mem_text_In in H. unfold supported_hashformats in H. simpl in H.
  repeat (destruct H as [H|H]; [subst f; reflexivity|]). contradiction.
Qed.
(* the order of the tests in `classify` does not matter: a supported format is none of the literal tags *)
Lemma supported_not_literal :
  forallb (fun f => match classify f with KFmt => true | _ => false end) supported_hashformats = true.
Proof. reflexivity. Qed.
#[export] Hint Rewrite classify_creatorinfo classify_processinfo classify_hash classify_directoryhash
  classify_hashlistreference classify_ignore classify_roothash classify_author classify_structure classify_content
  classify_creationdate classify_tool classify_hostname classify_location classify_comment classify_process
  classify_pattern classify_path classify_previousPath classify_hashlist classify_hashes classify_references
  classify_ascmhldirectory classify_c4 : cls.

(* ---- attributes ------------------------------------------------------------------------------------- *)
Lemma attr_entry_action e : attr_get s_action (entry_attrs e) = truthy_text (xe_action e).
Proof. unfold entry_attrs. destruct (truthy_text (xe_action e)), (xe_date e); reflexivity. Qed.
Lemma attr_entry_hashdate e : attr_get s_hashdate (entry_attrs e) = option_map (iso_format true) (xe_date e).
Proof. unfold entry_attrs. destruct (truthy_text (xe_action e)), (xe_date e); reflexivity. Qed.
Lemma attr_path_size (sz lm : option text) : attr_get s_size (opt_attr s_size sz ++ opt_attr s_lastmod lm) = sz.
Proof. destruct sz, lm; reflexivity. Qed.
Lemma attr_author_role r e p : attr_get s_role (opt_attr s_role r ++ opt_attr s_email e ++ opt_attr s_phone p) = r.
Proof. destruct r, e, p; reflexivity. Qed.
Lemma attr_author_email r e p : attr_get s_email (opt_attr s_role r ++ opt_attr s_email e ++ opt_attr s_phone p) = e.
Proof. destruct r, e, p; reflexivity. Qed.
Lemma attr_author_phone r e p : attr_get s_phone (opt_attr s_role r ++ opt_attr s_email e ++ opt_attr s_phone p) = p.
Proof. destruct r, e, p; reflexivity. Qed.
Lemma attr_tool_version v : attr_get s_version (opt_attr s_version v) = v.
Proof. destruct v; reflexivity. Qed.

(* ---- events and runs -------------------------------------------------------------------------------- *)
Lemma events_Elem tg a c k : events (Elem tg a c k) = EvStart tg :: flat_map events k ++ [EvEnd tg a (node_text c)].
Proof. reflexivity. Qed.
Lemma events_leaf tg a v : events (leaf tg a v) = [EvStart tg; EvEnd tg a (node_text v)].
Proof. reflexivity. Qed.
Lemma run_cons e l st : run (e :: l) st = match step e st with Some st' => run l st' | None => None end.
Proof. reflexivity. Qed.
Lemma run_app a b st : run (a ++ b) st = match run a st with Some st' => run b st' | None => None end.
Proof. revert st. induction a as [|e a IH]; intros st; simpl; [reflexivity|]. destruct (step e st); [apply IH|reflexivity]. Qed.
Lemma flat_map_events_app (l1 l2 : list xml) : flat_map events (l1 ++ l2) = flat_map events l1 ++ flat_map events l2.
Proof. apply flat_map_app. Qed.

Arguments classify : simpl never.
Arguments iso_parse : simpl never.
Arguments iso_format : simpl never.
Arguments posix_norm : simpl never.
Arguments N_of_dec : simpl never.
Arguments dec_of_N : simpl never.
Arguments attr_get : simpl never.
Arguments node_text : simpl never.
Arguments truthy_text : simpl never.
Arguments sort_entries : simpl never.
Arguments ignore_spec_of : simpl never.
Arguments events : simpl never.
Arguments entry_attrs : simpl never.

Ltac rstep :=
  cbn [on_start on_end start_new rs_cur rs_stack rs_struct rs_pats rs_hl media_end creator_end];
  unfold set_cur, set_stack, set_structflag, set_pats, set_hl;
  cbn [rs_cur rs_stack rs_struct rs_pats rs_hl].
Ltac ev1 := cbn [app]; rewrite run_cons; cbn [step]; autorewrite with cls; rstep.
Ltac ev := rewrite ?events_leaf; cbn [app]; repeat ev1.
Ltac evf Hf := rewrite run_cons; cbn [step]; rewrite (classify_fmt _ Hf); rstep.

(* what the reader makes of one format element (no structure hash yet) *)
Definition read_entry (e : xentry) : xentry :=
  mkXEntry (xe_fmt e) (node_text (xe_digest e)) (truthy_text (xe_action e)) (xe_date e) None.

Lemma entry_ok_spec e : entry_ok e = true -> mem_text (xe_fmt e) supported_hashformats = true /\ opt_date_ok (xe_date e) = true.
Proof. unfold entry_ok. now rewrite andb_true_iff. Qed.

Lemma parse_hashdate e : opt_date_ok (xe_date e) = true ->
  match attr_get s_hashdate (entry_attrs e) with None => Some None | Some s => option_map Some (iso_parse s) end = Some (xe_date e).
Proof.
  intros H. rewrite attr_entry_hashdate. destruct (xe_date e) as [d|]; simpl; [|reflexivity].
  simpl in H. now rewrite iso_parse_format.
Qed.

(* one format element appended to the current record (file record, or <content> of a directory) *)
Lemma run_entry_append e r stk sf pats hl rest :
  entry_ok e = true -> xr_dir r && sf = false ->
  run (events (entry_xml e) ++ rest) (mkRS (CMedia r) stk sf pats hl)
  = run rest (mkRS (CMedia (rec_set_entries (xr_entries r ++ [read_entry e]) r)) stk sf pats hl).
Proof.
  intros Hok Hd. apply entry_ok_spec in Hok. destruct Hok as [Hf Hdt].
  unfold entry_xml. rewrite events_leaf; cbn [app]. evf Hf. evf Hf.
  rewrite (parse_hashdate _ Hdt). rewrite Hd. rewrite attr_entry_action. reflexivity.
Qed.

Lemma rec_set_entries_twice a b r : rec_set_entries a (rec_set_entries b r) = rec_set_entries a r.
Proof. reflexivity. Qed.

Lemma run_entries_append es : forall r stk sf pats hl rest,
  forallb entry_ok es = true -> xr_dir r && sf = false ->
  run (flat_map events (map entry_xml es) ++ rest) (mkRS (CMedia r) stk sf pats hl)
  = run rest (mkRS (CMedia (rec_set_entries (xr_entries r ++ map read_entry es) r)) stk sf pats hl).
Proof.
  induction es as [|e es IH]; intros r stk sf pats hl rest Hok Hd.
  - simpl. rewrite app_nil_r. destruct r; reflexivity.
  - simpl in Hok. apply andb_true_iff in Hok. destruct Hok as [He Hes].
    cbn [map flat_map]. rewrite <- app_assoc. rewrite run_entry_append by assumption.
    rewrite IH by (try assumption; destruct r; exact Hd).
    cbn [xr_entries rec_set_entries]. rewrite rec_set_entries_twice. rewrite <- app_assoc. reflexivity.
Qed.

(* the <structure> elements: each one is attached to the first entry of its format *)
Lemma set_structure_at f s pre e post :
  (forall x, In x pre -> xe_fmt x <> f) -> xe_fmt e = f ->
  set_structure f s (pre ++ e :: post) = Some (pre ++ entry_set_struct s e :: post).
Proof.
  intros Hpre He. induction pre as [|x pre IH]; simpl.
  - subst f. now rewrite text_eqb_refl.
  - destruct (text_eqb (xe_fmt x) f) eqn:E.
    + apply text_eqb_eq in E. exfalso. apply (Hpre x); [now left|assumption].
    + rewrite IH; [reflexivity|]. intros y Hy. apply Hpre. now right.
Qed.

Lemma canon_entry_read e : entry_set_struct (node_text (xe_struct e)) (read_entry e) = canon_entry e.
Proof. reflexivity. Qed.

Lemma run_entry_structure e pre post r stk pats hl rest :
  entry_ok e = true -> xr_dir r = true -> xr_entries r = pre ++ read_entry e :: post ->
  (forall x, In x pre -> xe_fmt x <> xe_fmt e) ->
  run (events (entry_structure_xml e) ++ rest) (mkRS (CMedia r) stk true pats hl)
  = run rest (mkRS (CMedia (rec_set_entries (pre ++ canon_entry e :: post) r)) stk true pats hl).
Proof.
  intros Hok Hd He Hpre. apply entry_ok_spec in Hok. destruct Hok as [Hf Hdt].
  unfold entry_structure_xml. rewrite events_leaf; cbn [app]. evf Hf. evf Hf.
  rewrite (parse_hashdate _ Hdt). rewrite Hd. cbn [andb]. rewrite He.
  rewrite set_structure_at by (try assumption; reflexivity). rewrite canon_entry_read. reflexivity.
Qed.

Lemma distinct_texts_cons x l : distinct_texts (x :: l) = true -> ~ In x l /\ distinct_texts l = true.
Proof.
  simpl. rewrite andb_true_iff, negb_true_iff. intros [H1 H2]. split; [|assumption].
  intros Hin. apply mem_text_In in Hin. congruence.
Qed.

Lemma run_entries_structure todo : forall pre r stk pats hl rest,
  forallb entry_ok todo = true -> xr_dir r = true -> xr_entries r = pre ++ map read_entry todo ->
  (forall x e, In x pre -> In e todo -> xe_fmt x <> xe_fmt e) -> distinct_texts (map xe_fmt todo) = true ->
  run (flat_map events (map entry_structure_xml todo) ++ rest) (mkRS (CMedia r) stk true pats hl)
  = run rest (mkRS (CMedia (rec_set_entries (pre ++ map canon_entry todo) r)) stk true pats hl).
Proof.
  induction todo as [|e todo IH]; intros pre r stk pats hl rest Hok Hd He Hpre Hdist.
  - simpl in *. rewrite <- He. destruct r; reflexivity.
  - simpl in Hok. apply andb_true_iff in Hok. destruct Hok as [Hoke Hoks].
    cbn [map] in Hdist. apply distinct_texts_cons in Hdist. destruct Hdist as [Hnotin Hdist].
    cbn [map flat_map]. rewrite <- app_assoc.
    rewrite (run_entry_structure e pre (map read_entry todo)); try assumption.
    2:{ intros x Hx. apply Hpre; [assumption|now left]. }
    rewrite (IH (pre ++ [canon_entry e])); try assumption.
    + cbn [rec_set_entries xr_path xr_dir xr_size xr_lastmod xr_prev]. rewrite <- app_assoc. reflexivity.
    + cbn [xr_entries rec_set_entries]. rewrite <- app_assoc. reflexivity.
    + intros x e' Hx He'. apply in_app_or in Hx. destruct Hx as [Hx|[Hx|[]]].
      * apply Hpre; [assumption|now right].
      * subst x. cbn [canon_entry xe_fmt]. intros Heq. apply Hnotin. rewrite Heq. now apply in_map.
Qed.

(* ---- records ---------------------------------------------------------------------------------------- *)
Lemma run_path_leaf r0 (p : option text) (sz : option N) lm stk sf pats hl rest :
  run (events (leaf s_path (opt_attr s_size (option_map dec_of_N sz) ++ opt_attr s_lastmod lm) p) ++ rest)
      (mkRS (CMedia r0) stk sf pats hl)
  = run rest (mkRS (CMedia (rec_set_path (node_text p) sz r0)) stk sf pats hl).
Proof.
  ev. rewrite attr_path_size. destruct sz as [n|]; cbn [option_map].
  - rewrite truthy_dec, N_of_dec_of_N. reflexivity.
  - reflexivity.
Qed.

Lemma run_prev pv r0 stk sf pats hl rest :
  xr_prev r0 = None ->
  run (flat_map events (previous_path_xml pv) ++ rest) (mkRS (CMedia r0) stk sf pats hl)
  = run rest (mkRS (CMedia (rec_set_prev (canon_prev (xr_prev pv)) r0)) stk sf pats hl).
Proof.
  intros H0. unfold previous_path_xml, canon_prev. destruct (truthy_text (xr_prev pv)) as [p|]; cbn [flat_map option_map].
  - rewrite app_nil_r. ev. unfold convert_local_path_to_posix, convert_posix_to_local_path. rewrite node_text_posix. reflexivity.
  - cbn [app]. destruct r0; simpl in *; subst; reflexivity.
Qed.

Lemma read_entry_canon e : xe_struct e = None -> read_entry e = canon_entry e.
Proof. intros H. unfold read_entry, canon_entry. rewrite H. reflexivity. Qed.
Lemma map_read_entry_canon l : forallb (fun e => is_none (xe_struct e)) l = true -> map read_entry l = map canon_entry l.
Proof.
  induction l as [|e l IH]; simpl; [reflexivity|]. rewrite andb_true_iff. intros [H1 H2].
  rewrite IH by assumption. rewrite read_entry_canon; [reflexivity|]. destruct (xe_struct e); [discriminate|reflexivity].
Qed.
Lemma forallb_sort_entries f l : forallb f l = true -> forallb f (sort_entries l) = true.
Proof.
  rewrite !forallb_forall. intros H x Hx. apply H. unfold sort_entries in Hx. now apply sort_In in Hx.
Qed.

Lemma record_ok_path r : record_ok r = true ->
  exists p, xr_path r = Some p /\ opt_text_is (Some (posix_norm p)) s_dot = false.
Proof.
  unfold record_ok. destruct (xr_path r) as [p|]; [|discriminate]. rewrite !andb_true_iff, negb_true_iff.
  intros [[H _] _]. exists p. split; [reflexivity|exact H].
Qed.

Lemma run_media_hash r stk sf pats hl rest :
  record_ok r = true -> xr_dir r = false ->
  run (events (media_hash_xml r) ++ rest) (mkRS CNone stk sf pats hl)
  = run rest (mkRS CNone stk sf pats (hl_add_record (canon_record r) hl)).
Proof.
  intros Hok Hd. destruct (record_ok_path r Hok) as (p & Hp & Hdot).
  unfold record_ok in Hok. rewrite Hd, Hp in Hok. apply andb_true_iff in Hok. destruct Hok as [Hok Hstruct].
  apply andb_true_iff in Hok. destruct Hok as [_ Hent].
  unfold media_hash_xml. rewrite events_Elem. cbn [flat_map]. rewrite flat_map_events_app.
  cbn [app]. rewrite <- !app_assoc. ev1.
  unfold path_xml. rewrite run_path_leaf.
  rewrite run_entries_append by (try reflexivity; now apply forallb_sort_entries).
  rewrite run_prev by reflexivity.
  ev1. unfold append_hash. cbn [xr_path rec_set_prev rec_set_entries rec_set_path empty_record xr_entries].
  rewrite Hp. cbn [option_map]. unfold convert_local_path_to_posix. rewrite node_text_posix. rewrite Hdot.
  unfold canon_record. rewrite Hd, Hp. cbn [app option_map xr_dir xr_size xr_lastmod xr_prev].
  rewrite map_read_entry_canon by (now apply forallb_sort_entries). reflexivity.
Qed.

(* <content>, <structure>, optional <previousPath>: shared by <directoryhash> and <roothash> *)
Lemma run_directory_body r r0 stk sf pats hl rest :
  xr_dir r0 = true -> xr_entries r0 = [] -> xr_prev r0 = None ->
  forallb entry_ok (xr_entries r) = true -> distinct_texts (map xe_fmt (xr_entries r)) = true ->
  run (events (Elem s_content [] None (map entry_xml (xr_entries r)))
       ++ events (Elem s_structure [] None (map entry_structure_xml (xr_entries r)))
       ++ flat_map events (previous_path_xml r) ++ rest)
      (mkRS (CMedia r0) stk sf pats hl)
  = run rest (mkRS (CMedia (rec_set_prev (canon_prev (xr_prev r)) (rec_set_entries (map canon_entry (xr_entries r)) r0))) stk true pats hl).
Proof.
  intros Hd He Hp Hok Hdist.
  rewrite !events_Elem. cbn [app]. rewrite <- !app_assoc. cbn [app].
  ev1. rewrite run_entries_append by (try assumption; rewrite Hd; reflexivity).
  cbn [app]. ev1. ev1. rewrite <- ?app_assoc.
  rewrite (run_entries_structure (xr_entries r) []); try assumption.
  - cbn [app]. ev1. rewrite run_prev by (destruct r0; exact Hp). reflexivity.
  - cbn [xr_entries rec_set_entries]. rewrite He. reflexivity.
  - intros x e [].
Qed.

Lemma run_directory_hash r stk sf pats hl rest :
  record_ok r = true -> xr_dir r = true ->
  run (events (directory_hash_xml s_directoryhash false r) ++ rest) (mkRS CNone stk sf pats hl)
  = run rest (mkRS CNone stk true pats (hl_add_record (canon_record r) hl)).
Proof.
  intros Hok Hd. destruct (record_ok_path r Hok) as (p & Hp & Hdot).
  unfold record_ok in Hok. rewrite Hd, Hp in Hok. apply andb_true_iff in Hok. destruct Hok as [Hok Hdir].
  apply andb_true_iff in Hok. destruct Hok as [_ Hent].
  apply andb_true_iff in Hdir. destruct Hdir as [Hdist Hsize].
  unfold directory_hash_xml. rewrite events_Elem. cbn [app flat_map]. rewrite <- !app_assoc. ev1.
  unfold path_xml. rewrite run_path_leaf.
  rewrite (run_directory_body r) by (try assumption; reflexivity).
  ev1. unfold append_hash. cbn [xr_path rec_set_prev rec_set_entries rec_set_path empty_record xr_entries].
  rewrite Hp. cbn [option_map]. unfold convert_local_path_to_posix. rewrite node_text_posix. rewrite Hdot.
  unfold canon_record. rewrite Hd, Hp. cbn [app option_map xr_dir xr_size xr_lastmod xr_prev].
  replace (truthy_N (xr_size r)) with (xr_size r); [reflexivity|].
  destruct (xr_size r) as [[|]|]; try reflexivity. discriminate.
Qed.

Lemma run_record r stk sf pats hl rest :
  record_ok r = true ->
  exists sf', run (events (record_xml r) ++ rest) (mkRS CNone stk sf pats hl)
              = run rest (mkRS CNone stk sf' pats (hl_add_record (canon_record r) hl)).
Proof.
  intros Hok. unfold record_xml. destruct (xr_dir r) eqn:Hd.
  - exists true. now apply run_directory_hash.
  - exists sf. now apply run_media_hash.
Qed.

Lemma hl_add_records_app h a b :
  fold_left (fun h r => hl_add_record r h) b (fold_left (fun h r => hl_add_record r h) a h)
  = fold_left (fun h r => hl_add_record r h) (a ++ b) h.
Proof. now rewrite fold_left_app. Qed.

Lemma run_records rs : forall stk sf pats hl rest,
  forallb record_ok rs = true ->
  exists sf', run (flat_map events (map record_xml rs) ++ rest) (mkRS CNone stk sf pats hl)
              = run rest (mkRS CNone stk sf' pats
                   (mkXHashList (xh_creator hl) (xh_process hl) (xh_records hl ++ map canon_record rs) (xh_refs hl))).
Proof.
  induction rs as [|r rs IH]; intros stk sf pats hl rest Hok.
  - exists sf. simpl. rewrite app_nil_r. destruct hl; reflexivity.
  - simpl in Hok. apply andb_true_iff in Hok. destruct Hok as [Hr Hrs].
    cbn [map flat_map]. rewrite <- app_assoc.
    destruct (run_record r stk sf pats hl (flat_map events (map record_xml rs) ++ rest) Hr) as [sf1 E1].
    destruct (IH stk sf1 pats (hl_add_record (canon_record r) hl) rest Hrs) as [sf2 E2].
    exists sf2. rewrite E1, E2. cbn [hl_add_record xh_creator xh_process xh_records xh_refs]. rewrite <- app_assoc. reflexivity.
Qed.

(* ---- <creatorinfo> ---------------------------------------------------------------------------------- *)
Lemma upd_last_snoc {A} (f : A -> A) l x : upd_last f (l ++ [x]) = Some (l ++ [f x]).
Proof. unfold upd_last. rewrite rev_app_distr. simpl. now rewrite rev_involutive. Qed.

Lemma author_end_canon a :
  author_ok a = true ->
  author_end (opt_attr s_role (xa_role a) ++ opt_attr s_email (xa_email a) ++ opt_attr s_phone (xa_phone a))
             (node_text match xa_name a with Some n => if text_eqb n s_dash then None else Some n | None => None end)
             (mkXAuthor (Some s_dash) None None None)
  = canon_author a.
Proof.
  intros H. unfold author_end. cbn [xa_name xa_email xa_phone xa_role or_else].
  rewrite attr_author_role, attr_author_email, attr_author_phone.
  replace (opt_text_is (Some s_dash) s_dash) with true by reflexivity.
  unfold canon_author. f_equal.
  unfold author_ok in H. destruct (xa_name a) as [n|]; [|reflexivity].
  cbn [opt_text_is] in H. apply negb_true_iff in H. now rewrite H.
Qed.

Lemma run_authors l : forall c stk sf pats hl rest,
  forallb author_ok l = true ->
  run (flat_map events (map author_xml l) ++ rest) (mkRS (CCreator c) stk sf pats hl)
  = run rest (mkRS (CCreator (cr_set_authors (xc_authors c ++ map canon_author l) c)) stk sf pats hl).
Proof.
  induction l as [|a l IH]; intros c stk sf pats hl rest Hok.
  - simpl. rewrite app_nil_r. destruct c; reflexivity.
  - simpl in Hok. apply andb_true_iff in Hok. destruct Hok as [Ha Hl].
    cbn [map flat_map]. rewrite <- app_assoc. unfold author_xml at 1. ev.
    cbn [xc_authors cr_set_authors]. rewrite upd_last_snoc. rewrite (author_end_canon a Ha).
    rewrite IH by assumption. cbn [xc_authors cr_set_authors xc_date xc_host xc_tool xc_location xc_comment].
    rewrite <- app_assoc. reflexivity.
Qed.

Lemma run_creator c stk sf pats hl rest :
  creator_ok c = true ->
  run (events (creator_info_xml c) ++ rest) (mkRS CNone stk sf pats hl)
  = run rest (mkRS CNone stk sf pats (hl_set_creator (canon_creator c) hl)).
Proof.
  intros Hok. destruct c as [cd host tool authors loc com]. unfold creator_ok in Hok.
  cbn [xc_date xc_host xc_tool xc_authors] in Hok. destruct tool as [[tn tv]|].
  2:{ rewrite andb_false_r in Hok. discriminate. }
  apply andb_true_iff in Hok. destruct Hok as [_ Hauth].
  unfold creator_info_xml. rewrite events_Elem. cbn [xc_date xc_host xc_tool xc_authors xc_location xc_comment tool_xml xt_name xt_version].
  cbn [app flat_map]. rewrite !flat_map_events_app. rewrite <- !app_assoc. ev.
  rewrite run_authors by assumption. unfold canon_creator. cbn [xc_date xc_host xc_tool xc_authors xc_location xc_comment cr_set_authors xt_name xt_version empty_creator app].
  rewrite attr_tool_version.
  destruct loc, com; cbn [opt_leaf flat_map]; ev; reflexivity.
Qed.

(* ---- <processinfo> ---------------------------------------------------------------------------------- *)
Definition root_read (r : xrecord) : xrecord :=
  mkXRecord (Some s_dot) true None None (map canon_entry (xr_entries r)) (canon_prev (xr_prev r)).

Lemma run_root r p0 stk sf pats hl rest :
  root_ok r = true ->
  run (events (root_hash_xml r) ++ rest) (mkRS (CProcess p0) stk sf pats hl)
  = run rest (mkRS (CProcess (pi_set_root (root_read r) p0)) stk true pats
                   (hl_set_process (pi_set_root (root_read r) (xh_process hl)) hl)).
Proof.
  intros Hok. unfold root_ok in Hok. apply andb_true_iff in Hok. destruct Hok as [Hent Hdist].
  unfold root_hash_xml, directory_hash_xml. rewrite events_Elem. cbn [app flat_map]. rewrite <- !app_assoc. ev1.
  rewrite (run_directory_body r) by (try assumption; reflexivity).
  ev1. unfold append_hash. cbn [rec_set_root xr_path]. replace (opt_text_is (Some s_dot) s_dot) with true by reflexivity.
  reflexivity.
Qed.

Lemma run_patterns ps : forall stk sf pats hl rest,
  run (flat_map events (map (fun p => leaf s_pattern [] p) ps) ++ rest) (mkRS CIgnore stk sf pats hl)
  = run rest (mkRS CIgnore stk sf (pats ++ map node_text ps) hl).
Proof.
  induction ps as [|p ps IH]; intros stk sf pats hl rest.
  - simpl. now rewrite app_nil_r.
  - cbn [map flat_map]. rewrite <- app_assoc. ev. rewrite IH. rewrite <- app_assoc. reflexivity.
Qed.

Definition pats_of (pi : xprocinfo) : list (option text) :=
  match xpi_ignore pi with Some ps => map node_text ps | None => [] end.
Definition procinfo_read (pi : xprocinfo) : xprocinfo :=
  mkXProcInfo (process_of_text (node_text (match xpi_process pi with Some x => xp_type x | None => None end)))
              (canon_root (xpi_root pi)) (Some (ignore_spec_of [])).

Lemma run_process_info pi stk sf pats hl rest :
  procinfo_ok pi = true ->
  exists sf', run (events (process_info_xml pi) ++ rest) (mkRS CNone stk sf pats hl)
              = run rest (mkRS CNone stk sf' (pats ++ pats_of pi) (hl_set_process (procinfo_read pi) hl)).
Proof.
  intros Hok. unfold procinfo_ok in Hok. apply andb_true_iff in Hok. destruct Hok as [Hok _].
  apply andb_true_iff in Hok. destruct Hok as [_ Hroot].
  unfold process_info_xml. rewrite events_Elem. cbn [app flat_map]. rewrite !flat_map_events_app.
  cbn [flat_map]. rewrite app_nil_r. rewrite <- !app_assoc. ev.
  assert (Hign : forall p sf0 hl0,
    run (events (ignorespec_xml (xpi_ignore pi)) ++ [EvEnd s_processinfo [] (node_text None)] ++ rest)
        (mkRS (CProcess p) stk sf0 pats hl0)
    = run rest (mkRS CNone stk sf0 (pats ++ pats_of pi) (hl_set_process p hl0))).
  { intros p sf0 hl0. unfold ignorespec_xml, pats_of. rewrite events_Elem. cbn [app]. rewrite <- !app_assoc. ev1.
    destruct (xpi_ignore pi) as [ps|].
    - rewrite run_patterns. ev. reflexivity.
    - cbn [flat_map app]. ev. rewrite app_nil_r. reflexivity. }
  unfold procinfo_read, canon_root.
  destruct (xpi_root pi) as [r|].
  - destruct (xr_entries r) as [|e es] eqn:Hes.
    + cbn [flat_map app]. exists sf. rewrite Hign. reflexivity.
    + cbn [flat_map]. rewrite app_nil_r. rewrite <- ?app_assoc. exists true.
      rewrite run_root by assumption. rewrite Hign. unfold root_read. rewrite Hes. reflexivity.
  - cbn [flat_map app]. exists sf. rewrite Hign. reflexivity.
Qed.

(* ---- <hashes>, <references> ------------------------------------------------------------------------- *)
Lemma run_hashes rs stk sf pats hl rest :
  forallb record_ok rs = true ->
  exists sf', run (flat_map events (match rs with [] => [] | x :: l => [Elem s_hashes [] None (map record_xml (x :: l))] end) ++ rest)
                  (mkRS CNone stk sf pats hl)
              = run rest (mkRS CNone stk sf' pats
                   (mkXHashList (xh_creator hl) (xh_process hl) (xh_records hl ++ map canon_record rs) (xh_refs hl))).
Proof.
  intros Hok. destruct rs as [|r rs'].
  - exists sf. simpl. rewrite app_nil_r. destruct hl; reflexivity.
  - cbv iota. remember (r :: rs') as rs eqn:E. clear E. cbn [flat_map]. rewrite app_nil_r. rewrite events_Elem. cbn [app]. rewrite <- !app_assoc. ev1.
    destruct (run_records rs stk sf pats hl (EvEnd s_hashes [] (node_text None) :: rest) Hok) as [sf' E'].
    exists sf'. rewrite E'. ev1. reflexivity.
Qed.

Lemma run_ref r stk sf pats hl rest :
  run (events (reference_xml r) ++ rest) (mkRS CNone stk sf pats hl)
  = run rest (mkRS CNone stk sf pats (hl_add_ref (canon_ref r) hl)).
Proof.
  unfold reference_xml. rewrite events_Elem. cbn [app flat_map]. rewrite <- !app_assoc. ev.
  replace (text_eqb s_c4 s_c4) with true by reflexivity. ev.
  unfold canon_ref. cbn [xf_path xf_c4 empty_ref]. unfold convert_posix_to_local_path. rewrite node_text_opt_posix. reflexivity.
Qed.

Lemma run_refs rs : forall stk sf pats hl rest,
  run (flat_map events (map reference_xml rs) ++ rest) (mkRS CNone stk sf pats hl)
  = run rest (mkRS CNone stk sf pats
       (mkXHashList (xh_creator hl) (xh_process hl) (xh_records hl) (xh_refs hl ++ map canon_ref rs))).
Proof.
  induction rs as [|r rs IH]; intros stk sf pats hl rest.
  - simpl. rewrite app_nil_r. destruct hl; reflexivity.
  - cbn [map flat_map]. rewrite <- app_assoc. rewrite run_ref. rewrite IH.
    cbn [hl_add_ref xh_creator xh_process xh_records xh_refs]. rewrite <- app_assoc. reflexivity.
Qed.

Lemma run_references rs stk sf pats hl rest :
  run (flat_map events (match rs with [] => [] | x :: l => [Elem s_references [] None (map reference_xml (x :: l))] end) ++ rest)
      (mkRS CNone stk sf pats hl)
  = run rest (mkRS CNone stk sf pats
       (mkXHashList (xh_creator hl) (xh_process hl) (xh_records hl) (xh_refs hl ++ map canon_ref rs))).
Proof.
  destruct rs as [|r rs'].
  - simpl. rewrite app_nil_r. destruct hl; reflexivity.
  - cbv iota. remember (r :: rs') as rs eqn:E. clear E. cbn [flat_map]. rewrite app_nil_r. rewrite events_Elem. cbn [app]. rewrite <- !app_assoc. ev1.
    rewrite run_refs. ev1. reflexivity.
Qed.

(* ---- the manifest round trip ------------------------------------------------------------------------ *)
Theorem hashlist_roundtrip_proof o : wf o = true -> read_hashlist (emit_hashlist o) = Some (canon o).
Proof.
  intros Hwf. unfold wf in Hwf. destruct (xh_creator o) as [c|] eqn:Hc; [|discriminate].
  rewrite !andb_true_iff in Hwf. destruct Hwf as [[[Hcr Hpi] Hrec] _].
  unfold read_hashlist, emit_hashlist. rewrite Hc. rewrite events_Elem.
  cbn [app flat_map]. rewrite !flat_map_events_app. cbn [flat_map]. rewrite <- !app_assoc.
  unfold init_state. ev1.
  rewrite run_creator by assumption.
  destruct (run_process_info (xh_process o) [] false [] (hl_set_creator (canon_creator c) empty_hashlist)
              (flat_map events (match xh_records o with [] => [] | rs' => [Elem s_hashes [] None (map record_xml rs')] end)
               ++ flat_map events (match xh_refs o with [] => [] | rs' => [Elem s_references [] None (map reference_xml rs')] end)
               ++ [EvEnd s_hashlist [(s_version, s_2_0)] (node_text None)]) Hpi) as [sf1 E1].
  rewrite E1.
  match goal with |- context [run _ (mkRS CNone [] sf1 ?p ?h)] =>
    destruct (run_hashes (xh_records o) [] sf1 p h
                (flat_map events (match xh_refs o with [] => [] | rs' => [Elem s_references [] None (map reference_xml rs')] end)
                 ++ [EvEnd s_hashlist [(s_version, s_2_0)] (node_text None)]) Hrec) as [sf2 E2]
  end.
  rewrite E2. rewrite run_references. ev1. cbn [run option_map].
  unfold finish, canon, canon_procinfo, procinfo_read, pats_of. rewrite Hc.
  cbn [rs_hl rs_pats xh_creator xh_process xh_records xh_refs hl_set_process hl_set_creator pi_set_ignore
       xpi_process xpi_root xpi_ignore empty_hashlist app option_map].
  reflexivity.
Qed.

(* ---- the chain file --------------------------------------------------------------------------------- *)
Lemma crun_app a b st : crun (a ++ b) st = crun b (crun a st).
Proof. unfold crun. apply fold_left_app. Qed.
Lemma crun_cons e l st : crun (e :: l) st = crun l (cstep e st).
Proof. reflexivity. Qed.

Lemma crun_entry e gens rest :
  chainent_ok e = true ->
  crun (events (chain_entry_xml e) ++ rest) (mkCS None gens) = crun rest (mkCS None (gens ++ [canon_chainent e])).
Proof.
  intros Hok. unfold chainent_ok in Hok. rewrite !andb_true_iff in Hok. destruct Hok as [[Hf _] _].
  unfold chain_entry_xml. rewrite Hf. rewrite events_Elem. cbn [flat_map]. rewrite !events_leaf. cbn [app].
  repeat (rewrite crun_cons; cbn [cstep cs_cur cs_gens]; autorewrite with cls; cbn [cs_cur cs_gens ce_no ce_file ce_fmt ce_hash empty_chainent]).
  replace (attr_get s_sequencenr [(s_sequencenr, seq_text (ce_no e))]) with (Some (seq_text (ce_no e))) by reflexivity.
  unfold canon_chainent, convert_posix_to_local_path. rewrite node_text_opt_posix.
  destruct (ce_fmt e) as [f|]; [|cbn in Hf; discriminate]. cbn [opt_text_is] in Hf. apply text_eqb_eq in Hf. subst f. reflexivity.
Qed.

Lemma crun_entries c : forall gens rest,
  forallb chainent_ok c = true ->
  crun (flat_map events (map chain_entry_xml c) ++ rest) (mkCS None gens) = crun rest (mkCS None (gens ++ map canon_chainent c)).
Proof.
  induction c as [|e c IH]; intros gens rest Hok.
  - simpl. now rewrite app_nil_r.
  - simpl in Hok. apply andb_true_iff in Hok. destruct Hok as [He Hc].
    cbn [map flat_map]. rewrite <- app_assoc. rewrite crun_entry by assumption. rewrite IH by assumption.
    rewrite <- app_assoc. reflexivity.
Qed.

Theorem chain_roundtrip_proof c : wf_chain c = true -> read_chain (emit_chain c) = Some (canon_chain c).
Proof.
  intros Hwf. unfold read_chain, emit_chain. rewrite events_Elem. f_equal.
  rewrite crun_cons. cbn [cstep cs_cur]. autorewrite with cls.
  rewrite crun_entries by exact Hwf. cbn [app]. rewrite crun_cons. cbn [cstep cs_cur]. reflexivity.
Qed.

(* ---- corollaries ------------------------------------------------------------------------------------ *)
Corollary emit_injective_proof o1 o2 :
  wf o1 = true -> wf o2 = true -> canon o1 = o1 -> canon o2 = o2 -> emit_hashlist o1 = emit_hashlist o2 -> o1 = o2.
Proof.
  intros W1 W2 C1 C2 E. pose proof (hashlist_roundtrip_proof o1 W1) as R1. pose proof (hashlist_roundtrip_proof o2 W2) as R2.
  rewrite E in R1. congruence.
Qed.
Corollary emit_chain_injective_proof c1 c2 :
  wf_chain c1 = true -> wf_chain c2 = true -> canon_chain c1 = c1 -> canon_chain c2 = c2 -> emit_chain c1 = emit_chain c2 -> c1 = c2.
Proof.
  intros W1 W2 C1 C2 E. pose proof (chain_roundtrip_proof c1 W1) as R1. pose proof (chain_roundtrip_proof c2 W2) as R2.
  rewrite E in R1. congruence.
Qed.

(* the readers see a tree only through its events, and those do not distinguish a tree from its infoset *)
Lemma node_text_idem c : node_text (node_text c) = node_text c.
Proof. destruct c as [[|]|]; reflexivity. Qed.
Lemma events_infoset : forall x, events (infoset x) = events x.
Proof.
  fix IH 1. intros [tg a c k]. cbn [infoset]. rewrite !events_Elem. rewrite node_text_idem. f_equal. f_equal.
  induction k as [|y k IHk]; [reflexivity|]. cbn [flat_map]. rewrite IH. f_equal. exact IHk.
Qed.
Corollary read_hashlist_infoset x : read_hashlist (infoset x) = read_hashlist x.
Proof. unfold read_hashlist. now rewrite events_infoset. Qed.
Corollary read_chain_infoset x : read_chain (infoset x) = read_chain x.
Proof. unfold read_chain. now rewrite events_infoset. Qed.

(* a root hash element whose path would be "." : the counterexamples behind two wf clauses are in Props/C10.v *)
