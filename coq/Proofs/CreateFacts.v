(* C02 (composition, flat history): create in folder mode on a tree whose only history is the root's writes one
   generation whose records are exactly the entries no pattern excludes -- one record each, nothing else. *)
From Coq Require Import Lia Permutation.
From MHL Require Import Model.Commands Gen.Generated Proofs.BaseFacts Proofs.SealFacts Proofs.TreeFacts Proofs.RouteFacts Proofs.CommitFacts Proofs.LoadFacts.

Section Flat.
  Variable Hb : fmt -> bytes -> bytes.
  Variable matches : list text -> text -> bool.
  Variable C : Type.
  Variable cdig : C -> text.
  Variable ser : gen -> C.
  Notation node := (node C).
  Notation events := (events matches C).

  (* ---- what the traversal yields, by kind ---- *)
  Definition files_of (evs : list ev) : list path := flat_map (fun e => match e with EvFile p _ => [p] | EvDir _ _ => [] end) evs.
  Definition dirs_of (evs : list ev) : list path := flat_map (fun e => match e with EvDir p _ => [p] | EvFile _ _ => [] end) evs.
  Lemma files_of_app a b : files_of (a ++ b) = files_of a ++ files_of b. Proof. apply flat_map_app. Qed.
  Lemma dirs_of_app a b : dirs_of (a ++ b) = dirs_of a ++ dirs_of b. Proof. apply flat_map_app. Qed.
  Lemma files_of_flat_map {A} (g : A -> list ev) l : files_of (flat_map g l) = flat_map (fun x => files_of (g x)) l.
  Proof. induction l as [|x l IH]; cbn [flat_map]; [reflexivity|]. rewrite files_of_app, IH. reflexivity. Qed.
  Lemma dirs_of_flat_map {A} (g : A -> list ev) l : dirs_of (flat_map g l) = flat_map (fun x => dirs_of (g x)) l.
  Proof. induction l as [|x l IH]; cbn [flat_map]; [reflexivity|]. rewrite dirs_of_app, IH. reflexivity. Qed.

  (* membership in the three views of the events of a folder *)
  Definition sub_evs (x : text * (node * list ev)) : list ev := match fst (snd x) with Dir _ _ => snd (snd x) | File _ => [] end.
  Lemma events_dir' spec p h kids :
    events spec p (Dir h kids) =
    flat_map sub_evs (vis_of matches C spec p kids)
    ++ flat_map (fun x => match fst (snd x) with File c => [EvFile (p ++ [fst x]) c] | Dir _ _ => [] end) (vis_of matches C spec p kids)
    ++ [EvDir p (map (fun x => (p ++ [fst x], is_dir C (fst (snd x)))) (vis_of matches C spec p kids))].
  Proof. apply events_dir. Qed.

  Lemma rep_dir spec p h kids q :
    In q (map fst (reported (events spec p (Dir h kids)))) <->
    (exists x, In x (vis_of matches C spec p kids) /\ In q (map fst (reported (sub_evs x)))) \/
    (exists x, In x (vis_of matches C spec p kids) /\ q = p ++ [fst x]).
  Proof.
    rewrite events_dir', !reported_app, reported_single, !map_app, !in_app_iff, !reported_flat_map.
    rewrite (flat_map_nil (fun x : text * (node * list ev) => reported match fst (snd x) with File c => [EvFile (p ++ [fst x]) c] | Dir _ _ => [] end)).
    2:{ intros x. destruct (fst (snd x)); reflexivity. }
    rewrite map_map. cbn [fst map]. split.
    - intros [H|[[]|H]].
      + left. apply in_map_iff in H. destruct H as [[q0 d] [<- H]]. apply in_flat_map in H. destruct H as [x [Hx H]].
        exists x. split; [exact Hx|]. apply in_map_iff. exists (q0, d). auto.
      + right. apply in_map_iff in H. destruct H as [x [<- Hx]]. eauto.
    - intros [[x [Hx H]]|[x [Hx ->]]].
      + left. apply in_map_iff in H. destruct H as [[q0 d] [<- H]]. apply in_map_iff. exists (q0, d). split; [reflexivity|].
        apply in_flat_map. eauto.
      + right. right. apply in_map_iff. eauto.
  Qed.
  Lemma files_dir spec p h kids q :
    In q (files_of (events spec p (Dir h kids))) <->
    (exists x, In x (vis_of matches C spec p kids) /\ In q (files_of (sub_evs x))) \/
    (exists x c, In x (vis_of matches C spec p kids) /\ fst (snd x) = File c /\ q = p ++ [fst x]).
  Proof.
    rewrite events_dir', !files_of_app, !in_app_iff, !files_of_flat_map. cbn [files_of flat_map]. split.
    - intros [H|[H|[]]].
      + left. apply in_flat_map in H. exact H.
      + right. apply in_flat_map in H. destruct H as [x [Hx H]]. destruct (fst (snd x)) as [c|] eqn:E; [|destruct H].
        cbn in H. destruct H as [<-|[]]. exists x, c. auto.
    - intros [H|[x [c [Hx [E ->]]]]].
      + left. apply in_flat_map. exact H.
      + right. left. apply in_flat_map. exists x. split; [exact Hx|]. rewrite E. cbn. auto.
  Qed.
  Lemma dirs_dir spec p h kids q :
    In q (dirs_of (events spec p (Dir h kids))) <->
    (exists x, In x (vis_of matches C spec p kids) /\ In q (dirs_of (sub_evs x))) \/ q = p.
  Proof.
    rewrite events_dir', !dirs_of_app, !in_app_iff, !dirs_of_flat_map. cbn [dirs_of flat_map app In]. split.
    - intros [H|[H|[<-|[]]]]; auto.
      + left. apply in_flat_map in H. exact H.
      + apply in_flat_map in H. destruct H as [x [Hx H]]. destruct (fst (snd x)); destruct H.
    - intros [H| ->]; [left; apply in_flat_map; exact H|auto].
  Qed.

  (* every reported entry is yielded as a file event or as the folder event of that sub-folder, and vice versa *)
  Theorem reported_are_events spec : forall t p q, is_dir C t = true ->
    (q = p \/ In q (map fst (reported (events spec p t)))) <->
    (In q (files_of (events spec p t)) \/ In q (dirs_of (events spec p t))).
  Proof.
    induction t as [c|h kids IH] using node_ind'; intros p q Hd; [discriminate|].
    rewrite rep_dir, files_dir, dirs_dir.
    assert (HV : forall x, In x (vis_of matches C spec p kids) ->
               (exists c, fst (snd x) = File c) \/
               (is_dir C (fst (snd x)) = true /\ sub_evs x = events spec (p ++ [fst x]) (fst (snd x)) /\
                forall q, (q = p ++ [fst x] \/ In q (map fst (reported (sub_evs x)))) <-> (In q (files_of (sub_evs x)) \/ In q (dirs_of (sub_evs x))))).
    { intros x Hx. unfold vis_of in Hx. apply filter_In in Hx. destruct Hx as [Hx _]. apply sort_In in Hx.
      unfold subs in Hx. apply in_map_iff in Hx. destruct Hx as [nk [<- Hin]]. unfold sub_evs. cbn [fst snd].
      rewrite Forall_forall in IH. specialize (IH nk Hin).
      destruct (snd nk) as [c|h' kids'] eqn:Ek; [left; exists c; reflexivity|right].
      split; [reflexivity|]. split; [reflexivity|]. intros q0. apply IH. reflexivity. }
    split.
    - intros [->|[[x [Hx H]]|[x [Hx ->]]]].
      + right. right. reflexivity.
      + destruct (HV x Hx) as [[c E]|[_ [_ Hq]]]; [unfold sub_evs in H; rewrite E in H; destruct H|].
        destruct (proj1 (Hq q) (or_intror H)) as [Hf|Hdd]; [left; left; eauto|right; left; eauto].
      + destruct (HV x Hx) as [[c E]|[_ [_ Hq]]].
        * left. right. exists x, c. auto.
        * destruct (proj1 (Hq (p ++ [fst x])) (or_introl eq_refl)) as [Hf|Hdd]; [left; left; eauto|right; left; eauto].
    - intros [[[x [Hx H]]|[x [c [Hx [E ->]]]]]|[[x [Hx H]]| ->]].
      + destruct (HV x Hx) as [[c E]|[_ [_ Hq]]]; [unfold sub_evs in H; rewrite E in H; destruct H|].
        destruct (proj2 (Hq q) (or_introl H)) as [->|Hr]; [right; right; eauto|right; left; eauto].
      + right. right. eauto.
      + destruct (HV x Hx) as [[c E]|[_ [_ Hq]]]; [unfold sub_evs in H; rewrite E in H; destruct H|].
        destruct (proj2 (Hq q) (or_intror H)) as [->|Hr]; [right; right; eauto|right; left; eauto].
      + left. reflexivity.
  Qed.

  (* ---- the session of a run over a flat history ---- *)
  Variable h0 : lhist.
  Hypothesis h0_root : lh_root h0 = [].
  Hypothesis h0_parent : lh_parent h0 = None.

  Lemma route_flat p : route_to [h0] p = h0.
  Proof.
    unfold route_to, rooth, root_hist, route. cbn [last fold_left]. unfold better.
    rewrite Nat.ltb_irrefl, andb_false_r. reflexivity.
  Qed.
  Definition recs (s : session) : list record := nl_records (sess_list s []).
  Lemma recs_sess_add s p d sz es :
    recs (sess_add s [] p d sz es) = match p with [] => recs s | _ => add_entries (recs s) p d sz es end.
  Proof.
    unfold recs, sess_add, sess_list at 1. rewrite sess_get_set_same. unfold nl_add. destruct p; reflexivity.
  Qed.

  Lemma seal_nonempty gens p dg req : req <> [] -> fst (seal gens p dg req) <> [].
  Proof.
    intros Hreq. rewrite seal_entries. destruct (ex gens p) as [|f0 l] eqn:Eex.
    - assert (Hc : carried gens p req = []) by (unfold carried; rewrite Eex; reflexivity).
      assert (Hv : all_verified gens p dg req = true) by (unfold all_verified; rewrite Hc; reflexivity).
      rewrite Hc, Hv. cbn [map app]. unfold fresh. rewrite Eex. cbn [memf existsb negb].
      assert (Hf : filter (fun _ : fmt => true) (to_generate [] req) = to_generate [] req).
      { induction (to_generate [] req) as [|x l IH]; cbn; [reflexivity|]. rewrite IH. reflexivity. }
      rewrite Hf. unfold to_generate. cbn [app]. destruct req as [|r0 req']; [congruence|]. cbn. discriminate.
    - assert (Hne : carried gens p req <> []) by (apply (carried_nonempty gens p dg); rewrite Eex; discriminate).
      destruct (carried gens p req); [congruence|]. cbn. discriminate.
  Qed.
  Lemma sort_fmts_nonempty req : req <> [] -> sort_fmts req <> [].
  Proof.
    intros H E. assert (Hl : length (sort_fmts req) = length req) by apply sort_length. rewrite E in Hl. destruct req; [congruence|discriminate].
  Qed.

  (* invariant of the fold: the session holds exactly one record per processed file and per processed sub-folder *)
  Definition sess_inv (s : session) (F Dd : list path) : Prop :=
    NoDup (map r_path (recs s)) /\ forall q, In q (map r_path (recs s)) <-> (In q F \/ (In q Dd /\ q <> [])).

  Lemma add_entries_In rs p d sz es q : In q (map r_path (add_entries rs p d sz es)) <-> In q (map r_path rs) \/ q = p.
  Proof.
    rewrite add_entries_paths. destruct (mem_path p (map r_path rs)) eqn:E.
    - apply mem_path_In in E. split; [auto|]. intros [H| ->]; auto.
    - rewrite in_app_iff. cbn. split; [intros [H|[H|[]]]; auto|intros [H|H]; auto].
  Qed.

  Lemma process_event_inv fmts no_dh spec t s fails F Dd e :
    fmts <> [] -> sess_inv s F Dd -> (match e with EvFile p _ => p <> [] | EvDir _ _ => True end) ->
    let '(s', _) := process_event Hb matches C [h0] fmts no_dh spec t (s, fails) e in
    sess_inv s' (match e with EvFile p _ => p :: F | _ => F end) (match e with EvDir p _ => p :: Dd | _ => Dd end).
  Proof.
    intros Hf [Hn Hi] He. destruct e as [p c|p kids]; cbn [process_event].
    - unfold seal_file. rewrite route_flat, h0_root. cbn [strip_prefix].
      destruct (seal (lh_gens h0) (strip_prefix [] p) (fun f => digest_text Hb f c) fmts) as [es res] eqn:Es.
      assert (Hes : es <> []) by (replace es with (fst (seal (lh_gens h0) (strip_prefix [] p) (fun f => digest_text Hb f c) fmts)) by (rewrite Es; reflexivity); apply seal_nonempty; exact Hf).
      assert (Hsp : strip_prefix [] p = p) by (destruct p; reflexivity). rewrite Hsp in *.
      rewrite Es. destruct es as [|e0 es']; [congruence|]. unfold sess_inv. rewrite recs_sess_add. destruct p as [|n p']; [congruence|].
      split; [apply add_entries_NoDup; exact Hn|]. intros q. rewrite add_entries_In, Hi. cbn [In]. split; intros H; intuition congruence.
    - unfold record_dir. rewrite route_flat, h0_root, h0_parent.
      assert (Hsp : strip_prefix [] p = p) by (destruct p; reflexivity). rewrite Hsp.
      assert (Hsame : forall es, match p with [] => sess_add s [] p true None es | _ :: _ => sess_add s [] p true None es end = sess_add s [] p true None es) by (intros; destruct p; reflexivity).
      rewrite Hsame. unfold sess_inv. rewrite recs_sess_add. destruct p as [|n p'].
      + split; [exact Hn|]. intros q. rewrite Hi. cbn [In]. split; intros H; intuition congruence.
      + split; [apply add_entries_NoDup; exact Hn|]. intros q. rewrite add_entries_In, Hi. cbn [In].
        split; intros H; [destruct H as [[H|[H1 H2]]| ->]; auto; right; split; [left; reflexivity|discriminate]|intuition congruence].
  Qed.

  Lemma fold_events_inv fmts no_dh spec t : fmts <> [] -> forall evs s fails F Dd,
    sess_inv s F Dd -> (forall q, In q (files_of evs) -> q <> []) ->
    exists F' D', sess_inv (fst (fold_left (process_event Hb matches C [h0] fmts no_dh spec t) evs (s, fails))) F' D' /\
                  (forall q, In q F' <-> In q (files_of evs) \/ In q F) /\ (forall q, In q D' <-> In q (dirs_of evs) \/ In q Dd).
  Proof.
    intros Hf. induction evs as [|e evs IH]; intros s fails F Dd Hinv Hne; cbn [fold_left].
    - exists F, Dd. split; [exact Hinv|]. split; intros q; cbn [files_of dirs_of flat_map In]; tauto.
    - pose proof (process_event_inv fmts no_dh spec t s fails F Dd e Hf Hinv) as Hstep.
      assert (He : match e with EvFile p _ => p <> [] | EvDir _ _ => True end).
      { destruct e as [p c|]; [|exact I]. apply Hne. cbn. left. reflexivity. }
      specialize (Hstep He). destruct (process_event Hb matches C [h0] fmts no_dh spec t (s, fails) e) as [s1 f1].
      destruct (IH s1 f1 _ _ Hstep) as [F' [D' [H1 [H2 H3]]]].
      { intros q Hq. apply Hne. destruct e; cbn; [right|]; exact Hq. }
      exists F', D'. split; [exact H1|]. split; intros q; [rewrite H2|rewrite H3]; destruct e as [p c|p k]; cbn [files_of dirs_of flat_map app In]; tauto.
  Qed.

  Lemma files_nonempty spec : forall t p q, In q (files_of (events spec p t)) -> q <> [].
  Proof.
    induction t as [c|h kids IH] using node_ind'; intros p q H; [destruct H|].
    apply files_dir in H. destruct H as [[x [Hx H]]|[x [c [_ [_ ->]]]]]; [|destruct p; discriminate].
    unfold vis_of in Hx. apply filter_In in Hx. destruct Hx as [Hx _]. apply sort_In in Hx.
    unfold subs in Hx. apply in_map_iff in Hx. destruct Hx as [nk [<- Hin]]. unfold sub_evs in H. cbn [fst snd] in H.
    rewrite Forall_forall in IH. specialize (IH nk Hin). destruct (snd nk) eqn:E; [destruct H|]. eapply IH. exact H.
  Qed.

  Lemma validate_records_paths : forall rs rs', validate_records rs = Some rs' -> map r_path rs' = map r_path rs.
  Proof.
    induction rs as [|r rs IH]; intros rs' H; cbn in H; [injection H as <-; reflexivity|].
    destruct (validate_record r) as [r'|] eqn:Er; [|discriminate]. destruct (validate_records rs) as [rest|]; [|discriminate].
    injection H as <-. cbn [map]. rewrite (IH rest eq_refl). apply validate_record_ok in Er. destruct Er as [-> _]. reflexivity.
  Qed.
  Lemma readback_paths rs : map r_path (map readback_record rs) = map r_path rs.
  Proof. rewrite map_map. apply map_ext. intros r. unfold readback_record. destruct (r_dir r); reflexivity. Qed.

  (* the shape of a folder-mode run over a flat history that does not abort: the session produced by the fold over the
     traversal events is validated and committed as ONE generation of the root history *)
  Lemma create_flat_shape t req no_dh ip ifl :
    load C cdig t = inl [h0] -> is_dir C t = true -> req <> [] ->
    let spec := set_patterns (latest_patterns (lh_gens h0)) ip (pattern_file_lines ifl) in
    let run := create_folder Hb matches C cdig ser t req no_dh false ip ifl in
    o_outcome (snd run) <> Abort ->
    exists sess recs0,
      sess = fst (fold_left (process_event Hb matches C [h0] (sort_fmts req) no_dh spec t) (events spec [] t) ([], 0)) /\
      validate_records (recs sess) = Some recs0 /\
      let doc := new_doc InPlace (sess_list sess []) recs0 spec [] h0 in
      o_written (snd run) = [([], doc)] /\
      fst run = set_hist C [] (mkHist C (h_files C (match get_hist C t [] with Some x => x | None => mkHist C [] None end)
                                           ++ [mkMfile C (g_no doc) (ser doc) doc])
                                      (Some (lh_chain h0 ++ [mkCentry (g_no doc) (g_no doc) (cdig (ser doc))]))) t.
  Proof.
    intros Hl Hd Hreq. cbn zeta. unfold create_folder. rewrite Hl.
    change (root_hist [h0]) with h0.
    set (spec := set_patterns (latest_patterns (lh_gens h0)) ip (pattern_file_lines ifl)).
    set (evs := events spec [] t).
    match goal with |- context [fold_left ?f ?l ?i] => remember (fold_left f l i) as R eqn:Efold end.
    destruct R as [sess fails]. symmetry in Efold. cbn [dr_sess dr_abort dr_found].
    unfold commit. cbn [fold_left].
    pose proof (commit_one_cases C cdig ser InPlace sess spec (mkCS C t [] [] [] false) h0) as Hcase.
    set (cs' := commit_one C cdig ser InPlace sess spec (mkCS C t [] [] [] false) h0) in *.
    destruct Hcase as [Hs|Ht Hw Ho Ha|nl recs0 doc Hnl Hv Hdoc Hw Ho Ht Ha Hr].
    - (* skipped: impossible, the folder event of the root itself created the session entry *)
      exfalso. unfold cs', commit_one in Hs. cbn [cs_abort] in Hs. rewrite h0_root in Hs.
      assert (Hroot : In [] (dirs_of evs)).
      { unfold evs. destruct t as [c|h kids]; [discriminate|]. apply dirs_dir. right. reflexivity. }
      assert (Hsome : sess_get sess [] <> None).
      { clear -Efold Hroot h0_root h0_parent. revert Efold. generalize (@nil (path * newlist)) at 1. generalize 0 at 1.
        induction evs as [|e evs' IH]; intros f0 s0 Efold; [destruct Hroot|].
        cbn [fold_left] in Efold. destruct e as [p c|p k].
        - cbn [dirs_of flat_map app] in Hroot. destruct (process_event Hb matches C [h0] (sort_fmts req) no_dh spec t (s0, f0) (EvFile p c)) as [s1 f1].
          eapply IH; eauto.
        - cbn [dirs_of flat_map app In] in Hroot. destruct Hroot as [->|Hroot].
          + cbn [process_event] in Efold. unfold record_dir in Efold. rewrite route_flat, h0_root, h0_parent in Efold. cbn [strip_prefix] in Efold.
            assert (Hkeep : forall l s f, sess_get s [] <> None -> sess_get (fst (fold_left (process_event Hb matches C [h0] (sort_fmts req) no_dh spec t) l (s, f))) [] <> None).
            { induction l as [|e l IHl]; intros s f Hs; [exact Hs|]. cbn [fold_left].
              destruct (process_event Hb matches C [h0] (sort_fmts req) no_dh spec t (s, f) e) as [s1 f1] eqn:Ep. apply IHl.
              destruct e as [p c|p k0]; cbn [process_event] in Ep.
              - unfold seal_file in Ep. rewrite route_flat, h0_root in Ep. destruct (seal _ _ _ _) as [es res]. injection Ep as <- _.
                destruct es; [exact Hs|]. unfold sess_add. rewrite sess_get_set_same. discriminate.
              - unfold record_dir in Ep. rewrite route_flat, h0_root, h0_parent in Ep. injection Ep as <- _.
                destruct p; unfold sess_add; rewrite sess_get_set_same; discriminate. }
            change sess with (fst (sess, fails)). rewrite <- Efold. apply Hkeep. unfold sess_add. rewrite sess_get_set_same. discriminate.
          + destruct (process_event Hb matches C [h0] (sort_fmts req) no_dh spec t (s0, f0) (EvDir p k)) as [s1 f1]. eapply IH; eauto. }
      destruct (sess_get sess []) as [v|]; [|congruence].
      destruct (validate_records (nl_records v)); discriminate.
    - intros Hout. exfalso. apply Hout. cbn [snd o_outcome]. rewrite Ha. reflexivity.
    - intros _. exists sess, recs0. split; [reflexivity|].
      rewrite h0_root in Hnl, Hw, Ht, Hdoc. cbn [cs_refs refs_get cs_tree cs_written app] in Hdoc, Ht, Hw.
      split; [rewrite <- Hv, Hnl; reflexivity|]. cbn zeta. rewrite <- Hnl, <- Hdoc.
      cbn [snd fst o_written]. split; [exact Hw|exact Ht].
  Qed.

  (* C02, flat history, folder mode: the run writes one generation; its records are exactly the entries that no ignore
     pattern excludes -- every one of them, each once, and nothing else *)
  Theorem create_flat_exact t req no_dh ip ifl :
    load C cdig t = inl [h0] -> is_dir C t = true -> req <> [] ->
    let spec := set_patterns (latest_patterns (lh_gens h0)) ip (pattern_file_lines ifl) in
    let o := snd (create_folder Hb matches C cdig ser t req no_dh false ip ifl) in
    o_outcome o <> Abort ->
    exists doc, o_written o = [([], doc)] /\ NoDup (map r_path (g_records doc)) /\
                forall q, In q (map r_path (g_records doc)) <-> In q (map fst (entries matches C spec [] t)).
  Proof.
    intros Hl Hd Hreq. cbn zeta. intros Hout.
    destruct (create_flat_shape t req no_dh ip ifl Hl Hd Hreq Hout) as [sess [recs0 [Esess [Hv [Hw _]]]]].
    set (spec := set_patterns (latest_patterns (lh_gens h0)) ip (pattern_file_lines ifl)) in *.
    set (evs := events spec [] t) in *.
    destruct (fold_events_inv (sort_fmts req) no_dh spec t (sort_fmts_nonempty req Hreq) evs [] 0 [] [])
      as [F' [D' [[Hn0 Hi0] [HF HD]]]].
    { split; [constructor|]. intros q. cbn. tauto. }
    { intros q Hq. eapply files_nonempty. exact Hq. }
    assert (Hn : NoDup (map r_path (recs sess))) by (rewrite Esess; exact Hn0).
    assert (Hi : forall q, In q (map r_path (recs sess)) <-> In q F' \/ In q D' /\ q <> []) by (rewrite Esess; exact Hi0).
    eexists. split; [exact Hw|]. unfold new_doc. cbn [g_records]. rewrite readback_paths, (validate_records_paths _ _ Hv).
    split; [exact Hn|].
    intros q. rewrite Hi, HF, HD. cbn [In].
    pose proof (reported_are_events spec t [] q Hd) as Hre. fold evs in Hre.
    pose proof (traversal_exact matches C spec t []) as Hperm. fold evs in Hperm.
    assert (Hin : In q (map fst (reported evs)) <-> In q (map fst (entries matches C spec [] t))).
    { split; apply Permutation_in; [|apply Permutation_sym]; apply Permutation_map; exact Hperm. }
    rewrite <- Hin. split.
    + intros [[H|[]]|[[H|[]] Hne]].
      * destruct (proj2 Hre (or_introl H)) as [->|Hr']; [exfalso; eapply files_nonempty; [exact H|reflexivity]|exact Hr'].
      * destruct (proj2 Hre (or_intror H)) as [->|Hr']; [congruence|exact Hr'].
    + intros H. destruct (proj1 Hre (or_intror H)) as [Hf|Hdd]; [left; left; exact Hf|right].
      split; [left; exact Hdd|]. intros ->.
      apply Hin in H. apply in_map_iff in H. destruct H as [[q0 d] [Hq0 H]]. cbn in Hq0. subst q0.
      apply entries_visible in H. inversion H as [n Hn' Heq|q1 n Hv' Hn' Heq]; destruct n; discriminate || (apply (f_equal (@length text)) in Heq; rewrite app_length in Heq; cbn in Heq; lia).
  Qed.
End Flat.

Lemma load_single_root C cdig (t : node C) h0 : load C cdig t = inl [h0] -> lh_root h0 = [] /\ lh_parent h0 = None.
Proof.
  destruct t as [c|h kids].
  - cbn. intros [= <-]. split; reflexivity.
  - rewrite LoadFacts.load_dir. destruct (match h with Some hh => check_chain C cdig hh | None => None end); [discriminate|].
    destruct (combine_results _) as [below|e]; [|discriminate]. intros [= H].
    destruct below as [|b0 below']; cbn in H.
    + injection H as <-. destruct h; split; reflexivity.
    + injection H as _ H. destruct below'; discriminate.
Qed.

(* the statement without side conditions on the loaded history *)
Theorem create_flat_records_exact Hb matches C cdig ser (t : node C) h0 req no_dh ip ifl :
  load C cdig t = inl [h0] -> is_dir C t = true -> req <> [] ->
  let spec := set_patterns (latest_patterns (lh_gens h0)) ip (pattern_file_lines ifl) in
  let o := snd (create_folder Hb matches C cdig ser t req no_dh false ip ifl) in
  o_outcome o <> Abort ->
  exists doc, o_written o = [([], doc)] /\ NoDup (map r_path (g_records doc)) /\
              forall q, In q (map r_path (g_records doc)) <-> In q (map fst (entries matches C spec [] t)).
Proof.
  intros Hl. destruct (load_single_root C cdig t h0 Hl) as [Hr Hp].
  exact (create_flat_exact Hb matches C cdig ser h0 Hr Hp t req no_dh ip ifl Hl).
Qed.

(* a history without renames has an empty rename map *)
Lemma gen_renames_nil (h : lhist) (g : gen) : (forall r, In r (g_records g) -> r_prev r = None) -> gen_renames h g = [].
Proof.
  unfold gen_renames. induction (g_records g) as [|r rs IH]; intros H; [reflexivity|]. cbn [flat_map].
  rewrite (H r (or_introl eq_refl)). apply IH. intros r' Hr'. apply H. right. exact Hr'.
Qed.
Lemma hist_rename_map_nil (h : lhist) :
  (forall g r, In g (lh_gens h) -> In r (g_records g) -> r_prev r = None) -> hist_rename_map h = [].
Proof.
  unfold hist_rename_map. intros H.
  assert (Hgen : forall gens, (forall g, In g gens -> gen_renames h g = []) -> fold_left (rename_step h) gens [] = []).
  { induction gens as [|g gens IH]; intros Hg; [reflexivity|]. cbn [fold_left]. unfold rename_step at 2. rewrite (Hg g (or_introl eq_refl)).
    cbn [map app]. apply IH. intros g' Hg'. apply Hg. right. exact Hg'. }
  apply Hgen. intros g Hg. apply gen_renames_nil. intros r Hr. apply (H g r Hg Hr).
Qed.
