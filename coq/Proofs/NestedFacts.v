(* Folder-mode create over ANY nesting of histories: what the session holds after the traversal, record by record
   (each record stems from exactly one traversal event), hence: the run never aborts, and on a tree whose recorded
   digests are current it exits 0.  Generalises Proofs/FlatFacts.v from one history to the list `load` returns. *)
From Coq Require Import Lia Permutation.
From MHL Require Import Model.Commands Gen.Generated Proofs.BaseFacts Proofs.SealFacts Proofs.RouteFacts Proofs.TreeFacts
  Proofs.IgnoreFacts Proofs.CommitFacts Proofs.CreateFacts Proofs.PartitionFacts Proofs.FreshFacts Proofs.FlatFacts.

Section NestedSess.
  Variable Hb : fmt -> bytes -> bytes.
  Variable matches : list text -> text -> bool.
  Variable C : Type.
  Variable hs : list lhist.
  Notation node := (node C).
  Hypothesis Hroot : lh_root (root_hist hs) = [].
  Hypothesis Hpar : forall h par, In h hs \/ h = root_hist hs -> lh_parent h = Some par -> is_prefix par (lh_root h) = true.

  Lemma route_good p : is_prefix (lh_root (route_to hs p)) p = true /\ (In (route_to hs p) hs \/ route_to hs p = root_hist hs).
  Proof.
    destruct (route_deepest hs (root_hist hs) p) as [H1 [H2 _]]; [unfold good; rewrite Hroot; reflexivity|].
    split; [exact H1|]. unfold route_to, rooth. destruct H2 as [H2|H2]; [right; exact H2|left; exact H2].
  Qed.

  Variable R : path -> record -> Prop.
  Definition sinv (s : session) (D : list path) : Prop :=
    forall k r, In r (nl_records (sess_list s k)) -> R k r /\ In (k ++ r_path r) D.

  Lemma sinv_mono s D D' : (forall x, In x D -> In x D') -> sinv s D -> sinv s D'.
  Proof. intros Hsub H k r Hr. destruct (H k r Hr) as [A B]. split; [exact A|apply Hsub; exact B]. Qed.

  (* adding a record under a fresh full path *)
  Lemma sinv_add s D k q d sz es p : sinv s D -> ~ In p D -> k ++ q = p -> (q <> [] -> R k (mkRecord q d sz es None)) ->
    sinv (sess_add s k q d sz es) (p :: D) /\
    (forall k', nl_records (sess_list (sess_add s k q d sz es) k') =
                if path_eqb k k' then match q with [] => nl_records (sess_list s k) | _ => nl_records (sess_list s k) ++ [mkRecord q d sz es None] end
                else nl_records (sess_list s k')).
  Proof.
    intros Hs Hnew Hkq HR.
    assert (Hrec : forall k', nl_records (sess_list (sess_add s k q d sz es) k') =
                if path_eqb k k' then match q with [] => nl_records (sess_list s k) | _ => nl_records (sess_list s k) ++ [mkRecord q d sz es None] end
                else nl_records (sess_list s k')).
    { intros k'. unfold sess_add. rewrite sess_list_set. destruct (path_eqb_spec k k') as [E|E]; [|reflexivity].
      unfold nl_add. destruct q as [|n q']; [reflexivity|]. cbn [nl_records]. apply add_entries_fresh.
      intros Hin. apply in_map_iff in Hin. destruct Hin as [r [Er Hr]]. destruct (Hs k r Hr) as [_ HD]. apply Hnew. rewrite <- Hkq, <- Er. exact HD. }
    split; [|exact Hrec]. intros k' r Hr. rewrite Hrec in Hr. destruct (path_eqb_spec k k') as [E|E].
    - subst k'. destruct q as [|n q'].
      + destruct (Hs k r Hr) as [A B]. split; [exact A|right; exact B].
      + apply in_app_or in Hr. destruct Hr as [Hr|[<-|[]]]; [destruct (Hs k r Hr) as [A B]; split; [exact A|right; exact B]|].
        split; [apply HR; discriminate|left; symmetry; exact Hkq].
    - destruct (Hs k' r Hr) as [A B]. split; [exact A|right; exact B].
  Qed.

  (* the record a file event appended is in the session *)
  Definition covered (fmts : list fmt) (s : session) (p : path) (c : bytes) : Prop :=
    let h := route_to hs p in let q := strip_prefix (lh_root h) p in
    let es := fst (seal (lh_gens h) q (fun f => digest_text Hb f c) fmts) in
    q <> [] -> es <> [] -> exists sz, In (mkRecord q false sz es None) (nl_records (sess_list s (lh_root h))).

  Lemma process_event_sinv fmts no_dh spec t s fails D ev :
    sinv s D -> ~ In (ev_path ev) D ->
    (match ev with
     | EvFile p c => let h := route_to hs p in let q := strip_prefix (lh_root h) p in
                     q <> [] -> forall sz, R (lh_root h) (mkRecord q false sz (fst (seal (lh_gens h) q (fun f => digest_text Hb f c) fmts)) None)
     | EvDir p _ => let h := route_to hs p in let q := strip_prefix (lh_root h) p in
                    let des := match dir_entries Hb matches C no_dh spec fmts p t with Some es => es | None => [] end in
                    (q <> [] -> forall sz, R (lh_root h) (mkRecord q true sz des None)) /\
                    (q = [] -> forall par, lh_parent h = Some par -> strip_prefix par p <> [] -> forall sz, R par (mkRecord (strip_prefix par p) true sz des None))
     end) ->
    let s' := fst (process_event Hb matches C hs fmts no_dh spec t (s, fails) ev) in
    sinv s' (ev_path ev :: D) /\
    (forall k r, In r (nl_records (sess_list s k)) -> In r (nl_records (sess_list s' k))) /\
    (match ev with EvFile p c => covered fmts s' p c | EvDir _ _ => True end).
  Proof.
    intros Hs Hnew Hev. destruct ev as [p c|p kids]; cbn [process_event ev_path] in *.
    - unfold covered, seal_file. destruct (route_good p) as [Hg _]. cbn zeta in Hev.
      destruct (seal (lh_gens (route_to hs p)) (strip_prefix (lh_root (route_to hs p)) p) (fun f => digest_text Hb f c) fmts) as [es res]. cbn [fst] in *.
      destruct es as [|e0 es']; [split; [apply (sinv_mono s D); [intros x Hx; right; exact Hx|exact Hs]|split; [auto|intros _ H; congruence]]|].
      destruct (sinv_add s D (lh_root (route_to hs p)) (strip_prefix (lh_root (route_to hs p)) p) false (Some (N.of_nat (length c))) (e0 :: es') p Hs Hnew
                  (strip_prefix_rejoin _ _ Hg) (fun Hq => Hev Hq _)) as [H1 Hrec].
      split; [exact H1|]. split.
      + intros k r Hr. rewrite Hrec. destruct (path_eqb_spec (lh_root (route_to hs p)) k) as [<-|]; [|exact Hr].
        destruct (strip_prefix (lh_root (route_to hs p)) p); [exact Hr|apply in_or_app; left; exact Hr].
      + intros Hq _. exists (Some (N.of_nat (length c))). rewrite Hrec, path_eqb_refl.
        destruct (strip_prefix (lh_root (route_to hs p)) p) eqn:E; [congruence|]. apply in_or_app. right. left. reflexivity.
    - unfold record_dir. destruct (route_good p) as [Hg Hin]. cbn zeta in Hev. destruct Hev as [Hown Hchild].
      set (h := route_to hs p) in *. set (q := strip_prefix (lh_root h) p) in *.
      set (des := match dir_entries Hb matches C no_dh spec fmts p t with Some es => es | None => [] end) in *.
      cbn [fst]. destruct (sinv_add s D (lh_root h) q true None des p Hs Hnew (strip_prefix_rejoin _ _ Hg) (fun Hq => Hown Hq None)) as [H1 Hrec1].
      assert (Hmono1 : forall k r, In r (nl_records (sess_list s k)) -> In r (nl_records (sess_list (sess_add s (lh_root h) q true None des) k))).
      { intros k r Hr. rewrite Hrec1. destruct (path_eqb_spec (lh_root h) k) as [<-|]; [|exact Hr]. destruct q; [exact Hr|apply in_or_app; left; exact Hr]. }
      destruct q as [|n q'] eqn:Eq; [|split; [exact H1|split; [exact Hmono1|exact I]]]. destruct (lh_parent h) as [par|] eqn:Ep; [|split; [exact H1|split; [exact Hmono1|exact I]]].
      (* the root of a nested history: a second record, in the parent history *)
      assert (Hpp : is_prefix par p = true).
      { assert (Ehp : lh_root h = p) by (rewrite <- (strip_prefix_rejoin _ _ Hg); fold q; rewrite Eq, app_nil_r; reflexivity).
        rewrite <- Ehp. apply (Hpar h par); [destruct Hin as [Hin|Hin]; [left; exact Hin|right; exact Hin]|exact Ep]. }
      (* the first addition went to the root record only: the record lists are those of s *)
      assert (Hs1 : sinv (sess_add s (lh_root h) [] true None des) D).
      { intros k r Hr. rewrite Hrec1 in Hr. destruct (path_eqb (lh_root h) k) eqn:E; [apply path_eqb_eq in E; subst k|]; apply Hs; exact Hr. }
      destruct (sinv_add _ D par (strip_prefix par p) true None des p Hs1 Hnew (strip_prefix_rejoin _ _ Hpp) (fun Hq => Hchild eq_refl par eq_refl Hq None)) as [H2 Hrec2].
      split; [exact H2|]. split; [|exact I]. intros k r Hr. apply Hmono1 in Hr. rewrite Hrec2.
      destruct (path_eqb_spec par k) as [<-|]; [|exact Hr]. destruct (strip_prefix par p); [exact Hr|apply in_or_app; left; exact Hr].
  Qed.

  Theorem fold_events_sinv fmts no_dh spec t : forall evs s fails D,
    NoDup (map ev_path evs) -> (forall x, In x D -> ~ In x (map ev_path evs)) -> sinv s D ->
    (forall p c, In (p, c) (ev_files evs) -> let h := route_to hs p in let q := strip_prefix (lh_root h) p in
       q <> [] -> forall sz, R (lh_root h) (mkRecord q false sz (fst (seal (lh_gens h) q (fun f => digest_text Hb f c) fmts)) None)) ->
    (forall p, In p (dirs_of evs) -> let h := route_to hs p in let q := strip_prefix (lh_root h) p in
       let des := match dir_entries Hb matches C no_dh spec fmts p t with Some es => es | None => [] end in
       (q <> [] -> forall sz, R (lh_root h) (mkRecord q true sz des None)) /\
       (q = [] -> forall par, lh_parent h = Some par -> strip_prefix par p <> [] -> forall sz, R par (mkRecord (strip_prefix par p) true sz des None))) ->
    let s' := fst (fold_left (process_event Hb matches C hs fmts no_dh spec t) evs (s, fails)) in
    sinv s' (rev (map ev_path evs) ++ D) /\
    (forall k r, In r (nl_records (sess_list s k)) -> In r (nl_records (sess_list s' k))) /\
    (forall p c, In (p, c) (ev_files evs) -> covered fmts s' p c).
  Proof.
    induction evs as [|e evs IH]; intros s fails D Hnd Hfresh Hs Hf Hd; cbn [fold_left]; [split; [exact Hs|split; [auto|intros p c []]]|].
    cbn [map] in Hnd. inversion Hnd as [|? ? Hp Hnd']; subst.
    assert (Hnew : ~ In (ev_path e) D) by (intros H; apply (Hfresh _ H); left; reflexivity).
    pose proof (process_event_sinv fmts no_dh spec t s fails D e Hs Hnew) as Hstep.
    destruct (process_event Hb matches C hs fmts no_dh spec t (s, fails) e) as [s1 f1]. cbn [fst] in Hstep. cbn zeta in Hstep.
    assert (Hev : match e with
     | EvFile p c => let h := route_to hs p in let q := strip_prefix (lh_root h) p in
                     q <> [] -> forall sz, R (lh_root h) (mkRecord q false sz (fst (seal (lh_gens h) q (fun f => digest_text Hb f c) fmts)) None)
     | EvDir p _ => let h := route_to hs p in let q := strip_prefix (lh_root h) p in
                    let des := match dir_entries Hb matches C no_dh spec fmts p t with Some es => es | None => [] end in
                    (q <> [] -> forall sz, R (lh_root h) (mkRecord q true sz des None)) /\
                    (q = [] -> forall par, lh_parent h = Some par -> strip_prefix par p <> [] -> forall sz, R par (mkRecord (strip_prefix par p) true sz des None))
     end).
    { destruct e as [p c|p k]; [apply Hf; cbn; left; reflexivity|apply Hd; cbn; left; reflexivity]. }
    destruct (Hstep Hev) as [Hs1 [Hm1 Hc1]].
    cbn [map rev]. rewrite <- app_assoc. cbn [app].
    destruct (IH s1 f1 (ev_path e :: D) Hnd') as [A [B Cv]]; auto.
    - intros x [<-|Hx]; [exact Hp|]. intros H. apply (Hfresh x Hx). right. exact H.
    - intros p c Hin. apply Hf. destruct e; cbn; [right|]; exact Hin.
    - intros p Hin. apply Hd. destruct e; cbn; [|right]; exact Hin.
    - split; [exact A|]. split; [intros k r Hr; apply B; apply Hm1; exact Hr|].
      intros p c Hin. destruct e as [p0 c0|p0 k0]; cbn [ev_files flat_map app In] in Hin; [|apply Cv; exact Hin].
      destruct Hin as [E|Hin]; [|apply Cv; exact Hin]. injection E as <- <-.
      intros Hq Hes. destruct (Hc1 Hq Hes) as [sz Hsz]. exists sz. apply B. exact Hsz.
  Qed.
End NestedSess.

From MHL Require Import Proofs.LoadFacts Proofs.HistFacts Proofs.CommitSetFacts Proofs.ReloadFacts.

(* ---- what `load` guarantees about the list: the folder's own history is last with root [], parents are prefixes ---- *)
Section LoadedList.
  Variable C : Type.
  Variable cdig : C -> text.
  Notation node := (node C).

  Lemma is_prefix_trans a b c : is_prefix a b = true -> is_prefix b c = true -> is_prefix a c = true.
  Proof.
    intros H1 H2. apply is_prefix_spec in H1. apply is_prefix_spec in H2. destruct H1 as [s1 ->]. destruct H2 as [s2 ->].
    rewrite <- app_assoc. apply is_prefix_app.
  Qed.
  Lemma dstruct_parent_prefix : forall (t : node) p par x, is_prefix par p = true -> In x (dstruct C p par t) ->
    is_prefix (snd (fst x)) (fst (fst x)) = true.
  Proof.
    induction t as [c|h ks IH] using node_ind'; intros p par x Hpp Hx; [destruct Hx|]. rewrite dstruct_dir in Hx.
    assert (Hsub : forall par0, is_prefix par0 p = true -> In x (flat_map (fun y => snd y) (sort name_leb (kid_structs C p par0 ks))) ->
                   is_prefix (snd (fst x)) (fst (fst x)) = true).
    { intros par0 Hp0 H. apply in_flat_map in H. destruct H as [[m lm] [Hm Hxm]]. apply sort_In in Hm. unfold kid_structs in Hm. apply in_map_iff in Hm.
      destruct Hm as [[m0 km] [E Hkm]]. injection E as <- <-. cbn [snd fst] in Hxm. rewrite Forall_forall in IH.
      apply (IH (m0, km) Hkm _ _ _ (is_prefix_trans _ _ _ Hp0 (is_prefix_app p [m0])) Hxm). }
    destruct h as [hh|]; [|apply (Hsub par Hpp); exact Hx]. apply in_app_or in Hx. destruct Hx as [Hx|[<-|[]]].
    - apply (Hsub p); [|exact Hx]. rewrite <- (app_nil_r p) at 2. apply is_prefix_app.
    - exact Hpp.
  Qed.

  Theorem load_list_facts h0 kids hs : load C cdig (Dir h0 kids) = inl hs ->
    lh_root (root_hist hs) = [] /\ lh_parent (root_hist hs) = None /\ In (root_hist hs) hs /\
    (forall h par, In h hs \/ h = root_hist hs -> lh_parent h = Some par -> is_prefix par (lh_root h) = true).
  Proof.
    intros Hl. destruct (load_skeleton C cdig h0 kids) as [A _]. destruct (A hs Hl) as [_ [_ ->]].
    assert (Er : root_hist (map (mk C) (dstruct C [] [] (Dir None kids)) ++ [lhist_of C [] None h0]) = lhist_of C [] None h0).
    { unfold root_hist. apply last_last. }
    rewrite Er. split; [destruct h0; reflexivity|]. split; [destruct h0; reflexivity|]. split; [apply in_or_app; right; left; reflexivity|].
    assert (Hrootpar : lh_parent (lhist_of C [] None h0) = None) by (destruct h0; reflexivity).
    intros h par [Hin| ->] Hp; [|congruence]. apply in_app_or in Hin. destruct Hin as [Hin|[<-|[]]]; [|congruence].
    apply in_map_iff in Hin. destruct Hin as [[[q pr] hh] [<- Hx]]. unfold mk in *. cbn [fst snd lhist_of lh_parent lh_root] in *. injection Hp as <-.
    apply (dstruct_parent_prefix (Dir None kids) [] [] _ eq_refl Hx).
  Qed.
End LoadedList.

(* ---- folder mode never aborts, whatever the nesting ---- *)
Section NestedNoAbort.
  Variable Hb : fmt -> bytes -> bytes.
  Variable matches : list text -> text -> bool.
  Variable C : Type.
  Variable cdig : C -> text.
  Variable ser : gen -> C.
  Notation node := (node C).

  Lemma commit_abort_cause proc sess sp : forall l cs0,
    cs_abort C (fold_left (commit_one C cdig ser proc sess sp) l cs0) = true ->
    cs_abort C cs0 = true \/ exists h, In h l /\ validate_records (nl_records (sess_list sess (lh_root h))) = None.
  Proof.
    induction l as [|h l IH]; intros cs0 Ha; cbn [fold_left] in Ha; [left; exact Ha|].
    destruct (IH _ Ha) as [H0|[h' [Hh' Hv]]]; [|right; exists h'; split; [right; exact Hh'|exact Hv]].
    destruct (cs_abort C cs0) eqn:E0; [left; reflexivity|]. right. exists h. split; [left; reflexivity|].
    unfold commit_one in H0. rewrite E0 in H0. unfold sess_list.
    destruct (sess_get sess (lh_root h)) as [v|] eqn:Es.
    - destruct (validate_records (nl_records v)) as [recs|] eqn:Ev; [cbn [cs_abort] in H0; discriminate|reflexivity].
    - exfalso. destruct (refs_get (cs_refs C cs0) (lh_root h)); [congruence|]. cbn [nl_records validate_records cs_abort] in H0. discriminate.
  Qed.

  Theorem create_nested_never_aborts h0 kids hs req no_dh ip ifl :
    wf_tree C (Dir h0 kids) -> load C cdig (Dir h0 kids) = inl hs ->
    o_outcome (snd (create_folder Hb matches C cdig ser (Dir h0 kids) req no_dh false ip ifl)) <> Abort.
  Proof.
    intros Hwf Hl. destruct (load_list_facts C cdig h0 kids hs Hl) as [Hroot [_ [_ Hpar]]].
    unfold create_folder. rewrite Hl.
    set (spec := set_patterns (latest_patterns (lh_gens (root_hist hs))) ip (pattern_file_lines ifl)).
    set (t := Dir h0 kids) in *. set (evs := events matches C spec [] t).
    pose proof (fold_events_sinv Hb matches C hs Hroot Hpar (fun _ r => Rval (r_path r) (r_entries r)) (sort_fmts req) no_dh spec t evs [] 0 []
                  (ev_paths_NoDup matches C spec t [] Hwf) (fun x (H : In x []) => match H with end)) as Hinv.
    assert (Hvalid : sinv (fun _ r => Rval (r_path r) (r_entries r))
                          (fst (fold_left (process_event Hb matches C hs (sort_fmts req) no_dh spec t) evs ([], 0))) (rev (map ev_path evs) ++ [])).
    { apply Hinv.
      - intros k r [].
      - intros p c _ h q _ sz. cbn [r_path r_entries]. apply seal_Rval.
      - intros p _ h q des. assert (Hdes : forall pp : path, Rval pp des).
        { intros pp Hn. exfalso. apply has_action_In in Hn. destruct Hn as [e [He Ha]]. subst des.
          destruct (dir_entries Hb matches C no_dh spec (sort_fmts req) p t) as [es|] eqn:Ed; [|destruct He].
          rewrite (dir_entries_no_action Hb matches C no_dh spec (sort_fmts req) p t es e Ed He) in Ha. discriminate. }
        split; [intros _ sz; apply Hdes|intros _ par _ _ sz; apply Hdes]. }
    clear Hinv.
    match goal with |- context [fold_left ?f ?l ?i] =>
      pose proof (Hvalid : sinv _ (fst (fold_left f l i)) _) as Hv2; clear Hvalid; destruct (fold_left f l i) as [sess fails] end.
    cbn [fst] in Hv2. cbn [dr_sess dr_abort dr_found snd o_outcome]. rewrite orb_false_r.
    destruct (cs_abort C (commit C cdig ser hs InPlace t sess spec)) eqn:Ea.
    { exfalso. unfold commit in Ea. destruct (commit_abort_cause InPlace sess spec hs _ Ea) as [H0|[h [_ Hv]]]; [discriminate H0|].
      destruct (validate_records_Rval (nl_records (sess_list sess (lh_root h)))) as [rs' Hrs]; [|congruence].
      intros r Hr. apply (Hv2 (lh_root h) r Hr). }
    destruct (Nat.ltb 0 fails); [discriminate|]. destruct (sorted_paths _); [destruct (missing_history_folders C hs t)|]; discriminate.
  Qed.
End NestedNoAbort.

(* ---- create on a tree whose recorded digests are current: exit 0, for any nesting ---- *)
Section NestedUnchanged.
  Variable Hb : fmt -> bytes -> bytes.
  Variable matches : list text -> text -> bool.
  Variable C : Type.
  Variable cdig : C -> text.
  Variable ser : gen -> C.
  Notation node := (node C).

  (* no renames anywhere; every recorded digest of a path that is a file now is that file's digest *)
  Definition nprev (hs : list lhist) : Prop := forall h g r, In h hs -> In g (lh_gens h) -> In r (g_records g) -> r_prev r = None.
  Definition ncur (hs : list lhist) (t : node) : Prop :=
    forall h g r e c, In h hs -> In g (lh_gens h) -> In r (g_records g) -> In e (r_entries r) ->
                      get C t (lh_root h ++ r_path r) = Some (File c) -> e_digest e = digest_text Hb (e_fmt e) c.

  Lemma fold_events_no_fail_n hs fmts no_dh spec t : forall evs s fails,
    (forall p c, In (p, c) (ev_files evs) ->
       consistent (lh_gens (route_to hs p)) (strip_prefix (lh_root (route_to hs p)) p) (fun f => digest_text Hb f c)) ->
    snd (fold_left (process_event Hb matches C hs fmts no_dh spec t) evs (s, fails)) = fails.
  Proof.
    induction evs as [|e evs IH]; intros s fails Hc; cbn [fold_left]; [reflexivity|].
    destruct e as [p c|p k]; cbn [process_event].
    - unfold seal_file.
      pose proof (proj2 (unaltered_no_failure _ _ _ fmts (Hc p c (or_introl eq_refl)))) as Hok.
      destruct (seal (lh_gens (route_to hs p)) (strip_prefix (lh_root (route_to hs p)) p) (fun f => digest_text Hb f c) fmts) as [es res]. cbn [snd] in Hok.
      assert (Hz : length (filter (fun x : fmt * bool => negb (snd x)) res) = 0).
      { rewrite (filter_all_nil0 _ res); [reflexivity|]. intros x Hx. rewrite (Hok x Hx). reflexivity. }
      rewrite Hz, Nat.add_0_r. apply IH. intros q c' Hin. apply Hc. cbn. right. exact Hin.
    - apply IH. intros q c' Hin. apply Hc. exact Hin.
  Qed.

  (* a visited file is consistent with the history it is routed to *)
  Lemma routed_consistent h0 kids hs p c : wf_tree C (Dir h0 kids) -> load C cdig (Dir h0 kids) = inl hs ->
    nprev hs -> ncur hs (Dir h0 kids) -> get C (Dir h0 kids) p = Some (File c) ->
    strip_prefix (lh_root (route_to hs p)) p <> [] /\
    consistent (lh_gens (route_to hs p)) (strip_prefix (lh_root (route_to hs p)) p) (fun f => digest_text Hb f c).
  Proof.
    intros Hwf Hl Hprev Hcur Hgt. destruct (load_list_facts C cdig h0 kids hs Hl) as [Hroot [_ [Hrin Hpar]]].
    destruct (route_good hs Hroot p) as [Hg Hin]. set (h := route_to hs p) in *.
    assert (Hh : In h hs) by (destruct Hin as [Hin| ->]; assumption).
    assert (Hjoin : lh_root h ++ strip_prefix (lh_root h) p = p) by (apply strip_prefix_rejoin; exact Hg).
    assert (Hne : strip_prefix (lh_root h) p <> []).
    { intros E. rewrite E, app_nil_r in Hjoin. destruct (load_elems C cdig h0 kids hs Hwf Hl h Hh) as [_ [Hnn _]].
      destruct (lh_root h) as [|n r] eqn:Er; [subst p; cbn in Hgt; discriminate|].
      assert (Hx : get_hist C (Dir h0 kids) (n :: r) <> None) by (apply Hnn; discriminate).
      unfold get_hist in Hx. rewrite Hjoin, Hgt in Hx. apply Hx. reflexivity. }
    split; [exact Hne|]. intros e [g [r [Hgin [Hm He]]]].
    destruct (find_media_hash_In g _ r Hne Hm) as [Hr Hk].
    pose proof (keys_path r _ (Hprev h g r Hh Hgin Hr) Hk) as Hrp.
    apply (Hcur h g r e c Hh Hgin Hr He). rewrite Hrp, Hjoin. exact Hgt.
  Qed.

  Theorem nested_unchanged_create_exit_0 h0 kids hs req no_dh ip ifl :
    let t := Dir h0 kids in
    let spec := set_patterns (latest_patterns (lh_gens (root_hist hs))) ip (pattern_file_lines ifl) in
    wf_tree C t -> load C cdig t = inl hs -> nprev hs -> ncur hs t ->
    missing matches spec (diff_paths (expected_paths hs) (visited (events matches C spec [] t))) = [] ->
    missing_history_folders C hs t = [] ->
    o_outcome (snd (create_folder Hb matches C cdig ser t req no_dh false ip ifl)) = Exit 0.
  Proof.
    intros t spec Hwf Hl Hprev Hcur Hmiss Hfold.
    pose proof (create_nested_never_aborts Hb matches C cdig ser h0 kids hs req no_dh ip ifl Hwf Hl) as Hna. fold t in Hna.
    unfold create_folder in *. rewrite Hl in *. fold spec in Hna. fold spec.
    assert (Hcons : forall p c, In (p, c) (ev_files (events matches C spec [] t)) ->
              consistent (lh_gens (route_to hs p)) (strip_prefix (lh_root (route_to hs p)) p) (fun f => digest_text Hb f c)).
    { intros p c Hpc. destruct (ev_files_get matches C spec t [] p c Hwf Hpc) as [rel [E Hgt]]. cbn [app] in E. subst rel.
      apply (routed_consistent h0 kids hs p c Hwf Hl Hprev Hcur Hgt). }
    pose proof (fold_events_no_fail_n hs (sort_fmts req) no_dh spec t (events matches C spec [] t) [] 0 Hcons) as Hnf.
    match goal with |- context [fold_left ?f ?l ?i] =>
      pose proof (Hnf : snd (fold_left f l i) = 0) as Hnf2; clear Hnf; destruct (fold_left f l i) as [sess fails] end.
    cbn [snd] in Hnf2. subst fails.
    cbn [dr_sess dr_abort dr_found snd o_outcome] in *. rewrite orb_false_r in *.
    destruct (cs_abort C (commit C cdig ser hs InPlace t sess spec)); [exfalso; apply Hna; reflexivity|].
    cbn [Nat.ltb Nat.leb]. rewrite diff_paths_nil, Hmiss. change (sorted_paths []) with (@nil path). rewrite Hfold. reflexivity.
  Qed.
End NestedUnchanged.

From MHL Require Import Proofs.WorldFacts Proofs.MediaFacts Proofs.VerifyFacts Proofs.NestedRecFacts Proofs.InfoFacts Proofs.PackFacts.

(* ---- what every record of every written generation looks like ---- *)
Section NestedRecordShape.
  Variable Hb : fmt -> bytes -> bytes.
  Variable hs : list lhist.
  Variable F : list (path * bytes).      (* the files the traversal reached *)
  Variable Dd : list path.               (* the folders the traversal reached *)

  Definition Rn (k : path) (r : record) : Prop :=
    r_prev r = None /\ r_path r <> [] /\
    (forall e, In e (r_entries r) -> file_entry e -> exists c, In (k ++ r_path r, c) F /\ e_digest e = digest_text Hb (e_fmt e) c) /\
    (forall e, In e (r_entries r) -> ~ file_entry e -> In (k ++ r_path r) Dd) /\
    (forall h, In h hs -> lh_root h = k -> find_original (lh_gens h) (r_path r) = None ->
               forall e, In e (r_entries r) -> file_entry e -> is_original e = true).
  Definition Rnv (k : path) (r : record) : Prop := Rn k r /\ Rval (r_path r) (r_entries r).

  Lemma Rn_validate k r r' : validate_record r = Some r' -> Rn k r -> Rn k r'.
  Proof.
    intros Hv [Hprev [Hp [Hf [Hd Ho]]]]. apply validate_record_ok in Hv. destruct Hv as [Ep [_ [_ [Epr [Ees _]]]]].
    unfold Rn. rewrite Ep, Epr, Ees. split; [exact Hprev|]. split; [exact Hp|]. split; [|split].
    - intros e He Hfe. apply in_map_iff in He. destruct He as [e1 [<- He1]]. rewrite promote_digest, promote_fmt. apply Hf; [exact He1|apply file_entry_promote; exact Hfe].
    - intros e He Hfe. apply in_map_iff in He. destruct He as [e1 [<- He1]]. apply (Hd e1 He1). intros H. apply Hfe. apply file_entry_promote. exact H.
    - intros h Hh Hk Hno e He Hfe. apply in_map_iff in He. destruct He as [e1 [<- He1]]. rewrite is_original_promote.
      apply (Ho h Hh Hk Hno e1 He1). apply file_entry_promote. exact Hfe.
  Qed.
  Lemma Rn_readback k r : Rn k r -> Rn k (readback_record r).
  Proof.
    intros H. unfold readback_record. destruct (r_dir r) eqn:Ed; [exact H|]. destruct H as [Hprev [Hp [Hf [Hd Ho]]]].
    unfold Rn. cbn [r_path r_prev r_entries]. split; [exact Hprev|]. split; [exact Hp|]. split; [|split].
    - intros e He. apply sort_In in He. apply Hf. exact He.
    - intros e He. apply sort_In in He. apply Hd. exact He.
    - intros h Hh Hk Hno e He. apply sort_In in He. apply (Ho h Hh Hk Hno e He).
  Qed.
  Lemma Rn_doc k rs recs : (forall r, In r rs -> Rn k r) -> validate_records rs = Some recs ->
    forall r, In r (map readback_record recs) -> Rn k r.
  Proof.
    intros Hrs Hv r Hr. apply in_map_iff in Hr. destruct Hr as [r1 [<- Hr1]]. apply Rn_readback.
    apply validate_records_Forall2 in Hv. clear -Hrs Hv Hr1. induction Hv as [|a a' l l' Ha _ IH]; [destruct Hr1|].
    destruct Hr1 as [<-|Hr1]; [apply (Rn_validate k a _ Ha); apply Hrs; left; reflexivity|apply IH; [intros x Hx; apply Hrs; right; exact Hx|exact Hr1]].
  Qed.
End NestedRecordShape.

(* ---- general helpers for the cycle ---- *)
Section NestedHelpers.
  Variable Hb : fmt -> bytes -> bytes.
  Variable matches : list text -> text -> bool.
  Variable C : Type.
  Variable cdig : C -> text.
  Variable ser : gen -> C.
  Notation node := (node C).

  (* without renames the expected paths are the recorded ones, each under its history's root *)
  Lemma expected_nested (hs : list lhist) : nprev hs ->
    forall q, In q (expected_paths hs) <-> exists h g r, In h hs /\ In g (lh_gens h) /\ In r (g_records g) /\ q = lh_root h ++ r_path r.
  Proof.
    intros Hprev q.
    assert (Hrm : rename_map hs = []).
    { unfold rename_map. assert (H : forall l, (forall h, In h l -> In h hs) -> flat_map hist_rename_map l = []).
      { induction l as [|h l IH]; intros Hsub; [reflexivity|]. cbn [flat_map]. rewrite hist_rename_map_nil, IH; [reflexivity| |].
        - intros x Hx. apply Hsub. right. exact Hx.
        - intros g r Hg Hr. apply (Hprev h g r); auto. apply Hsub. left. reflexivity. }
      apply H. auto. }
    unfold expected_paths. rewrite (dedup_by_In path_eqb path_eqb_spec).
    assert (Hren : forall p, renamed hs p = p) by (intros p; unfold renamed; rewrite Hrm; reflexivity).
    rewrite (map_ext _ (fun p => p) Hren), map_id. unfold recorded_paths. split.
    - intros [Hq _]. apply in_flat_map in Hq. destruct Hq as [h [Hh Hq]]. apply in_flat_map in Hq. destruct Hq as [g [Hg Hq]].
      apply in_map_iff in Hq. destruct Hq as [r [Hrp Hr]]. exists h, g, r. auto.
    - intros [h [g [r [Hh [Hg [Hr ->]]]]]]. split; [|intros []]. apply in_flat_map. exists h. split; [exact Hh|].
      apply in_flat_map. exists g. split; [exact Hg|]. apply in_map_iff. exists r. auto.
  Qed.

  (* the record lists of a session never hold a path twice *)
  Lemma sess_add_paths_NoDup s k q d sz es :
    (forall k', NoDup (map r_path (nl_records (sess_list s k')))) ->
    forall k', NoDup (map r_path (nl_records (sess_list (sess_add s k q d sz es) k'))).
  Proof.
    intros H k'. unfold sess_add. rewrite sess_list_set. destruct (path_eqb k k'); [|apply H].
    unfold nl_add. destruct q; cbn [nl_records]; [apply H|apply add_entries_NoDup; apply H].
  Qed.
  Lemma fold_events_paths_NoDup hs fmts no_dh spec t : forall evs s fails,
    (forall k, NoDup (map r_path (nl_records (sess_list s k)))) ->
    forall k, NoDup (map r_path (nl_records (sess_list (fst (fold_left (process_event Hb matches C hs fmts no_dh spec t) evs (s, fails))) k))).
  Proof.
    induction evs as [|e evs IH]; intros s fails Hs; cbn [fold_left]; [exact Hs|].
    destruct (process_event Hb matches C hs fmts no_dh spec t (s, fails) e) as [s1 f1] eqn:Ep. apply IH.
    destruct e as [p c|p kids]; cbn [process_event] in Ep.
    - unfold seal_file in Ep. destruct (seal _ _ _ _) as [es res]. injection Ep as <- _. destruct es; [exact Hs|apply sess_add_paths_NoDup; exact Hs].
    - injection Ep as <- _. unfold record_dir.
      destruct (strip_prefix (lh_root (route_to hs p)) p); [destruct (lh_parent (route_to hs p))|]; repeat apply sess_add_paths_NoDup; exact Hs.
  Qed.

  (* what a commit writes *)
  Lemma commit_written_docs proc sess sp : forall l cs0 k doc,
    In (k, doc) (cs_written C (fold_left (commit_one C cdig ser proc sess sp) l cs0)) ->
    In (k, doc) (cs_written C cs0) \/
    exists h, In h l /\ lh_root h = k /\ exists recs, validate_records (nl_records (sess_list sess k)) = Some recs /\
      g_records doc = map readback_record recs /\
      g_patterns doc = readback_patterns (set_patterns (latest_patterns (lh_gens h)) sp []).
  Proof.
    induction l as [|h l IH]; intros cs0 k doc Hin; cbn [fold_left] in Hin; [left; exact Hin|].
    destruct (IH _ k doc Hin) as [H0|[h' [Hh' H]]]; [|right; exists h'; split; [right; exact Hh'|exact H]].
    destruct (commit_one_cases C cdig ser proc sess sp cs0 h) as [Hs|_ Hw _ _|nl recs d Hnl Hv Hdoc Hw _ _ _ _].
    - rewrite Hs in H0. left. exact H0.
    - rewrite Hw in H0. left. exact H0.
    - rewrite Hw in H0. apply in_app_or in H0. destruct H0 as [H0|[E|[]]]; [left; exact H0|]. injection E as <- <-. right.
      exists h. split; [left; reflexivity|]. split; [reflexivity|]. exists recs. rewrite <- Hnl. split; [exact Hv|]. rewrite Hdoc. split; reflexivity.
  Qed.

  (* routing looks at the roots only *)
  Lemma route_map (g : lhist -> lhist) p : (forall x, lh_root (g x) = lh_root x) ->
    forall l best, fold_left (better p) (map g l) (g best) = g (fold_left (better p) l best).
  Proof.
    intros Hg. induction l as [|a l IH]; intros best; cbn [map fold_left]; [reflexivity|].
    assert (E : better p (g best) (g a) = g (better p best a)) by (unfold better; rewrite !Hg; destruct (_ && _); reflexivity).
    rewrite E. apply IH.
  Qed.
  Lemma root_hist_map (g : lhist -> lhist) l : l <> [] -> root_hist (map g l) = g (root_hist l).
  Proof.
    intros Hne. unfold root_hist. destruct l as [|a l] using rev_ind; [congruence|]. rewrite map_app. cbn [map]. rewrite !last_last. reflexivity.
  Qed.
End NestedHelpers.

(* ---- one run of create over any nesting, on a tree whose recorded digests are current ---- *)
Section NestedRun.
  Variable Hb : fmt -> bytes -> bytes.
  Variable matches : list text -> text -> bool.
  Variable C : Type.
  Variable cdig : C -> text.
  Variable ser : gen -> C.
  Notation node := (node C).
  Notation events := (events matches C).

  Variable h0 : option (hist C).
  Variable kids : list (text * node).
  Variable hs : list lhist.
  Variable req : list fmt.
  Variable no_dh : bool.
  Variable ip ifl : list text.
  Let t : node := Dir h0 kids.
  Let spec := set_patterns (latest_patterns (lh_gens (root_hist hs))) ip (pattern_file_lines ifl).
  Let evs := events spec [] t.
  Let sess := fst (fold_left (process_event Hb matches C hs (sort_fmts req) no_dh spec t) evs ([], 0)).
  Let cs := commit C cdig ser hs InPlace t sess spec.
  Hypothesis Hwf : wf_tree C t.
  Hypothesis Hl : load C cdig t = inl hs.
  Hypothesis Hreq : req <> [].

  Let F := ev_files evs.
  Let Dd := dirs_of evs.

  Lemma run_is : create_folder Hb matches C cdig ser t req no_dh false ip ifl =
    (cs_tree C cs, mkObs (if cs_abort C cs then Abort
                          else if Nat.ltb 0 (snd (fold_left (process_event Hb matches C hs (sort_fmts req) no_dh spec t) evs ([], 0))) then Exit exit_verification_failed
                          else match sorted_paths (missing matches spec (diff_paths (diff_paths (expected_paths hs) (visited evs)) [])) with
                               | _ :: _ => Exit exit_completeness
                               | [] => match missing_history_folders C hs t with _ :: _ => Exit exit_no_history | [] => Exit 0 end
                               end)
                         (cs_written C cs)
                         (if cs_abort C cs then [] else sorted_paths (missing matches spec (diff_paths (diff_paths (expected_paths hs) (visited evs)) [])))
                         [] [] (cs_ops C cs) [] []).
  Proof.
    unfold create_folder. rewrite Hl. fold spec. fold evs. unfold cs, sess.
    destruct (fold_left (process_event Hb matches C hs (sort_fmts req) no_dh spec t) evs ([], 0)) as [s0 f0].
    cbn [fst snd dr_sess dr_abort dr_found]. rewrite !orb_false_r. reflexivity.
  Qed.

  (* the session: every record has the shape Rnv, stems from one event, paths are distinct, visited files are covered *)
  Lemma sess_facts :
    (forall k r, In r (nl_records (sess_list sess k)) -> Rnv Hb hs F Dd k r) /\
    (forall k, NoDup (map r_path (nl_records (sess_list sess k)))) /\
    (forall p c, In (p, c) F -> covered Hb hs (sort_fmts req) sess p c) /\
    (forall k r, In r (nl_records (sess_list sess k)) -> In (k ++ r_path r) (map ev_path evs)).
  Proof.
    destruct (load_list_facts C cdig h0 kids hs Hl) as [Hroot [_ [Hrin Hpar]]].
    pose proof (load_roots_NoDup C cdig t hs Hwf Hl) as Hnd.
    destruct (fold_events_sinv Hb matches C hs Hroot Hpar (Rnv Hb hs F Dd) (sort_fmts req) no_dh spec t evs [] 0 []
                (ev_paths_NoDup matches C spec t [] Hwf) (fun x (H : In x []) => match H with end)) as [A [_ Cv]].
    - intros k r [].
    - intros p c Hpc h q Hq sz. split; [|cbn [r_path r_entries]; apply seal_Rval].
      destruct (route_good hs Hroot p) as [Hg Hin]. fold h in Hg, Hin.
      assert (Hh : In h hs) by (destruct Hin as [Hin|Hin]; [exact Hin|rewrite Hin; exact Hrin]).
      assert (Hjoin : lh_root h ++ q = p) by (apply strip_prefix_rejoin; exact Hg).
      unfold Rn. cbn [r_path r_prev r_entries]. split; [reflexivity|]. split; [exact Hq|]. split; [|split].
      + intros e He _. exists c. rewrite Hjoin. split; [exact Hpc|]. apply (seal_entries_facts Hb h (sort_fmts req) q c e He).
      + intros e He Hnf. exfalso. apply Hnf. apply (seal_entries_facts Hb h (sort_fmts req) q c e He).
      + intros h' Hh' Hk Hno e He _. assert (h' = h) as -> by (eapply (NoDup_map_eq lh_root); eauto).
        apply (seal_entries_facts Hb h (sort_fmts req) q c e He). exact Hno.
    - intros p Hp h q des.
      assert (Hna : forall e, In e des -> e_action e = None).
      { intros e He. subst des. destruct (dir_entries Hb matches C no_dh spec (sort_fmts req) p t) as [es|] eqn:Ed; [|destruct He]. eapply dir_entries_no_action; eauto. }
      assert (Hrv : forall pp : path, Rval pp des).
      { intros pp Hn. exfalso. apply has_action_In in Hn. destruct Hn as [e [He Ha]]. rewrite (Hna e He) in Ha. discriminate. }
      destruct (route_good hs Hroot p) as [Hg Hin]. fold h in Hg, Hin.
      assert (Hshape : forall k q' sz, k ++ q' = p -> q' <> [] -> Rnv Hb hs F Dd k (mkRecord q' true sz des None)).
      { intros k q' sz Hj Hq'. split; [|apply Hrv]. unfold Rn. cbn [r_path r_prev r_entries]. split; [reflexivity|]. split; [exact Hq'|]. split; [|split].
        - intros e He Hfe. exfalso. apply Hfe. apply Hna. exact He.
        - intros e He _. rewrite Hj. exact Hp.
        - intros h' _ _ _ e He Hfe. exfalso. apply Hfe. apply Hna. exact He. }
      split.
      + intros Hq sz. apply Hshape; [apply strip_prefix_rejoin; exact Hg|exact Hq].
      + intros Hq par Hpa Hq' sz. apply Hshape; [|exact Hq']. apply strip_prefix_rejoin.
        assert (Ehp : lh_root h = p) by (rewrite <- (strip_prefix_rejoin _ _ Hg); fold q; rewrite Hq, app_nil_r; reflexivity).
        rewrite <- Ehp. apply (Hpar h par); [destruct Hin as [Hin|Hin]; [left; exact Hin|right; exact Hin]|exact Hpa].
    - split; [intros k r Hr; apply (A k r Hr)|]. split; [|split; [exact Cv|]].
      + apply (fold_events_paths_NoDup Hb matches C hs). intros k. constructor.
      + intros k r Hr. destruct (A k r Hr) as [_ HD]. rewrite app_nil_r in HD. apply in_rev in HD. exact HD.
  Qed.

  Lemma run_not_aborted : cs_abort C cs = false.
  Proof.
    destruct (cs_abort C cs) eqn:Ea; [|reflexivity]. exfalso. unfold cs, commit in Ea.
    destruct (commit_abort_cause C cdig ser InPlace sess spec hs _ Ea) as [H0|[h [_ Hv]]]; [discriminate H0|].
    destruct sess_facts as [A _].
    destruct (validate_records_Rval (nl_records (sess_list sess (lh_root h)))) as [rs' Hrs]; [|congruence].
    intros r Hr. apply (A (lh_root h) r Hr).
  Qed.

  (* the state the run leaves *)
  Let t' := cs_tree C cs.
  Let w := cs_written C cs.
  Let hs' := map (fin C cdig ser w) hs.

  Lemma post_load : load C cdig t' = inl hs' /\ wf_tree C t' /\ (exists h' kids', t' = Dir h' kids') /\ erase C t' = erase C t.
  Proof.
    destruct (reload_after_commit C cdig ser InPlace sess spec h0 kids hs Hwf Hl run_not_aborted) as [A [_ [W S]]].
    split; [exact A|]. split; [exact W|]. split; [exact S|].
    apply (commit_confined C cdig ser hs InPlace t sess spec (load_roots_exist C cdig t hs Hwf Hl)).
  Qed.

  (* the documents written: records of shape Rn under distinct paths *)
  Lemma written_docs k doc : In (k, doc) w ->
    (exists h, In h hs /\ lh_root h = k /\ g_patterns doc = readback_patterns (set_patterns (latest_patterns (lh_gens h)) spec [])) /\
    (forall r, In r (g_records doc) -> Rn Hb hs F Dd k r) /\ NoDup (map r_path (g_records doc)) /\
    (exists recs, validate_records (nl_records (sess_list sess k)) = Some recs /\ g_records doc = map readback_record recs) /\
    (forall r, In r (g_records doc) -> In (k ++ r_path r) (map ev_path evs)).
  Proof.
    intros Hin. unfold w, cs, commit in Hin. destruct (commit_written_docs C cdig ser InPlace sess spec hs _ k doc Hin) as [[]|[h [Hh [Hk [recs [Hv [Hrec Hpat]]]]]]].
    destruct sess_facts as [A [B [_ P]]].
    split; [exists h; auto|]. split; [|split; [|split; [exists recs; auto|]]].
    - rewrite Hrec. apply (Rn_doc Hb hs F Dd k (nl_records (sess_list sess k)) recs); [|exact Hv]. intros r Hr. apply (A k r Hr).
    - rewrite Hrec, (rpaths recs), (vpaths _ _ Hv). apply B.
    - intros r Hr. assert (Hp : In (r_path r) (map r_path (nl_records (sess_list sess k)))) by (rewrite <- (vpaths _ _ Hv), <- (rpaths recs), <- Hrec; apply in_map; exact Hr).
      apply in_map_iff in Hp. destruct Hp as [r0 [E Hr0]]. rewrite <- E. apply P. exact Hr0.
  Qed.

  Lemma fin_gens h g : In g (lh_gens (fin C cdig ser w h)) -> In g (lh_gens h) \/ In (lh_root h, g) w.
  Proof.
    unfold fin. destruct (find _ w) as [e|] eqn:E; [|left; assumption]. cbn [grown lh_gens]. intros Hin.
    apply in_app_or in Hin. destruct Hin as [Hin|[<-|[]]]; [left; exact Hin|right].
    apply find_some in E. destruct E as [He Hk]. destruct e as [k d]. cbn [fst snd] in *. apply path_eqb_eq in Hk. subst k. exact He.
  Qed.

  Hypothesis Hprev : nprev hs.
  Hypothesis Hcur : ncur Hb C hs t.

  Lemma post_nprev : nprev hs'.
  Proof.
    intros h' g r Hh' Hg Hr. unfold hs' in Hh'. apply in_map_iff in Hh'. destruct Hh' as [h [<- Hh]].
    destruct (fin_gens h g Hg) as [Hold|Hnew]; [apply (Hprev h g r Hh Hold Hr)|].
    destruct (written_docs _ _ Hnew) as [_ [HR _]]. apply (HR r Hr).
  Qed.

  Lemma post_ncur : ncur Hb C hs' t'.
  Proof.
    destruct post_load as [_ [_ [_ He]]].
    intros h' g r e c Hh' Hg Hr He' Hgt. unfold hs' in Hh'. apply in_map_iff in Hh'. destruct Hh' as [h [<- Hh]].
    rewrite fin_root in Hgt. apply (get_file_same_media matches C t' t _ _ He) in Hgt.
    destruct (fin_gens h g Hg) as [Hold|Hnew]; [apply (Hcur h g r e c Hh Hold Hr He' Hgt)|].
    destruct (written_docs _ _ Hnew) as [_ [HR _]]. destruct (HR r Hr) as [_ [_ [Hf [Hd _]]]].
    destruct (e_action e) as [a|] eqn:Ea.
    - destruct (Hf e He') as [c0 [Hc0 Hdg]]; [unfold file_entry; rewrite Ea; discriminate|].
      destruct (ev_files_get matches C spec t [] _ c0 Hwf Hc0) as [rel [E Hgt0]]. cbn [app] in E. subst rel. rewrite Hgt in Hgt0. injection Hgt0 as <-. exact Hdg.
    - exfalso. assert (Hdd : In (lh_root h ++ r_path r) Dd) by (apply (Hd e He'); unfold file_entry; rewrite Ea; intros H; apply H; reflexivity).
      destruct (ev_dirs_get matches C spec t [] _ Hwf Hdd) as [rel [hh [kk [E Hgd]]]]. cbn [app] in E. subst rel. rewrite Hgt in Hgd. discriminate.
  Qed.

  Lemma Forall2_In_r {A B} (R : A -> B -> Prop) la lb : Forall2 R la lb -> forall a, In a la -> exists b, In b lb /\ R a b.
  Proof. induction 1 as [|a b la lb Hab _ IH]; intros x Hx; [destruct Hx|]. destruct Hx as [<-|Hx]; [exists b; split; [left; reflexivity|exact Hab]|]. destruct (IH x Hx) as [y [Hy Hr]]. exists y. split; [right; exact Hy|exact Hr]. Qed.

  (* every file the traversal reached has, after the run, a reference in the history it belongs to, and matches it *)
  Lemma post_reference p c : In (p, c) F -> exists e, reference hs' p = Some e /\ e_digest e = digest_text Hb (e_fmt e) c.
  Proof.
    intros Hpc. destruct (load_list_facts C cdig h0 kids hs Hl) as [Hroot [_ [Hrin Hpar]]].
    pose proof (load_roots_NoDup C cdig t hs Hwf Hl) as Hnd.
    destruct (ev_files_get matches C spec t [] p c Hwf Hpc) as [rel [E Hgt]]. cbn [app] in E. subst rel.
    destruct (routed_consistent Hb C cdig h0 kids hs p c Hwf Hl Hprev Hcur Hgt) as [Hq Hcons].
    destruct (route_good hs Hroot p) as [Hg Hin]. set (h := route_to hs p) in *. set (q := strip_prefix (lh_root h) p) in *.
    assert (Hh : In h hs) by (destruct Hin as [Hin|Hin]; [exact Hin|rewrite Hin; exact Hrin]).
    assert (Hjoin : lh_root h ++ q = p) by (apply strip_prefix_rejoin; exact Hg).
    assert (Hne : hs <> []) by (intros E; rewrite E in Hrin; destruct Hrin).
    (* the reference after the run, unfolded *)
    assert (Eref : reference hs' p = find_original (lh_gens (fin C cdig ser w h)) q).
    { unfold reference, hs'. rewrite (root_hist_map (fin C cdig ser w) hs Hne). unfold route.
      rewrite (route_map (fin C cdig ser w) p (fin_root C cdig ser w)). fold (route hs (root_hist hs) p). change (route hs (root_hist hs) p) with h.
      rewrite fin_root. fold q. rewrite prev_steps_id; [reflexivity|].
      intros g r Hgin Hr. apply (post_nprev (fin C cdig ser w (root_hist hs)) g r); [apply in_map; exact Hrin|exact Hgin|exact Hr]. }
    rewrite Eref.
    destruct (find_original (lh_gens h) q) as [e0|] eqn:Efo.
    - (* the reference is an older one: it still is, and the file matches it *)
      exists e0. split.
      + unfold fin. destruct (find _ w); [cbn [grown lh_gens]; apply find_original_stable; exact Efo|exact Efo].
      + apply Hcons. apply (find_original_recorded _ _ _ Efo).
    - (* no older reference: the run recorded the file in this history, marked original *)
      destruct sess_facts as [_ [_ [Cv _]]].
      assert (Hes : fst (seal (lh_gens h) q (fun f => digest_text Hb f c) (sort_fmts req)) <> []) by (apply seal_nonempty; apply sort_fmts_nonempty; exact Hreq).
      destruct (Cv p c Hpc Hq Hes) as [sz Hr0]. fold h in Hr0. fold q in Hr0.
      set (es := fst (seal (lh_gens h) q (fun f => digest_text Hb f c) (sort_fmts req))) in *.
      assert (Hsg : sess_get sess (lh_root h) <> None).
      { intros E. unfold sess_list in Hr0. rewrite E in Hr0. destruct Hr0. }
      destruct (commit_set C cdig ser InPlace sess spec hs t Hnd (load_children_first C cdig t hs Hl) run_not_aborted) as [_ Hwrote].
      destruct (proj2 (Hwrote h Hh) (or_introl Hsg)) as [doc0 Hdoc0]. fold cs in Hdoc0. fold w in Hdoc0.
      destruct (find_exists (fun e => path_eqb (fst e) (lh_root h)) w (lh_root h, doc0) Hdoc0 (path_eqb_refl _)) as [[k1 doc] Hfind].
      pose proof (find_some _ _ Hfind) as [Hdocin Hk1]. cbn [fst] in Hk1. apply path_eqb_eq in Hk1. subst k1.
      assert (Egens : lh_gens (fin C cdig ser w h) = lh_gens h ++ [doc]) by (unfold fin; rewrite Hfind; reflexivity).
      rewrite Egens, find_original_app, Efo. cbn [find_original].
      destruct (written_docs _ _ Hdocin) as [_ [HR [Hndp [[recs [Hv Hrec]] _]]]].
      (* the record of the file in the new document *)
      destruct (Forall2_In_r _ _ _ (validate_records_Forall2 _ _ Hv) _ Hr0) as [r1 [Hr1 Hv1]].
      pose proof (validate_record_ok _ _ Hv1) as [Ep1 [Ed1 [_ [Epr1 [Ees1 _]]]]]. cbn [r_path r_dir r_prev r_entries] in Ep1, Ed1, Epr1, Ees1.
      set (r2 := readback_record r1).
      assert (Hr2 : In r2 (g_records doc)) by (rewrite Hrec; apply in_map; exact Hr1).
      assert (Ep2 : r_path r2 = q) by (unfold r2, readback_record; rewrite Ed1; cbn [r_path]; exact Ep1).
      assert (Ee2 : forall e, In e (r_entries r2) <-> In e (map promote es)) by (intros e; unfold r2, readback_record; rewrite Ed1; cbn [r_entries]; rewrite <- Ees1; apply sort_In).
      assert (Hfm : find_media_hash doc q = Some r2).
      { unfold find_media_hash. rewrite (find_last_unique (fun r => rec_keys_match r q) (g_records doc) r2 Hr2); [reflexivity| |].
        - unfold rec_keys_match. rewrite Ep2, path_eqb_refl. reflexivity.
        - intros r' Hr' Hk. assert (Hp' : r_prev r' = None) by (apply (HR r' Hr')).
          pose proof (keys_path r' q Hp' Hk) as Hk'. apply (NoDup_key_inj r_path (g_records doc)); auto. congruence. }
      rewrite Hfm. destruct (HR r2 Hr2) as [_ [_ [Hf [_ Ho]]]]. rewrite Ep2 in Hf, Ho.
      assert (Hfile : forall e, In e (r_entries r2) -> file_entry e).
      { intros e He. apply Ee2 in He. apply in_map_iff in He. destruct He as [e1 [<- He1]]. apply file_entry_promote.
        apply (seal_entries_facts Hb h (sort_fmts req) q c e1 He1). }
      assert (Hex : exists e1, In e1 (r_entries r2)).
      { destruct es as [|e1 es'] eqn:Ees; [congruence|]. exists (promote e1). apply Ee2. left. reflexivity. }
      destruct Hex as [e1 He1].
      destruct (find_exists is_original (r_entries r2) e1 He1 (Ho h Hh eq_refl Efo e1 He1 (Hfile e1 He1))) as [e Hfe].
      rewrite Hfe. exists e. split; [reflexivity|]. apply find_some in Hfe. destruct Hfe as [Hein _].
      destruct (Hf e Hein (Hfile e Hein)) as [c0 [Hc0 Hd0]]. rewrite Hjoin in Hc0.
      rewrite (ev_files_functional matches C spec t p c c0 Hwf Hpc Hc0). exact Hd0.
  Qed.

  (* nothing recorded is missing afterwards either *)
  Hypothesis Hmiss : missing matches spec (diff_paths (expected_paths hs) (visited evs)) = [].

  Lemma post_missing : missing matches spec (diff_paths (expected_paths hs') (visited evs)) = [].
  Proof.
    unfold missing. apply filter_all_nil. intros q Hq. unfold diff_paths in Hq. apply filter_In in Hq. destruct Hq as [Hq Hnv].
    apply (expected_nested hs' post_nprev) in Hq. destruct Hq as [h' [g [r [Hh' [Hg [Hr ->]]]]]].
    unfold hs' in Hh'. apply in_map_iff in Hh'. destruct Hh' as [h [<- Hh]]. rewrite fin_root in *.
    destruct (fin_gens h g Hg) as [Hold|Hnew].
    - pose proof (filter_nil_all _ _ Hmiss (lh_root h ++ r_path r)) as Hf. cbv beta in Hf. apply Hf.
      unfold diff_paths. apply filter_In. split; [|exact Hnv]. apply (expected_nested hs Hprev). exists h, g, r. auto.
    - exfalso. destruct (written_docs _ _ Hnew) as [_ [HR [_ [_ P]]]]. pose proof (P r Hr) as Hev. destruct (HR r Hr) as [_ [Hne _]].
      apply (ev_paths_split matches) in Hev. pose proof (reported_are_events matches C spec t [] (lh_root h ++ r_path r) eq_refl) as Hre. fold evs in Hre.
      destruct (proj2 Hre Hev) as [E|Hv].
      + destruct (lh_root h); [cbn in E; congruence|discriminate E].
      + rewrite <- (visited_reported evs) in Hv. apply negb_true_iff in Hnv. apply mem_path_In in Hv. congruence.
  Qed.

  (* the folder's own history always takes part: the traversal ends with the folder event of the root *)
  Lemma sess_get_add_keeps s k q d sz es k' : sess_get s k' <> None \/ k = k' -> sess_get (sess_add s k q d sz es) k' <> None.
  Proof.
    intros H. unfold sess_add. destruct (path_eqb_spec k k') as [<-|Hne]; [rewrite sess_get_set_same; discriminate|].
    rewrite (sess_get_set_other _ _ _ _ Hne). destruct H as [H|H]; [exact H|congruence].
  Qed.
  Lemma process_event_keeps fmts spec0 s f e k' : sess_get s k' <> None ->
    sess_get (fst (process_event Hb matches C hs fmts no_dh spec0 t (s, f) e)) k' <> None.
  Proof.
    intros Hs. destruct e as [p c|p k0]; cbn [process_event].
    - unfold seal_file. destruct (seal _ _ _ _) as [es res]. cbn [fst]. destruct es; [exact Hs|apply sess_get_add_keeps; left; exact Hs].
    - cbn [fst]. unfold record_dir. destruct (strip_prefix (lh_root (route_to hs p)) p); [destruct (lh_parent (route_to hs p))|].
      + apply sess_get_add_keeps. left. apply sess_get_add_keeps. left. exact Hs.
      + apply sess_get_add_keeps. left. exact Hs.
      + apply sess_get_add_keeps. left. exact Hs.
  Qed.
  Lemma fold_root_present : forall l s f, In [] (dirs_of l) ->
    sess_get (fst (fold_left (process_event Hb matches C hs (sort_fmts req) no_dh spec t) l (s, f))) [] <> None.
  Proof.
    destruct (load_list_facts C cdig h0 kids hs Hl) as [Hroot [_ [Hrin Hpar]]].
    assert (Hkeep : forall l s f, sess_get s [] <> None -> sess_get (fst (fold_left (process_event Hb matches C hs (sort_fmts req) no_dh spec t) l (s, f))) [] <> None).
    { induction l as [|e l IHl]; intros s1 f1 Hs1; [exact Hs1|]. cbn [fold_left].
      destruct (process_event Hb matches C hs (sort_fmts req) no_dh spec t (s1, f1) e) as [s2 f2] eqn:Ep2. apply IHl.
      change s2 with (fst (s2, f2)). rewrite <- Ep2. apply process_event_keeps. exact Hs1. }
    induction l as [|e l IH]; intros s0 f0 Hin; [destruct Hin|]. cbn [fold_left].
    destruct (process_event Hb matches C hs (sort_fmts req) no_dh spec t (s0, f0) e) as [s1 f1] eqn:Ep.
    destruct e as [p c|p k0]; cbn [dirs_of flat_map app In] in Hin.
    - apply IH. exact Hin.
    - destruct Hin as [->|Hin]; [|apply IH; exact Hin]. apply Hkeep.
      cbn [process_event] in Ep. injection Ep as <- _. unfold record_dir.
      destruct (route_good hs Hroot []) as [Hg _]. assert (Er : lh_root (route_to hs []) = []) by (destruct (lh_root (route_to hs [])); [reflexivity|discriminate Hg]).
      rewrite Er. cbn [strip_prefix]. destruct (lh_parent (route_to hs [])); [apply sess_get_add_keeps; left|]; apply sess_get_add_keeps; right; reflexivity.
  Qed.
  Lemma sess_root : sess_get sess [] <> None.
  Proof. unfold sess. apply fold_root_present. unfold evs, t. apply dirs_dir. right. reflexivity. Qed.

  Lemma root_written : exists doc, find (fun e => path_eqb (fst e) []) w = Some ([], doc) /\
    lh_gens (root_hist hs') = lh_gens (root_hist hs) ++ [doc] /\
    g_patterns doc = set_patterns (latest_patterns (lh_gens (root_hist hs))) spec [].
  Proof.
    destruct (load_list_facts C cdig h0 kids hs Hl) as [Hroot [_ [Hrin Hpar]]].
    pose proof (load_roots_NoDup C cdig t hs Hwf Hl) as Hnd.
    assert (Hne : hs <> []) by (intros E; rewrite E in Hrin; destruct Hrin).
    destruct (commit_set C cdig ser InPlace sess spec hs t Hnd (load_children_first C cdig t hs Hl) run_not_aborted) as [_ Hwrote].
    destruct (proj2 (Hwrote (root_hist hs) Hrin)) as [doc0 Hdoc0]; [left; rewrite Hroot; exact sess_root|]. fold cs in Hdoc0. fold w in Hdoc0. rewrite Hroot in Hdoc0.
    destruct (find_exists (fun e => path_eqb (fst e) []) w ([], doc0) Hdoc0 eq_refl) as [[k1 doc] Hfind].
    pose proof (find_some _ _ Hfind) as [Hdocin Hk1]. cbn [fst] in Hk1. apply path_eqb_eq in Hk1. subst k1.
    exists doc. split; [exact Hfind|]. split.
    - unfold hs'. rewrite (root_hist_map (fin C cdig ser w) hs Hne). unfold fin. rewrite Hroot, Hfind. reflexivity.
    - destruct (written_docs _ _ Hdocin) as [[h [Hh [Hk Hpat]]] _].
      assert (h = root_hist hs) as -> by (eapply (NoDup_map_eq lh_root); eauto; congruence).
      rewrite Hpat. apply readback_patterns_id. apply set_patterns_nonempty.
  Qed.

  Hypothesis Hnp : NoDup (latest_patterns (lh_gens (root_hist hs))).

  Lemma post_spec : set_patterns (latest_patterns (lh_gens (root_hist hs'))) [] (pattern_file_lines []) = spec /\
                    NoDup (latest_patterns (lh_gens (root_hist hs'))).
  Proof.
    destruct root_written as [doc [_ [Eg Hpat]]]. rewrite Eg.
    assert (El : latest_patterns (lh_gens (root_hist hs) ++ [doc]) = g_patterns doc) by (unfold latest_patterns; rewrite rev_app_distr; reflexivity).
    rewrite El, Hpat. destruct (set_patterns_stable_gen (latest_patterns (lh_gens (root_hist hs))) ip (pattern_file_lines ifl) Hnp) as [E1 E2].
    cbn zeta in E1, E2. fold spec in E1, E2. rewrite E1. split; [exact E2|apply set_patterns_NoDup].
  Qed.

  (* verify and diff on what the run leaves: exit 0, nothing to report *)
  Theorem post_verify :
    verify_result Hb matches C cdig false t' [] [] = Some (mkVR 0 [] [] []) /\
    verify_result Hb matches C cdig true t' [] [] = Some (mkVR 0 [] [] []).
  Proof.
    destruct post_load as [Hl' [_ [_ He]]]. destruct root_written as [doc [_ [Eg _]]]. destruct post_spec as [Hsp _].
    apply (consistent_verifies Hb matches C cdig t' hs' [] [] Hl').
    - rewrite Eg. destruct (lh_gens (root_hist hs)); discriminate.
    - rewrite Hsp. unfold consistent_tree. rewrite (events_same_media matches C spec t' t [] He). fold evs. split.
      + intros p c Hpc. apply post_reference. exact Hpc.
      + exact post_missing.
  Qed.

  (* the references a written generation holds name child histories of its own history *)
  Definition refs_ok (k : path) (l : list (path * N)) : Prop :=
    forall q n, In (q, n) l -> exists h, In h hs /\ lh_parent h = Some k /\ q = strip_prefix k (lh_root h).
  Lemma refs_add_ok l h n : In h hs -> (forall k, refs_ok k (refs_get l k)) ->
    forall k, refs_ok k (refs_get (match lh_parent h with Some par => refs_add l par (strip_prefix par (lh_root h), n) | None => l end) k).
  Proof.
    intros Hh Hr. destruct (lh_parent h) as [par|] eqn:Ep; [|exact Hr].
    intros k q n0 Hin. destruct (path_eqb_spec par k) as [<-|Hne].
    - rewrite refs_get_add_same in Hin. apply in_app_or in Hin. destruct Hin as [Hin|[E|[]]]; [apply (Hr par q n0 Hin)|]. injection E as <- _.
      exists h. auto.
    - rewrite (refs_get_add_other _ _ _ _ Hne) in Hin. apply (Hr k q n0 Hin).
  Qed.
  Lemma commit_one_refs cs0 h : In h hs ->
    (forall k, refs_ok k (refs_get (cs_refs C cs0) k)) -> (forall k doc, In (k, doc) (cs_written C cs0) -> refs_ok k (g_refs doc)) ->
    let cs1 := commit_one C cdig ser InPlace sess spec cs0 h in
    (forall k, refs_ok k (refs_get (cs_refs C cs1) k)) /\ (forall k doc, In (k, doc) (cs_written C cs1) -> refs_ok k (g_refs doc)).
  Proof.
    intros Hh Hr Hw. cbn zeta. unfold commit_one. destruct (cs_abort C cs0); [split; assumption|].
    assert (Hwrite : forall recs nl,
      let doc := mkGen (latest_generation_number (lh_gens h) + generation_increment)%N (map readback_record recs) (readback_root (nl_root nl))
                       (readback_patterns (set_patterns (latest_patterns (lh_gens h)) spec [])) (refs_get (cs_refs C cs0) (lh_root h)) InPlace in
      (forall k, refs_ok k (refs_get (match lh_parent h with Some par => refs_add (cs_refs C cs0) par (strip_prefix par (lh_root h), g_no doc) | None => cs_refs C cs0 end) k)) /\
      (forall k d, In (k, d) (cs_written C cs0 ++ [(lh_root h, doc)]) -> refs_ok k (g_refs d))).
    { intros recs nl doc. split; [apply refs_add_ok; assumption|].
      intros k d Hin. apply in_app_or in Hin. destruct Hin as [Hin|[E|[]]]; [apply (Hw k d Hin)|]. injection E as <- <-. cbn [g_refs doc]. apply Hr. }
    destruct (sess_get sess (lh_root h)) as [v|].
    - destruct (validate_records (nl_records v)) as [recs|]; [|split; assumption]. cbn [cs_refs cs_written]. apply Hwrite.
    - destruct (refs_get (cs_refs C cs0) (lh_root h)) as [|r0 rs] eqn:Er; [split; assumption|].
      cbn [nl_records validate_records cs_refs cs_written]. apply (Hwrite [] (mkNewlist [] None)).
  Qed.
  Lemma commit_refs_inv : forall l cs0, (forall h, In h l -> In h hs) ->
    (forall k, refs_ok k (refs_get (cs_refs C cs0) k)) -> (forall k doc, In (k, doc) (cs_written C cs0) -> refs_ok k (g_refs doc)) ->
    let cs1 := fold_left (commit_one C cdig ser InPlace sess spec) l cs0 in
    (forall k, refs_ok k (refs_get (cs_refs C cs1) k)) /\ (forall k doc, In (k, doc) (cs_written C cs1) -> refs_ok k (g_refs doc)).
  Proof.
    induction l as [|h l IH]; intros cs0 Hsub Hr Hw; cbn [fold_left]; [split; assumption|].
    destruct (commit_one_refs cs0 h (Hsub h (or_introl eq_refl)) Hr Hw) as [Hr1 Hw1].
    apply IH; [intros x Hx; apply Hsub; right; exact Hx|exact Hr1|exact Hw1].
  Qed.

  Lemma post_folders : missing_history_folders C hs' t' = [].
  Proof.
    destruct (load_list_facts C cdig h0 kids hs Hl) as [Hroot [Hrpar [Hrin Hpar]]].
    pose proof (load_roots_NoDup C cdig t hs Hwf Hl) as Hnd.
    destruct post_load as [Hl' [Hwf' [[h1 [kids1 Et']] _]]]. destruct root_written as [doc [Hfind [Eg _]]].
    unfold missing_history_folders. rewrite Eg, rev_app_distr. cbn [rev app]. apply filter_all_nil. intros q Hq.
    apply in_map_iff in Hq. destruct Hq as [[q0 n] [<- Hqn]]. cbn [fst].
    destruct (commit_refs_inv hs (mkCS C t [] [] [] false) (fun h H => H)) as [_ Hw].
    { intros k q1 n1 []. } { intros k d []. }
    fold (commit C cdig ser hs InPlace t sess spec) in Hw. fold cs in Hw. fold w in Hw.
    apply find_some in Hfind. destruct Hfind as [Hdocin _].
    destruct (Hw [] doc Hdocin q0 n Hqn) as [h [Hh [Hp ->]]]. cbn [strip_prefix].
    assert (Hne : lh_root h <> []).
    { intros E. assert (h = root_hist hs) by (eapply (NoDup_map_eq lh_root); eauto; congruence). subst h. congruence. }
    assert (Hh' : In (fin C cdig ser w h) hs') by (apply in_map; exact Hh).
    rewrite Et' in Hwf', Hl'. destruct (load_elems C cdig h1 kids1 hs' Hwf' Hl' _ Hh') as [_ [Hnn _]]. rewrite fin_root in Hnn.
    rewrite Et'. destruct (get_hist C (Dir h1 kids1) (lh_root h)); [reflexivity|exfalso; apply (Hnn Hne); reflexivity].
  Qed.
End NestedRun.

(* ---- the cycle: create on an untouched tree, any nesting, any number of times ---- *)
Section NestedCycle.
  Variable Hb : fmt -> bytes -> bytes.
  Variable matches : list text -> text -> bool.
  Variable C : Type.
  Variable cdig : C -> text.
  Variable ser : gen -> C.
  Notation node := (node C).

  (* no renames; every recorded digest of a path that is a file now is that file's digest; nothing recorded is missing
     (under the recorded patterns); every referenced child history is there; the pattern list holds nothing twice *)
  Definition nstate (hs : list lhist) (t : node) : Prop :=
    let spec := set_patterns (latest_patterns (lh_gens (root_hist hs))) [] (pattern_file_lines []) in
    nprev hs /\ ncur Hb C hs t /\ NoDup (latest_patterns (lh_gens (root_hist hs))) /\
    missing matches spec (diff_paths (expected_paths hs) (visited (events matches C spec [] t))) = [] /\
    missing_history_folders C hs t = [].

  Theorem nested_run h0 kids hs req no_dh ip ifl :
    let t := Dir h0 kids in
    let spec := set_patterns (latest_patterns (lh_gens (root_hist hs))) ip (pattern_file_lines ifl) in
    wf_tree C t -> load C cdig t = inl hs -> req <> [] ->
    nprev hs -> ncur Hb C hs t -> NoDup (latest_patterns (lh_gens (root_hist hs))) ->
    missing matches spec (diff_paths (expected_paths hs) (visited (events matches C spec [] t))) = [] ->
    missing_history_folders C hs t = [] ->
    let run := create_folder Hb matches C cdig ser t req no_dh false ip ifl in
    o_outcome (snd run) = Exit 0 /\
    exists h1 kids1 hs', fst run = Dir h1 kids1 /\ wf_tree C (fst run) /\ load C cdig (fst run) = inl hs' /\ nstate hs' (fst run) /\
      Forall2 (ext C cdig ser) hs hs' /\
      verify_result Hb matches C cdig false (fst run) [] [] = Some (mkVR 0 [] [] []) /\
      verify_result Hb matches C cdig true (fst run) [] [] = Some (mkVR 0 [] [] []).
  Proof.
    intros t spec Hwf Hl Hreq Hprev Hcur Hnp Hmiss Hfold. cbn zeta. subst t spec.
    split; [apply (nested_unchanged_create_exit_0 Hb matches C cdig ser h0 kids hs req no_dh ip ifl Hwf Hl Hprev Hcur Hmiss Hfold)|].
    rewrite (run_is Hb matches C cdig ser h0 kids hs req no_dh ip ifl Hl). cbn [fst].
    destruct (post_load Hb matches C cdig ser h0 kids hs req no_dh ip ifl Hwf Hl) as [Hl' [Hwf' [[h1 [kids1 Et']] He]]].
    exists h1, kids1. eexists. split; [exact Et'|]. split; [exact Hwf'|]. split; [exact Hl'|].
    destruct (post_spec Hb matches C cdig ser h0 kids hs req no_dh ip ifl Hwf Hl Hnp) as [Hsp Hnp'].
    split; [|split].
    - unfold nstate. cbn zeta. rewrite Hsp.
      split; [apply (post_nprev Hb matches C cdig ser h0 kids hs req no_dh ip ifl); assumption|].
      split; [apply (post_ncur Hb matches C cdig ser h0 kids hs req no_dh ip ifl); assumption|].
      split; [exact Hnp'|]. split.
      + rewrite (events_same_media matches C _ _ (Dir h0 kids) [] He).
        apply (post_missing Hb matches C cdig ser h0 kids hs req no_dh ip ifl); assumption.
      + apply (post_folders Hb matches C cdig ser h0 kids hs req no_dh ip ifl); assumption.
    - eapply one_more_ext; [apply (load_roots_NoDup C cdig _ _ Hwf Hl)|].
      destruct (reload_after_commit C cdig ser InPlace _ _ h0 kids hs Hwf Hl (run_not_aborted Hb matches C cdig ser h0 kids hs req no_dh ip ifl Hwf Hl)) as [_ [B _]].
      split; [reflexivity|exact B].
    - apply (post_verify Hb matches C cdig ser h0 kids hs req no_dh ip ifl); assumption.
  Qed.

  (* C03 / C04 / C06 for any nesting: from such a state every run of create on the untouched tree exits 0 and leaves such
     a state again; verify and diff on the result exit 0 with empty reports; every history only grows *)
  Corollary nested_cycle h0 kids hs req no_dh : wf_tree C (Dir h0 kids) -> load C cdig (Dir h0 kids) = inl hs -> req <> [] ->
    nstate hs (Dir h0 kids) ->
    let run := create_folder Hb matches C cdig ser (Dir h0 kids) req no_dh false [] [] in
    o_outcome (snd run) = Exit 0 /\
    exists h1 kids1 hs', fst run = Dir h1 kids1 /\ wf_tree C (fst run) /\ load C cdig (fst run) = inl hs' /\ nstate hs' (fst run) /\
      Forall2 (ext C cdig ser) hs hs' /\
      verify_result Hb matches C cdig false (fst run) [] [] = Some (mkVR 0 [] [] []) /\
      verify_result Hb matches C cdig true (fst run) [] [] = Some (mkVR 0 [] [] []).
  Proof.
    intros Hwf Hl Hreq [Hprev [Hcur [Hnp [Hmiss Hfold]]]]. apply nested_run; assumption.
  Qed.

  Theorem nested_sequences rs : forall h0 kids hs, wf_tree C (Dir h0 kids) -> load C cdig (Dir h0 kids) = inl hs ->
    nstate hs (Dir h0 kids) -> Forall (fun x => fst x <> []) rs ->
    let r := run_creates Hb matches C cdig ser (Dir h0 kids) rs in
    Forall (fun o => o = Exit 0) (snd r) /\
    exists hs', load C cdig (fst r) = inl hs' /\ Forall2 (ext C cdig ser) hs hs' /\
      (rs <> [] -> verify_result Hb matches C cdig false (fst r) [] [] = Some (mkVR 0 [] [] []) /\
                   verify_result Hb matches C cdig true (fst r) [] [] = Some (mkVR 0 [] [] [])).
  Proof.
    induction rs as [|[req no_dh] rs IH]; intros h0 kids hs Hwf Hl Hs Hreqs; cbn [run_creates].
    - split; [constructor|]. exists hs. split; [exact Hl|]. split; [|congruence]. clear. induction hs; constructor; [apply ext_refl|assumption].
    - inversion Hreqs as [|? ? Hreq Hreqs']; subst. cbn [fst] in Hreq.
      destruct (nested_cycle h0 kids hs req no_dh Hwf Hl Hreq Hs) as [Hout [h1 [kids1 [hs1 [Et [Hwf1 [Hl1 [Hs1 [Hext1 [Hv1 Hd1]]]]]]]]]].
      rewrite Et in *. destruct (IH h1 kids1 hs1 Hwf1 Hl1 Hs1 Hreqs') as [Hos [hs' [Hl' [Hext' Hv']]]].
      destruct (run_creates Hb matches C cdig ser (Dir h1 kids1) rs) as [t' os] eqn:Er. cbn [fst snd] in *.
      split; [constructor; assumption|]. exists hs'. split; [exact Hl'|]. split.
      + clear -Hext1 Hext'. revert hs' Hext'. induction Hext1 as [|a b la lb Hab _ IHl]; intros hs' Hext'; inversion Hext'; subst; constructor; [eapply ext_trans; eauto|auto].
      + intros _. destruct rs as [|x rs']; [|apply Hv'; discriminate]. cbn in Er. injection Er as <- _. split; assumption.
  Qed.
End NestedCycle.

(* ---- deciding the two data conditions of `nstate` on a concrete state (for examples) ---- *)
Section NstateCheck.
  Variable Hb : fmt -> bytes -> bytes.
  Variable C : Type.
  Definition nprev_b (hs : list lhist) : bool :=
    forallb (fun h => forallb (fun g => forallb (fun r => match r_prev r with None => true | Some _ => false end) (g_records g)) (lh_gens h)) hs.
  Definition ncur_b (hs : list lhist) (t : node C) : bool :=
    forallb (fun h => forallb (fun g => forallb (fun r => forallb (fun e =>
      match get C t (lh_root h ++ r_path r) with
      | Some (File c) => text_eqb (e_digest e) (digest_text Hb (e_fmt e) c)
      | _ => true
      end) (r_entries r)) (g_records g)) (lh_gens h)) hs.
  Lemma nprev_b_ok hs : nprev_b hs = true -> nprev hs.
  Proof.
    unfold nprev_b, nprev. intros H h g r Hh Hg Hr. rewrite forallb_forall in H. specialize (H h Hh). rewrite forallb_forall in H. specialize (H g Hg).
    rewrite forallb_forall in H. specialize (H r Hr). destruct (r_prev r); [discriminate|reflexivity].
  Qed.
  Lemma ncur_b_ok hs t : ncur_b hs t = true -> ncur Hb C hs t.
  Proof.
    unfold ncur_b, ncur. intros H h g r e c Hh Hg Hr He Hgt. rewrite forallb_forall in H. specialize (H h Hh). rewrite forallb_forall in H. specialize (H g Hg).
    rewrite forallb_forall in H. specialize (H r Hr). rewrite forallb_forall in H. specialize (H e He). rewrite Hgt in H.
    destruct (text_eqb_spec (e_digest e) (digest_text Hb (e_fmt e) c)); [assumption|discriminate].
  Qed.
End NstateCheck.

(* ---- detection on nested trees: a recorded file whose bytes changed ---- *)
Section NestedDetect.
  Variable Hb : fmt -> bytes -> bytes.
  Variable matches : list text -> text -> bool.
  Variable C : Type.
  Variable cdig : C -> text.
  Notation node := (node C).

  Lemma reference_nested h0 kids hs p : load C cdig (Dir h0 kids) = inl hs -> nprev hs ->
    reference hs p = find_original (lh_gens (route_to hs p)) (strip_prefix (lh_root (route_to hs p)) p).
  Proof.
    intros Hl Hprev. destruct (load_list_facts C cdig h0 kids hs Hl) as [_ [_ [Hrin _]]].
    unfold reference. fold (rooth hs). fold (route_to hs p). rewrite prev_steps_id; [reflexivity|].
    intros g r Hg Hr. apply (Hprev (root_hist hs) g r Hrin Hg Hr).
  Qed.

  (* the tree the histories describe (t), and a later tree t2 with the same histories in which file p has other bytes:
     verify names p and exits 11 -- unless the two contents collide in the reference's format *)
  Theorem nested_altered_detected h0 kids hs t2 ipats ifile p c c' e r :
    wf_tree C (Dir h0 kids) -> load C cdig (Dir h0 kids) = inl hs -> nprev hs -> ncur Hb C hs (Dir h0 kids) ->
    get C (Dir h0 kids) p = Some (File c) -> reference hs p = Some e ->
    load C cdig t2 = inl hs ->
    In (p, c') (ev_files (events matches C (set_patterns (latest_patterns (lh_gens (root_hist hs))) ipats (pattern_file_lines ifile)) [] t2)) ->
    digest_text Hb (e_fmt e) c' <> digest_text Hb (e_fmt e) c ->
    verify_result Hb matches C cdig false t2 ipats ifile = Some r ->
    vr_code r = 11%Z /\ In p (vr_mismatch r).
  Proof.
    intros Hwf Hl Hprev Hcur Hgt Href Hl2 Hin Hd Hv.
    apply (altered_file_detected Hb matches C cdig t2 hs ipats ifile p c' e r Hl2 Hin Href); [|exact Hv].
    destruct (routed_consistent Hb C cdig h0 kids hs p c Hwf Hl Hprev Hcur Hgt) as [_ Hcons].
    rewrite (reference_nested h0 kids hs p Hl Hprev) in Href. rewrite (Hcons e (proj1 (find_original_recorded _ _ _ Href))).
    intros E. apply Hd. symmetry. exact E.
  Qed.

  (* a file the history it belongs to has never recorded is named as new (exit 21, or 11 when something was altered too) *)
  Theorem nested_new_detected h0 kids hs ipats ifile p c r :
    load C cdig (Dir h0 kids) = inl hs -> nprev hs ->
    In (p, c) (ev_files (events matches C (set_patterns (latest_patterns (lh_gens (root_hist hs))) ipats (pattern_file_lines ifile)) [] (Dir h0 kids))) ->
    find_original (lh_gens (route_to hs p)) (strip_prefix (lh_root (route_to hs p)) p) = None ->
    verify_result Hb matches C cdig false (Dir h0 kids) ipats ifile = Some r ->
    In p (vr_new r) /\ (vr_code r = 11%Z \/ vr_code r = 21%Z) /\ (vr_mismatch r = [] -> vr_code r = 21%Z).
  Proof.
    intros Hl Hprev Hin Hno Hv. apply (new_file_detected Hb matches C cdig (Dir h0 kids) hs ipats ifile p c r Hl Hin); [|exact Hv].
    rewrite (reference_nested h0 kids hs p Hl Hprev). exact Hno.
  Qed.
  (* an entry some generation of some history recorded, gone from the tree and not ignored: named as missing, exit code not 0 *)
  Theorem nested_removed_detected h0 kids hs ipats ifile h g rec r :
    load C cdig (Dir h0 kids) = inl hs -> nprev hs ->
    let spec := set_patterns (latest_patterns (lh_gens (root_hist hs))) ipats (pattern_file_lines ifile) in
    In h hs -> In g (lh_gens h) -> In rec (g_records g) ->
    ~ In (lh_root h ++ r_path rec) (visited (events matches C spec [] (Dir h0 kids))) -> ignored matches spec (lh_root h ++ r_path rec) = false ->
    verify_result Hb matches C cdig false (Dir h0 kids) ipats ifile = Some r ->
    In (lh_root h ++ r_path rec) (vr_missing r) /\ vr_code r <> 0%Z /\ (vr_mismatch r = [] -> vr_new r = [] -> vr_code r = 10%Z).
  Proof.
    intros Hl Hprev spec Hh Hg Hr Hnv Hign Hv.
    apply (missing_entry_detected Hb matches C cdig (Dir h0 kids) hs ipats ifile _ r Hl); auto.
    apply (expected_nested hs Hprev). exists h, g, rec. auto.
  Qed.
End NestedDetect.

(* ---- C08: every history whose folder the traversal reaches gets a new generation ---- *)
Section NestedScope.
  Variable Hb : fmt -> bytes -> bytes.
  Variable matches : list text -> text -> bool.
  Variable C : Type.
  Variable cdig : C -> text.
  Variable ser : gen -> C.
  Notation node := (node C).

  Lemma routed_rel_nonempty_n h0 kids hs p c : wf_tree C (Dir h0 kids) -> load C cdig (Dir h0 kids) = inl hs ->
    get C (Dir h0 kids) p = Some (File c) -> strip_prefix (lh_root (route_to hs p)) p <> [].
  Proof.
    intros Hwf Hl Hgt. destruct (load_list_facts C cdig h0 kids hs Hl) as [Hroot [_ [Hrin Hpar]]].
    destruct (route_good hs Hroot p) as [Hg Hin]. set (h := route_to hs p) in *.
    assert (Hh : In h hs) by (destruct Hin as [Hin|Hin]; [exact Hin|rewrite Hin; exact Hrin]).
    assert (Hjoin : lh_root h ++ strip_prefix (lh_root h) p = p) by (apply strip_prefix_rejoin; exact Hg).
    intros E. rewrite E, app_nil_r in Hjoin. destruct (load_elems C cdig h0 kids hs Hwf Hl h Hh) as [_ [Hnn _]].
    destruct (lh_root h) as [|n r] eqn:Er; [subst p; cbn in Hgt; discriminate|].
    assert (Hx : get_hist C (Dir h0 kids) (n :: r) <> None) by (apply Hnn; discriminate).
    unfold get_hist in Hx. rewrite Hjoin, Hgt in Hx. apply Hx. reflexivity.
  Qed.
  Lemma parent_root_differs_n t hs h par : wf_tree C t -> load C cdig t = inl hs -> In h hs -> lh_parent h = Some par -> par <> lh_root h.
  Proof.
    intros Hwf Hl Hh Hp E. pose proof (load_roots_NoDup C cdig t hs Hwf Hl) as Hnd.
    apply in_split in Hh. destruct Hh as [l1 [l2 Ehs]].
    destruct (load_children_first C cdig t hs Hl l1 h l2 Ehs) as [Hn|[h' [Hh' Hp']]]; [congruence|].
    rewrite Ehs, map_app in Hnd. cbn [map] in Hnd. apply NoDup_remove_2 in Hnd. apply Hnd. apply in_or_app. right.
    rewrite <- E. rewrite Hp in Hp'. injection Hp' as ->. apply in_map. exact Hh'.
  Qed.
  Lemma written_of_pair_n (a : node) out w m1 m2 m3 ops i d : o_written (snd (a, mkObs out w m1 m2 m3 ops i d)) = w.
  Proof. reflexivity. Qed.
  Lemma route_own_root hs h : lh_root (root_hist hs) = [] -> In h hs -> lh_root (route_to hs (lh_root h)) = lh_root h.
  Proof.
    intros Hroot Hh. destruct (route_deepest hs (root_hist hs) (lh_root h)) as [H1 [_ H3]]; [unfold good; rewrite Hroot; reflexivity|].
    fold (rooth hs) in H1, H3. fold (route_to hs (lh_root h)) in H1, H3. unfold good in H1.
    assert (Hgood : good (lh_root h) h) by (unfold good; rewrite <- (app_nil_r (lh_root h)) at 2; apply is_prefix_app).
    pose proof (H3 h Hh Hgood) as Hlen. apply is_prefix_spec in H1. destruct H1 as [s0 Es].
    assert (s0 = []).
    { apply (f_equal (@length text)) in Es. rewrite app_length in Es. destruct s0; [reflexivity|cbn [length] in Es; lia]. }
    subst s0. rewrite app_nil_r in Es. symmetry. exact Es.
  Qed.

  Lemma fold_dir_present hs fmts no_dh spec (t : node) k : forall l s f, In k (dirs_of l) -> lh_root (route_to hs k) = k ->
    sess_get (fst (fold_left (process_event Hb matches C hs fmts no_dh spec t) l (s, f))) k <> None.
  Proof.
    assert (Hkeep1 : forall s f e, sess_get s k <> None -> sess_get (fst (process_event Hb matches C hs fmts no_dh spec t (s, f) e)) k <> None).
    { intros s f e Hs. destruct e as [p c|p k0]; cbn [process_event].
      - unfold seal_file. destruct (seal _ _ _ _) as [es res]. cbn [fst]. destruct es; [exact Hs|]. unfold sess_add.
        destruct (path_eqb_spec (lh_root (route_to hs p)) k) as [<-|Hne]; [rewrite sess_get_set_same; discriminate|rewrite (sess_get_set_other _ _ _ _ Hne); exact Hs].
      - cbn [fst]. unfold record_dir.
        assert (Hadd : forall s0 k1 q d sz es, sess_get s0 k <> None -> sess_get (sess_add s0 k1 q d sz es) k <> None).
        { intros s0 k1 q d sz es H0. unfold sess_add. destruct (path_eqb_spec k1 k) as [<-|Hne]; [rewrite sess_get_set_same; discriminate|rewrite (sess_get_set_other _ _ _ _ Hne); exact H0]. }
        destruct (strip_prefix (lh_root (route_to hs p)) p); [destruct (lh_parent (route_to hs p))|]; repeat apply Hadd; exact Hs. }
    assert (Hkeep : forall l s f, sess_get s k <> None -> sess_get (fst (fold_left (process_event Hb matches C hs fmts no_dh spec t) l (s, f))) k <> None).
    { induction l as [|e l IHl]; intros s1 f1 Hs1; [exact Hs1|]. cbn [fold_left].
      destruct (process_event Hb matches C hs fmts no_dh spec t (s1, f1) e) as [s2 f2] eqn:Ep2. apply IHl.
      change s2 with (fst (s2, f2)). rewrite <- Ep2. apply Hkeep1. exact Hs1. }
    induction l as [|e l IH]; intros s0 f0 Hin Hk; [destruct Hin|]. cbn [fold_left].
    destruct (process_event Hb matches C hs fmts no_dh spec t (s0, f0) e) as [s1 f1] eqn:Ep.
    destruct e as [p c|p k0]; cbn [dirs_of flat_map app In] in Hin.
    - apply IH; assumption.
    - destruct Hin as [->|Hin]; [|apply IH; assumption]. apply Hkeep.
      cbn [process_event] in Ep. injection Ep as <- _. unfold record_dir. rewrite Hk.
      assert (Es : strip_prefix k k = []) by (rewrite <- (app_nil_r k) at 2; apply strip_prefix_app). rewrite Es.
      assert (Hself : forall s2 q d sz es, sess_get (sess_add s2 k q d sz es) k <> None) by (intros; unfold sess_add; rewrite sess_get_set_same; discriminate).
      destruct (lh_parent (route_to hs k)) as [par|]; [|apply Hself].
      unfold sess_add at 1. destruct (path_eqb_spec par k) as [->|Hne]; [rewrite sess_get_set_same; discriminate|rewrite (sess_get_set_other _ _ _ _ Hne); apply Hself].
  Qed.

  (* the traversal reaches a path only through folders it reaches: every proper ancestor (from the start folder on) of an
     event's path is the path of a folder event *)
  Lemma ev_ancestors_dirs spec : forall (t : node) p0 q, In q (map ev_path (events matches C spec p0 t)) ->
    forall rel1 rel2, q = p0 ++ rel1 ++ rel2 -> rel2 <> [] -> In (p0 ++ rel1) (dirs_of (events matches C spec p0 t)).
  Proof.
    induction t as [c|h kids IH] using node_ind'; intros p0 q Hq rel1 rel2 E Hr2; [destruct Hq|].
    assert (Hself : In p0 (dirs_of (events matches C spec p0 (Dir h kids)))) by (apply dirs_dir; right; reflexivity).
    destruct rel1 as [|n r1]; [rewrite app_nil_r; exact Hself|].
    apply (ev_paths_split matches) in Hq. rewrite files_dir, dirs_dir in Hq.
    assert (Hsub : forall x, In x (vis_of matches C spec p0 kids) -> In q (map ev_path (sub_evs C x)) ->
                   In (p0 ++ n :: r1) (dirs_of (events matches C spec p0 (Dir h kids)))).
    { intros x Hx Hqx. apply dirs_dir. left. exists x. split; [exact Hx|].
      pose proof Hx as Hx0. unfold vis_of in Hx0. apply filter_In in Hx0. destruct Hx0 as [Hx0 _]. apply sort_In in Hx0.
      unfold subs in Hx0. apply in_map_iff in Hx0. destruct Hx0 as [nk [<- Hin]]. unfold sub_evs in *. cbn [fst snd] in *.
      rewrite Forall_forall in IH. specialize (IH nk Hin). destruct (snd nk) eqn:Ek; [destruct Hqx|].
      destruct (ev_below matches C spec _ _ _ Hqx) as [rel' Eq'].
      assert (En : fst nk = n /\ rel' = r1 ++ rel2).
      { rewrite Eq', <- !app_assoc in E. apply app_inv_head in E. cbn [app] in E. injection E as -> ->. auto. }
      destruct En as [En Er]. rewrite En in *. replace (p0 ++ n :: r1) with ((p0 ++ [n]) ++ r1) by (rewrite <- app_assoc; reflexivity).
      apply (IH (p0 ++ [n]) q Hqx r1 rel2); [|exact Hr2]. rewrite Eq', Er. reflexivity. }
    destruct Hq as [[[x [Hx H]]|[x [c [Hx [_ Eq]]]]]|[[x [Hx H]]|Eq]].
    - apply (Hsub x Hx). apply (ev_paths_split matches). left. exact H.
    - exfalso. rewrite Eq in E. apply app_inv_head in E. cbn [app] in E. injection E as _ E. destruct r1; [cbn in E; subst; congruence|discriminate].
    - apply (Hsub x Hx). apply (ev_paths_split matches). right. exact H.
    - exfalso. rewrite Eq in E. rewrite <- (app_nil_r p0) in E at 1. apply app_inv_head in E. discriminate.
  Qed.

  Theorem visited_histories_write h0 kids hs req no_dh ip ifl t' o h :
    wf_tree C (Dir h0 kids) -> load C cdig (Dir h0 kids) = inl hs ->
    create_folder Hb matches C cdig ser (Dir h0 kids) req no_dh false ip ifl = (t', o) ->
    let spec := set_patterns (latest_patterns (lh_gens (root_hist hs))) ip (pattern_file_lines ifl) in
    In h hs -> In (lh_root h) (dirs_of (events matches C spec [] (Dir h0 kids))) ->
    exists doc, In (lh_root h, doc) (o_written o).
  Proof.
    intros Hwf Hl Hc spec Hh Hvis. destruct (load_list_facts C cdig h0 kids hs Hl) as [Hroot _].
    rewrite (run_is Hb matches C cdig ser h0 kids hs req no_dh ip ifl Hl) in Hc. injection Hc as _ <-. cbn [o_written].
    pose proof (run_not_aborted Hb matches C cdig ser h0 kids hs req no_dh ip ifl Hwf Hl) as Hna.
    destruct (commit_set C cdig ser InPlace _ _ hs (Dir h0 kids) (load_roots_NoDup C cdig _ _ Hwf Hl) (load_children_first C cdig _ hs Hl) Hna) as [_ Hwrote].
    apply (proj2 (Hwrote h Hh)). left. apply fold_dir_present; [exact Hvis|apply route_own_root; assumption].
  Qed.

  (* which events give a history a new list *)
  Definition touches (hs : list lhist) (e : ev) (k : path) : Prop :=
    match e with
    | EvFile p _ => lh_root (route_to hs p) = k
    | EvDir p _ => lh_root (route_to hs p) = k \/ (strip_prefix (lh_root (route_to hs p)) p = [] /\ lh_parent (route_to hs p) = Some k)
    end.
  Lemma sess_add_get s k1 q d sz es k : sess_get (sess_add s k1 q d sz es) k <> None -> k1 = k \/ sess_get s k <> None.
  Proof.
    unfold sess_add. destruct (path_eqb_spec k1 k) as [->|Hne]; [left; reflexivity|]. rewrite (sess_get_set_other _ _ _ _ Hne). right. assumption.
  Qed.
  Lemma fold_touch hs fmts no_dh spec (t : node) k : forall l s f,
    sess_get (fst (fold_left (process_event Hb matches C hs fmts no_dh spec t) l (s, f))) k <> None ->
    sess_get s k <> None \/ exists e, In e l /\ touches hs e k.
  Proof.
    induction l as [|e l IH]; intros s f H; cbn [fold_left] in H; [left; exact H|].
    destruct (process_event Hb matches C hs fmts no_dh spec t (s, f) e) as [s1 f1] eqn:Ep.
    destruct (IH s1 f1 H) as [H1|[e' [He' Ht]]]; [|right; exists e'; split; [right; exact He'|exact Ht]].
    destruct e as [p c|p k0]; cbn [process_event] in Ep.
    - unfold seal_file in Ep. destruct (seal _ _ _ _) as [es res]. injection Ep as <- _. destruct es as [|e0 es']; [left; exact H1|].
      destruct (sess_add_get _ _ _ _ _ _ _ H1) as [E|H0]; [right; exists (EvFile p c); split; [left; reflexivity|exact E]|left; exact H0].
    - injection Ep as <- _. unfold record_dir in H1.
      destruct (strip_prefix (lh_root (route_to hs p)) p) as [|n q'] eqn:Eq.
      + destruct (lh_parent (route_to hs p)) as [par|] eqn:Epar.
        * destruct (sess_add_get _ _ _ _ _ _ _ H1) as [E|H0]; [right; exists (EvDir p k0); split; [left; reflexivity|right; rewrite Eq, Epar, E; auto]|].
          destruct (sess_add_get _ _ _ _ _ _ _ H0) as [E|H00]; [right; exists (EvDir p k0); split; [left; reflexivity|left; exact E]|left; exact H00].
        * destruct (sess_add_get _ _ _ _ _ _ _ H1) as [E|H0]; [right; exists (EvDir p k0); split; [left; reflexivity|left; exact E]|left; exact H0].
      + destruct (sess_add_get _ _ _ _ _ _ _ H1) as [E|H0]; [right; exists (EvDir p k0); split; [left; reflexivity|left; exact E]|left; exact H0].
  Qed.

  (* ... and conversely: only histories whose folder the traversal reaches get a new generation *)
  Theorem written_histories_are_reached h0 kids hs req no_dh ip ifl :
    wf_tree C (Dir h0 kids) -> load C cdig (Dir h0 kids) = inl hs ->
    let spec := set_patterns (latest_patterns (lh_gens (root_hist hs))) ip (pattern_file_lines ifl) in
    let evs := events matches C spec [] (Dir h0 kids) in
    forall k doc, In (k, doc) (o_written (snd (create_folder Hb matches C cdig ser (Dir h0 kids) req no_dh false ip ifl))) ->
      (exists h, In h hs /\ lh_root h = k) /\ In k (dirs_of evs).
  Proof.
    intros Hwf Hl spec evs k doc Hin. destruct (load_list_facts C cdig h0 kids hs Hl) as [Hroot [_ [Hrin Hpar]]].
    rewrite (run_is Hb matches C cdig ser h0 kids hs req no_dh ip ifl Hl), written_of_pair_n in Hin.
    pose proof (run_not_aborted Hb matches C cdig ser h0 kids hs req no_dh ip ifl Hwf Hl) as Hna.
    pose proof (load_roots_NoDup C cdig _ _ Hwf Hl) as Hnd.
    destruct (commit_set C cdig ser InPlace _ _ hs (Dir h0 kids) Hnd (load_children_first C cdig _ hs Hl) Hna) as [Hin_roots Hwrote].
    fold spec in Hin, Hin_roots, Hwrote. fold evs in Hin, Hin_roots, Hwrote.
    set (sess := fst (fold_left (process_event Hb matches C hs (sort_fmts req) no_dh spec (Dir h0 kids)) evs ([], 0))) in *.
    set (cs := commit C cdig ser hs InPlace (Dir h0 kids) sess spec) in *.
    assert (Hk : In k (map lh_root hs)) by (apply Hin_roots; exists doc; exact Hin).
    apply in_map_iff in Hk. destruct Hk as [h [Ek Hh]]. split; [exists h; auto|]. subst k.
    (* every proper ancestor of a reached path is a reached folder *)
    assert (Hanc : forall q k, In q (map ev_path evs) -> is_prefix k q = true -> k <> q -> In k (dirs_of evs)).
    { intros q k Hq Hp Hne. apply is_prefix_spec in Hp. destruct Hp as [s0 ->].
      apply (ev_ancestors_dirs spec (Dir h0 kids) [] (k ++ s0) Hq k s0 eq_refl). intros ->. apply Hne. rewrite app_nil_r. reflexivity. }
    assert (Hreach : forall n h1, In h1 hs -> length (lh_root h1) + n >= S (list_max (map (fun x => length (lh_root x)) hs)) ->
                       wrote C cs (lh_root h1) -> In (lh_root h1) (dirs_of evs)).
    { induction n as [|n IHn]; intros h1 Hh1 Hlen Hw.
      - exfalso. assert (Hle : length (lh_root h1) <= list_max (map (fun x => length (lh_root x)) hs)).
        { pose proof (proj1 (list_max_le (map (fun x => length (lh_root x)) hs) _) (Nat.le_refl _)) as Hall. rewrite Forall_forall in Hall.
          apply Hall. apply in_map_iff. exists h1. auto. }
        lia.
      - destruct (proj1 (Hwrote h1 Hh1) Hw) as [Hs|[c [Hc [Hpc Hwc]]]].
        + destruct (fold_touch hs (sort_fmts req) no_dh spec (Dir h0 kids) (lh_root h1) evs [] 0 Hs) as [H0|[e [He Ht]]]; [exfalso; apply H0; reflexivity|].
          destruct e as [p c0|p k0]; cbn [touches] in Ht.
          * (* a file routed to this history: below its folder *)
            assert (Hpc : In (p, c0) (ev_files evs)) by (unfold ev_files; apply in_flat_map; exists (EvFile p c0); split; [exact He|left; reflexivity]).
            destruct (ev_files_get matches C spec (Dir h0 kids) [] p c0 Hwf Hpc) as [rel [E Hgt]]. cbn [app] in E. subst rel.
            destruct (route_good hs Hroot p) as [Hg _]. rewrite Ht in Hg.
            apply (Hanc p); [apply in_map_iff; exists (EvFile p c0); auto|exact Hg|].
            intros E. pose proof (routed_rel_nonempty_n h0 kids hs p c0 Hwf Hl Hgt) as Hne. apply Hne. rewrite Ht, E.
            rewrite <- (app_nil_r p) at 2. apply strip_prefix_app.
          * destruct Ht as [Ht|[Hq Hpa]].
            -- destruct (route_good hs Hroot p) as [Hg _]. rewrite Ht in Hg.
               destruct (path_eqb_spec (lh_root h1) p) as [->|Hne]; [unfold dirs_of; apply in_flat_map; exists (EvDir p k0); split; [exact He|left; reflexivity]|].
               apply (Hanc p); [apply in_map_iff; exists (EvDir p k0); auto|exact Hg|exact Hne].
            -- (* the root folder of a child history *)
               destruct (route_good hs Hroot p) as [Hg Hin']. set (c := route_to hs p) in *.
               assert (Hc : In c hs) by (destruct Hin' as [H|H]; [exact H|rewrite H; exact Hrin]).
               assert (Ecp : lh_root c = p) by (rewrite <- (strip_prefix_rejoin _ _ Hg), Hq, app_nil_r; reflexivity).
               apply (Hanc p); [apply in_map_iff; exists (EvDir p k0); auto| |].
               ++ rewrite <- Ecp. apply (Hpar c (lh_root h1)); [left; exact Hc|exact Hpa].
               ++ rewrite <- Ecp. apply (parent_root_differs_n (Dir h0 kids) hs c (lh_root h1) Hwf Hl Hc Hpa).
        + (* a child history wrote: its folder is reached (it is deeper), so is this one *)
          assert (Hcl : length (lh_root c) > length (lh_root h1)).
          { pose proof (Hpar c (lh_root h1) (or_introl Hc) Hpc) as Hp. apply is_prefix_spec in Hp. destruct Hp as [s0 Es].
            pose proof (parent_root_differs_n (Dir h0 kids) hs c (lh_root h1) Hwf Hl Hc Hpc) as Hne.
            rewrite Es, app_length. destruct s0; [exfalso; apply Hne; rewrite Es, app_nil_r; reflexivity|cbn [length]; lia]. }
          pose proof (IHn c Hc ltac:(lia) Hwc) as Hrc.
          apply (Hanc (lh_root c)); [apply (ev_paths_split matches); right; exact Hrc|apply (Hpar c (lh_root h1)); [left; exact Hc|exact Hpc]|].
          apply (parent_root_differs_n (Dir h0 kids) hs c (lh_root h1) Hwf Hl Hc Hpc). }
    apply (Hreach (S (list_max (map (fun x => length (lh_root x)) hs))) h Hh); [lia|exists doc; exact Hin].
  Qed.
End NestedScope.

(* ---- C12 over any nesting: nothing the effective patterns exclude gets a record, in whichever history ---- *)
Section NestedVisible.
  Variable Hb : fmt -> bytes -> bytes.
  Variable matches : list text -> text -> bool.
  Variable C : Type.
  Variable cdig : C -> text.
  Variable ser : gen -> C.

  Lemma written_of_pair (a : node C) out w m1 m2 m3 ops i d : o_written (snd (a, mkObs out w m1 m2 m3 ops i d)) = w.
  Proof. reflexivity. Qed.
  Theorem nested_records_visible h0 kids hs req no_dh ip ifl :
    wf_tree C (Dir h0 kids) -> load C cdig (Dir h0 kids) = inl hs -> req <> [] ->
    let spec := set_patterns (latest_patterns (lh_gens (root_hist hs))) ip (pattern_file_lines ifl) in
    forall k doc r, In (k, doc) (o_written (snd (create_folder Hb matches C cdig ser (Dir h0 kids) req no_dh false ip ifl))) ->
      In r (g_records doc) -> visible matches spec [] (k ++ r_path r).
  Proof.
    intros Hwf Hl Hreq spec k doc r Hin Hr.
    rewrite (run_is Hb matches C cdig ser h0 kids hs req no_dh ip ifl Hl), written_of_pair in Hin.
    destruct (written_docs Hb matches C cdig ser h0 kids hs req no_dh ip ifl Hwf Hl k doc Hin) as [_ [HR [_ [_ P]]]].
    pose proof (P r Hr) as Hev. destruct (HR r Hr) as [_ [Hne _]]. fold spec in Hev.
    apply (ev_paths_split matches) in Hev.
    pose proof (reported_are_events matches C spec (Dir h0 kids) [] (k ++ r_path r) eq_refl) as Hre.
    destruct (proj2 Hre Hev) as [E|Hv].
    - destruct k; [cbn in E; congruence|discriminate E].
    - apply in_map_iff in Hv. destruct Hv as [[q d] [Eq Hq]]. cbn [fst] in Eq. subst q. eapply reported_visible. exact Hq.
  Qed.
End NestedVisible.

(* ---- rename detection has nothing to do when no recorded path is absent: -dr then changes nothing ---- *)
Section DrNothingMissing.
  Variable Hb : fmt -> bytes -> bytes.
  Variable matches : list text -> text -> bool.
  Variable C : Type.
  Variable cdig : C -> text.
  Variable ser : gen -> C.

  Lemma detect_renames_nil hs (t : node C) s newp : detect_renames Hb C hs t s newp [] = mkDR s [] false.
  Proof. unfold detect_renames. induction newp as [|np l IH]; [reflexivity|]. cbn [fold_left]. exact IH. Qed.

  Theorem create_dr_nothing_missing (t : node C) hs req no_dh ip ifl :
    load C cdig t = inl hs ->
    let spec := set_patterns (latest_patterns (lh_gens (root_hist hs))) ip (pattern_file_lines ifl) in
    diff_paths (expected_paths hs) (visited (events matches C spec [] t)) = [] ->
    create_folder Hb matches C cdig ser t req no_dh true ip ifl = create_folder Hb matches C cdig ser t req no_dh false ip ifl.
  Proof.
    intros Hl spec Hnf. unfold create_folder. rewrite Hl. fold spec.
    match goal with |- context [fold_left ?f ?l ?i] => destruct (fold_left f l i) as [sess0 fails] end. rewrite Hnf. change (sorted_paths []) with (@nil path).
    rewrite detect_renames_nil. reflexivity.
  Qed.
End DrNothingMissing.
