(* The shape of the generations `create` writes into a flat history, kept from run to run: a path's first non-failed
   digest is `original`, folder records carry directory hashes only, the pattern list starts from the defaults.
   These are the premises of the packing-list theorem (Proofs/PackFacts.v); here they are shown to hold after every run. *)
From Coq Require Import Lia Permutation.
From MHL Require Import Model.Commands Gen.Generated Proofs.BaseFacts Proofs.SealFacts Proofs.RouteFacts Proofs.TreeFacts
  Proofs.IgnoreFacts Proofs.CommitFacts Proofs.CreateFacts Proofs.FreshFacts Proofs.HistFacts Proofs.VerifyFacts Proofs.InfoFacts Proofs.FlatFacts Proofs.PackFacts.

Section ShapeFold.
  Variable Hb : fmt -> bytes -> bytes.
  Variable matches : list text -> text -> bool.
  Variable C : Type.
  Notation node := (node C).
  Notation events := (events matches C).
  Variable h0 : lhist.
  Hypothesis h0_root : lh_root h0 = [].
  Hypothesis h0_parent : lh_parent h0 = None.

  (* a property of whole records that every event establishes for the one record it appends *)
  Variable R : record -> Prop.
  Lemma fold_events_rec_exact fmts no_dh spec t : forall evs s fails,
    NoDup (map ev_path evs) -> (forall r, In r (recs s) -> ~ In (r_path r) (map ev_path evs)) -> Forall R (recs s) ->
    (forall p c sz, In (p, c) (ev_files evs) -> p <> [] -> R (mkRecord p false sz (fst (seal (lh_gens h0) p (fun f => digest_text Hb f c) fmts)) None)) ->
    (forall p sz, In p (dirs_of evs) -> p <> [] -> R (mkRecord p true sz (match dir_entries Hb matches C no_dh spec fmts p t with Some es => es | None => [] end) None)) ->
    Forall R (recs (fst (fold_left (process_event Hb matches C [h0] fmts no_dh spec t) evs (s, fails)))).
  Proof.
    induction evs as [|e evs IH]; intros s fails Hnd Hfresh Hs Hf Hd; cbn [fold_left]; [exact Hs|].
    cbn [map] in Hnd. inversion Hnd as [|? ? Hp Hnd']; subst.
    assert (Hstep : Forall R (recs (fst (process_event Hb matches C [h0] fmts no_dh spec t (s, fails) e))) /\
                    (forall r, In r (recs (fst (process_event Hb matches C [h0] fmts no_dh spec t (s, fails) e))) -> ~ In (r_path r) (map ev_path evs))).
    { assert (Hnew : ~ In (ev_path e) (map r_path (recs s))).
      { intros H. apply in_map_iff in H. destruct H as [r [E Hr]]. apply (Hfresh r Hr). left. symmetry. exact E. }
      assert (Hold : forall r, In r (recs s) -> ~ In (r_path r) (map ev_path evs)).
      { intros r Hr H. apply (Hfresh r Hr). right. exact H. }
      destruct e as [p c|p kids]; cbn [process_event ev_path] in *.
      - unfold seal_file. rewrite (route_flat h0), h0_root. cbn [strip_prefix].
        assert (Hsp : strip_prefix [] p = p) by (destruct p; reflexivity). rewrite ?Hsp.
        pose proof (fun sz => Hf p c sz (or_introl eq_refl)) as HR.
        destruct (seal (lh_gens h0) p (fun f => digest_text Hb f c) fmts) as [es res]. cbn [fst] in *.
        destruct es as [|e0 es']; [split; assumption|]. rewrite recs_sess_add. destruct p as [|n p']; [split; assumption|].
        rewrite (add_entries_fresh _ _ _ _ _ Hnew). split.
        + apply Forall_app. split; [exact Hs|]. constructor; [apply HR; discriminate|constructor].
        + intros r Hr. apply in_app_or in Hr. destruct Hr as [Hr|[<-|[]]]; [apply Hold; exact Hr|exact Hp].
      - unfold record_dir. rewrite (route_flat h0), h0_root, h0_parent.
        assert (Hsp : strip_prefix [] p = p) by (destruct p; reflexivity). rewrite ?Hsp.
        assert (Hsame : forall es, match p with [] => sess_add s [] p true None es | _ :: _ => sess_add s [] p true None es end = sess_add s [] p true None es) by (intros; destruct p; reflexivity).
        rewrite Hsame. cbn [fst]. rewrite recs_sess_add. destruct p as [|n p']; [split; assumption|].
        rewrite (add_entries_fresh _ _ _ _ _ Hnew). split.
        + apply Forall_app. split; [exact Hs|]. constructor; [|constructor]. apply Hd; [left; reflexivity|discriminate].
        + intros r Hr. apply in_app_or in Hr. destruct Hr as [Hr|[<-|[]]]; [apply Hold; exact Hr|exact Hp]. }
    destruct (process_event Hb matches C [h0] fmts no_dh spec t (s, fails) e) as [s1 f1]. cbn [fst] in Hstep. destruct Hstep as [Hs1 Hfresh1].
    apply IH; auto.
    - intros p c sz Hin. apply Hf. destruct e; cbn; [right|]; exact Hin.
    - intros p sz Hin. apply Hd. destruct e; cbn; [|right]; exact Hin.
  Qed.
End ShapeFold.

Section ShapeKept.
  Variable Hb : fmt -> bytes -> bytes.
  Variable matches : list text -> text -> bool.
  Variable C : Type.
  Variable cdig : C -> text.
  Variable ser : gen -> C.
  Notation node := (node C).
  Notation events := (events matches C).

  Definition starts_with_defaults (l : list text) : Prop := l = [] \/ exists s, l = default_ignore ++ s.
  Definition shape (gens : list gen) : Prop :=
    first_is_original gens /\ dirs_have_no_actions gens /\ starts_with_defaults (latest_patterns gens).

  Lemma default_ignore_NoDup : NoDup default_ignore.
  Proof. rewrite default_ignore_is. repeat constructor; cbn; intros H; repeat destruct H as [H|H]; try discriminate H; auto. Qed.
  Lemma set_patterns_starts e cli file : NoDup e -> starts_with_defaults e -> exists s, set_patterns e cli file = default_ignore ++ s.
  Proof.
    intros Hn Hs. destruct (set_patterns_prefix e cli file Hn) as [s Es]. rewrite Es. unfold base_of.
    destruct Hs as [->|[s0 ->]]; [exists s; reflexivity|]. destruct (default_ignore ++ s0) eqn:E.
    - exists s. reflexivity.
    - rewrite <- E, <- app_assoc. eauto.
  Qed.
  Lemma defaults_absorbed l : NoDup l -> (exists s, l = default_ignore ++ s) -> set_patterns [] l [] = l.
  Proof.
    intros Hn [s ->]. unfold set_patterns. cbn [append_patterns].
    assert (Hd : append_patterns [] default_ignore = default_ignore) by (rewrite append_patterns_fresh; [reflexivity|apply default_ignore_NoDup|intros x _ []]).
    rewrite Hd, append_patterns_skip by tauto. destruct (NoDup_app_parts _ _ Hn) as [Hs Hdis].
    apply append_patterns_fresh; assumption.
  Qed.

  Variable h0 : lhist.
  Hypothesis h0_root : lh_root h0 = [].
  Hypothesis h0_parent : lh_parent h0 = None.

  (* what holds of every record a run appends to a flat history *)
  Definition Rshape (r : record) : Prop :=
    r_path r <> [] /\ r_prev r = None /\
    (r_dir r = true -> forall e, In e (r_entries r) -> e_action e = None) /\
    (r_dir r = false -> forall e, In e (r_entries r) -> e_action e <> None /\ (find_original (lh_gens h0) (r_path r) = None -> is_original e = true)).
  Lemma Rshape_validate r r' : validate_record r = Some r' -> Rshape r -> Rshape r'.
  Proof.
    intros Hv [Hp [Hprev [Hd Hf]]]. apply validate_record_ok in Hv. destruct Hv as [Ep [Ed [_ [Epr [Ees _]]]]].
    unfold Rshape. rewrite Ep, Ed, Epr, Ees. split; [exact Hp|]. split; [exact Hprev|]. split.
    - intros Hdir e He. apply in_map_iff in He. destruct He as [e1 [<- He1]]. rewrite promote_action, (Hd Hdir e1 He1). reflexivity.
    - intros Hdir e He. apply in_map_iff in He. destruct He as [e1 [<- He1]]. destruct (Hf Hdir e1 He1) as [Ha Ho]. split.
      + rewrite promote_action. destruct (e_action e1) as [[]|]; congruence.
      + rewrite is_original_promote. exact Ho.
  Qed.
  Lemma Rshape_readback r : Rshape r -> Rshape (readback_record r).
  Proof.
    intros H. unfold readback_record. destruct (r_dir r) eqn:Ed; [exact H|]. destruct H as [Hp [Hprev [Hd Hf]]].
    unfold Rshape. cbn [r_path r_prev r_dir r_entries]. split; [exact Hp|]. split; [exact Hprev|]. split; [intros; discriminate|].
    intros _ e He. apply sort_In in He. apply Hf; [exact Ed|exact He].
  Qed.

  Theorem create_flat_keeps_shape t req no_dh ip ifl :
    wf_tree C t -> load C cdig t = inl [h0] -> is_dir C t = true -> req <> [] ->
    (forall g r, In g (lh_gens h0) -> In r (g_records g) -> r_prev r = None) ->
    NoDup (latest_patterns (lh_gens h0)) -> shape (lh_gens h0) ->
    let run := create_folder Hb matches C cdig ser t req no_dh false ip ifl in
    o_outcome (snd run) <> Abort ->
    exists doc, o_written (snd run) = [([], doc)] /\
      fst run = set_hist C [] (mkHist C (h_files C (match get_hist C t [] with Some x => x | None => mkHist C [] None end)
                                           ++ [mkMfile C (g_no doc) (ser doc) doc])
                                      (Some (lh_chain h0 ++ [mkCentry (g_no doc) (g_no doc) (cdig (ser doc))]))) t /\
      g_no doc = (latest_generation_number (lh_gens h0) + 1)%N /\
      shape (lh_gens h0 ++ [doc]).
  Proof.
    intros Hwf Hl Hd Hreq Hprev Hnp [Hfirst [Hdir Hpat]]. cbn zeta. intros Hout.
    destruct (create_flat_shape Hb matches C cdig ser h0 h0_root h0_parent t req no_dh ip ifl Hl Hd Hreq Hout) as [sess [recs0 [Esess [Hv [Hw Ht]]]]].
    set (spec := set_patterns (latest_patterns (lh_gens h0)) ip (pattern_file_lines ifl)) in *.
    set (evs := events spec [] t) in *.
    set (doc := new_doc InPlace (sess_list sess []) recs0 spec [] h0) in *.
    exists doc. split; [exact Hw|]. split; [exact Ht|]. split; [reflexivity|].
    (* the records of the new generation *)
    assert (H0 : Forall Rshape (recs sess)).
    { rewrite Esess. apply (fold_events_rec_exact Hb matches C h0 h0_root h0_parent Rshape).
      - apply ev_paths_NoDup. exact Hwf.
      - intros r [].
      - constructor.
      - intros p c sz Hin Hp. unfold Rshape. cbn [r_path r_prev r_dir r_entries]. split; [exact Hp|]. split; [reflexivity|]. split; [discriminate|].
        intros _ e He. destruct (seal_entries_facts Hb h0 (sort_fmts req) p c e He) as [Hfe [_ Ho]]. split; assumption.
      - intros p sz Hin Hp. unfold Rshape. cbn [r_path r_prev r_dir r_entries]. split; [exact Hp|]. split; [reflexivity|]. split; [|discriminate].
        intros _ e He. destruct (dir_entries Hb matches C no_dh spec (sort_fmts req) p t) as [es|] eqn:Ed; [|destruct He].
        eapply dir_entries_no_action; eauto. }
    assert (H1 : Forall Rshape recs0).
    { apply validate_records_Forall2 in Hv. clear -Hv H0. induction Hv as [|r r' rs rs' Hr _ IH]; [constructor|]. inversion H0; subst.
      constructor; [eapply Rshape_validate; eauto|apply IH; assumption]. }
    assert (H2 : Forall Rshape (g_records doc)).
    { cbn [doc new_doc g_records]. apply Forall_forall. intros r Hr. apply in_map_iff in Hr. destruct Hr as [r0 [<- Hr0]].
      apply Rshape_readback. rewrite Forall_forall in H1. apply H1. exact Hr0. }
    rewrite Forall_forall in H2.
    split; [|split].
    - (* first non-failed digest of a path is original *)
      intros p x Hfind. unfold scan in Hfind. rewrite flat_map_app in Hfind. fold (scan (lh_gens h0)) in Hfind. fold (scan [doc]) in Hfind.
      destruct (find (at_path p) (scan (lh_gens h0))) as [y|] eqn:Eold.
      + rewrite (find_app_some _ _ _ _ Eold) in Hfind. injection Hfind as <-. apply (Hfirst p y Eold).
      + rewrite find_app_r in Hfind by (intros y Hy; apply (find_none _ _ Eold y Hy)).
        apply find_some in Hfind. destruct Hfind as [Hx Hat]. apply scan_in in Hx. destruct Hx as [g [[<-|[]] [Hr [Hdr He]]]].
        destruct (H2 (fst x) Hr) as [Hpne [_ [_ Hf]]]. destruct (Hf Hdr (snd x) He) as [_ Ho]. apply Ho.
        unfold at_path in Hat. apply andb_prop in Hat. destruct Hat as [Hpp _]. apply path_eqb_eq in Hpp.
        destruct (find_original (lh_gens h0) (r_path (fst x))) as [e0|] eqn:Efo; [|reflexivity]. exfalso.
        destruct (find_original_scanned (lh_gens h0) _ e0 Hpne Hprev Hdir Efo) as [y [Hy Hyat]].
        rewrite Hpp in Hyat. rewrite (find_none _ _ Eold y Hy) in Hyat. discriminate.
    - intros g r e Hg Hr Hdr He. apply in_app_or in Hg. destruct Hg as [Hg|[<-|[]]]; [eapply Hdir; eauto|].
      destruct (H2 r Hr) as [_ [_ [Hdd _]]]. apply Hdd; assumption.
    - unfold latest_patterns. rewrite rev_app_distr. cbn [rev app]. unfold doc. rewrite new_doc_patterns.
      right. destruct (set_patterns_starts (latest_patterns (lh_gens h0)) ip (pattern_file_lines ifl) Hnp Hpat) as [s Es]. fold spec in Es.
      assert (Hsn : NoDup spec) by apply set_patterns_NoDup.
      pose proof (set_patterns_stable_gen (latest_patterns (lh_gens h0)) ip (pattern_file_lines ifl) Hnp) as [E1 _]. cbn zeta in E1. fold spec in E1.
      rewrite E1. eauto.
  Qed.
End ShapeKept.

From MHL Require Import Proofs.LoadFacts Proofs.ReloadFacts.

Section PackEndToEnd.
  Variable Hb : fmt -> bytes -> bytes.
  Variable matches : list text -> text -> bool.
  Variable C : Type.
  Variable cdig : C -> text.
  Variable ser : gen -> C.
  Notation node := (node C).
  Notation events := (events matches C).

  (* `verify` found nothing to report: every visited file has a reference it matches, nothing recorded is missing *)
  Lemma verifies_consistent t hs ip ifl : load C cdig t = inl hs -> lh_gens (root_hist hs) <> [] ->
    verify_result Hb matches C cdig false t ip ifl = Some (mkVR 0 [] [] []) ->
    consistent_tree Hb matches C hs t (set_patterns (latest_patterns (lh_gens (root_hist hs))) ip (pattern_file_lines ifl)).
  Proof.
    intros Hl Hg Hv. pose proof (verify_reports Hb matches C cdig t ip ifl hs Hl Hg) as Hrep. cbn zeta in Hrep. destruct Hrep as [Hbad Hnew].
    unfold verify_result in Hv. rewrite Hl in Hv. destruct (lh_gens (root_hist hs)) as [|g0 gs] eqn:Eg; [congruence|].
    set (o := snd (verify_like Hb matches C cdig false t None ip ifl)) in *.
    destruct (o_outcome o) as [c|] eqn:Eo; [|discriminate]. injection Hv as _ Em Eb En.
    split.
    - intros p c0 Hin. destruct (reference hs p) as [e|] eqn:Er.
      + exists e. split; [reflexivity|]. destruct (text_eqb_spec (e_digest e) (digest_text Hb (e_fmt e) c0)) as [E|Hne]; [exact E|].
        exfalso. assert (Hp : In p (o_mismatch o)) by (apply Hbad; exists c0, e; auto). rewrite Eb in Hp. destruct Hp.
      + exfalso. assert (Hp : In p (o_new o)) by (apply Hnew; exists c0; auto). rewrite En in Hp. destruct Hp.
    - unfold o, verify_like, verify_core in Em. rewrite Hl, Eg in Em. cbn [snd o_missing] in Em.
      match type of Em with sorted_paths ?l = [] => destruct l as [|q l'] eqn:E; [reflexivity|] end.
      exfalso. assert (Hq : In q (sorted_paths (q :: l'))) by (apply sorted_paths_In; left; reflexivity). rewrite Em in Hq. destruct Hq.
  Qed.

  (* the state a flat history is in after any run of `create` on an untouched tree, now with its shape *)
  Definition flat_state2 (n : nat) (old : hist C) (kids : list (text * node)) : Prop :=
    flat_state Hb matches C cdig n old kids /\ shape (loaded_gens C old).

  Lemma flat_cycle2 n old kids req no_dh : flat_state2 n old kids -> req <> [] ->
    let run := create_folder Hb matches C cdig ser (Dir (Some old) kids) req no_dh false [] [] in
    o_outcome (snd run) = Exit 0 /\
    exists old', fst run = Dir (Some old') kids /\ flat_state2 (S n) old' kids /\
      verify_result Hb matches C cdig false (fst run) [] [] = Some (mkVR 0 [] [] []).
  Proof.
    intros [Hs Hsh] Hreq. cbn zeta. destruct (flat_cycle Hb matches C cdig ser n old kids req no_dh Hs Hreq) as [Hout [old' [Et [Hs' [Hv _]]]]].
    split; [exact Hout|]. exists old'. split; [exact Et|]. split; [|exact Hv]. split; [exact Hs'|].
    destruct Hs as [Hwf [Hl [[Hw [Hnp [[Hprev Hdig] Hrefs]]] Hcompl]]].
    set (h0 := lhist_of C [] None (Some old)) in *.
    assert (Hna : o_outcome (snd (create_folder Hb matches C cdig ser (Dir (Some old) kids) req no_dh false [] [])) <> Abort) by (rewrite Hout; discriminate).
    destruct (create_flat_keeps_shape Hb matches C cdig ser h0 eq_refl eq_refl (Dir (Some old) kids) req no_dh [] [] Hwf Hl eq_refl Hreq Hprev Hnp Hsh Hna)
      as [doc [_ [Ht [Hno Hsh']]]].
    rewrite Et in Ht. unfold set_hist in Ht. cbn [alter get_hist get] in Ht. injection Ht as ->.
    pose proof (reread_after_commit C cdig ser [] None (Some old) doc) as R. cbn zeta in R. fold h0 in R. specialize (R Hno).
    assert (Eg : loaded_gens C {| h_files := h_files C old ++ [mkMfile C (g_no doc) (ser doc) doc];
                                  h_chain := Some (lh_chain h0 ++ [mkCentry (g_no doc) (g_no doc) (cdig (ser doc))]) |} = loaded_gens C old ++ [doc]).
    { apply (f_equal lh_gens) in R. exact R. }
    match goal with |- shape ?G => replace G with (loaded_gens C old ++ [doc]) by (symmetry; exact Eg) end. exact Hsh'.
  Qed.

  (* C18, end to end: from a state `create` leaves (any number of generations), on the untouched tree: the packing list
     `flatten` writes verifies with exit 0 *)
  Theorem flat_state_flatten_verify_pl n old kids doc :
    flat_state2 n old kids ->
    verify_result Hb matches C cdig false (Dir (Some old) kids) [] [] = Some (mkVR 0 [] [] []) ->
    In ([], doc) (o_written (snd (flatten C cdig (Dir (Some old) kids) [] []))) ->
    o_outcome (snd (verify_pl Hb matches C (Dir (Some old) kids) (Some doc) [] [])) = Exit 0.
  Proof.
    intros [[Hwf [Hl [[Hw [Hnp [Hall Hrefs]]] Hcompl]]] [Hfirst [Hdir Hpat]]] Hv Hin.
    set (h := lhist_of C [] None (Some old)) in *. set (t := Dir (Some old) kids) in *.
    assert (Hg : lh_gens (root_hist [h]) <> []).
    { unfold verify_result in Hv. rewrite Hl in Hv. destruct (lh_gens (root_hist [h])); [discriminate|discriminate]. }
    pose proof (verifies_consistent t [h] [] [] Hl Hg Hv) as Hc. change (root_hist [h]) with h in Hc, Hg.
    rewrite (flatten_writes_pl_gen C cdig t h doc Hl Hin).
    apply (flatten_then_verify_pl Hb matches C t h Hwf eq_refl eq_refl Hg); auto.
    destruct (set_patterns_starts (latest_patterns (lh_gens h)) [] (pattern_file_lines []) Hnp Hpat) as [s Es].
    apply (defaults_absorbed matches (set_patterns (latest_patterns (lh_gens h)) [] (pattern_file_lines [])) (set_patterns_NoDup _ _ _)). eauto.
  Qed.
  Lemma unchanged_sequences2 rs : forall n old kids, flat_state2 n old kids -> Forall (fun x => fst x <> []) rs ->
    exists old', fst (run_creates Hb matches C cdig ser (Dir (Some old) kids) rs) = Dir (Some old') kids /\ flat_state2 (length rs + n) old' kids /\
      (rs <> [] -> verify_result Hb matches C cdig false (Dir (Some old') kids) [] [] = Some (mkVR 0 [] [] [])).
  Proof.
    induction rs as [|[req no_dh] rs IH]; intros n old kids Hs Hreqs; cbn [run_creates].
    - exists old. split; [reflexivity|]. split; [exact Hs|congruence].
    - inversion Hreqs as [|? ? Hreq Hreqs']; subst. cbn [fst] in Hreq.
      destruct (flat_cycle2 n old kids req no_dh Hs Hreq) as [Hout [old1 [Et [Hs1 Hv1]]]].
      rewrite Et in *. destruct (IH (S n) old1 kids Hs1 Hreqs') as [old' [Et' [Hs' Hv']]].
      destruct (run_creates Hb matches C cdig ser (Dir (Some old1) kids) rs) as [t' os] eqn:Er. cbn [fst snd] in *.
      exists old'. split; [exact Et'|]. split.
      + replace (length ((req, no_dh) :: rs) + n) with (length rs + S n) by (cbn [length]; lia). exact Hs'.
      + intros _. destruct rs as [|x rs']; [|apply Hv'; discriminate].
        cbn in Er. injection Er as <- _. injection Et' as <-. exact Hv1.
  Qed.

  (* C18, end to end from nothing: seal a tree that has no history (any formats, options, patterns), run `create` any
     number of times on the untouched tree, flatten: `verify -pl` against the manifest written exits 0 -- for every
     tree, matcher and hash primitive *)
  Theorem seal_creates_state kids h0 req0 nd0 ip ifl rs :
    wf_tree C (Dir None kids) -> load C cdig (Dir None kids) = inl [h0] -> req0 <> [] -> Forall (fun x => fst x <> []) rs ->
    let r0 := create_folder Hb matches C cdig ser (Dir None kids) req0 nd0 false ip ifl in
    let r := run_creates Hb matches C cdig ser (fst r0) rs in
    exists old', fst r = Dir (Some old') kids /\ flat_state2 (length rs + 1) old' kids /\
                 verify_result Hb matches C cdig false (fst r) [] [] = Some (mkVR 0 [] [] []).
  Proof.
    intros Hwf Hl Hreq Hrs. cbn zeta.
    pose proof (fresh_create_succeeds Hb matches C cdig ser kids h0 req0 nd0 ip ifl Hwf Hl Hreq) as Hout.
    assert (Hna : o_outcome (snd (create_folder Hb matches C cdig ser (Dir None kids) req0 nd0 false ip ifl)) <> Abort) by (rewrite Hout; discriminate).
    destruct (fresh_create_flat_ok Hb matches C cdig ser kids h0 req0 nd0 ip ifl Hwf Hl Hreq Hna) as [doc0 [Et [Hl1 [Hok1 Hc1]]]].
    destruct (fresh_create_then_verify Hb matches C cdig ser kids h0 req0 nd0 ip ifl Hwf Hl Hreq Hna) as [Hv0 _].
    assert (Eh0 : h0 = lhist_of C [] None None).
    { destruct (load_skeleton C cdig None kids) as [A _]. destruct (A [h0] Hl) as [_ [_ E]]. change [h0] with ([] ++ [h0]) in E.
      destruct (map (mk C) (dstruct C [] [] (Dir None kids))) as [|a l]; cbn in E; [injection E as ->; reflexivity|].
      injection E as _ E. destruct l; discriminate. }
    assert (Hsh0 : shape (lh_gens h0)).
    { rewrite Eh0. cbn [lhist_of lh_gens]. split; [intros p x H; discriminate|]. split; [intros g r e []|left; reflexivity]. }
    destruct (create_flat_keeps_shape Hb matches C cdig ser h0 (eq_trans (f_equal lh_root Eh0) eq_refl) (eq_trans (f_equal lh_parent Eh0) eq_refl)
                (Dir None kids) req0 nd0 ip ifl Hwf Hl eq_refl Hreq) as [doc1 [_ [Ht [Hno Hsh1]]]]; auto.
    { rewrite Eh0. intros g r []. } { rewrite Eh0. constructor. }
    rewrite Et in Ht. unfold set_hist in Ht. cbn [alter get_hist get] in Ht. rewrite Eh0 in Ht. cbn [lhist_of lh_chain h_files app] in Ht.
    unfold after_commit in Ht. cbn [h_files h_chain app] in Ht. assert (Ed : doc0 = doc1) by (injection Ht; intros; assumption). subst doc1. clear Ht.
    assert (Hs1 : flat_state2 1 (after_commit C cdig ser (mkHist C [] None) doc0) kids).
    { split.
      - split; [|split; [rewrite <- Et; exact Hl1|split; assumption]]. inversion Hwf as [|? ? Hn Hk]; subst. constructor; assumption.
      - pose proof (reread_after_commit C cdig ser [] None None doc0) as R. cbn zeta in R. rewrite Eh0 in Hno. specialize (R Hno).
        apply (f_equal lh_gens) in R. cbn [grown lh_gens lhist_of app] in R.
        rewrite Eh0 in Hsh1. cbn [lhist_of lh_gens app] in Hsh1.
        match goal with |- shape ?G => replace G with [doc0] by (symmetry; exact R) end. exact Hsh1. }
    rewrite Et. destruct (unchanged_sequences2 rs 1 _ kids Hs1 Hrs) as [old' [Et' [Hs' Hv']]].
    rewrite Et'. exists old'. split; [reflexivity|]. split; [exact Hs'|].
    destruct rs as [|x rs']; [|apply Hv'; discriminate]. cbn in Et'. injection Et' as <-. rewrite <- Et. exact Hv0.
  Qed.
  Theorem seal_creates_shape kids h0 req0 nd0 ip ifl rs :
    wf_tree C (Dir None kids) -> load C cdig (Dir None kids) = inl [h0] -> req0 <> [] -> Forall (fun x => fst x <> []) rs ->
    let r0 := create_folder Hb matches C cdig ser (Dir None kids) req0 nd0 false ip ifl in
    let r := run_creates Hb matches C cdig ser (fst r0) rs in
    exists old', fst r = Dir (Some old') kids /\
      (forall p x, find (PackFacts.at_path p) (scan (loaded_gens C old')) = Some x -> is_original (snd x) = true) /\
      (forall g rec e, In g (loaded_gens C old') -> In rec (g_records g) -> r_dir rec = true -> In e (r_entries rec) -> e_action e = None).
  Proof.
    intros Hwf Hl Hreq Hrs. cbn zeta.
    destruct (seal_creates_state kids h0 req0 nd0 ip ifl rs Hwf Hl Hreq Hrs) as [old' [Et [[_ [Hf [Hd _]]] _]]].
    exists old'. split; [exact Et|]. split; [exact Hf|exact Hd].
  Qed.
  Theorem seal_creates_flatten_verify_pl kids h0 req0 nd0 ip ifl rs doc :
    wf_tree C (Dir None kids) -> load C cdig (Dir None kids) = inl [h0] -> req0 <> [] -> Forall (fun x => fst x <> []) rs ->
    let r0 := create_folder Hb matches C cdig ser (Dir None kids) req0 nd0 false ip ifl in
    let r := run_creates Hb matches C cdig ser (fst r0) rs in
    In ([], doc) (o_written (snd (flatten C cdig (fst r) [] []))) ->
    o_outcome (snd (verify_pl Hb matches C (fst r) (Some doc) [] [])) = Exit 0.
  Proof.
    intros Hwf Hl Hreq Hrs. cbn zeta.
    destruct (seal_creates_state kids h0 req0 nd0 ip ifl rs Hwf Hl Hreq Hrs) as [old' [Et [Hs Hv]]]. cbn zeta in Et, Hv.
    rewrite Et in *. intros Hin. eapply flat_state_flatten_verify_pl; eauto.
  Qed.
  (* ... and an altered file is caught: from such a state, a file the traversal reaches, its bytes replaced (whatever
     else happened to the tree the packing list is then verified against): exit 11 and the file is reported *)
  Theorem flat_state_flatten_verify_pl_altered n old kids doc t' p c c' :
    flat_state2 n old kids ->
    verify_result Hb matches C cdig false (Dir (Some old) kids) [] [] = Some (mkVR 0 [] [] []) ->
    In ([], doc) (o_written (snd (flatten C cdig (Dir (Some old) kids) [] []))) ->
    In (p, c) (ev_files (events (set_patterns (latest_patterns (loaded_gens C old)) [] (pattern_file_lines [])) [] (Dir (Some old) kids))) ->
    In (p, c') (ev_files (events (set_patterns (g_patterns doc) [] (pattern_file_lines [])) [] t')) ->
    (forall f, digest_text Hb f c' <> digest_text Hb f c) ->
    let o := snd (verify_pl Hb matches C t' (Some doc) [] []) in
    o_outcome o = Exit 11 /\ In p (o_mismatch o).
  Proof.
    intros [[Hwf [Hl [[Hw [Hnp [Hall Hrefs]]] Hcompl]]] [Hfirst [Hdir Hpat]]] Hv Hin Hpc Hpc' Hcol.
    set (h := lhist_of C [] None (Some old)) in *. set (t := Dir (Some old) kids) in *.
    assert (Hg : lh_gens (root_hist [h]) <> []).
    { unfold verify_result in Hv. rewrite Hl in Hv. destruct (lh_gens (root_hist [h])); [discriminate|discriminate]. }
    destruct (verifies_consistent t [h] [] [] Hl Hg Hv) as [Hfiles _]. change (root_hist [h]) with h in Hfiles, Hg.
    destruct (Hfiles p c Hpc) as [e0 [Hr0 _]]. destruct Hall as [Hprev Hdig].
    rewrite (reference_flat h p eq_refl Hprev) in Hr0.
    destruct (ev_files_get matches C _ t [] p c Hwf Hpc) as [rel [E Hgt]]. cbn [app] in E. subst rel.
    assert (Hp : p <> []) by (intros ->; cbn in Hgt; discriminate).
    rewrite (flatten_writes_pl_gen C cdig t h doc Hl Hin) in *.
    apply (flatten_then_verify_pl_altered Hb matches C t t' h _ p c c' eq_refl (conj Hprev Hdig) Hfirst Hdir Hp Hgt); [|exact Hpc'|exact Hcol].
    change (lh_gens h) with (loaded_gens C old) in *. congruence.
  Qed.
End PackEndToEnd.
