(* C06: numbering without gaps, append-only manifests and chain, sorted reload. *)
From Coq Require Import Lia Permutation Sorting.Sorted.
From MHL Require Import Model.Create Gen.Generated Proofs.BaseFacts Proofs.LoadFacts Proofs.CommitFacts.

Definition nums_from (a n : nat) : list N := map N.of_nat (seq a n).
Definition nums (n : nat) : list N := nums_from 1 n.
Lemma nums_S n : nums (S n) = nums n ++ [N.of_nat (S n)].
Proof. unfold nums, nums_from. rewrite seq_S, map_app. reflexivity. Qed.
Lemma nums_In n x : In x (nums n) -> (1 <= x <= N.of_nat n)%N.
Proof. unfold nums, nums_from. rewrite in_map_iff. intros [k [<- Hk]]. apply in_seq in Hk. lia. Qed.

Lemma insert_hd {A} (leb : A -> A -> bool) x l : HdRel (le leb) x l -> insert leb x l = x :: l.
Proof. destruct l as [|y l]; [reflexivity|]. intros H. inversion H as [|? ? Hxy]; subst. cbn. unfold le in Hxy. rewrite Hxy. reflexivity. Qed.
Lemma sort_sorted_id {A} (leb : A -> A -> bool) l : Sorted (le leb) l -> sort leb l = l.
Proof. induction 1 as [|x l Hs IH Hh]; [reflexivity|]. unfold sort in *. cbn [fold_right]. rewrite IH. apply insert_hd. exact Hh. Qed.

Lemma gens_sorted_of_nums : forall (l : list gen) a n, map g_no l = nums_from a n -> Sorted (le gen_leb) l.
Proof.
  induction l as [|g l IH]; intros a n H; [constructor|].
  destruct n as [|n]; [discriminate|]. unfold nums_from in H. cbn [seq map] in H. injection H as Hg Hl.
  constructor; [eapply (IH (S a) n); exact Hl|].
  destruct l as [|g' l']; [constructor|]. constructor. destruct n as [|n]; [discriminate|]. cbn [seq map] in Hl. injection Hl as Hg' _.
  unfold le, gen_leb. rewrite Hg, Hg'. apply N.leb_le. lia.
Qed.

Lemma latest_app gens g : latest_generation_number (gens ++ [g]) = if N.eqb (g_no g) 0 then latest_generation_number gens else g_no g.
Proof. unfold latest_generation_number. rewrite fold_left_app. reflexivity. Qed.
Lemma latest_of_nums : forall n (gens : list gen), map g_no gens = nums n -> latest_generation_number gens = N.of_nat n.
Proof.
  induction n as [|n IH]; intros gens H.
  - destruct gens; [reflexivity|discriminate].
  - rewrite nums_S in H.
    assert (exists gs g, gens = gs ++ [g]) as [gs [g ->]].
    { destruct gens as [|g0 gs0] using rev_ind; [destruct (nums n); discriminate|eauto]. }
    rewrite map_app in H. cbn [map] in H. apply app_inj_tail in H. destruct H as [H1 H2].
    rewrite latest_app, H2. destruct (N.eqb_spec (N.of_nat (S n)) 0); [lia|reflexivity].
Qed.

Section Hist.
  Variable C : Type.
  Variable cdig : C -> text.
  Variable ser : gen -> C.
  Notation hist := (hist C).

  (* a history as the tool leaves it: manifests numbered 1..n, the chain lists exactly them in order, and every chain
     entry carries the digest of its manifest's content *)
  Definition wellformed (n : nat) (h : hist) : Prop :=
    map (mf_no C) (h_files C h) = nums n /\
    exists ces, h_chain C h = Some ces /\ map ce_seq ces = nums n /\ map ce_file ces = nums n /\
                check_entries C cdig (h_files C h) ces = None.

  (* reloading yields generations 1..n in ascending order *)
  Theorem reload_ascending n h : wellformed n h -> map g_no (loaded_gens C h) = nums n /\ Sorted (le gen_leb) (loaded_gens C h).
  Proof.
    intros [Hf _]. unfold loaded_gens.
    set (l := map _ (h_files C h)).
    assert (Hl : map g_no l = nums n) by (unfold l; rewrite map_map; cbn [g_no]; exact Hf).
    assert (Hs : Sorted (le gen_leb) l) by (eapply gens_sorted_of_nums; exact Hl).
    rewrite (sort_sorted_id gen_leb l Hs). auto.
  Qed.
  (* whatever order the folder is listed in: the sort makes the result independent of it *)
  Theorem reload_sorted_any_order h : Sorted (le gen_leb) (loaded_gens C h).
  Proof.
    unfold loaded_gens. apply sort_sorted.
    - intros a b. unfold gen_leb. destruct (N.leb_spec (g_no a) (g_no b)); [left; reflexivity|right; apply N.leb_le; lia].
  Qed.

  Lemma find_app_l {A} (f : A -> bool) l l' x : find f l = Some x -> find f (l ++ l') = Some x.
  Proof. induction l as [|y l IH]; cbn; [discriminate|]. destruct (f y); auto. Qed.
  Lemma find_app_r {A} (f : A -> bool) l l' : (forall y, In y l -> f y = false) -> find f (l ++ l') = find f l'.
  Proof. induction l as [|y l IH]; cbn; intros H; [reflexivity|]. rewrite (H y (or_introl eq_refl)). apply IH. intros z Hz. apply H. right. exact Hz. Qed.

  (* one history's commit: the history it leaves behind *)
  Definition after_commit (h : hist) (doc : gen) : hist :=
    mkHist C (h_files C h ++ [mkMfile C (g_no doc) (ser doc) doc])
             (Some (match h_chain C h with Some c => c | None => [] end ++ [mkCentry (g_no doc) (g_no doc) (cdig (ser doc))])).

  (* C06: creating a generation keeps every existing manifest (the old file list is a prefix, bytes untouched), adds
     exactly one manifest numbered n+1, keeps every earlier chain entry unchanged and in order and appends exactly
     one entry whose number, file and digest are those of the new manifest; the result is again well-formed *)
  Theorem commit_appends n h doc :
    wellformed n h -> g_no doc = (latest_generation_number (loaded_gens C h) + 1)%N ->
    g_no doc = N.of_nat (S n) /\
    (exists new, h_files C (after_commit h doc) = h_files C h ++ [new] /\ mf_no C new = N.of_nat (S n) /\ mf_content C new = ser doc) /\
    (exists ces, h_chain C h = Some ces /\
                 h_chain C (after_commit h doc) = Some (ces ++ [mkCentry (N.of_nat (S n)) (N.of_nat (S n)) (cdig (ser doc))])) /\
    wellformed (S n) (after_commit h doc).
  Proof.
    intros Hw Hno. pose proof (reload_ascending n h Hw) as [Hnums _].
    rewrite (latest_of_nums n _ Hnums) in Hno.
    assert (Hno' : g_no doc = N.of_nat (S n)) by lia.
    destruct Hw as [Hf [ces [Hc [Hseq [Hfile Hchk]]]]].
    split; [exact Hno'|]. split; [|split].
    - eexists. split; [reflexivity|]. cbn. auto.
    - exists ces. split; [exact Hc|]. unfold after_commit. rewrite Hc, Hno'. reflexivity.
    - unfold wellformed, after_commit. cbn [h_files h_chain]. rewrite Hc. split.
      + rewrite map_app, Hf. cbn [map mf_no]. rewrite Hno', nums_S. reflexivity.
      + eexists. split; [reflexivity|]. rewrite !map_app, Hseq, Hfile. cbn [map ce_seq ce_file]. rewrite Hno', nums_S.
        split; [reflexivity|]. split; [reflexivity|].
        apply check_entries_ok. intros ce Hin. apply in_app_or in Hin. destruct Hin as [Hin|[<-|[]]].
        * pose proof (proj1 (check_entries_ok C cdig _ _) Hchk ce Hin) as [m [Hm Hd]].
          exists m. split; [apply find_app_l; exact Hm|exact Hd].
        * cbn [ce_file ce_digest]. eexists. split.
          -- rewrite find_app_r.
             ++ cbn [find mf_no]. rewrite N.eqb_refl. reflexivity.
             ++ intros y Hy. apply N.eqb_neq. assert (In (mf_no C y) (nums n)) by (rewrite <- Hf; apply in_map; exact Hy).
                apply nums_In in H. lia.
          -- reflexivity.
  Qed.

  (* the empty history (no manifest, empty chain) is well-formed with n = 0; so by induction every history the model
     builds from nothing by any sequence of commits is numbered 1..n without gaps *)
  Theorem wellformed_empty : wellformed 0 (mkHist C [] (Some [])).
  Proof. unfold wellformed. cbn. split; [reflexivity|]. exists []. repeat split; reflexivity. Qed.
  Fixpoint commits (h : hist) (docs : list (N -> gen)) : hist :=
    match docs with
    | [] => h
    | mk :: rest => commits (after_commit h (mk (latest_generation_number (loaded_gens C h) + 1)%N)) rest
    end.
  Theorem commits_wellformed : forall docs n h, (forall mk no, In mk docs -> g_no (mk no) = no) ->
    wellformed n h -> wellformed (n + length docs) (commits h docs).
  Proof.
    induction docs as [|mk docs IH]; intros n h Hmk Hw; cbn [commits length].
    - rewrite Nat.add_0_r. exact Hw.
    - replace (n + S (length docs)) with (S n + length docs) by lia. apply IH.
      + intros mk' no Hin. apply Hmk. right. exact Hin.
      + apply commit_appends; [exact Hw|]. apply Hmk. left. reflexivity.
  Qed.
End Hist.

(* the history value that commit_one puts into the tree (Proofs/CommitFacts.commit_case) is `after_commit` *)
Lemma commit_hist_is_after_commit C cdig ser (old : hist C) doc p par :
  mkHist C (h_files C old ++ [mkMfile C (g_no doc) (ser doc) doc])
         (Some (lh_chain (lhist_of C p par (Some old)) ++ [mkCentry (g_no doc) (g_no doc) (cdig (ser doc))]))
  = after_commit C cdig ser old doc.
Proof. reflexivity. Qed.
Lemma new_doc_number_is C (old : hist C) proc nl recs sp refs p par :
  g_no (new_doc proc nl recs sp refs (lhist_of C p par (Some old))) = (latest_generation_number (loaded_gens C old) + 1)%N.
Proof. reflexivity. Qed.
