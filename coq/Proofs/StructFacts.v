(* C07: the structure hash binds names -- renaming any file or folder at any depth changes the structure hash of every
   enclosing folder, OR exhibits an explicit collision of the hash primitive.  Needs: the UTF-8 encoder is injective. *)
From Coq Require Import Lia Permutation ZArith ZifyBool ZifyN.
From MHL Require Import Model.Commands Proofs.BaseFacts Proofs.CodecFacts Proofs.DirHashFacts Proofs.SensFacts.
Ltac Zify.zify_post_hook ::= Z.to_euclidean_division_equations.

(* ---- UTF-8 is a prefix code on code points below 2^21 ---- *)
Definition valid_cp (c : N) : Prop := (c < 2097152)%N.
Lemma cons_inj {A} (a b : A) l l' : a :: l = b :: l' -> a = b /\ l = l'.
Proof. intros H. injection H. auto. Qed.
Lemma utf8_cp_prefix c c' r r' : valid_cp c -> valid_cp c' -> utf8_cp c ++ r = utf8_cp c' ++ r' -> c = c' /\ r = r'.
Proof.
  unfold valid_cp, utf8_cp. intros Hc Hc'.
  destruct (c <? 128)%N eqn:E1; [|destruct (c <? 2048)%N eqn:E2; [|destruct (c <? 65536)%N eqn:E3]];
  (destruct (c' <? 128)%N eqn:F1; [|destruct (c' <? 2048)%N eqn:F2; [|destruct (c' <? 65536)%N eqn:F3]]);
  cbn [app]; intros H;
  repeat match goal with H : _ :: _ = _ :: _ |- _ => apply cons_inj in H; let H1 := fresh "Hb" in destruct H as [H1 H] end;
  try (split; [lia|assumption]); exfalso; lia.
Qed.
Theorem utf8_inj : forall t t', Forall valid_cp t -> Forall valid_cp t' -> utf8 t = utf8 t' -> t = t'.
Proof.
  assert (Hne : forall c, utf8_cp c <> []) by (intros c; unfold utf8_cp; destruct (c <? 128)%N, (c <? 2048)%N, (c <? 65536)%N; discriminate).
  induction t as [|c t IH]; intros [|c' t'] Ht Ht' H; cbn [utf8 flat_map] in H.
  - reflexivity.
  - exfalso. destruct (utf8_cp c') eqn:E; [apply (Hne c'); exact E|discriminate].
  - exfalso. destruct (utf8_cp c) eqn:E; [apply (Hne c); exact E|discriminate].
  - inversion Ht; inversion Ht'; subst. fold (utf8 t) in H. fold (utf8 t') in H.
    destruct (utf8_cp_prefix c c' (utf8 t) (utf8 t')) as [-> Hr]; auto. f_equal. apply IH; auto.
Qed.

Section Struct.
  Variable Hb : fmt -> bytes -> bytes.
  Hypothesis Hw : forall f b, Forall is_byte (Hb f b) /\ length (Hb f b) = width f.
  Notation D f x := (digest_text Hb f x).
  Notation collision := (collision Hb).
  Notation isd := (isd Hb).

  (* both hashes of every tree are digests *)
  Lemma vhash_isd f : forall t c s, vhash Hb f t = Some (c, s) -> isd f c /\ isd f s.
  Proof.
    intros t c s H. destruct t as [c0|kids].
    - cbn in H. injection H as <- <-. split; exists c0; reflexivity.
    - rewrite vhash_dir in H. unfold combine_level in H.
      destruct (opt_all (map snd _)) as [hs|]; [|discriminate]. destruct (opt_all (map _ _)) as [ss|] eqn:Es; [|discriminate].
      destruct (hash_of_hash_list Hb f (map fst hs)) as [ch|] eqn:E1; [|discriminate].
      destruct (hash_of_hash_list Hb f ss) as [sh|] eqn:E2; [|discriminate]. injection H as <- <-.
      unfold hash_of_hash_list in E1, E2.
      destruct (dec_all f (sort_text (map fst hs))); [|discriminate]. destruct (dec_all f (sort_text ss)); [|discriminate].
      injection E1 as <-. injection E2 as <-. split; eexists; reflexivity.
  Qed.
  (* a structure item is the digest of name bytes ++ decoded child digest *)
  Lemma structure_item_digest f n x : structure_item Hb f n (D f x) = Some (D f (utf8 n ++ Hb f x)).
  Proof.
    unfold structure_item, digest_text. destruct (Hw f x) as [H1 H2]. rewrite (dec_enc f _ H1 H2). reflexivity.
  Qed.
  Lemma structure_item_inj f n x n' x' : Forall valid_cp n -> Forall valid_cp n' ->
    D f (utf8 n ++ Hb f x) = D f (utf8 n' ++ Hb f x') -> (n = n' /\ Hb f x = Hb f x') \/ collision f.
  Proof.
    intros Hn Hn' H. apply (digest_inj Hb Hw) in H. destruct H as [H|H]; [left|right; exact H].
    destruct (Hw f x) as [_ L1]. destruct (Hw f x') as [_ L2].
    assert (Hl : length (utf8 n) = length (utf8 n')).
    { apply (f_equal (@length N)) in H. rewrite !app_length, L1, L2 in H. lia. }
    destruct (app_inj_len _ _ _ _ Hl H) as [E1 E2]. split; [apply utf8_inj; assumption|exact E2].
  Qed.
  Definition sitems (f : fmt) (kids : list (text * vt)) : list (option text) :=
    map (fun nk => match vhash Hb f (snd nk) with Some cs => structure_item Hb f (fst nk) (snd cs) | None => None end) kids.
  Lemma vhash_struct f kids c s : vhash Hb f (VD kids) = Some (c, s) ->
    exists ss, opt_all (sitems f kids) = Some ss /\ hash_of_hash_list Hb f ss = Some s.
  Proof.
    rewrite vhash_dir. unfold combine_level. rewrite !map_map. cbn [fst snd].
    destruct (opt_all (map (fun x => vhash Hb f (snd x)) kids)) as [hs|]; [|discriminate].
    fold (sitems f kids). destruct (opt_all (sitems f kids)) as [ss|]; [|discriminate].
    destruct (hash_of_hash_list Hb f (map fst hs)); [|discriminate]. destruct (hash_of_hash_list Hb f ss) as [sh|] eqn:E; [|discriminate].
    intros [= _ <-]. eauto.
  Qed.
  Lemma sitem_digest f n k i : (match vhash Hb f k with Some cs => structure_item Hb f n (snd cs) | None => None end) = Some i ->
    exists ck x, vhash Hb f k = Some (ck, D f x) /\ i = D f (utf8 n ++ Hb f x).
  Proof.
    destruct (vhash Hb f k) as [[ck sk]|] eqn:E; [|discriminate]. destruct (vhash_isd f k ck sk E) as [_ [x ->]].
    cbn [snd]. rewrite structure_item_digest. intros [= <-]. eauto.
  Qed.
  Lemma sitems_isd f kids ss : opt_all (sitems f kids) = Some ss -> Forall (isd f) ss.
  Proof.
    revert ss. induction kids as [|[n k] kids IH]; intros ss H; cbn [sitems map] in H.
    - cbn in H. injection H as <-. constructor.
    - rewrite opt_all_cons in H. cbn [fst snd] in H.
      destruct (match vhash Hb f k with Some cs => structure_item Hb f n (snd cs) | None => None end) as [i|] eqn:Ei; [|discriminate].
      fold (sitems f kids) in H. destruct (opt_all (sitems f kids)) as [rest|]; [|discriminate]. injection H as <-.
      destruct (sitem_digest f n k i Ei) as [ck [x [_ ->]]]. constructor; [eexists; reflexivity|apply IH; reflexivity].
  Qed.

  (* t' is t with one entry renamed, at any depth (same contents, same position) *)
  Inductive renamed1 : vt -> vt -> Prop :=
  | r_here l1 n n' k l2 : n <> n' -> Forall valid_cp n -> Forall valid_cp n' ->
      renamed1 (VD (l1 ++ (n, k) :: l2)) (VD (l1 ++ (n', k) :: l2))
  | r_down l1 n k k' l2 : Forall valid_cp n -> renamed1 k k' -> renamed1 (VD (l1 ++ (n, k) :: l2)) (VD (l1 ++ (n, k') :: l2)).

  Lemma sitems_split f l1 n k l2 ss : opt_all (sitems f (l1 ++ (n, k) :: l2)) = Some ss ->
    exists s1 i s2, opt_all (sitems f l1) = Some s1 /\ opt_all (sitems f l2) = Some s2 /\ ss = s1 ++ i :: s2 /\
      (match vhash Hb f k with Some cs => structure_item Hb f n (snd cs) | None => None end) = Some i.
  Proof.
    unfold sitems. rewrite map_app. cbn [map fst snd]. rewrite opt_all_app, opt_all_cons. fold (sitems f l1). fold (sitems f l2).
    destruct (opt_all (sitems f l1)) as [s1|]; [|discriminate].
    destruct (match vhash Hb f k with Some cs => structure_item Hb f n (snd cs) | None => None end) as [i|]; [|discriminate].
    destruct (opt_all (sitems f l2)) as [s2|]; [|discriminate]. intros [= <-]. exists s1, i, s2. auto.
  Qed.

  Theorem struct_sensitive f : forall t t', renamed1 t t' -> forall c s c' s',
    vhash Hb f t = Some (c, s) -> vhash Hb f t' = Some (c', s') -> s = s' -> collision f.
  Proof.
    induction 1 as [l1 n n' k l2 Hne Hn Hn' | l1 n k k' l2 Hn Hr IH]; intros c s c' s' H1 H2 Hs; subst s'.
    - destruct (vhash_struct f _ c s H1) as [ss [E1 Hh1]]. destruct (vhash_struct f _ c' s H2) as [ss' [E2 Hh2]].
      pose proof (sitems_isd f _ ss E1) as I1. pose proof (sitems_isd f _ ss' E2) as I2.
      destruct (sitems_split f l1 n k l2 ss E1) as [s1 [i [s2 [A1 [A2 [-> Ai]]]]]].
      destruct (sitems_split f l1 n' k l2 ss' E2) as [s1' [i' [s2' [B1 [B2 [-> Bi]]]]]].
      rewrite A1 in B1. injection B1 as <-. rewrite A2 in B2. injection B2 as <-.
      assert (Hh : hash_of_hash_list Hb f (s1 ++ i :: s2) = hash_of_hash_list Hb f (s1 ++ i' :: s2)) by congruence.
      apply (hash_of_hash_list_inj Hb (fun _ _ => false) Hw f _ _ I1 I2) in Hh. destruct Hh as [Hp|Hc]; [|exact Hc].
      apply (perm_replace_eq Hb (fun _ _ => false) Hw) in Hp.
      destruct (sitem_digest f n k i Ai) as [ck [x [Hk ->]]]. destruct (sitem_digest f n' k i' Bi) as [ck' [x' [Hk' ->]]].
      destruct (structure_item_inj f n x n' x' Hn Hn' Hp) as [[E _]|Hc]; [contradiction|exact Hc].
    - destruct (vhash_struct f _ c s H1) as [ss [E1 Hh1]]. destruct (vhash_struct f _ c' s H2) as [ss' [E2 Hh2]].
      pose proof (sitems_isd f _ ss E1) as I1. pose proof (sitems_isd f _ ss' E2) as I2.
      destruct (sitems_split f l1 n k l2 ss E1) as [s1 [i [s2 [A1 [A2 [-> Ai]]]]]].
      destruct (sitems_split f l1 n k' l2 ss' E2) as [s1' [i' [s2' [B1 [B2 [-> Bi]]]]]].
      rewrite A1 in B1. injection B1 as <-. rewrite A2 in B2. injection B2 as <-.
      assert (Hh : hash_of_hash_list Hb f (s1 ++ i :: s2) = hash_of_hash_list Hb f (s1 ++ i' :: s2)) by congruence.
      apply (hash_of_hash_list_inj Hb (fun _ _ => false) Hw f _ _ I1 I2) in Hh. destruct Hh as [Hp|Hc]; [|exact Hc].
      apply (perm_replace_eq Hb (fun _ _ => false) Hw) in Hp.
      destruct (sitem_digest f n k i Ai) as [ck [x [Hk ->]]]. destruct (sitem_digest f n k' i' Bi) as [ck' [x' [Hk' ->]]].
      destruct (structure_item_inj f n x n x' Hn Hn Hp) as [[_ E]|Hc]; [|exact Hc].
      apply (IH ck (D f x) ck' (D f x') Hk Hk'). unfold digest_text. rewrite E. reflexivity.
  Qed.
End Struct.

(* C07 / C09: a recorded directory entry whose structure hash was taken before an entry below the folder was renamed
   fails the comparison afterwards -- or a collision is exhibited *)
Section DhStruct.
  Variable Hb : fmt -> bytes -> bytes.
  Variable matches : list text -> text -> bool.
  Variable C : Type.
  Hypothesis Hw : forall f b, Forall is_byte (Hb f b) /\ length (Hb f b) = width f.
  Theorem dirhash_struct_sensitive spec f p (d d' : node C) c s c' s' :
    renamed1 (prune matches C spec p d) (prune matches C spec p d') ->
    dirhash Hb matches C spec f p d = Some (c, s) -> dirhash Hb matches C spec f p d' = Some (c', s') -> s = s' -> collision Hb f.
  Proof.
    intros Hr H1 H2 Hs. rewrite dirhash_is_definition in H1, H2. eapply (struct_sensitive Hb Hw f); eauto.
  Qed.
  Theorem renamed_entry_fails spec f p (d d' : node C) e c s cs' :
    renamed1 (prune matches C spec p d) (prune matches C spec p d') ->
    dirhash Hb matches C spec f p d = Some (c, s) -> dirhash Hb matches C spec f p d' = Some cs' ->
    e_struct e = Some s -> dh_entry_ok e cs' = false \/ collision Hb f.
  Proof.
    intros Hr H1 H2 He. destruct cs' as [c' s'].
    destruct (text_eqb_spec s s') as [E|E].
    - right. eapply dirhash_struct_sensitive; eauto.
    - left. unfold dh_entry_ok. rewrite He. cbn [snd]. destruct (text_eqb_spec s s'); [contradiction|]. apply andb_false_r.
  Qed.
End DhStruct.
