(* The traversal (traverse.post_order_lexicographic as `events`): what it hands to the commands is exactly the
   set of entries no ignore pattern excludes -- each once -- whatever the order in which the OS lists a folder. *)
From Coq Require Import Lia Permutation Sorting.Sorted.
From MHL Require Import Model.Create Proofs.BaseFacts.

Section NodeInd.
  Variable C : Type.
  Variable P : node C -> Prop.
  Hypothesis HF : forall c, P (File c).
  Hypothesis HD : forall h kids, Forall (fun nk => P (snd nk)) kids -> P (Dir h kids).
  Fixpoint node_ind' (t : node C) : P t :=
    match t with
    | File c => HF c
    | Dir h kids =>
        HD h kids ((fix go (ks : list (text * node C)) : Forall (fun nk => P (snd nk)) ks :=
                      match ks with
                      | [] => Forall_nil _
                      | nk :: ks' => Forall_cons nk (node_ind' (snd nk)) (go ks')
                      end) kids)
    end.
End NodeInd.

(* ---- generic list facts ---- *)
Lemma flat_map_perm {A B} (f : A -> list B) l l' : Permutation l l' -> Permutation (flat_map f l) (flat_map f l').
Proof.
  induction 1 as [|x l l' _ IH|x y l|l l' l'' _ IH1 _ IH2]; cbn; auto.
  - apply Permutation_app_head. exact IH.
  - rewrite !app_assoc. apply Permutation_app_tail. apply Permutation_app_comm.
  - etransitivity; eauto.
Qed.
Lemma filter_perm {A} (f : A -> bool) l l' : Permutation l l' -> Permutation (filter f l) (filter f l').
Proof.
  induction 1 as [|x l l' _ IH|x y l|l l' l'' _ IH1 _ IH2]; cbn; auto.
  - destruct (f x); auto.
  - destruct (f x), (f y); auto. apply perm_swap.
  - etransitivity; eauto.
Qed.
Lemma flat_map_app_perm {A B} (a b : A -> list B) l :
  Permutation (flat_map (fun x => a x ++ b x) l) (flat_map a l ++ flat_map b l).
Proof.
  induction l as [|x l IH]; cbn; auto.
  rewrite <- !app_assoc. apply Permutation_app_head.
  rewrite IH. rewrite !app_assoc. apply Permutation_app_tail. apply Permutation_app_comm.
Qed.
Lemma flat_map_filter {A B} (f : A -> bool) (g : A -> list B) l :
  flat_map g (filter f l) = flat_map (fun x => if f x then g x else []) l.
Proof. induction l as [|x l IH]; cbn; auto. destruct (f x); cbn; rewrite IH; reflexivity. Qed.
Lemma flat_map_singleton {A B} (f : A -> B) l : flat_map (fun x => [f x]) l = map f l.
Proof. induction l; cbn; congruence. Qed.
Lemma flat_map_ext_in {A B} (f g : A -> list B) l : (forall x, In x l -> f x = g x) -> flat_map f l = flat_map g l.
Proof. induction l as [|x l IH]; cbn; intros H; auto. rewrite H, IH; auto. Qed.
Lemma flat_map_map {A B D} (f : A -> B) (g : B -> list D) l : flat_map g (map f l) = flat_map (fun x => g (f x)) l.
Proof. induction l; cbn; congruence. Qed.

(* sorting by a key: the result does not depend on the input order when the keys are pairwise distinct *)
Section KeySort.
  Context {A K : Type} (key : A -> K) (kleb : K -> K -> bool).
  Hypothesis kleb_total : forall a b, kleb a b = true \/ kleb b a = true.
  Hypothesis kleb_trans : forall a b c, kleb a b = true -> kleb b c = true -> kleb a c = true.
  Hypothesis kleb_antisym : forall a b, kleb a b = true -> kleb b a = true -> a = b.
  Definition leb_k (a b : A) : bool := kleb (key a) (key b).

  Lemma NoDup_key_inj l x y : NoDup (map key l) -> In x l -> In y l -> key x = key y -> x = y.
  Proof.
    induction l as [|z l IH]; cbn; [tauto|]. intros Hn Hx Hy Hk. inversion Hn as [|? ? Hnin Hn']; subst.
    destruct Hx as [->|Hx], Hy as [->|Hy]; auto.
    - exfalso. apply Hnin. rewrite Hk. apply in_map. exact Hy.
    - exfalso. apply Hnin. rewrite <- Hk. apply in_map. exact Hx.
  Qed.

  Lemma sorted_perm_eq_key : forall l l', NoDup (map key l) ->
    Sorted (le leb_k) l -> Sorted (le leb_k) l' -> Permutation l l' -> l = l'.
  Proof.
    induction l as [|x l IH]; intros l' Hn Hs Hs' Hp.
    - apply Permutation_nil in Hp; auto.
    - destruct l' as [|y l']; [apply Permutation_sym, Permutation_nil in Hp; discriminate|].
      assert (Htr : forall a b c, le leb_k a b -> le leb_k b c -> le leb_k a c) by (unfold le, leb_k; intros a b c; apply kleb_trans).
      apply Sorted_StronglySorted in Hs; [|exact Htr]. apply Sorted_StronglySorted in Hs'; [|exact Htr].
      inversion Hs as [|? ? Hsl Hfx]; inversion Hs' as [|? ? Hsl' Hfy]; subst.
      assert (x = y).
      { assert (Hx : In x (y :: l')) by (eapply Permutation_in; [exact Hp|left; auto]).
        assert (Hy : In y (x :: l)) by (eapply Permutation_in; [apply Permutation_sym; exact Hp|left; auto]).
        apply (NoDup_key_inj (x :: l)); auto; [left; reflexivity|].
        cbn in Hx, Hy. destruct Hx as [->|Hx]; auto. destruct Hy as [->|Hy]; auto.
        rewrite Forall_forall in Hfx, Hfy. apply kleb_antisym; [apply Hfx|apply Hfy]; auto. }
      subst y. f_equal. apply IH; try apply StronglySorted_Sorted; auto.
      + cbn in Hn. inversion Hn; auto.
      + eapply Permutation_cons_inv; eauto.
  Qed.
  Theorem sort_key_canonical l l' : NoDup (map key l) -> Permutation l l' -> sort leb_k l = sort leb_k l'.
  Proof.
    intros Hn Hp.
    assert (Htot : forall a b, leb_k a b = true \/ leb_k b a = true) by (unfold leb_k; intros; apply kleb_total).
    apply sorted_perm_eq_key.
    - eapply Permutation_NoDup; [|exact Hn]. apply Permutation_map. apply sort_perm.
    - apply sort_sorted; auto.
    - apply sort_sorted; auto.
    - rewrite <- sort_perm, <- sort_perm. exact Hp.
  Qed.
End KeySort.

Lemma sort_names_canonical {A} (l l' : list (text * A)) :
  NoDup (map fst l) -> Permutation l l' -> sort name_leb l = sort name_leb l'.
Proof.
  intros Hn Hp. change (@name_leb A) with (leb_k (@fst text A) lexb).
  apply sort_key_canonical; auto; [exact lexb_total|exact lexb_trans|exact lexb_antisym].
Qed.

(* ---- the traversal ------------------------------------------------------------------------------------ *)
Section Traverse.
  Variable matches : list text -> text -> bool.
  Variable C : Type.
  Notation node := (node C).
  Notation events := (events matches C).
  Notation ignored := (ignored matches).

  Definition subs (spec : list text) (p : path) (kids : list (text * node)) : list (text * (node * list (ev))) :=
    map (fun nk => (fst nk, (snd nk, events spec (p ++ [fst nk]) (snd nk)))) kids.
  Definition is_dir (t : node) : bool := match t with Dir _ _ => true | File _ => false end.
  Definition vis_of (spec : list text) (p : path) (kids : list (text * node)) :=
    filter (fun x : text * (node * list ev) => negb (ignored spec (p ++ [fst x]))) (sort name_leb (subs spec p kids)).

  Lemma events_dir spec p h kids :
    events spec p (Dir h kids) =
    flat_map (fun x => match fst (snd x) with Dir _ _ => snd (snd x) | File _ => [] end) (vis_of spec p kids)
    ++ flat_map (fun x => match fst (snd x) with File c => [EvFile (p ++ [fst x]) c] | Dir _ _ => [] end) (vis_of spec p kids)
    ++ [EvDir p (map (fun x => (p ++ [fst x], is_dir (fst (snd x)))) (vis_of spec p kids))].
  Proof.
    cbn [Create.events]. unfold vis_of, subs, is_dir.
    match goal with |- context [sort name_leb (?F kids)] =>
      assert (Hgo : forall ks, F ks = map (fun nk => (fst nk, (snd nk, events spec (p ++ [fst nk]) (snd nk)))) ks)
    end.
    { induction ks as [|[n k] ks IH]; cbn [map fst snd]; [reflexivity|]. rewrite IH. reflexivity. }
    rewrite Hgo. reflexivity.
  Qed.

  (* the listing order of a folder is irrelevant (names within a folder are distinct) *)
  Theorem events_listing_order spec p h kids kids' :
    NoDup (map fst kids) -> Permutation kids kids' -> events spec p (Dir h kids) = events spec p (Dir h kids').
  Proof.
    intros Hn Hp. rewrite !events_dir. unfold vis_of.
    replace (sort name_leb (subs spec p kids')) with (sort name_leb (subs spec p kids)); [reflexivity|].
    apply sort_names_canonical.
    - unfold subs. rewrite map_map. cbn [fst]. exact Hn.
    - unfold subs. apply Permutation_map. exact Hp.
  Qed.

  (* ---- specification: the visible entries below a node ---- *)
  Fixpoint entries (spec : list text) (p : path) (t : node) : list (path * bool) :=
    match t with
    | File _ => []
    | Dir _ kids =>
        (fix go (ks : list (text * node)) : list (path * bool) :=
           match ks with
           | [] => []
           | nk :: ks' =>
               (if ignored spec (p ++ [fst nk]) then []
                else (p ++ [fst nk], is_dir (snd nk)) :: entries spec (p ++ [fst nk]) (snd nk)) ++ go ks'
           end) kids
    end.
  Definition entries_of_kid spec p (nk : text * node) : list (path * bool) :=
    if ignored spec (p ++ [fst nk]) then []
    else (p ++ [fst nk], is_dir (snd nk)) :: entries spec (p ++ [fst nk]) (snd nk).
  Lemma entries_dir spec p h kids : entries spec p (Dir h kids) = flat_map (entries_of_kid spec p) kids.
  Proof. cbn [entries]. induction kids as [|nk ks IH]; cbn [flat_map]; [reflexivity|]. rewrite <- IH. reflexivity. Qed.

  (* everything the traversal reports, as (path, is a folder) *)
  Definition reported (evs : list ev) : list (path * bool) :=
    flat_map (fun e => match e with EvDir _ kids => kids | EvFile _ _ => [] end) evs.
  Lemma reported_app a b : reported (a ++ b) = reported a ++ reported b.
  Proof. unfold reported. apply flat_map_app. Qed.

  Lemma reported_flat_map {A} (g : A -> list ev) l : reported (flat_map g l) = flat_map (fun x => reported (g x)) l.
  Proof. induction l as [|x l IH]; cbn [flat_map]; [reflexivity|]. rewrite reported_app, IH. reflexivity. Qed.
  Lemma reported_single p ks : reported [EvDir p ks] = ks.
  Proof. unfold reported. cbn. apply app_nil_r. Qed.
  Lemma flat_map_nil {A B} (g : A -> list B) l : (forall x, g x = []) -> flat_map g l = [].
  Proof. intros H. induction l as [|x l IH]; cbn; [reflexivity|]. rewrite H, IH. reflexivity. Qed.

  (* exactly the visible entries, each exactly once: the traversal reports a permutation of `entries` *)
  Theorem traversal_exact spec : forall t p, Permutation (reported (events spec p t)) (entries spec p t).
  Proof.
    induction t as [c|h kids IH] using node_ind'; intros p; [cbn; constructor|].
    rewrite events_dir, entries_dir, !reported_app, !reported_flat_map, reported_single.
    rewrite (flat_map_nil (fun x : text * (node * list ev) =>
               reported match fst (snd x) with File c => [EvFile (p ++ [fst x]) c] | Dir _ _ => [] end)).
    2:{ intros x. destruct (fst (snd x)); reflexivity. }
    cbn [app]. unfold vis_of.
    set (S := sort name_leb (subs spec p kids)).
    set (f := fun x : text * (node * list ev) => negb (ignored spec (p ++ [fst x]))).
    rewrite flat_map_filter.
    rewrite <- (flat_map_singleton (fun x : text * (node * list ev) => (p ++ [fst x], is_dir (fst (snd x)))) (filter f S)).
    rewrite flat_map_filter.
    rewrite <- flat_map_app_perm.
    transitivity (flat_map (fun x : text * (node * list ev) =>
                              (if f x then reported (match fst (snd x) with Dir _ _ => snd (snd x) | File _ => [] end) else [])
                              ++ (if f x then [(p ++ [fst x], is_dir (fst (snd x)))] else [])) (subs spec p kids)).
    { apply flat_map_perm. apply Permutation_sym. apply sort_perm. }
    unfold subs. rewrite flat_map_map. cbn [fst snd].
    clear S. induction kids as [|nk ks IHk]; cbn [flat_map]; [constructor|].
    inversion IH as [|? ? Hk Hks]; subst. apply Permutation_app; [|apply IHk; exact Hks].
    unfold entries_of_kid, f. cbn [fst]. destruct (ignored spec (p ++ [fst nk])); cbn [negb app]; [constructor|].
    rewrite Permutation_app_comm. cbn [app]. apply perm_skip.
    specialize (Hk (p ++ [fst nk])). destruct (snd nk); [cbn; constructor|exact Hk].
  Qed.

  (* an ignored entry, and everything below an ignored folder, is never reported *)
  Inductive visible (spec : list text) (p : path) : path -> Prop :=
  | vis_kid n : ignored spec (p ++ [n]) = false -> visible spec p (p ++ [n])
  | vis_deeper q n : visible spec p q -> ignored spec (q ++ [n]) = false -> visible spec p (q ++ [n]).
  Lemma visible_trans spec p q r : visible spec p q -> visible spec q r -> visible spec p r.
  Proof. intros Hpq Hqr. induction Hqr; [apply vis_deeper; auto|apply vis_deeper; auto]. Qed.

  Theorem entries_visible spec : forall t p q d, In (q, d) (entries spec p t) -> visible spec p q.
  Proof.
    induction t as [c|h kids IH] using node_ind'; intros p q d; [cbn; tauto|].
    rewrite entries_dir, in_flat_map. intros [nk [Hin Hq]].
    rewrite Forall_forall in IH. specialize (IH nk Hin).
    unfold entries_of_kid in Hq. destruct (ignored spec (p ++ [fst nk])) eqn:Ei; [destruct Hq|].
    destruct Hq as [Hq|Hq].
    - injection Hq as <- _. apply vis_kid. exact Ei.
    - eapply visible_trans; [apply vis_kid; exact Ei|]. eapply IH. exact Hq.
  Qed.
  Corollary reported_visible spec t p q d : In (q, d) (reported (events spec p t)) -> visible spec p q.
  Proof. intros H. eapply entries_visible. eapply Permutation_in; [apply traversal_exact|exact H]. Qed.
End Traverse.

(* ---- well-formed trees: names within a folder are distinct (any real directory) ---- *)
Section WfTree.
  Variable matches : list text -> text -> bool.
  Variable C : Type.
  Notation node := (node C).

  Inductive wf_tree : node -> Prop :=
  | wf_file c : wf_tree (File c)
  | wf_dir h kids : NoDup (map fst kids) -> Forall (fun nk => wf_tree (snd nk)) kids -> wf_tree (Dir h kids).

  Lemma entries_below spec : forall t p q d, In (q, d) (entries matches C spec p t) -> exists n s, q = p ++ n :: s.
  Proof.
    induction t as [c|h kids IH] using node_ind'; intros p q d H; [destruct H|].
    rewrite entries_dir in H. apply in_flat_map in H. destruct H as [nk [Hin Hq]].
    unfold entries_of_kid in Hq. destruct (ignored matches spec (p ++ [fst nk])); [destruct Hq|].
    destruct Hq as [Hq|Hq].
    - injection Hq as <- _. exists (fst nk), []. reflexivity.
    - rewrite Forall_forall in IH. destruct (IH nk Hin _ _ _ Hq) as [n [s ->]]. exists (fst nk), (n :: s).
      rewrite <- app_assoc. reflexivity.
  Qed.
  Lemma entries_of_kid_below spec p nk q d : In (q, d) (entries_of_kid matches C spec p nk) -> exists s, q = p ++ fst nk :: s.
  Proof.
    unfold entries_of_kid. destruct (ignored matches spec (p ++ [fst nk])); [intros []|].
    intros [H|H].
    - injection H as <- _. exists []. reflexivity.
    - destruct (entries_below spec _ _ _ _ H) as [n [s ->]]. exists (n :: s). rewrite <- app_assoc. reflexivity.
  Qed.

  Lemma NoDup_app_intro {A} (a b : list A) : NoDup a -> NoDup b -> (forall x, In x a -> In x b -> False) -> NoDup (a ++ b).
  Proof.
    induction a as [|x a IH]; intros Ha Hb Hd; cbn; [exact Hb|]. inversion Ha; subst. constructor.
    - rewrite in_app_iff. intros [H|H]; [contradiction|]. apply (Hd x); [left; reflexivity|exact H].
    - apply IH; auto. intros y Hy. apply Hd. right. exact Hy.
  Qed.
  Lemma NoDup_flat_map_disjoint {A B} (f : A -> list B) l :
    NoDup l -> (forall x, In x l -> NoDup (f x)) ->
    (forall x y b, In x l -> In y l -> x <> y -> In b (f x) -> In b (f y) -> False) -> NoDup (flat_map f l).
  Proof.
    induction l as [|x l IH]; intros Hn H1 H2; cbn; [constructor|].
    inversion Hn as [|? ? Hx Hn']; subst. apply NoDup_app_intro.
    - apply H1. left. reflexivity.
    - apply IH; auto; [intros a Ha; apply H1; right; exact Ha|]. intros a b c Ha Hb. apply H2; right; assumption.
    - intros b Hb Hb'. apply in_flat_map in Hb'. destruct Hb' as [y [Hy Hby]].
      apply (H2 x y b); auto; [left; reflexivity|right; exact Hy|]. intros ->. contradiction.
  Qed.

  (* in a well-formed tree every visible entry is listed once: together with traversal_exact, the traversal reports
     each non-ignored entry exactly once *)
  Theorem entries_NoDup spec : forall t p, wf_tree t -> NoDup (map fst (entries matches C spec p t)).
  Proof.
    induction t as [c|h kids IH] using node_ind'; intros p Hw; [constructor|].
    inversion Hw as [|? ? Hnames Hkids]; subst.
    rewrite entries_dir, flat_map_concat_map, concat_map, map_map, <- flat_map_concat_map.
    assert (Hnk : NoDup kids).
    { clear -Hnames. induction kids as [|nk ks IHk]; [constructor|]. cbn in Hnames. inversion Hnames; subst.
      constructor; [|apply IHk; assumption]. intros Hin. apply H1. apply in_map. exact Hin. }
    apply NoDup_flat_map_disjoint; [exact Hnk| |].
    - intros nk Hin. unfold entries_of_kid. destruct (ignored matches spec (p ++ [fst nk])); [constructor|].
      cbn [map fst]. constructor.
      + intros Hq. apply in_map_iff in Hq. destruct Hq as [[q d] [Hq1 Hq2]]. cbn in Hq1. subst q.
        destruct (entries_below spec _ _ _ _ Hq2) as [n [s Hs]]. apply (f_equal (@length text)) in Hs.
        rewrite !app_length in Hs. cbn in Hs. lia.
      + rewrite Forall_forall in IH, Hkids. apply IH; auto.
    - intros x y b Hx Hy Hxy Hbx Hby.
      apply in_map_iff in Hbx. destruct Hbx as [[q d] [Hq Hbx]]. apply in_map_iff in Hby. destruct Hby as [[q' d'] [Hq' Hby]].
      cbn in Hq, Hq'. subst q q'.
      destruct (entries_of_kid_below spec p x b d Hbx) as [s Hs]. destruct (entries_of_kid_below spec p y b d' Hby) as [s' Hs'].
      rewrite Hs in Hs'. apply app_inv_head in Hs'. injection Hs' as Hn _.
      apply Hxy. eapply (NoDup_key_inj (@fst text node) kids); eauto.
  Qed.
End WfTree.
