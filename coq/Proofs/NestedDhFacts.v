(* C09 over any nesting: the directory and root hashes a create run records -- in every history it writes into -- are
   those verify -dh computes on the same tree from the same folder, so the invariant `dh_inv_n` is kept by every run and
   verify -dh exits 0 on the result. *)
From Coq Require Import Lia Permutation.
From MHL Require Import Model.Commands Gen.Generated Proofs.BaseFacts Proofs.SealFacts Proofs.RouteFacts Proofs.TreeFacts
  Proofs.IgnoreFacts Proofs.CommitFacts Proofs.CreateFacts Proofs.PartitionFacts Proofs.FreshFacts Proofs.LoadFacts Proofs.HistFacts
  Proofs.VerifyFacts Proofs.DirHashFacts Proofs.InfoFacts Proofs.FlatFacts Proofs.FlatDhFacts Proofs.WorldFacts Proofs.MediaFacts Proofs.ReloadFacts Proofs.NestedFacts.

Section DhMedia.
  Variable Hb : fmt -> bytes -> bytes.
  Variable matches : list text -> text -> bool.
  Variable C : Type.
  Notation node := (node C).

  Theorem dirhash_erase spec f : forall (t : node) p, dirhash Hb matches C spec f p (erase C t) = dirhash Hb matches C spec f p t.
  Proof.
    induction t as [c|h kids IH] using node_ind'; intros p; [reflexivity|].
    rewrite erase_dir. cbn [dirhash].
    match goal with |- match opt_all (map snd (filter ?F (?G1 ?K1))) with _ => _ end = match opt_all (map snd (filter ?F (?G2 ?K2))) with _ => _ end =>
      assert (Hsub : G1 K1 = G2 K2) end.
    { induction kids as [|[n k] ks IHk]; [reflexivity|]. cbn [map fst snd]. inversion IH as [|? ? Hk Hks]; subst. cbn [snd] in Hk.
      rewrite Hk. f_equal. apply IHk. exact Hks. }
    rewrite Hsub. reflexivity.
  Qed.
  Lemma dh_ent_ok_same_media spec (t t' : node) p e : erase C t = erase C t' ->
    dh_ent_ok Hb matches C spec t p e -> dh_ent_ok Hb matches C spec t' p e.
  Proof.
    intros E [d [cs [Hg [Hd Hok]]]].
    assert (Hg' : option_map (erase C) (get C t' p) = Some (erase C d)) by (rewrite <- get_erase, <- E, get_erase, Hg; reflexivity).
    destruct (get C t' p) as [d'|] eqn:Eg; [|discriminate]. cbn [option_map] in Hg'. injection Hg' as Ed.
    exists d', cs. split; [exact Eg|]. split; [|exact Hok]. rewrite <- (dirhash_erase spec (e_fmt e) d'), Ed, dirhash_erase. exact Hd.
  Qed.
End DhMedia.

Section RootFold.
  Variable Hb : fmt -> bytes -> bytes.
  Variable matches : list text -> text -> bool.
  Variable C : Type.
  Variable hs : list lhist.
  Notation node := (node C).

  (* the root record a session holds for history k *)
  Definition root_entries_k (s : session) (k : path) : list entry :=
    match nl_root (sess_list s k) with Some r => r_entries r | None => [] end.
  Lemma root_entries_k_add s k q d sz es k' :
    root_entries_k (sess_add s k q d sz es) k' =
    if path_eqb k k' then match q with [] => root_entries_k s k ++ es | _ => root_entries_k s k end else root_entries_k s k'.
  Proof.
    unfold root_entries_k, sess_add. rewrite sess_list_set. destruct (path_eqb_spec k k') as [<-|]; [|reflexivity].
    unfold nl_add. destruct q; [|reflexivity]. cbn [nl_root r_entries]. destruct (nl_root (sess_list s k)); reflexivity.
  Qed.

  Variable Q : path -> entry -> Prop.
  Lemma fold_events_root_n fmts no_dh spec (t : node) : forall evs s fails,
    (forall k e, In e (root_entries_k s k) -> Q k e) ->
    (forall p c, In (p, c) (ev_files evs) -> strip_prefix (lh_root (route_to hs p)) p <> []) ->
    (forall p, In p (dirs_of evs) -> let h := route_to hs p in
       let des := match dir_entries Hb matches C no_dh spec fmts p t with Some es => es | None => [] end in
       (strip_prefix (lh_root h) p = [] -> forall e, In e des -> Q (lh_root h) e) /\
       (strip_prefix (lh_root h) p = [] -> forall par, lh_parent h = Some par -> strip_prefix par p <> [])) ->
    forall k e, In e (root_entries_k (fst (fold_left (process_event Hb matches C hs fmts no_dh spec t) evs (s, fails))) k) -> Q k e.
  Proof.
    induction evs as [|ev evs IH]; intros s fails Hs Hf Hd; cbn [fold_left]; [exact Hs|].
    assert (Hstep : forall k e, In e (root_entries_k (fst (process_event Hb matches C hs fmts no_dh spec t (s, fails) ev)) k) -> Q k e).
    { destruct ev as [p c|p kids]; cbn [process_event].
      - unfold seal_file. pose proof (Hf p c (or_introl eq_refl)) as Hq.
        destruct (seal _ _ _ _) as [es res]. cbn [fst]. destruct es as [|e0 es']; [exact Hs|].
        intros k e. rewrite root_entries_k_add. destruct (path_eqb_spec (lh_root (route_to hs p)) k) as [<-|]; [|apply Hs].
        destruct (strip_prefix (lh_root (route_to hs p)) p); [congruence|apply Hs].
      - cbn [fst]. unfold record_dir. destruct (Hd p (or_introl eq_refl)) as [Hown Hchild]. cbn zeta in Hown, Hchild.
        set (h := route_to hs p) in *. set (des := match dir_entries Hb matches C no_dh spec fmts p t with Some es => es | None => [] end) in *.
        assert (H1 : forall k e, In e (root_entries_k (sess_add s (lh_root h) (strip_prefix (lh_root h) p) true None des) k) -> Q k e).
        { intros k e. rewrite root_entries_k_add. destruct (path_eqb_spec (lh_root h) k) as [<-|]; [|apply Hs].
          destruct (strip_prefix (lh_root h) p) eqn:Eq; [|apply Hs]. intros He. apply in_app_or in He. destruct He as [He|He]; [apply Hs; exact He|apply Hown; auto]. }
        destruct (strip_prefix (lh_root h) p) as [|n q'] eqn:Eq; [|exact H1]. destruct (lh_parent h) as [par|] eqn:Ep; [|exact H1].
        intros k e. rewrite root_entries_k_add. destruct (path_eqb_spec par k) as [<-|]; [|apply H1].
        destruct (strip_prefix par p) eqn:Eq'; [exfalso; apply (Hchild eq_refl par eq_refl); exact Eq'|apply H1]. }
    destruct (process_event Hb matches C hs fmts no_dh spec t (s, fails) ev) as [s1 f1]. cbn [fst] in Hstep.
    apply IH; auto.
    - intros p c Hin. apply (Hf p c). destruct ev; cbn; [right|]; exact Hin.
    - intros p Hin. apply Hd. destruct ev; cbn; [|right]; exact Hin.
  Qed.
End RootFold.

Section NestedDh.
  Variable Hb : fmt -> bytes -> bytes.
  Variable matches : list text -> text -> bool.
  Variable C : Type.
  Variable cdig : C -> text.
  Variable ser : gen -> C.
  Notation node := (node C).
  Notation events := (events matches C).

  (* every recorded directory entry / root hash, of every history, is what is computed now from this folder *)
  Definition dh_inv_n (hs : list lhist) (t : node) (spec : list text) : Prop :=
    (forall h g r e, In h hs -> In g (lh_gens h) -> In r (g_records g) -> r_dir r = true -> In e (r_entries r) ->
                     dh_ent_ok Hb matches C spec t (lh_root h ++ r_path r) e) /\
    (forall h g es e, In h hs -> In g (lh_gens h) -> g_root g = Some es -> In e es -> dh_ent_ok Hb matches C spec t (lh_root h) e).

  Lemma find_media_hash_cases g p r : find_media_hash g p = Some r ->
    (In r (g_records g) /\ rec_keys_match r p = true) \/ (p = [] /\ root_record g = Some r).
  Proof.
    unfold find_media_hash. destruct (find_last _ (g_records g)) as [y|] eqn:E.
    - intros [= <-]. left. apply (find_last_some _ _ _ E).
    - destruct p; [intros H; right; auto|discriminate].
  Qed.

  Theorem nested_dh_exit_0 h0 kids hs ofmt co ro :
    let t := Dir h0 kids in
    load C cdig t = inl hs -> nprev hs ->
    dh_inv_n hs t (set_patterns (latest_patterns (lh_gens (root_hist hs))) [] (pattern_file_lines [])) ->
    o_outcome (snd (verify_dh Hb matches C cdig t ofmt co ro [] [])) = Exit 0.
  Proof.
    intros t Hl Hprev [Hrec Hroot]. destruct (load_list_facts C cdig h0 kids hs Hl) as [Hr0 [_ [Hrin _]]].
    rewrite (verify_dh_exit Hb matches C cdig t hs ofmt co ro [] [] Hl). cbn zeta.
    set (spec := set_patterns (latest_patterns (lh_gens (root_hist hs))) [] (pattern_file_lines [])) in *.
    assert (Hz : dh_failed Hb matches C hs t ofmt co ro spec = []); [|rewrite Hz; reflexivity].
    unfold dh_failed.
    match goal with |- dedup_fmts (?A ++ ?B) = [] => assert (HA : A = []); [|assert (HB : B = []); [|rewrite HA, HB; reflexivity]] end.
    - destruct ro; [reflexivity|]. apply flat_map_nil_all. intros p Hp. cbn zeta.
      destruct (route_good hs Hr0 p) as [Hg Hin]. fold (rooth hs). fold (route_to hs p). set (h := route_to hs p) in *.
      assert (Hh : In h hs) by (destruct Hin as [Hin|Hin]; [exact Hin|rewrite Hin; exact Hrin]).
      assert (Hjoin : lh_root h ++ strip_prefix (lh_root h) p = p) by (apply strip_prefix_rejoin; exact Hg).
      apply dh_failures_nil. intros e He. apply in_map_iff in He. destruct He as [[no e'] [<- He]]. cbn [snd].
      unfold find_directory_entries in He. apply in_app_or in He. destruct He as [He|He].
      + apply in_flat_map in He. destruct He as [g [Hgin He]].
        destruct (find_media_hash g (strip_prefix (lh_root h) p)) as [r|] eqn:Em; [|destruct He]. destruct (r_dir r) eqn:Ed; [|destruct He].
        apply in_map_iff in He. destruct He as [e0 [E He]]. injection E as _ <-.
        destruct (find_media_hash_cases g _ r Em) as [[Hrin' Hk]|[Hnil Hrr]].
        * rewrite <- Hjoin, <- (keys_path r _ (Hprev h g r Hh Hgin Hrin') Hk). apply (Hrec h g r e0 Hh Hgin Hrin' Ed He).
        * unfold root_record in Hrr. destruct (g_root g) as [es|] eqn:Eg; [|discriminate]. injection Hrr as <-. cbn [r_entries] in He.
          rewrite <- Hjoin, Hnil, app_nil_r. apply (Hroot h g es e0 Hh Hgin Eg He).
      + destruct (strip_prefix (lh_root h) p) eqn:Eq; [|destruct He]. apply in_flat_map in He. destruct He as [g [Hgin He]].
        destruct (g_root g) as [es|] eqn:Eg; [|destruct He]. apply in_map_iff in He. destruct He as [e0 [E He]]. injection E as _ <-.
        rewrite <- Hjoin, app_nil_r. apply (Hroot h g es e0 Hh Hgin Eg He).
    - destruct co; [reflexivity|]. apply dh_failures_nil. intros e He. apply in_flat_map in He. destruct He as [g [Hg He]].
      destruct (g_root g) as [es|] eqn:Eg; [|destruct He]. rewrite <- Hr0. apply (Hroot (root_hist hs) g es e Hrin Hg Eg He).
  Qed.

  Lemma commit_written_root proc sess sp : forall l cs0 k doc,
    In (k, doc) (cs_written C (fold_left (commit_one C cdig ser proc sess sp) l cs0)) ->
    In (k, doc) (cs_written C cs0) \/ g_root doc = readback_root (nl_root (sess_list sess k)).
  Proof.
    induction l as [|h l IH]; intros cs0 k doc Hin; cbn [fold_left] in Hin; [left; exact Hin|].
    destruct (IH _ k doc Hin) as [H0|H]; [|right; exact H].
    destruct (commit_one_cases C cdig ser proc sess sp cs0 h) as [Hs|_ Hw _ _|nl recs d Hnl Hv Hdoc Hw _ _ _ _].
    - rewrite Hs in H0. left. exact H0.
    - rewrite Hw in H0. left. exact H0.
    - rewrite Hw in H0. apply in_app_or in H0. destruct H0 as [H0|[E|[]]]; [left; exact H0|]. injection E as <- <-. right.
      rewrite Hdoc, Hnl. reflexivity.
  Qed.

  (* a file is never the root of a history: its path relative to the history it is routed to is not empty *)
  Lemma routed_rel_nonempty h0 kids hs p c : wf_tree C (Dir h0 kids) -> load C cdig (Dir h0 kids) = inl hs ->
    get C (Dir h0 kids) p = Some (File c) -> strip_prefix (lh_root (route_to hs p)) p <> [].
  Proof.
    intros Hwf Hl Hgt. destruct (load_list_facts C cdig h0 kids hs Hl) as [Hroot [_ [Hrin Hpar]]].
    destruct (route_good hs Hroot p) as [Hg Hin]. set (h := route_to hs p) in *.
    assert (Hh : In h hs) by (destruct Hin as [Hin|Hin]; [exact Hin|rewrite Hin; exact Hrin]).
    assert (Hjoin : lh_root h ++ strip_prefix (lh_root h) p = p) by (apply strip_prefix_rejoin; exact Hg).
    intros E. rewrite E, app_nil_r in Hjoin. destruct (load_elems C cdig h0 kids hs Hwf Hl h Hh) as [_ [Hnn _]].
    destruct (lh_root h) as [|n r] eqn:Er; [subst p; cbn in Hgt; discriminate|].
    assert (Hx : get_hist C (Dir h0 kids) (n :: r) <> None) by (apply Hnn; discriminate).
    unfold get_hist in Hx. rewrite Hjoin, Hgt in Hx. apply Hx. reflexivity.
  Qed.
  (* a history and the history above it sit at different folders *)
  Lemma parent_root_differs t hs h par : wf_tree C t -> load C cdig t = inl hs -> In h hs -> lh_parent h = Some par -> par <> lh_root h.
  Proof.
    intros Hwf Hl Hh Hp E. pose proof (load_roots_NoDup C cdig t hs Hwf Hl) as Hnd.
    apply in_split in Hh. destruct Hh as [l1 [l2 Ehs]].
    destruct (load_children_first C cdig t hs Hl l1 h l2 Ehs) as [Hn|[h' [Hh' Hp']]]; [congruence|].
    rewrite Ehs, map_app in Hnd. cbn [map] in Hnd. apply NoDup_remove_2 in Hnd. apply Hnd. apply in_or_app. right.
    rewrite <- E. rewrite Hp in Hp'. injection Hp' as ->. apply in_map. exact Hh'.
  Qed.

  (* a property of records that events establish and validation / read-back keep holds of every written record *)
  Lemma written_records_R (R : path -> record -> Prop) h0 kids hs req no_dh spec :
    let t := Dir h0 kids in
    let evs := events spec [] t in
    let sess := fst (fold_left (process_event Hb matches C hs (sort_fmts req) no_dh spec t) evs ([], 0)) in
    wf_tree C t -> load C cdig t = inl hs ->
    (forall k r r', validate_record r = Some r' -> R k r -> R k r') -> (forall k r, R k r -> R k (readback_record r)) ->
    (forall p c, In (p, c) (ev_files evs) -> let h := route_to hs p in let q := strip_prefix (lh_root h) p in
       q <> [] -> forall sz, R (lh_root h) (mkRecord q false sz (fst (seal (lh_gens h) q (fun f => digest_text Hb f c) (sort_fmts req))) None)) ->
    (forall p k q sz, In p (dirs_of evs) -> k ++ q = p -> q <> [] ->
       R k (mkRecord q true sz (match dir_entries Hb matches C no_dh spec (sort_fmts req) p t with Some es => es | None => [] end) None)) ->
    forall k doc, In (k, doc) (cs_written C (commit C cdig ser hs InPlace t sess spec)) -> forall r, In r (g_records doc) -> R k r.
  Proof.
    intros t evs sess Hwf Hl Rv Rr Hf Hd k doc Hin r Hr.
    destruct (load_list_facts C cdig h0 kids hs Hl) as [Hroot [_ [Hrin Hpar]]].
    destruct (fold_events_sinv Hb matches C hs Hroot Hpar R (sort_fmts req) no_dh spec t evs [] 0 []
                (ev_paths_NoDup matches C spec t [] Hwf) (fun x (H : In x []) => match H with end)) as [A _].
    - intros k0 r0 [].
    - exact Hf.
    - intros p Hp h q des. destruct (route_good hs Hroot p) as [Hg Hin']. fold h in Hg, Hin'. split.
      + intros Hq sz. apply Hd; [exact Hp|apply strip_prefix_rejoin; exact Hg|exact Hq].
      + intros Hq par Hpa Hq' sz. apply Hd; [exact Hp| |exact Hq']. apply strip_prefix_rejoin.
        assert (Ehp : lh_root h = p) by (rewrite <- (strip_prefix_rejoin _ _ Hg); fold q; rewrite Hq, app_nil_r; reflexivity).
        rewrite <- Ehp. apply (Hpar h par); [destruct Hin' as [H|H]; [left; exact H|right; exact H]|exact Hpa].
    - fold sess in A. unfold commit in Hin. destruct (commit_written_docs C cdig ser InPlace sess spec hs _ k doc Hin) as [[]|[h [_ [_ [recs [Hv [Hrec _]]]]]]].
      rewrite Hrec in Hr. apply in_map_iff in Hr. destruct Hr as [r1 [<- Hr1]]. apply Rr.
      apply validate_records_Forall2 in Hv. destruct (Forall2_In_l _ _ _ Hv r1 Hr1) as [r0 [Hr0 Hv0]].
      apply (Rv k r0 r1 Hv0). apply (A k r0 Hr0).
  Qed.

  (* one run: the invariant carries over, for any nesting *)
  Theorem nested_run_dh h0 kids hs req no_dh ip ifl :
    let t := Dir h0 kids in
    let spec := set_patterns (latest_patterns (lh_gens (root_hist hs))) ip (pattern_file_lines ifl) in
    wf_tree C t -> load C cdig t = inl hs -> NoDup (latest_patterns (lh_gens (root_hist hs))) ->
    dh_inv_n hs t spec ->
    let run := create_folder Hb matches C cdig ser t req no_dh false ip ifl in
    forall hs', load C cdig (fst run) = inl hs' ->
    dh_inv_n hs' (fst run) (set_patterns (latest_patterns (lh_gens (root_hist hs'))) [] (pattern_file_lines [])).
  Proof.
    intros t spec Hwf Hl Hnp [Hrec Hroot] run hs' Hl'. subst run t spec.
    match goal with |- context [fst ?run] => match type of Hl' with context [fst run] =>
      assert (Efst : fst run = cs_tree C (commit C cdig ser hs InPlace (Dir h0 kids)
                 (fst (fold_left (process_event Hb matches C hs (sort_fmts req) no_dh (set_patterns (latest_patterns (lh_gens (root_hist hs))) ip (pattern_file_lines ifl)) (Dir h0 kids))
                                 (events (set_patterns (latest_patterns (lh_gens (root_hist hs))) ip (pattern_file_lines ifl)) [] (Dir h0 kids)) ([], 0)))
                 (set_patterns (latest_patterns (lh_gens (root_hist hs))) ip (pattern_file_lines ifl))))
        by (rewrite (run_is Hb matches C cdig ser h0 kids hs req no_dh ip ifl Hl); reflexivity);
      rewrite Efst in *; clear Efst end end.
    destruct (post_load Hb matches C cdig ser h0 kids hs req no_dh ip ifl Hwf Hl) as [Hl2 [_ [_ Hmedia]]]. rewrite Hl2 in Hl'. assert (E : hs' = map (fin C cdig ser (cs_written C (commit C cdig ser hs InPlace (Dir h0 kids) (fst (fold_left (process_event Hb matches C hs (sort_fmts req) no_dh (set_patterns (latest_patterns (lh_gens (root_hist hs))) ip (pattern_file_lines ifl)) (Dir h0 kids)) (events (set_patterns (latest_patterns (lh_gens (root_hist hs))) ip (pattern_file_lines ifl)) [] (Dir h0 kids)) ([], 0))) (set_patterns (latest_patterns (lh_gens (root_hist hs))) ip (pattern_file_lines ifl))))) hs) by congruence. rewrite E. clear E Hl' hs'.
    destruct (post_spec Hb matches C cdig ser h0 kids hs req no_dh ip ifl Hwf Hl Hnp) as [Hsp _]. rewrite Hsp.
    set (t := Dir h0 kids) in *. set (spec := set_patterns (latest_patterns (lh_gens (root_hist hs))) ip (pattern_file_lines ifl)) in *.
    set (evs := events spec [] t) in *.
    set (sess := fst (fold_left (process_event Hb matches C hs (sort_fmts req) no_dh spec t) evs ([], 0))) in *.
    set (w := cs_written C (commit C cdig ser hs InPlace t sess spec)) in *.
    assert (Hsym : erase C t = erase C (cs_tree C (commit C cdig ser hs InPlace t sess spec))) by (symmetry; exact Hmedia).
    destruct (load_list_facts C cdig h0 kids hs Hl) as [Hr0 [_ [Hrin Hpar]]].
    (* the records written *)
    assert (Hnew : forall k doc, In (k, doc) w -> forall r, In r (g_records doc) -> r_dir r = true -> forall e, In e (r_entries r) ->
                     dh_ent_ok Hb matches C spec t (k ++ r_path r) e).
    { apply (written_records_R (fun k r => r_dir r = true -> forall e, In e (r_entries r) -> dh_ent_ok Hb matches C spec t (k ++ r_path r) e) h0 kids hs req no_dh spec Hwf Hl).
      - intros k r r' Hv HR. apply validate_record_ok in Hv. destruct Hv as [Ep [Ed [_ [_ [Ees _]]]]]. rewrite Ep, Ed, Ees. intros Hdir e He.
        apply in_map_iff in He. destruct He as [e1 [<- He1]]. apply dh_ent_ok_promote. apply HR; assumption.
      - intros k r HR. unfold readback_record. destruct (r_dir r) eqn:Ed; [intros _; apply HR; reflexivity|]. cbn [r_dir]. discriminate.
      - intros p c _ h q _ sz. cbn [r_dir]. discriminate.
      - intros p k q sz Hp Hj _ _ e He. cbn [r_path r_entries] in *. rewrite Hj. change (Dir h0 kids) with t in He.
        destruct (dir_entries Hb matches C no_dh spec (sort_fmts req) p t) as [es|] eqn:Ed; [|destruct He]. eapply dir_entries_dh_ok; eauto. }
    (* the root hashes written *)
    assert (Hnewroot : forall k doc, In (k, doc) w -> forall es e, g_root doc = Some es -> In e es -> dh_ent_ok Hb matches C spec t k e).
    { intros k doc Hin es e Hes He. unfold w, commit in Hin. destruct (commit_written_root InPlace sess spec hs _ k doc Hin) as [[]|Hg].
      rewrite Hg in Hes.
      assert (He' : In e (root_entries_k sess k)).
      { unfold root_entries_k. unfold readback_root in Hes. destruct (nl_root (sess_list sess k)) as [rr|]; [|discriminate].
        destruct (r_entries rr) as [|x xs] eqn:Er; [discriminate|]. injection Hes as <-. exact He. }
      revert He'. apply (fold_events_root_n Hb matches C hs (fun k e => dh_ent_ok Hb matches C spec t k e)).
      - intros k0 e0 [].
      - intros p c Hpc. destruct (ev_files_get matches C spec t [] p c Hwf Hpc) as [rel [E Hgt]]. cbn [app] in E. subst rel.
        apply (routed_rel_nonempty h0 kids hs p c Hwf Hl Hgt).
      - intros p Hp h des. destruct (route_good hs Hr0 p) as [Hg' Hin']. fold h in Hg', Hin'.
        assert (Hh : In h hs) by (destruct Hin' as [H|H]; [exact H|rewrite H; exact Hrin]).
        split.
        + intros Hq e0 He0. assert (Ehp : lh_root h = p) by (rewrite <- (strip_prefix_rejoin _ _ Hg'), Hq, app_nil_r; reflexivity). rewrite Ehp.
          subst des. destruct (dir_entries Hb matches C no_dh spec (sort_fmts req) p t) as [es0|] eqn:Ed; [|destruct He0]. eapply dir_entries_dh_ok; eauto.
        + intros Hq par Hpa Hq'. assert (Ehp : lh_root h = p) by (rewrite <- (strip_prefix_rejoin _ _ Hg'), Hq, app_nil_r; reflexivity).
          apply (parent_root_differs t hs h par Hwf Hl Hh Hpa). rewrite Ehp.
          pose proof (strip_prefix_rejoin par p) as Hj. rewrite Hq', app_nil_r in Hj. apply Hj. rewrite <- Ehp. apply (Hpar h par); [left; exact Hh|exact Hpa]. }
    split.
    - intros h' g r e Hh' Hg Hr Hd He'. apply in_map_iff in Hh'. destruct Hh' as [h [<- Hh]]. rewrite fin_root.
      apply (dh_ent_ok_same_media Hb matches C spec t _ _ e Hsym).
      destruct (fin_gens Hb matches C cdig ser h0 kids hs req no_dh ip ifl h g Hg) as [Hold|Hn]; [apply (Hrec h g r e Hh Hold Hr Hd He')|].
      apply (Hnew _ _ Hn r Hr Hd e He').
    - intros h' g es e Hh' Hg Hes He'. apply in_map_iff in Hh'. destruct Hh' as [h [<- Hh]]. rewrite fin_root.
      apply (dh_ent_ok_same_media Hb matches C spec t _ _ e Hsym).
      destruct (fin_gens Hb matches C cdig ser h0 kids hs req no_dh ip ifl h g Hg) as [Hold|Hn]; [apply (Hroot h g es e Hh Hold Hes He')|].
      apply (Hnewroot _ _ Hn es e Hes He').
  Qed.
End NestedDh.

Section NestedDhCycle.
  Variable Hb : fmt -> bytes -> bytes.
  Variable matches : list text -> text -> bool.
  Variable C : Type.
  Variable cdig : C -> text.
  Variable ser : gen -> C.
  Notation node := (node C).

  Definition nstate_dh (hs : list lhist) (t : node) : Prop :=
    nstate Hb matches C hs t /\
    dh_inv_n Hb matches C hs t (set_patterns (latest_patterns (lh_gens (root_hist hs))) [] (pattern_file_lines [])).

  (* C09 for any nesting: from such a state, create on the untouched tree (any formats, -n or not) exits 0 and leaves such a
     state; verify -dh on the result exits 0 whatever its options *)
  Theorem nested_cycle_dh h0 kids hs req no_dh : wf_tree C (Dir h0 kids) -> load C cdig (Dir h0 kids) = inl hs -> req <> [] ->
    nstate_dh hs (Dir h0 kids) ->
    let run := create_folder Hb matches C cdig ser (Dir h0 kids) req no_dh false [] [] in
    o_outcome (snd run) = Exit 0 /\
    exists h1 kids1 hs', fst run = Dir h1 kids1 /\ wf_tree C (fst run) /\ load C cdig (fst run) = inl hs' /\ nstate_dh hs' (fst run) /\
      forall ofmt co ro, o_outcome (snd (verify_dh Hb matches C cdig (fst run) ofmt co ro [] [])) = Exit 0.
  Proof.
    intros Hwf Hl Hreq [Hs Hdh]. 
    destruct (nested_cycle Hb matches C cdig ser h0 kids hs req no_dh Hwf Hl Hreq Hs) as [Hout [h1 [kids1 [hs' [Et [Hwf' [Hl' [Hs' _]]]]]]]].
    split; [exact Hout|]. exists h1, kids1, hs'. split; [exact Et|]. split; [exact Hwf'|]. split; [exact Hl'|].
    destruct Hs as [_ [_ [Hnp _]]].
    pose proof (nested_run_dh Hb matches C cdig ser h0 kids hs req no_dh [] [] Hwf Hl Hnp Hdh hs' Hl') as Hdh'.
    split; [split; assumption|]. intros ofmt co ro. rewrite Et in *.
    apply (nested_dh_exit_0 Hb matches C cdig h1 kids1 hs' ofmt co ro Hl'); [apply Hs'|exact Hdh'].
  Qed.

  Theorem nested_sequences_dh rs : forall h0 kids hs, wf_tree C (Dir h0 kids) -> load C cdig (Dir h0 kids) = inl hs ->
    nstate_dh hs (Dir h0 kids) -> Forall (fun x => fst x <> []) rs ->
    let r := run_creates Hb matches C cdig ser (Dir h0 kids) rs in
    Forall (fun o => o = Exit 0) (snd r) /\
    forall ofmt co ro, o_outcome (snd (verify_dh Hb matches C cdig (fst r) ofmt co ro [] [])) = Exit 0.
  Proof.
    induction rs as [|[req no_dh] rs IH]; intros h0 kids hs Hwf Hl Hs Hreqs; cbn [run_creates].
    - split; [constructor|]. intros ofmt co ro. cbn [fst]. destruct Hs as [Hn Hdh]. apply (nested_dh_exit_0 Hb matches C cdig h0 kids hs ofmt co ro Hl); [apply Hn|exact Hdh].
    - inversion Hreqs as [|? ? Hreq Hreqs']; subst. cbn [fst] in Hreq.
      destruct (nested_cycle_dh h0 kids hs req no_dh Hwf Hl Hreq Hs) as [Hout [h1 [kids1 [hs1 [Et [Hwf1 [Hl1 [Hs1 _]]]]]]]].
      rewrite Et in *. destruct (IH h1 kids1 hs1 Hwf1 Hl1 Hs1 Hreqs') as [Hos Hv].
      destruct (run_creates Hb matches C cdig ser (Dir h1 kids1) rs) as [t' os] eqn:Er. cbn [fst snd] in *.
      split; [constructor; assumption|exact Hv].
  Qed.

  (* deciding dh_inv_n on a concrete state (for examples) *)
  Definition dh_ent_ok_b (spec : list text) (t : node) (p : path) (e : entry) : bool :=
    match get C t p with
    | Some d => match dirhash Hb matches C spec (e_fmt e) p d with Some cs => dh_entry_ok e cs | None => false end
    | None => false
    end.
  Definition dh_inv_n_b (hs : list lhist) (t : node) (spec : list text) : bool :=
    forallb (fun h => forallb (fun g =>
      forallb (fun r => if r_dir r then forallb (dh_ent_ok_b spec t (lh_root h ++ r_path r)) (r_entries r) else true) (g_records g)
      && match g_root g with Some es => forallb (dh_ent_ok_b spec t (lh_root h)) es | None => true end) (lh_gens h)) hs.
  Lemma dh_ent_ok_b_ok spec t p e : dh_ent_ok_b spec t p e = true -> dh_ent_ok Hb matches C spec t p e.
  Proof.
    unfold dh_ent_ok_b, dh_ent_ok. destruct (get C t p) as [d|] eqn:Eg; [|discriminate]. destruct (dirhash Hb matches C spec (e_fmt e) p d) as [cs|] eqn:Ed; [|discriminate].
    intros H. exists d, cs. split; [reflexivity|]. split; [exact Ed|exact H].
  Qed.
  Lemma dh_inv_n_b_ok hs t spec : dh_inv_n_b hs t spec = true -> dh_inv_n Hb matches C hs t spec.
  Proof.
    unfold dh_inv_n_b. intros H. rewrite forallb_forall in H. split.
    - intros h g r e Hh Hg Hr Hd He. specialize (H h Hh). rewrite forallb_forall in H. specialize (H g Hg). apply andb_prop in H. destruct H as [H _].
      rewrite forallb_forall in H. specialize (H r Hr). rewrite Hd in H. rewrite forallb_forall in H. apply dh_ent_ok_b_ok. apply H. exact He.
    - intros h g es e Hh Hg Hes He. specialize (H h Hh). rewrite forallb_forall in H. specialize (H g Hg). apply andb_prop in H. destruct H as [_ H].
      rewrite Hes in H. rewrite forallb_forall in H. apply dh_ent_ok_b_ok. apply H. exact He.
  Qed.
End NestedDhCycle.
