(* C15: an interrupted commit never damages what was recorded; the two windows in which the interrupted generation is
   neither wholly present nor wholly absent are characterised exactly. *)
From Coq Require Import Lia.
From MHL Require Import Model.Crash Gen.Generated Proofs.BaseFacts Proofs.LoadFacts Proofs.HistFacts.

Section CrashFacts.
  Variable C : Type.
  Variable cdig : C -> text.
  Variable ser : gen -> C.
  Notation hist := (hist C).

  (* the four shapes of an ascmhl folder during a commit on top of `h` *)
  Inductive shape (h : hist) (new_m : mfile C) (new_chain : list centry) : hstate C -> Prop :=
  | sh_before : shape h new_m new_chain (Some h)
  | sh_manifest_only : shape h new_m new_chain (Some (mkHist C (h_files C h ++ [new_m]) (h_chain C h)))
  | sh_done : shape h new_m new_chain (Some (mkHist C (h_files C h ++ [new_m]) (Some new_chain))).

  Lemma firstn_In_sub {A} (l : list A) k x : In x (firstn k l) -> In x l.
  Proof. revert k. induction l as [|y l IH]; intros [|k]; cbn; try tauto. intros [H|H]; [left; exact H|right; eapply IH; exact H]. Qed.
  Definition is_tmp (o : mop) : Prop := match o with MOpenTmp _ | MWriteTmp _ | MCloseTmp _ => True | _ => False end.
  Lemma fold_tmp_only new_m new_chain ops : Forall is_tmp ops -> forall s, fold_left (apply_mop C new_m new_chain) ops s = s.
  Proof.
    induction ops as [|o ops IH]; intros H s; [reflexivity|]. inversion H as [|? ? Ho Hr]; subst.
    cbn [fold_left]. destruct o; try contradiction; apply IH; exact Hr.
  Qed.
  Lemma tmp_phase_is_tmp c q : Forall is_tmp (tmp_phase c q).
  Proof.
    unfold tmp_phase. constructor; [exact I|]. apply Forall_app. split; [|repeat constructor].
    apply Forall_forall. intros x Hx. apply repeat_spec in Hx. subst. exact I.
  Qed.
  Lemma firstn_tmp l k : Forall is_tmp l -> Forall is_tmp (firstn k l).
  Proof. intros H. apply Forall_forall. intros x Hx. rewrite Forall_forall in H. apply H. eapply firstn_In_sub. exact Hx. Qed.

  (* Existing history: whatever prefix of the commit sequence took effect -- any number of write() calls, each applied
     or not -- the folder has one of three shapes *)
  Theorem crash_shapes h new_m new_chain kw kc k :
    shape h new_m new_chain (crash_state C new_m new_chain (Some h) (commit_mops false kw kc) k).
  Proof.
    unfold crash_state, commit_mops, after_prefix. cbn [app].
    set (A := tmp_phase false kw). set (B := tmp_phase true kc).
    pose proof (tmp_phase_is_tmp false kw) as HA. pose proof (tmp_phase_is_tmp true kc) as HB. fold A in HA. fold B in HB.
    destruct (Nat.le_gt_cases k (length A)) as [Hk|Hk].
    - rewrite firstn_app. replace (k - length A) with 0 by lia. cbn [firstn]. rewrite app_nil_r.
      rewrite fold_tmp_only; [constructor|apply firstn_tmp; exact HA].
    - rewrite firstn_app, firstn_all2 by lia. rewrite fold_left_app, (fold_tmp_only _ _ A HA).
      remember (k - length A) as k1. destruct k1 as [|k1]; [lia|]. cbn [firstn app fold_left apply_mop].
      destruct (Nat.le_gt_cases k1 (length B)) as [Hk1|Hk1].
      + rewrite firstn_app. replace (k1 - length B) with 0 by lia. cbn [firstn]. rewrite app_nil_r.
        rewrite fold_tmp_only; [constructor|apply firstn_tmp; exact HB].
      + rewrite firstn_app, firstn_all2 by lia. rewrite fold_left_app, (fold_tmp_only _ _ B HB).
        remember (k1 - length B) as k2. destruct k2 as [|k2]; [lia|]. cbn [firstn].
        replace (firstn k2 []) with (@nil (mop)) by (destruct k2; reflexivity).
        cbn [fold_left apply_mop h_files h_chain]. constructor.
  Qed.

  (* what each shape means for a well-formed history with n committed generations: *)
  Theorem shapes_are_safe n h doc s :
    wellformed C cdig n h -> g_no doc = (latest_generation_number (loaded_gens C h) + 1)%N ->
    shape h (mkMfile C (g_no doc) (ser doc) doc)
          (match h_chain C h with Some c => c | None => [] end ++ [mkCentry (g_no doc) (g_no doc) (cdig (ser doc))]) s ->
    exists hs', s = Some hs' /\
      (* (1) every previously committed manifest is still there, unchanged, in order *)
      (exists more, h_files C hs' = h_files C h ++ more) /\
      (* (2) the chain is readable and lists every previously committed generation with its digest *)
      (exists ces ces', h_chain C h = Some ces /\ h_chain C hs' = Some (ces ++ ces')) /\
      (* (3) the history loads: every chain entry has its manifest with the recorded digest *)
      check_chain C cdig hs' = None.
  Proof.
    intros Hw Hno Hs. pose proof (commit_appends C cdig ser n h doc Hw Hno) as [Hn [_ [[ces [Hc Hc']] Hw']]].
    destruct Hw as [Hf [ces0 [Hc0 [Hseq [Hfile Hchk]]]]]. rewrite Hc in Hc0. injection Hc0 as <-.
    inversion Hs; subst; eexists; (split; [reflexivity|]).
    - split; [exists []; rewrite app_nil_r; reflexivity|]. split; [exists ces, []; rewrite app_nil_r; auto|].
      unfold check_chain. rewrite Hc. exact Hchk.
    - cbn [h_files h_chain]. split; [eexists; reflexivity|]. split; [exists ces, []; rewrite app_nil_r; auto|].
      unfold check_chain. cbn [h_chain h_files]. rewrite Hc.
      apply check_entries_ok. intros ce Hin. pose proof (proj1 (check_entries_ok C cdig _ _) Hchk ce Hin) as [m [Hm Hd]].
      exists m. split; [apply find_app_l; exact Hm|exact Hd].
    - cbn [h_files h_chain]. split; [eexists; reflexivity|]. rewrite Hc. split; [exists ces; eexists; split; [reflexivity|reflexivity]|].
      destruct Hw' as [_ [ces1 [Hc1 [_ [_ Hchk1]]]]]. unfold after_commit in Hc1, Hchk1. cbn [h_chain h_files] in Hc1, Hchk1.
      rewrite Hc in Hc1. injection Hc1 as <-. unfold check_chain. cbn [h_chain h_files]. exact Hchk1.
  Qed.

  (* the interrupted generation is wholly present or wholly absent in all shapes but one: manifest in place, chain not
     yet (window W2) -- the loader then adopts a manifest the chain does not list *)
  Definition wholly (h : hist) (new_m : mfile C) (new_chain : list centry) (s : hstate C) : Prop :=
    s = Some h \/ s = Some (mkHist C (h_files C h ++ [new_m]) (Some new_chain)).
  Theorem only_window_w2 h new_m new_chain s :
    shape h new_m new_chain s -> wholly h new_m new_chain s \/ s = Some (mkHist C (h_files C h ++ [new_m]) (h_chain C h)).
  Proof. intros H. inversion H; subst; unfold wholly; auto. Qed.

  (* W2 is real: there is a crash point of a commit on a one-generation history that leaves an unchained manifest *)
  Theorem w2_reachable h new_m new_chain kw kc :
    crash_state C new_m new_chain (Some h) (commit_mops false kw kc) (kw + 3)
    = Some (mkHist C (h_files C h ++ [new_m]) (h_chain C h)).
  Proof.
    unfold crash_state, commit_mops, after_prefix. cbn [app].
    assert (Hlen : length (tmp_phase false kw) = kw + 2) by (unfold tmp_phase; cbn [length]; rewrite app_length, repeat_length; cbn; lia).
    rewrite firstn_app, Hlen. replace (kw + 3 - (kw + 2)) with 1 by lia. rewrite firstn_all2 by lia. cbn [firstn app].
    rewrite fold_left_app, (fold_tmp_only _ _ _ (tmp_phase_is_tmp false kw)). reflexivity.
  Qed.

  (* W1: a history that is being created (no ascmhl folder yet).  After the mkdir and before the chain is in place the
     folder exists without chain file: the loader answers "chain missing" *)
  Theorem w1_reachable new_m new_chain kw kc :
    crash_state C new_m new_chain None (commit_mops true kw kc) 1 = Some (mkHist C [] None) /\
    check_chain C cdig (mkHist C [] None) = Some ErrNoChain.
  Proof. split; reflexivity. Qed.

  (* a history that is being created: no folder / empty folder without chain / first manifest without chain / done *)
  Inductive fresh_shape (new_m : mfile C) (new_chain : list centry) : hstate C -> Prop :=
  | fs_none : fresh_shape new_m new_chain None
  | fs_folder : fresh_shape new_m new_chain (Some (mkHist C [] None))
  | fs_manifest : fresh_shape new_m new_chain (Some (mkHist C [new_m] None))
  | fs_done : fresh_shape new_m new_chain (Some (mkHist C [new_m] (Some new_chain))).
  Theorem crash_shapes_fresh new_m new_chain kw kc k :
    fresh_shape new_m new_chain (crash_state C new_m new_chain None (commit_mops true kw kc) k).
  Proof.
    unfold crash_state, commit_mops, after_prefix. cbn [app].
    destruct k as [|k]; [constructor|]. cbn [firstn fold_left apply_mop].
    set (A := tmp_phase false kw). set (B := tmp_phase true kc).
    pose proof (tmp_phase_is_tmp false kw) as HA. pose proof (tmp_phase_is_tmp true kc) as HB. fold A in HA. fold B in HB.
    destruct (Nat.le_gt_cases k (length A)) as [Hk|Hk].
    - rewrite firstn_app. replace (k - length A) with 0 by lia. cbn [firstn]. rewrite app_nil_r.
      rewrite fold_tmp_only; [constructor|apply firstn_tmp; exact HA].
    - rewrite firstn_app, firstn_all2 by lia. rewrite fold_left_app, (fold_tmp_only _ _ A HA).
      remember (k - length A) as k1. destruct k1 as [|k1]; [lia|]. cbn [firstn app fold_left apply_mop h_files h_chain].
      destruct (Nat.le_gt_cases k1 (length B)) as [Hk1|Hk1].
      + rewrite firstn_app. replace (k1 - length B) with 0 by lia. cbn [firstn]. rewrite app_nil_r.
        rewrite fold_tmp_only; [constructor|apply firstn_tmp; exact HB].
      + rewrite firstn_app, firstn_all2 by lia. rewrite fold_left_app, (fold_tmp_only _ _ B HB).
        remember (k1 - length B) as k2. destruct k2 as [|k2]; [lia|]. cbn [firstn].
        replace (firstn k2 []) with (@nil (mop)) by (destruct k2; reflexivity).
        cbn [fold_left apply_mop h_files h_chain]. constructor.
  Qed.
  (* of these, the two middle ones are window W1: the loader refuses with "chain missing" although nothing was ever
     committed there *)
  Theorem fresh_shapes_load new_m new_chain s : fresh_shape new_m new_chain s ->
    s = None \/ (exists h, s = Some h /\ h_chain C h = None /\ check_chain C cdig h = Some ErrNoChain) \/
    s = Some (mkHist C [new_m] (Some new_chain)).
  Proof. intros H. inversion H; subst; auto; right; left; eexists; repeat split. Qed.
End CrashFacts.
