(* C11, second half: the trees the writers' model emits (Model/Emit.v) for objects satisfying `reach` / `reach_chain`
   (Model/Reach.v) are valid against the REGENERATED schema values.

   Method.  (0) `expected_manifest` / `expected_directory` spell the two schemas out with named sub-types; that they
   ARE the generated values is proved by computation (`schema_manifest_shape`, `schema_directory_shape`) -- an
   obligation on Gen/Generated.v that fails as soon as an .xsd file changes.  (1) Dates / numbers: what iso_format and
   dec_of_N print is accepted by the lexical checks.  (2) Bottom-up, one lemma per element type, each stated with the
   declarative semantics `Valid` and assembled from the composition rules of Proofs/SchemaFacts.v; the variable-length
   parts (entries, records, patterns, authors, references, chain entries) go through MP_repeat_elems /
   MP_choice_repeat / the slot lemma `slots_match`.  (3) `validate_iff` turns the result into `validate ... = true`. *)
From Coq Require Import Lia String.
From MHL Require Import Gen.Generated Model.Reach Proofs.BaseFacts Proofs.SchemaFacts Proofs.ReadFacts.
Local Open Scope string_scope.
Local Open Scope list_scope.

(* ============================================================ 0. the schemas, spelled out *)
Definition one (b : body) : particle := POccurs 1 (Some 1) b.
Definition req (n : text) (ty : etype) : particle := POccurs 1 (Some 1) (PElem n ty).
Definition opt (n : text) (ty : etype) : particle := POccurs 0 (Some 1) (PElem n ty).
Definition T_string : etype := TSimple SString [].
Definition fmt_attrs : list attr_decl :=
  [mkAttr s_action false (SEnum schema_actions); mkAttr s_hashdate false SDateTime; mkAttr s_structure false SString].
Definition T_fmt : etype := TSimple SString fmt_attrs.
Definition fmt_slots : list particle := map (fun n => opt n T_fmt) schema_format_order.
Definition T_container : etype := TComplex (one (PSeq fmt_slots)) [].
Definition T_meta : etype := TAny [].
Definition file_path_attrs : list attr_decl :=
  [mkAttr s_size false SInteger; mkAttr (t "creationdate") false SDateTime; mkAttr s_lastmod false SDateTime].
Definition dir_path_attrs : list attr_decl := [mkAttr (t "creationdate") false SDateTime; mkAttr s_lastmod false SDateTime].
Definition T_hash : etype :=
  TComplex (one (PSeq [req s_path (TSimple SString file_path_attrs); one (PSeq fmt_slots);
                       opt s_previousPath T_string; opt (t "metadata") T_meta])) [].
Definition T_dirhash : etype :=
  TComplex (one (PSeq [req s_path (TSimple SString dir_path_attrs); req s_content T_container; req s_structure T_container;
                       opt s_previousPath T_string; opt (t "metadata") T_meta])) [].
Definition hashes_choice : list particle := [req s_hash T_hash; req s_directoryhash T_dirhash].
Definition T_hashes : etype := TComplex (POccurs 1 None (PChoice hashes_choice)) [].
Definition T_roothash : etype := TComplex (one (PSeq [req s_content T_container; req s_structure T_container])) [].
Definition T_ignore : etype := TComplex (one (PSeq [POccurs 1 None (PElem s_pattern T_string)])) [].
Definition T_process : etype := TSimple (SEnum schema_process_types) [].
Definition T_processinfo : etype := TComplex (one (PSeq [req s_process T_process; opt s_roothash T_roothash; opt s_ignore T_ignore])) [].
Definition author_attrs : list attr_decl := [mkAttr s_email false SEmail; mkAttr s_phone false SString; mkAttr s_role false SString].
Definition T_author : etype := TSimple SString author_attrs.
Definition T_tool : etype := TSimple SString [mkAttr s_version false SString].
Definition T_creatorinfo : etype :=
  TComplex (one (PSeq [req s_creationdate (TSimple SDateTime []); req s_hostname T_string; req s_tool T_tool;
                       POccurs 0 None (PElem s_author T_author); opt s_location T_string; opt s_comment T_string])) [].
Definition T_ref : etype := TComplex (one (PSeq [req s_path T_string; req s_c4 T_fmt])) [].
Definition T_refs : etype := TComplex (one (PSeq [POccurs 1 None (PElem s_hashlistreference T_ref)])) [].
Definition hashlist_attrs : list attr_decl := [mkAttr s_version true (SFixed s_2_0)].
Definition hashlist_model : list particle :=
  [req s_creatorinfo T_creatorinfo; req s_processinfo T_processinfo; opt s_hashes T_hashes; opt (t "metadata") T_meta;
   opt s_references T_refs].
Definition expected_manifest : schema := mkSchema s_hashlist (TComplex (one (PSeq hashlist_model)) hashlist_attrs).

Definition T_chainent : etype := TComplex (one (PSeq [req s_path T_string; req s_c4 T_fmt])) [mkAttr s_sequencenr false SInteger].
Definition expected_directory : schema :=
  mkSchema s_ascmhldirectory (TComplex (one (PSeq [POccurs 1 None (PElem s_hashlist T_chainent)])) []).

(* obligations on the regenerated constants *)
Lemma schema_manifest_shape : schema_manifest = expected_manifest.
Proof. vm_compute. reflexivity. Qed.
Lemma schema_directory_shape : schema_directory = expected_directory.
Proof. vm_compute. reflexivity. Qed.

(* ============================================================ 1. what the formatters print is accepted *)
Local Open Scope N_scope.
Lemma d2_pad2 n : n < 100 -> d2 n = pad2 n.
Proof.
  intros H. unfold d2, pad2, digit. rewrite (N.mod_small (n / 10) 10) by (apply N.div_lt_upper_bound; lia). reflexivity.
Qed.
Lemma mod100_div10 y : (y mod 100) / 10 = (y / 10) mod 10.
Proof.
  change 100 with (10 * 10). rewrite N.mod_mul_r by discriminate.
  rewrite N.mul_comm, N.div_add by discriminate. rewrite N.div_small by (apply N.mod_lt; discriminate). reflexivity.
Qed.
Lemma mod100_mod10 y : (y mod 100) mod 10 = y mod 10.
Proof.
  change 100 with (10 * 10). rewrite N.mod_mul_r by discriminate.
  rewrite N.mul_comm, N.mod_add by discriminate. apply N.mod_mod. discriminate.
Qed.
Lemma digit_mod100_div10 y : digit ((y mod 100) / 10) = digit (y / 10).
Proof. unfold digit. rewrite mod100_div10, N.mod_mod by discriminate. reflexivity. Qed.
Lemma digit_mod100 y : digit (y mod 100) = digit y.
Proof. unfold digit. now rewrite mod100_mod10. Qed.
Lemma mod100_lt y : y mod 100 < 100.
Proof. apply N.mod_lt. discriminate. Qed.

Lemma d4_pad4 y : y < 10000 -> d4 y = pad4 y.
Proof.
  intros H. unfold d4. rewrite !d2_pad2 by (try apply mod100_lt; apply N.div_lt_upper_bound; lia).
  unfold pad2, pad4. cbn [app]. rewrite digit_mod100_div10, digit_mod100, N.div_div by discriminate. reflexivity.
Qed.
Lemma d6_pad6 n : n < 1000000 -> d6 n = pad6 n.
Proof.
  intros H. unfold d6. rewrite !d2_pad2 by (try apply mod100_lt; apply N.div_lt_upper_bound; lia).
  unfold pad2, pad6. cbn [app]. rewrite !digit_mod100_div10, !digit_mod100, !N.div_div by discriminate. reflexivity.
Qed.

Lemma offset_range a : a <= 840 -> a / 60 <= 13 /\ a mod 60 <= 59 \/ a / 60 = 14 /\ a mod 60 = 0.
Proof.
  intros H. pose proof (N.div_mod' a 60) as E. pose proof (N.mod_lt a 60 ltac:(discriminate)) as L.
  remember (a / 60) as q. remember (a mod 60) as r. clear Heqq Heqr. lia.
Qed.

Lemma xdate_ok_civil d : xdate_ok d = true ->
  civil_ok (dt_y d) (dt_mo d) (dt_d d) (dt_h d) (dt_mi d) (dt_s d) (dt_us d) (Z.abs_N (dt_off d) / 60) (Z.abs_N (dt_off d) mod 60).
Proof.
  unfold xdate_ok, civil_ok. rewrite !andb_true_iff, !N.leb_le.
  intros ((((((((((? & ?) & ?) & ?) & ?) & ?) & ?) & ?) & ?) & ?) & Ho). repeat split; auto. now apply offset_range.
Qed.
Lemma civil_ok_us0 y mo d h mi s us oh om : civil_ok y mo d h mi s us oh om -> civil_ok y mo d h mi s 0 oh om.
Proof. unfold civil_ok. intuition lia. Qed.

Lemma iso_format_render keep d : xdate_ok d = true ->
  iso_format keep d =
  render_datetime (dt_y d) (dt_mo d) (dt_d d) (dt_h d) (dt_mi d) (dt_s d) (if keep then dt_us d else 0) (dt_off d <? 0)%Z
                  (Z.abs_N (dt_off d) / 60) (Z.abs_N (dt_off d) mod 60).
Proof.
  intros H. apply xdate_ok_civil in H. destruct H as (Hy & Hmo & Hd & Hh & Hmi & Hs & Hus & Ho).
  assert (dt_d d <= 31) as Hd31.
  { etransitivity; [apply Hd|]. unfold days_in_month.
    destruct (dt_mo d =? 2), (leap (dt_y d)), ((dt_mo d =? 4) || (dt_mo d =? 6) || (dt_mo d =? 9) || (dt_mo d =? 11)); lia. }
  unfold iso_format, render_datetime, iso_offset.
  set (oh := Z.abs_N (dt_off d) / 60) in *. set (om := Z.abs_N (dt_off d) mod 60) in *. clearbody oh om.
  assert (oh < 100 /\ om < 100) as [Hoh Hom] by lia.
  rewrite d4_pad4 by lia. rewrite !d2_pad2 by lia.
  replace (if keep && negb (dt_us d =? 0) then 46 :: d6 (dt_us d) else [])
    with (if (if keep then dt_us d else 0) =? 0 then [] else 46 :: pad6 (if keep then dt_us d else 0)).
  - cbn [app]. reflexivity.
  - destruct keep; cbn [andb]; [|reflexivity]. destruct (dt_us d =? 0); cbn [negb]; [reflexivity|]. rewrite d6_pad6 by lia. reflexivity.
Qed.

Theorem datetime_ok_iso_format keep d : xdate_ok d = true -> datetime_ok (iso_format keep d) = true.
Proof.
  intros H. rewrite iso_format_render by exact H. apply datetime_ok_render.
  apply xdate_ok_civil in H. destruct keep; [exact H | eapply civil_ok_us0; exact H].
Qed.
Theorem datetime_ok_date_text s : date_text_ok s = true -> datetime_ok s = true.
Proof.
  unfold date_text_ok. destruct (iso_parse s) as [d|]; [|discriminate]. rewrite andb_true_iff.
  intros [H E]. apply text_eqb_eq in E. rewrite E. now apply datetime_ok_iso_format.
Qed.

(* str(n): a non-empty string of decimal digits *)
Lemma uint_text_digits u : forallb is_digit (uint_text u) = true.
Proof. induction u; cbn; auto. Qed.
Theorem integer_ok_dec_of_N n : size_ok n = true -> integer_ok (dec_of_N n) = true.
Proof.
  unfold size_ok. intros H. apply Nat.leb_le in H. apply integer_ok_digits; auto.
  - apply dec_of_N_nonempty.
  - apply uint_text_digits.
Qed.
Theorem integer_ok_decimal s : decimal_ok s = true -> integer_ok s = true.
Proof.
  unfold decimal_ok. rewrite !andb_true_iff. intros [[H1 H2] H3]. apply Nat.leb_le in H3.
  apply integer_ok_digits; auto. destruct s; [discriminate|congruence].
Qed.
Lemma is_digit_not_ws c : is_digit c = true -> is_ws c = false.
Proof.
  unfold is_digit, is_ws. rewrite andb_true_iff, !N.leb_le. intros [H _].
  destruct (N.eqb_spec c 32), (N.eqb_spec c 9), (N.eqb_spec c 10), (N.eqb_spec c 13); cbn; auto; lia.
Qed.
(* str(z) of a negative number: a '-' and the digits *)
Lemma integer_ok_minus ds : ds <> [] -> forallb is_digit ds = true -> (length ds <= 24)%nat -> integer_ok (45 :: ds) = true.
Proof.
  intros Hne Hd Hl. unfold integer_ok, trim.
  assert (drop_ws (45 :: ds) = 45 :: ds) as -> by reflexivity.
  assert (drop_ws (rev (45 :: ds)) = rev (45 :: ds)) as ->.
  { cbn [rev]. assert (forallb is_digit (rev ds) = true) as Hr by (now rewrite forallb_rev).
    destruct (rev ds) as [|c r]; [reflexivity|]. cbn in Hr. apply andb_true_iff in Hr as [Hc _].
    cbn [app drop_ws]. now rewrite (is_digit_not_ws c Hc). }
  rewrite rev_involutive. cbn [N.eqb Pos.eqb orb]. rewrite Hd.
  destruct ds; [congruence|]. cbn [length Nat.eqb negb andb].
  apply Nat.leb_le. pose proof (drop_zeros_length (n :: ds)). cbn [length] in *. lia.
Qed.
Theorem integer_ok_seq s : seq_ok s = true -> integer_ok (seq_text s) = true.
Proof.
  destruct s as [z|x|]; cbn [seq_ok seq_text]; [|apply integer_ok_decimal|discriminate].
  intros H. unfold dec_of_Z. destruct (z <? 0)%Z; [|now apply integer_ok_dec_of_N].
  unfold size_ok in H. apply Nat.leb_le in H.
  apply integer_ok_minus; auto; [apply dec_of_N_nonempty | apply uint_text_digits].
Qed.

(* ============================================================ 2. element by element *)
Lemma Valid_complex p ds tag attrs c kids :
  attrs_ok ds attrs = true -> blank c = true -> MP p kids -> Valid (TComplex p ds) (Elem tag attrs c kids).
Proof. intros. cbn. auto. Qed.
Lemma Valid_leaf s ds tag attrs v :
  attrs_ok ds attrs = true -> stype_ok s (text_of v) = true -> Valid (TSimple s ds) (leaf tag attrs v).
Proof. intros. cbn. auto. Qed.
Lemma Valid_string_leaf tag v : Valid T_string (leaf tag [] v).
Proof. apply Valid_leaf; reflexivity. Qed.

(* attribute lists built from optional values *)
Definition attr_val_ok (ds : list attr_decl) (kv : text * text) : bool :=
  match find_decl (fst kv) ds with Some d => stype_ok (a_type d) (snd kv) | None => false end.
Lemma attrs_ok_noreq ds attrs :
  forallb (fun d => negb (a_required d)) ds = true -> forallb (attr_val_ok ds) attrs = true -> attrs_ok ds attrs = true.
Proof.
  intros H1 H2. unfold attrs_ok. apply andb_true_iff. split; [exact H2|].
  apply forallb_forall. intros d Hd. rewrite forallb_forall in H1. now rewrite (H1 d Hd).
Qed.
Lemma forallb_opt_attr (f : text * text -> bool) n v :
  (forall x, v = Some x -> f (n, x) = true) -> forallb f (opt_attr n v) = true.
Proof. intros H. destruct v as [x|]; cbn; auto. now rewrite (H x eq_refl). Qed.

(* ---- a format element: <md5 action=".." hashdate="..">digest</md5>   [I5 action, I7 hashdate] *)
Lemma entry_attrs_ok e : entry_reach e = true -> attrs_ok fmt_attrs (entry_attrs e) = true.
Proof.
  unfold entry_reach. rewrite andb_true_iff. intros [Ha Hd].
  apply attrs_ok_noreq; [reflexivity|]. unfold entry_attrs. rewrite forallb_app. apply andb_true_iff. split; apply forallb_opt_attr; intros x Hx.
  - change (attr_val_ok fmt_attrs (s_action, x)) with (mem_text x schema_actions).
    unfold action_ok in Ha. now rewrite Hx in Ha.
  - change (attr_val_ok fmt_attrs (s_hashdate, x)) with (datetime_ok x).
    destruct (xe_date e) as [d|]; [|discriminate]. cbn in Hx. injection Hx as <-. now apply datetime_ok_iso_format.
Qed.
Lemma entry_xml_valid e : entry_reach e = true -> x_tag (entry_xml e) = xe_fmt e /\ Valid T_fmt (entry_xml e).
Proof. intros H. split; [reflexivity|]. apply Valid_leaf; [now apply entry_attrs_ok | reflexivity]. Qed.
Lemma entry_structure_xml_valid e : entry_reach e = true -> x_tag (entry_structure_xml e) = xe_fmt e /\ Valid T_fmt (entry_structure_xml e).
Proof. intros H. split; [reflexivity|]. apply Valid_leaf; [now apply entry_attrs_ok | reflexivity]. Qed.

(* ---- the six optional slots   [I2 / I3 / I4: the name list is a subsequence of the slot names] *)
Lemma subseq_nil slots : subseq [] slots = true.
Proof. destruct slots; reflexivity. Qed.
Lemma slots_match (f : xentry -> xml) :
  (forall e, entry_reach e = true -> x_tag (f e) = xe_fmt e /\ Valid T_fmt (f e)) ->
  forall slots es, subseq (map xe_fmt es) slots = true -> forallb entry_reach es = true ->
  MSeq (map (fun n => opt n T_fmt) slots) (map f es).
Proof.
  intros Hf. induction slots as [|n slots IH]; intros es Hs He.
  - destruct es; [reflexivity|discriminate].
  - destruct es as [|e es].
    + exists [], []. repeat split; [apply MP_absent | apply (IH []); auto using subseq_nil].
    + cbn [map subseq] in Hs. cbn [forallb] in He. destruct (text_eqb (xe_fmt e) n) eqn:E.
      * apply andb_true_iff in He as [He1 He2]. apply text_eqb_eq in E. destruct (Hf e He1) as [Ht Hv].
        exists [f e], (map f es). repeat split.
        -- apply MP_present; [|cbn; lia]. apply MB_elem; congruence.
        -- now apply IH.
      * exists [], (map f (e :: es)). repeat split; [apply MP_absent | now apply IH].
Qed.
Lemma fmt_slots_match f es :
  (forall e, entry_reach e = true -> x_tag (f e) = xe_fmt e /\ Valid T_fmt (f e)) ->
  fmts_ok (map xe_fmt es) = true -> forallb entry_reach es = true -> MP (one (PSeq fmt_slots)) (map f es).
Proof. intros Hf Hs He. apply MP_required, MB_seq. now apply slots_match. Qed.

(* ---- <content> / <structure> *)
Lemma container_valid tag f es :
  (forall e, entry_reach e = true -> x_tag (f e) = xe_fmt e /\ Valid T_fmt (f e)) ->
  fmts_ok (map xe_fmt es) = true -> forallb entry_reach es = true -> Valid T_container (Elem tag [] None (map f es)).
Proof. intros. apply Valid_complex; try reflexivity. now apply fmt_slots_match. Qed.

(* ---- <path size=".." lastmodificationdate="..">   [I9 size, I7 lastmodificationdate] *)
Lemma path_attrs_ok ds r size :
  forallb (fun d => negb (a_required d)) ds = true ->
  (forall x, attr_val_ok ds (s_lastmod, x) = datetime_ok x) ->
  (forall n x, size = Some n -> attr_val_ok ds (s_size, x) = integer_ok x) ->
  opt_size_ok size = true -> opt_xdate_ok (xr_lastmod r) = true ->
  attrs_ok ds (opt_attr s_size (option_map dec_of_N size) ++ opt_attr s_lastmod (option_map (iso_format false) (xr_lastmod r))) = true.
Proof.
  intros Hreq Hl Hsz Hs Hd. apply attrs_ok_noreq; auto. rewrite forallb_app. apply andb_true_iff.
  split; apply forallb_opt_attr; intros x Hx.
  - destruct size as [n|]; [|discriminate]. cbn in Hx. injection Hx as <-. rewrite (Hsz n _ eq_refl). now apply integer_ok_dec_of_N.
  - rewrite Hl. destruct (xr_lastmod r) as [d|]; [|discriminate]. cbn in Hx. injection Hx as <-. now apply datetime_ok_iso_format.
Qed.
Lemma file_path_valid r :
  opt_size_ok (xr_size r) = true -> opt_xdate_ok (xr_lastmod r) = true ->
  Valid (TSimple SString file_path_attrs) (path_xml r (xr_size r)).
Proof. intros. apply Valid_leaf; [|reflexivity]. apply path_attrs_ok; auto. Qed.
Lemma dir_path_valid r :
  truthy_N (xr_size r) = None -> opt_xdate_ok (xr_lastmod r) = true ->
  Valid (TSimple SString dir_path_attrs) (path_xml r (truthy_N (xr_size r))).
Proof. intros E H. apply Valid_leaf; [|reflexivity]. rewrite E. apply path_attrs_ok; auto. discriminate. Qed.

Lemma previous_path_match r : MP (opt s_previousPath T_string) (previous_path_xml r).
Proof.
  unfold previous_path_xml. destruct (truthy_text (xr_prev r)); [|apply MP_absent].
  apply MP_present; [|cbn; lia]. apply MB_elem; [reflexivity | apply Valid_string_leaf].
Qed.

Lemma forallb_sorted es : forallb entry_reach es = true -> forallb entry_reach (sort_entries es) = true.
Proof.
  rewrite !forallb_forall. intros H e He. apply H. unfold sort_entries in He. now apply sort_In in He.
Qed.

(* ---- <hash>   [I2: the SORTED entries fit the slots] *)
Lemma media_hash_valid r :
  xr_dir r = false -> record_reach r = true -> Valid T_hash (media_hash_xml r).
Proof.
  unfold record_reach. intros -> H. rewrite !andb_true_iff in H. destruct H as [[He Hd] [Hf Hs]].
  apply Valid_complex; try reflexivity. apply MP_required, MB_seq.
  exists [path_xml r (xr_size r)], (map entry_xml (sort_entries (xr_entries r)) ++ previous_path_xml r).
  split; [reflexivity|]. split; [apply MP_required, MB_elem; [reflexivity | now apply file_path_valid]|].
  exists (map entry_xml (sort_entries (xr_entries r))), (previous_path_xml r).
  split; [reflexivity|]. split; [apply fmt_slots_match; auto using entry_xml_valid, forallb_sorted|].
  exists (previous_path_xml r), []. split; [now rewrite app_nil_r|]. split; [apply previous_path_match|].
  exists [], []. repeat split. apply MP_absent.
Qed.

(* ---- <directoryhash> / <roothash>   [I4: the entries in object order fit the slots; I10 no size / previousPath where
        the schema has none] *)
Lemma dir_core_match r :
  forallb entry_reach (xr_entries r) = true -> fmts_ok (map xe_fmt (xr_entries r)) = true ->
  MP (req s_content T_container) [Elem s_content [] None (map entry_xml (xr_entries r))] /\
  MP (req s_structure T_container) [Elem s_structure [] None (map entry_structure_xml (xr_entries r))].
Proof.
  intros He Hf. split; apply MP_required, MB_elem; try reflexivity; apply container_valid; auto using entry_xml_valid, entry_structure_xml_valid.
Qed.
Lemma directory_hash_valid r :
  xr_dir r = true -> record_reach r = true -> Valid T_dirhash (directory_hash_xml s_directoryhash false r).
Proof.
  unfold record_reach. intros -> H. rewrite !andb_true_iff in H. destruct H as [[He Hd] [Hf Hs]].
  assert (truthy_N (xr_size r) = None) as Hn by (destruct (truthy_N (xr_size r)); [discriminate|reflexivity]).
  destruct (dir_core_match r He Hf) as [Hc Hst].
  apply Valid_complex; try reflexivity. apply MP_required, MB_seq. unfold directory_hash_xml.
  exists [path_xml r (truthy_N (xr_size r))], ([Elem s_content [] None (map entry_xml (xr_entries r));
            Elem s_structure [] None (map entry_structure_xml (xr_entries r))] ++ previous_path_xml r).
  split; [reflexivity|]. split; [apply MP_required, MB_elem; [reflexivity | now apply dir_path_valid]|].
  eexists [_], (_ :: previous_path_xml r). split; [reflexivity|]. split; [exact Hc|].
  eexists [_], (previous_path_xml r). split; [reflexivity|]. split; [exact Hst|].
  exists (previous_path_xml r), []. split; [now rewrite app_nil_r|]. split; [apply previous_path_match|].
  exists [], []. repeat split. apply MP_absent.
Qed.
Lemma root_hash_valid r : root_reach r = true -> Valid T_roothash (root_hash_xml r).
Proof.
  unfold root_reach. rewrite !andb_true_iff. intros [[He Hf] Hp].
  destruct (dir_core_match r He Hf) as [Hc Hst].
  apply Valid_complex; try reflexivity. apply MP_required, MB_seq. unfold root_hash_xml, directory_hash_xml, previous_path_xml.
  destruct (truthy_text (xr_prev r)); [discriminate|]. cbn [app].
  eexists [_], [_]. split; [reflexivity|]. split; [exact Hc|].
  eexists [_], []. split; [reflexivity|]. split; [exact Hst|]. reflexivity.
Qed.

(* ---- <hashes>: one or more records, each a member of the choice   [I1: emit_hashlist omits the element when empty] *)
Lemma record_match r : record_reach r = true -> exists p, In p hashes_choice /\ MP p [record_xml r].
Proof.
  intros H. unfold record_xml. destruct (xr_dir r) eqn:E.
  - exists (req s_directoryhash T_dirhash). split; [right; now left|]. apply MP_required, MB_elem; [reflexivity | now apply directory_hash_valid].
  - exists (req s_hash T_hash). split; [now left|]. apply MP_required, MB_elem; [reflexivity | now apply media_hash_valid].
Qed.
Lemma concat_singletons {A B} (f : A -> B) l : map f l = concat (map (fun x => [f x]) l).
Proof. induction l; cbn; congruence. Qed.
Lemma hashes_valid rs : rs <> [] -> forallb record_reach rs = true -> Valid T_hashes (Elem s_hashes [] None (map record_xml rs)).
Proof.
  intros Hne H. apply Valid_complex; try reflexivity. rewrite concat_singletons.
  apply MP_choice_repeat; rewrite ?map_length; cbn; auto.
  - apply Forall_forall. intros l Hl. apply in_map_iff in Hl as (r & <- & Hr). rewrite forallb_forall in H. now apply record_match, H.
  - destruct rs; [congruence|cbn; lia].
Qed.

(* ---- <references>: no condition on the object *)
Lemma reference_valid r : Valid T_ref (reference_xml r).
Proof.
  apply Valid_complex; try reflexivity. apply MP_required, MB_seq.
  eexists [_], [_]. split; [reflexivity|]. split; [apply MP_required, MB_elem; [reflexivity | apply Valid_string_leaf]|].
  eexists [_], []. split; [reflexivity|]. split; [|reflexivity].
  apply MP_required, MB_elem; [reflexivity|]. apply Valid_leaf; reflexivity.
Qed.
Lemma references_valid rs : rs <> [] -> Valid T_refs (Elem s_references [] None (map reference_xml rs)).
Proof.
  intros Hne. apply Valid_complex; try reflexivity. apply MP_required, MB_seq.
  exists (map reference_xml rs), []. split; [now rewrite app_nil_r|]. split; [|reflexivity].
  apply MP_repeat_elems; rewrite ?map_length; cbn; auto.
  - apply Forall_forall. intros x Hx. apply in_map_iff in Hx as (r & <- & _). split; [reflexivity | apply reference_valid].
  - destruct rs; [congruence|cbn; lia].
Qed.

(* ---- <creatorinfo>   [I7 creation date string, e-mail pattern] *)
Lemma author_valid a : author_reach a = true -> Valid T_author (author_xml a).
Proof.
  intros H. apply Valid_leaf; [|reflexivity]. apply attrs_ok_noreq; [reflexivity|].
  rewrite !forallb_app, !andb_true_iff. repeat split; apply forallb_opt_attr; intros x Hx; try reflexivity.
  change (attr_val_ok author_attrs (s_email, x)) with (email_ok x). unfold author_reach in H. now rewrite Hx in H.
Qed.
Lemma opt_leaf_match tag v : MP (opt tag T_string) (opt_leaf tag v).
Proof.
  destruct v; [|apply MP_absent]. apply MP_present; [|cbn; lia]. apply MB_elem; [reflexivity | apply Valid_string_leaf].
Qed.
Lemma tool_valid tl : Valid T_tool (tool_xml tl).
Proof.
  destruct tl as [x|]; apply Valid_leaf; try reflexivity. apply attrs_ok_noreq; [reflexivity|].
  apply forallb_opt_attr. reflexivity.
Qed.
Lemma creator_valid c : creator_reach c = true -> Valid T_creatorinfo (creator_info_xml c).
Proof.
  unfold creator_reach. rewrite andb_true_iff. intros [Hd Ha].
  destruct (xc_date c) as [s|] eqn:Es; [|discriminate].
  apply Valid_complex; try reflexivity. apply MP_required, MB_seq. unfold creator_info_xml. rewrite Es.
  eexists [_], (_ :: _ :: _). split; [reflexivity|]. split.
  { apply MP_required, MB_elem; [reflexivity|]. apply Valid_leaf; [reflexivity|]. now apply datetime_ok_date_text. }
  eexists [_], (_ :: _). split; [reflexivity|]. split; [apply MP_required, MB_elem; [reflexivity | apply Valid_string_leaf]|].
  eexists [_], _. split; [reflexivity|]. split; [apply MP_required, MB_elem; [now destruct (xc_tool c) | apply tool_valid]|].
  eexists (map author_xml (xc_authors c)), _. split; [reflexivity|]. split.
  { apply MP_repeat_elems; cbn; auto; [|lia]. apply Forall_forall. intros x Hx. apply in_map_iff in Hx as (a & <- & Hin).
    split; [reflexivity|]. rewrite forallb_forall in Ha. now apply author_valid, Ha. }
  eexists (opt_leaf s_location (xc_location c)), _. split; [reflexivity|]. split; [apply opt_leaf_match|].
  eexists (opt_leaf s_comment (xc_comment c)), []. split; [now rewrite app_nil_r|]. split; [apply opt_leaf_match|reflexivity].
Qed.

(* ---- <processinfo>   [process type enumeration, root hash, I6 at least one pattern] *)
Lemma ignore_valid ps : ps <> [] -> Valid T_ignore (ignorespec_xml (Some ps)).
Proof.
  intros Hne. apply Valid_complex; try reflexivity. apply MP_required, MB_seq. cbn [ignorespec_xml].
  eexists _, []. split; [now rewrite app_nil_r|]. split; [|reflexivity].
  apply MP_repeat_elems; rewrite ?map_length; cbn; auto.
  - apply Forall_forall. intros x Hx. apply in_map_iff in Hx as (p & <- & _). split; [reflexivity | apply Valid_string_leaf].
  - destruct ps; [congruence|cbn; lia].
Qed.
Lemma procinfo_valid p : procinfo_reach p = true -> Valid T_processinfo (process_info_xml p).
Proof.
  unfold procinfo_reach. rewrite !andb_true_iff. intros [[Hp Hr] Hi].
  destruct (xpi_process p) as [x|] eqn:Ep; [|discriminate]. destruct (xp_type x) as [ty|] eqn:Et; [|discriminate].
  destruct (xpi_ignore p) as [[|pt ps]|] eqn:Ei; try discriminate.
  apply Valid_complex; try reflexivity. apply MP_required, MB_seq. unfold process_info_xml. rewrite Ep, Et, Ei.
  eexists [_], _. split; [reflexivity|]. split.
  { apply MP_required, MB_elem; [reflexivity|]. apply Valid_leaf; [reflexivity | exact Hp]. }
  eexists _, [_]. split; [reflexivity|]. split.
  { destruct (xpi_root p) as [r|]; [|apply MP_absent]. destruct (xr_entries r) eqn:Ee; [apply MP_absent|].
    apply MP_present; [|cbn; lia]. apply MB_elem; [reflexivity | now apply root_hash_valid]. }
  eexists [_], []. split; [reflexivity|]. split; [|reflexivity].
  apply MP_present; [|cbn; lia]. apply MB_elem; [reflexivity|]. apply ignore_valid. discriminate.
Qed.

(* ============================================================ 3. the two documents *)
Theorem manifest_Valid o : reach o = true -> ValidDoc expected_manifest (emit_hashlist o).
Proof.
  unfold reach. rewrite !andb_true_iff. intros [[Hc Hp] Hr].
  destruct (xh_creator o) as [c|] eqn:Ec; [|discriminate].
  split; [reflexivity|]. unfold emit_hashlist. rewrite Ec.
  apply Valid_complex; try reflexivity. apply MP_required, MB_seq.
  eexists [_], _. split; [reflexivity|]. split; [apply MP_required, MB_elem; [reflexivity | now apply creator_valid]|].
  eexists [_], _. split; [reflexivity|]. split; [apply MP_required, MB_elem; [reflexivity | now apply procinfo_valid]|].
  eexists (match xh_records o with [] => [] | rs => [Elem s_hashes [] None (map record_xml rs)] end), _.
  split; [reflexivity|]. split.
  { destruct (xh_records o) as [|r rs] eqn:Er; [apply MP_absent|]. apply MP_present; [|cbn; lia].
    apply MB_elem; [reflexivity|]. apply hashes_valid; [discriminate | exact Hr]. }
  exists [], (match xh_refs o with [] => [] | rs => [Elem s_references [] None (map reference_xml rs)] end).
  split; [reflexivity|]. split; [apply MP_absent|].
  eexists _, []. split; [now rewrite app_nil_r|]. split; [|reflexivity].
  destruct (xh_refs o) as [|r rs] eqn:Er; [apply MP_absent|]. apply MP_present; [|cbn; lia].
  apply MB_elem; [reflexivity|]. apply references_valid. discriminate.
Qed.
Theorem manifest_valid o : reach o = true -> validate schema_manifest (emit_hashlist o) = true.
Proof. intros H. rewrite schema_manifest_shape. apply validate_iff. now apply manifest_Valid. Qed.

(* ---- chain / collection file   [>= 1 entry, c4 entries only, sequence number an integer] *)
Lemma chain_entry_valid e : chainent_reach e = true -> x_tag (chain_entry_xml e) = s_hashlist /\ Valid T_chainent (chain_entry_xml e).
Proof.
  unfold chainent_reach. rewrite andb_true_iff. intros [Hf Hs]. unfold chain_entry_xml. rewrite Hf. split; [reflexivity|].
  apply Valid_complex; try reflexivity.
  - apply attrs_ok_noreq; [reflexivity|]. cbn [forallb]. rewrite andb_true_r.
    change (attr_val_ok [mkAttr s_sequencenr false SInteger] (s_sequencenr, seq_text (ce_no e))) with (integer_ok (seq_text (ce_no e))).
    now apply integer_ok_seq.
  - apply MP_required, MB_seq.
    eexists [_], [_]. split; [reflexivity|]. split; [apply MP_required, MB_elem; [reflexivity | apply Valid_string_leaf]|].
    eexists [_], []. split; [reflexivity|]. split; [|reflexivity].
    apply MP_required, MB_elem; [reflexivity|]. apply Valid_leaf; reflexivity.
Qed.
Theorem chain_Valid c : reach_chain c = true -> ValidDoc expected_directory (emit_chain c).
Proof.
  intros H. split; [reflexivity|]. unfold emit_chain. apply Valid_complex; try reflexivity. apply MP_required, MB_seq.
  eexists _, []. split; [now rewrite app_nil_r|]. split; [|reflexivity].
  assert (c <> [] /\ forallb chainent_reach c = true) as [Hne Ha] by (destruct c; [discriminate | split; [discriminate | exact H]]).
  apply MP_repeat_elems; rewrite ?map_length; cbn; auto.
  - apply Forall_forall. intros x Hx. apply in_map_iff in Hx as (e & <- & Hin). rewrite forallb_forall in Ha. now apply chain_entry_valid, Ha.
  - destruct c; [congruence|cbn; lia].
Qed.
Theorem chain_valid c : reach_chain c = true -> validate schema_directory (emit_chain c) = true.
Proof. intros H. rewrite schema_directory_shape. apply validate_iff. now apply chain_Valid. Qed.

(* ============================================================ 4. what the slot clause says *)
(* fmts_ok (subsequence of the schema's element order) = strictly increasing by code point (so: sorted AND free of
   duplicates) and only names of the schema *)
From Coq Require Import Sorting.Sorted.
Definition text_lt (a b : text) : Prop := lex_ltb a b = true.
Lemma text_lt_irrefl a : ~ text_lt a a.
Proof.
  unfold text_lt, lex_ltb. intros H. apply andb_true_iff in H as [_ H].
  assert (list_eqb N.eqb a a = true) as E by (apply (text_eqb_refl a)). rewrite E in H. discriminate.
Qed.
Lemma text_lt_trans a b c : text_lt a b -> text_lt b c -> text_lt a c.
Proof.
  unfold text_lt, lex_ltb. rewrite !andb_true_iff, !negb_true_iff. intros [H1 N1] [H2 N2]. split; [eapply lexb_trans; eauto|].
  destruct (list_eqb N.eqb a c) eqn:E; [|reflexivity]. apply (text_eqb_eq a c) in E. subst c.
  assert (a = b) by (apply lexb_antisym; auto). subst b. pose proof (text_eqb_refl a) as R. unfold text_eqb in R. congruence.
Qed.
Lemma subseq_iff slots : StronglySorted text_lt slots ->
  forall l, subseq l slots = true <-> StronglySorted text_lt l /\ Forall (fun x => In x slots) l.
Proof.
  induction 1 as [|n slots Hs IH Hn]; intros l.
  - destruct l; cbn; split; auto; try discriminate; [intros _; split; constructor|]. intros [_ H]. apply Forall_cons_iff in H as [[] _].
  - destruct l as [|x l]; [cbn; split; auto; intros _; split; constructor|]. cbn [subseq]. rewrite Forall_forall in Hn.
    destruct (text_eqb x n) eqn:E.
    + apply text_eqb_eq in E. subst x. rewrite IH. split.
      * intros [Hl Hin]. split.
        -- constructor; auto. rewrite Forall_forall in *. intros y Hy. auto.
        -- constructor; [now left|]. rewrite Forall_forall in *. intros y Hy. right. auto.
      * intros [Hl Hin]. apply StronglySorted_inv in Hl as [Hl' Hlt]. apply Forall_cons_iff in Hin as [_ Hin']. split; auto.
        rewrite Forall_forall in *. intros y Hy. destruct (Hin' y Hy) as [<-|]; auto.
        exfalso. exact (text_lt_irrefl n (Hlt n Hy)).
    + rewrite IH. assert (x <> n) as Hne by (intros ->; rewrite text_eqb_refl in E; discriminate). split.
      * intros [Hl Hin]. split; auto. rewrite Forall_forall in *. intros y Hy. right. auto.
      * intros [Hl Hin]. split; auto. pose proof Hl as Hl0. apply StronglySorted_inv in Hl0 as [Hl' Hlt]. pose proof Hin as Hin0. apply Forall_cons_iff in Hin0 as [Hx Hin'].
        destruct Hx as [->|Hx]; [congruence|]. constructor; auto.
        rewrite Forall_forall in *. intros y Hy. destruct (Hin' y Hy) as [<-|]; auto.
        exfalso. apply (text_lt_irrefl x). eapply text_lt_trans; [apply (Hlt n Hy) | apply (Hn x Hx)].
Qed.
Theorem fmts_ok_iff l :
  fmts_ok l = true <-> StronglySorted text_lt l /\ Forall (fun x => In x schema_format_order) l.
Proof.
  apply subseq_iff. unfold schema_format_order.
  repeat (constructor; [|repeat constructor; vm_compute; reflexivity]). constructor.
Qed.
(* the six names are exactly the formats the tool supports (obligation on the regenerated constant) *)
Lemma schema_formats_are_supported : forall x, In x schema_format_order <-> In x supported_hashformats.
Proof. intros x. unfold schema_format_order, supported_hashformats. cbn. intuition. Qed.
